"""Regenerates the generated tables of DESIGN.md (between <!-- GEN:x:BEGIN --> / <!-- GEN:x:END --> markers)
from known_findings.json, seeded/*/meta.json and lib/vf/manifest.py, so the document cannot drift from the data."""
import json, os, re, glob


def esc(t):
    return str(t).replace("|", "\\|").replace("\n", " ")


def findings_tables(root):
    kf = json.load(open(os.path.join(root, "known_findings.json")))["findings"]
    out = ["Repaired (`fix:` commits in `/repo`; `status: fixed` in `known_findings.json`; the checks pass on the repaired tree",
           "with no KNOWN-FINDING line and report the violation again if it returns):", "",
           "| property | finding id | commit | what failed |", "|---|---|---|---|"]
    for f in sorted((f for f in kf if f["status"] == "fixed"), key=lambda f: (f["property"], f["id"])):
        out.append("| %s | `%s` | `%s` | %s |" % (f["property"], f["id"], f.get("commit", "?"), esc(f["what"])))
    out += ["", "Recorded as open known findings (structural repairs; each enables only its named deviation action(s)):", "",
            "| property | finding id | also explains | what |", "|---|---|---|---|"]
    for f in sorted((f for f in kf if f["status"] == "open"), key=lambda f: (f["property"], f["id"])):
        out.append("| %s | `%s` | %s | %s |" % (f["property"], f["id"], ", ".join(f.get("also_explains", [])), esc(f["what"])))
    return "\n".join(out)


def seeds_table(root):
    out = ["| seed | property | what the change does | needs | caught by |", "|---|---|---|---|---|"]
    for m in sorted(glob.glob(os.path.join(root, "seeded", "*", "meta.json"))):
        d = json.load(open(m))
        name = os.path.basename(os.path.dirname(m))
        out.append("| `%s` | %s | %s | %s | %s |" % (name, d.get("property"), esc(d.get("summary", ""))[:400], esc(d.get("needs", ""))[:300],
                                                   esc(d.get("caught_by", "not yet run"))))
    return "\n".join(out)


def status_table(root):
    from . import manifest
    kf = json.load(open(os.path.join(root, "known_findings.json")))["findings"]
    seeds = {}
    for m in glob.glob(os.path.join(root, "seeded", "*", "meta.json")):
        d = json.load(open(m))
        seeds.setdefault(d.get("property"), []).append((os.path.basename(os.path.dirname(m)), str(d.get("caught_by", ""))))
    props = [json.loads(l) for l in open(os.path.join(root, "properties.jsonl"))]
    out = ["| property | claimed | open findings | fixed findings | seeded changes (caught / total) |", "|---|---|---|---|---|"]
    for p in props:
        pid = p["id"]
        c = manifest.CLAIMED.get(pid)
        opn = [f["id"] for f in kf if f["status"] == "open" and (f["property"] == pid or pid in f.get("also_explains", []))]
        fx = [f["id"] for f in kf if f["status"] == "fixed" and f["property"] == pid]
        sd = seeds.get(pid, [])
        caught = sum(1 for _, cb in sd if cb.startswith("CAUGHT") or " quick" in cb and "MISSED" not in cb)
        out.append("| %s %s | %s | %s | %d | %s |" % (pid, esc(p["title"])[:60], c.get("level", "model_checking") if c else "not claimed",
                                               ", ".join("`%s`" % x for x in opn) or "-", len(fx),
                                               ("%d / %d" % (caught, len(sd))) if sd else "-"))
    return "\n".join(out)


def update(root):
    p = os.path.join(root, "DESIGN.md")
    s = open(p).read()
    for key, text in (("findings", findings_tables(root)), ("seeds", seeds_table(root)), ("status", status_table(root))):
        b, e = "<!-- GEN:%s:BEGIN -->" % key, "<!-- GEN:%s:END -->" % key
        if b in s and e in s:
            s = s[:s.index(b) + len(b)] + "\n" + text + "\n" + s[s.index(e):]
    open(p, "w").write(s)
    print("DESIGN.md tables regenerated")
    return 0
