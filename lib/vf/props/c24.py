"""C24 NLQ never hands back a mutating statement: Routing.tla / MC_Routing.tla / Routing_Trace.tla, harness bin nlq."""
import json, os
from vf.core import ToolError

WR = '{"none","CREATE","MERGE","SET","SETLBL","REMOVE","DELETE","DETACH","FOREACH","SETW","CREATEW","CRINDEX","CRCONS","DRINDEX","CRVEC","CRHIER","DRHIER"}'
WRAPS = '{"plain", "padded", "fence", "fence0", "prosefence", "proselines", "openfence", "inline"}'

GEN = """SPECIFICATION Spec
CONSTANTS NlqMode = "{mode}"
  MaxPre = {maxpre}
  Exs = {exs}
  Writes = {writes}
  Cases = {cases}
  Seps = {seps}
  Wraps = {wraps}
  Rets = {{TRUE, FALSE}}
  MaxHist = 1
{emit}
INVARIANTS TypeOK NeverHandsBackAWrite
CHECK_DEADLOCK FALSE
"""

TRACE = """SPECIFICATION TSpec
CONSTANTS NlqMode = "parsed"
  OpenKF = @OPENKF@
INVARIANTS TypeOK
POSTCONDITION Post
CHECK_DEADLOCK FALSE
"""


def corrupt(ev, rng):
    # a handed-back statement that changed the graph
    if ev.get("ev") != "Nlq":
        return False
    ev["res"] = "ok"
    ev["obs"]["mutated"] = True
    return True


def run(ctx):
    q = ctx.quick
    W = 4

    def gen(name, **kw):
        d = dict(mode="parsed", maxpre=1, exs='{""}', writes=WR, cases='{"upper","lower"}', seps='{"sp","tab","nl"}', wraps=WRAPS,
                 emit="ACTION_CONSTRAINT Emit")
        d.update(kw)
        ev = d.pop("expect_violation", False)
        return ctx.tlc_gen("MC_Routing", GEN.format(**d), name, workers=W, expect_violation=ev, timeout=2400)

    # self-test: the pinned tree (line filter + first-keyword test) hands back MATCH ... <write>
    gen("legacy-selftest", mode="legacy", emit="", expect_violation=True)
    # the exhaustive product: read prefixes x write/DDL clause x closing RETURN x keyword case x separator x wrapper
    cases = gen("product", maxpre=1 if q else 2)
    # EXPLAIN / PROFILE in front
    cases += gen("explain", exs='{"EXPLAIN","PROFILE"}', maxpre=1, cases='{"upper"}' if q else '{"upper","lower"}',
                 seps='{"sp","nl"}', wraps='{"plain","fence","proselines"}' if q else WRAPS)
    steps = [c[0] for c in cases]
    # the pipeline is stateless: batch the single-response behaviours (a rejected batch names its first bad response)
    scripts = [steps[i:i + 6] for i in range(0, len(steps), 6)]
    ctx.assume("model responses = a statement (EXPLAIN/PROFILE? + up to %d leading read clauses + at most one write/DDL clause + closing "
               "RETURN?, keyword case upper/lower, separator blank/tab/newline) wrapped in 8 ways (plain, padded, fenced with and without "
               "language tag, prose around a fence, prose lines, unclosed fence, prose on the same line)" % (1 if q else 2),
               "mutation is judged by executing the handed-back text with QueryEngine::execute_mut on a fresh copy of a fixed graph "
               "(2 unconnected Person, 2 City joined by 1 KNOWS, property index, unique constraint, hierarchy index) and comparing full dumps incl. "
               "SHOW INDEXES / SHOW CONSTRAINTS / SHOW HIERARCHY INDEXES and the vector index list",
               "the language model is a local HTTP server speaking the Ollama API; a third of the cases go through POST /api/nlq",
               "the engine has no write procedures (CALL db.* / algo.* are read-only)")
    sp = ctx.write_scripts("nlq", scripts)
    tr = ctx.run_harness("nlq", sp, timeout=3000)
    # anti-vacuity of the model's IsWrite (not a verdict): whatever the engine mutates the model must call a write, and
    # every write/DDL kind of the model must really mutate the fixed graph in at least one generated statement
    bad, kinds, mutating = 0, set(), set()
    for ln in open(tr):
        ev = json.loads(ln)
        if ev.get("ev") != "Nlq":
            continue
        if ev["obs"]["stmt_mutates"] and not ev["w"]:
            bad += 1
        if ev["w"]:
            kinds.add(ev["stmt"]["w"])
            if ev["obs"]["stmt_mutates"]:
                mutating.add(ev["stmt"]["w"])
    ctx.cov["write_kinds_generated"] = sorted(kinds)
    ctx.cov["write_kinds_seen_mutating_the_fixed_graph"] = sorted(mutating)
    if bad or not kinds or kinds != mutating:
        raise ToolError("C24 model sanity: %d statements the model calls reads mutate the graph; write kinds never seen mutating: %s"
                        % (bad, sorted(kinds - mutating)))
    ctx.validate("Routing_Trace", TRACE, tr, jobs=int(os.environ.get("VERIF_JOBS", "4")), corrupt=corrupt)
