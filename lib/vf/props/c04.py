"""C04 write statements have exactly their openCypher effect (CypherWrite.tla Mode C04, harness bin cywrite)."""
from .cywrite_common import gen, trace_cfg, corrupt_dump, cap, sim_walks

INV = "C04_NoDangling"
PROPS = "C04_ConnectedDeleteRefused C04_MergeIdempotent C05_ErrorChangesNothing"


def run(ctx):
    q = ctx.quick
    # self-test: the pinned DeleteOperator (plain DELETE removes the relationships of a connected node)
    ctx.tlc_gen("MC_CypherWrite", gen("C04", 5, 3, 3, emit="", inv=INV, props=PROPS, legacy='{"delete_connected"}'),
                "legacy-selftest", expect_violation=True, workers=4)
    # self-test: a relationship MERGE that never looks for the existing relationship creates a second match
    ctx.tlc_gen("MC_CypherWrite", gen("HUB", 5, 5, 14, view=False, emit="", inv=INV, props=PROPS, hubsizes="{3}",
                                      legacy='{"merge_rel_blind"}'), "mergerel-selftest", expect_violation=True, workers=4)
    # every transition of the abstract state graph within the history bound: ~45 statement shapes over CREATE (nodes, paths),
    # MERGE (ON CREATE / ON MATCH, unlabelled, per UNWIND / MATCH row), SET (property, from another property, swap, += map,
    # label, null, failing expression), REMOVE (property, label), DELETE / DETACH DELETE (nodes, relationships), with RETURN
    scripts = ctx.tlc_gen("MC_CypherWrite", gen("C04", 6, 4, 3, inv=INV, props=PROPS, rich=not q), "cover", timeout=6000, workers=1)
    scripts = cap(ctx, scripts, 4000 if q else 80000, "cover")
    if not q:
        # one statement deeper over the basic alphabet
        deep = ctx.tlc_gen("MC_CypherWrite", gen("C04", 6, 4, 4, inv=INV, props=PROPS), "cover4", timeout=6000, workers=1)
        scripts = scripts + cap(ctx, [s for s in deep if len(s) == 4], 40000, "cover4")
    # hub family, sequence-exhaustive (no VIEW, nothing sampled): a hub with 3-4 (thorough: 5) outgoing relationships created in
    # every order, one (thorough: two) of them deleted by DELETE r or by DETACH DELETE of its target - every choice -, then
    # MATCH (n:A),(m:B {k:x}) MERGE (n)-[r:T]->(m) towards every target still linked, in every order, with and without RETURN
    hub = ctx.tlc_gen("MC_CypherWrite", gen("HUB", 7, 6, 14, view=False, emit="EmitHub", inv=INV, props=PROPS,
                                            hubsizes="{3, 4}", hubdels=1), "hub", timeout=3000)
    if not q:
        hub += ctx.tlc_gen("MC_CypherWrite", gen("HUB", 7, 6, 14, view=False, emit="EmitHub", inv=INV, props=PROPS,
                                                 hubsizes="{3, 4}", hubdels=2), "hub-2del", timeout=3000)
        hub += ctx.tlc_gen("MC_CypherWrite", gen("HUB", 8, 7, 14, view=False, emit="EmitHub", inv=INV, props=PROPS,
                                                 hubsizes="{5}", hubdels=1, huball=False), "hub-5", timeout=3000)
        hub += ctx.tlc_gen("MC_CypherWrite", gen("HUB", 8, 7, 14, view=False, emit="EmitHub", inv=INV, props=PROPS,
                                                 hubsizes="{5}", hubdels=2, huball=False), "hub-5-2del", timeout=3000)
    # typed values, sequence-exhaustive: CREATE (:A {k: v0}); <write k = v1>; <write k = v2> with v over Integer 1, 2 and the
    # numerically equal Floats 1.0, 2.0 and the write one of SET n.k = v / SET n += {k: v} / MERGE (n:A) ON MATCH SET n.k = v /
    # MERGE (n:B) ON CREATE SET n.k = v ON MATCH SET n.k = v; the dump carries the type of every stored value ("i2" vs "f2")
    typed = ctx.tlc_gen("MC_CypherWrite", gen("TYPED", 3, 1, 3, view=False, emit="EmitLeaf", inv=INV, props=PROPS), "typed", timeout=3000)
    walks = sim_walks(ctx, gen("C04", 8, 6, 6, view=False, emit="", inv=INV, rich=True, sim=True), "walks", 200 if q else 6000, 8)
    ctx.assume("graphs of <= 6 nodes / 4 relationships grown from the empty graph by the statements themselves; labels {A,B}, keys {k,p}, "
               "integer values; no constraints or indexes (C05 / C11 cover those)",
               "returned rows are compared as bags; the order in which MATCH feeds rows to the write clause is left open",
               "a stored null and an absent property are not distinguished; WITH only as MATCH (n) WITH n <write> (thorough tier and walks); "
               "relationship MERGE only between bound endpoints (MATCH (n..),(m..) MERGE (n)-[r:T]->(m)); FOREACH, path MERGE and "
               "SET n = {..} are not modelled")
    for name, ss in (("cover", scripts), ("hub", hub), ("typed", typed), ("walks", walks)):
        sp = ctx.write_scripts(name, ss)
        # typed family: no value-lookup probes (MATCH (n {k: 1}) finds 1.0 too: numeric equality is C01/C02's subject)
        tr = ctx.run_harness("cywrite", sp, name=name, args=["cap=14", "probes=2" if name == "typed" else "probes=1", "universe=i1,i2,i3"])
        ctx.validate("CypherWrite_Trace", trace_cfg(10, 8, True), tr, name=name, corrupt=corrupt_dump)
