"""C15 WAL replays exactly the durable prefix: Wal.tla / MC_Wal.tla / Wal_Trace.tla, harness bin wal."""
import os

GEN = """SPECIFICATION Spec
CONSTANTS Cap = 1073741824
          MaxHist = {maxh}
          MaxAppends = {maxa}
          Masks = {masks}
          Legacy = {legacy}
{view}
CONSTRAINT Bound
{emit}
INVARIANTS TypeOK StrictlyIncreasing NamesSorted NameIsFirstSeq WriterOK {extra}
CHECK_DEADLOCK FALSE
"""

TRACE = """SPECIFICATION TSpec
CONSTANTS Cap = 1073741824
          OpenKF = @OPENKF@
INVARIANTS TypeOK StrictlyIncreasing NamesSorted NameIsFirstSeq WriterOK
POSTCONDITION Post
CHECK_DEADLOCK FALSE
"""

MAXFROM = 7   # replay(from) is observed for from = 0..MAXFROM after every step


# temp dirs of the harness on tmpfs when there is one (thousands of tiny directories / RocksDB opens)
TMPENV = {"TMPDIR": "/dev/shm"} if os.path.isdir("/dev/shm") and os.access("/dev/shm", os.W_OK) else None


def corrupt(ev, rng):
    """binding self-test: falsify one observation that the specification determines"""
    o = ev.get("obs")
    if not o:
        return False
    cands = [("seq", None)]
    for k, f in enumerate(o["files"]):
        cands.append(("size", k))
    for k, r in enumerate(o["replays"]):
        if r["toks"]:
            cands.append(("tok", k))
            if r["res"] == "ok":
                cands.append(("last", k))
    what, k = cands[rng.randrange(len(cands))]
    if what == "seq":
        o["seq"] += 1
    elif what == "size":
        o["files"][k][1] += 1
    elif what == "tok":
        j = rng.randrange(len(o["replays"][k]["toks"]))
        o["replays"][k]["toks"][j] += 1
    else:
        o["replays"][k]["last"] += 1
    return True


def run(ctx):
    q = ctx.quick
    # self-test: the pinned tree's reopen (counter := name of the newest file) repeats sequence numbers
    ctx.tlc_gen("MC_Wal", GEN.format(maxh=4, maxa=3, masks="{1}", legacy="TRUE", view="VIEW View", emit="", extra=""),
                "legacy-selftest", expect_violation=True, workers=4)
    # transition cover: from every reachable log state (histories of append/flush/checkpoint/reopen/crash),
    # every operation, EVERY truncation offset of the newest file and every byte of the last two records
    # flipped with every mask
    scripts = ctx.tlc_gen("MC_Wal", GEN.format(maxh=4 if q else 6, maxa=3 if q else 4, masks="{1, 128}" if q else "{1, 128, 255}",
                                                legacy="FALSE", view="VIEW View", emit="ACTION_CONSTRAINT Emit", extra=""),
                          "cover", workers=1, timeout=2400)   # one worker = strict BFS = the same representative histories every run
    # every operation sequence of length 3/4 (no VIEW): histories the state-based cover reaches by one path only
    scripts += ctx.tlc_gen("MC_Wal", GEN.format(maxh=3 if q else 4, maxa=3, masks="{128}" if q else "{255}", legacy="FALSE", view="",
                                                 emit="ACTION_CONSTRAINT EmitLeaf", extra=""),
                           "allseq", workers=4, timeout=2400)
    # long random walks (several crashes and reopenings in one history)
    scripts += ctx.tlc_gen("MC_Wal", GEN.format(maxh=12, maxa=6, masks="{1, 128}", legacy="FALSE", view="", emit="", extra="SimEmit"),
                           "walks", simulate=(150 if q else 2000, 13), workers=1)
    ctx.assume("a crash loses exactly what the BufWriter holds (records total < 8 KiB per session, so the writer never flushes on "
               "its own) and tears only the newest file; one byte flip per history, always the last step",
               "replay reads the files, not the writer's buffer: the durable log is what has been flushed",
               "record layout: bincode fixed-width, CreateNode{tenant:'t', node_id:k, labels:[], properties:[k;k]} (49+k+4 bytes) "
               "and checkpoint markers (36 bytes); file names = first sequence of the file",
               "opening a log that contains a corrupted record, and appending behind an incomplete record, are not modelled")
    sp = ctx.write_scripts("wal", scripts)
    tr = ctx.run_harness("wal", sp, args=["maxfrom=%d" % MAXFROM], timeout=3600, env=TMPENV)
    ctx.validate("Wal_Trace", TRACE, tr, corrupt=corrupt, timeout=3000)
