"""C35 parameters == inlined literals: every generated read query (the C01 families and walks) is executed with its literal
slots inlined and, once per position class that holds a literal (WHERE, RETURN, WITH, inline pattern properties, UNWIND
operand, whole list / list elements, SKIP/LIMIT, all together), with those slots as $parameters through
QueryExecutor::with_params.  CypherRead_Trace.T_QueryP: a parameterised execution is refused, or its answer is one the
reference semantics (CypherRead.tla, evaluated by TLC) allows and is the same bag as the inlined answer."""
from .qread_common import *
from .c01 import generate, replay


def run(ctx):
    scripts = generate(ctx, design=False)
    ctx.assume("same graph / value bounds and query families as C01; parameter values are the literal values of the generated "
               "query (Int, half-integer Float, String, Boolean, null, lists of these)",
               "reads only; a parameterised execution that raises any error (including a parse error for SKIP $p / LIMIT $p) is a "
               "refusal, which the statement allows; SET with parameters belongs to the write-statement checks")
    tr = replay(ctx, scripts, "c35", name="params")
    npar, nans, by = count_params(tr)
    ctx.cov["parameterised_executions"] = npar
    ctx.cov["parameterised_answered"] = nans
    ctx.cov["parameterised_by_position"] = by
    ctx.log("parameterised executions: %d, answered (not refused): %d; by position %s" % (npar, nans, by))
    ctx.validate("CypherRead_Trace", trace_cfg(ctx), tr, name="params", corrupt=corrupt_pout, jobs=int(os.environ.get("VERIF_JOBS", "6")))
