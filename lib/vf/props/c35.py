"""C35 parameters == inlined literals: every generated read query (the C01 families) is executed with its literal slots
inlined and, once per position class that holds a literal (WHERE, RETURN, WITH, inline pattern properties, UNWIND
operand, whole list / list elements, SKIP/LIMIT, all together), with those slots as $parameters through
QueryExecutor::with_params.  CypherRead_Trace.T_QueryP: a parameterised execution is refused, or its answer is one the
reference semantics (CypherRead.tla, evaluated by TLC) allows and equals the inlined answer."""
from .qread_common import *
from .c01 import families


def run(ctx):
    total = []
    for f in families(ctx, "c35"):
        scripts = ctx.tlc_gen("MC_CypherRead", gen_cfg(**f), "gen-" + f["fam"], workers=6, timeout=3000)
        total.append((f["fam"], batch(scripts)))
    ctx.assume("same graph / value bounds as C01; parameter values are the literal values of the generated query "
               "(Int, half-integer Float, String, Boolean, null, lists of these)",
               "reads only; a parameterised execution that raises any error is a refusal (allowed by the statement)")
    npar = nans = 0
    for fam, scripts in total:
        sp = ctx.write_scripts(fam, scripts)
        tr = ctx.run_harness("cyread", sp, name=fam, args=["mode=c35"])
        a, b = count_params(tr)
        npar += a
        nans += b
        ctx.validate("CypherRead_Trace", trace_cfg(ctx), tr, name=fam, corrupt=corrupt_pout)
    ctx.cov["parameterised_executions"] = npar
    ctx.cov["parameterised_answered"] = nans
    ctx.log("parameterised executions: %d, answered (not refused): %d" % (npar, nans))
