"""C26 graph algorithms = their reference definitions: Algo.tla / MC_Algo.tla / Algo_Trace.tla, harness bin algo."""
from . import algo_common as A

ONLY = "only=Comp,Path,Flow,Mst,Topo,Rep,Leap"
DESIGN_INV = "SccRefinesWcc CostsBound CutBounds MstIsKruskal LccAgree"


def run(ctx):
    q = ctx.quick
    # ---- design level: the brute-force definitions agree with independent characterisations on every small graph
    ctx.tlc_gen("MC_Algo", A.gen("{1, 2, 3}", 2, inv=DESIGN_INV, emit=""), "design-n123", workers=4, timeout=3000)
    if not q:
        ctx.tlc_gen("MC_Algo", A.gen("{2}", 4, inv=DESIGN_INV, emit=""), "design-n2", workers=4, timeout=3000)
        ctx.tlc_gen("MC_Algo", A.gen("{4}", 2, inv=DESIGN_INV, emit=""), "design-n4", workers=4, timeout=3000)
    # self-test: Prim looking at one parallel relationship chosen by position is NOT minimal (TLC must find the witness)
    ctx.tlc_gen("MC_Algo", A.gen("{2}", 2, inv="LegacyPrimMinimal", emit=""), "legacy-prim-selftest", expect_violation=True, workers=2)

    # ---- every directed multigraph, every algorithm, crate functions and CALL procedures
    if q:
        fams = [("{1, 2, 3}", 3, A.W2, 1, "EmitAlt"), ("{2, 3}", 2, A.W3, 1), ("{4}", 2, A.W2, 1)]
        pfam = [("{2, 3}", 2, "{2}", 2)]
    else:
        fams = [("{1, 2}", 4, A.W3, 1), ("{3}", 3, A.W3, 1), ("{3}", 4, A.W2, 1, "EmitAlt"), ("{4}", 2, A.W3, 1), ("{4}", 3, A.W2, 1, "EmitAlt")]
        pfam = [("{2}", 3, A.W2, 2), ("{3}", 2, A.W2, 2), ("{3}", 3, "{2}", 2, "EmitAlt"), ("{4}", 2, "{2}", 2, "EmitAlt")]
    scripts = A.graphs(ctx, fams, "all")
    ctx.assume(A.ASSUME_GRAPH,
               "max flow is asked for s # t only (no s-t cut exists otherwise; edmonds_karp(s, s) does not terminate)",
               "the start node of prim_mst is the first node of the view (logged by the harness for the crate function); the start "
               "node of CALL algo.mst is not specified and any node's component is accepted",
               "directed clustering coefficient = Fagiolo (2007) as documented in lcc.rs; undirected = 2T/(d(d-1)) over distinct "
               "neighbours; triangles ignore direction and multiplicity",
               "quick tier: <=3 nodes/<=3 relationships and 4 nodes/<=2 relationships with weights {1,2}, <=3 nodes/<=2 relationships "
               "with weights {1,2,3}; thorough: every multigraph with <=3 nodes/<=4 relationships and <=4 nodes/<=3 relationships, "
               "weights {1,2,3} up to 3 (2 for 4 nodes) relationships and {1,2} at the largest relationship count; the largest "
               "families are replayed in ONE insertion order per graph (ascending or descending by a parity of the graph)",
               "projections: every node carries N, node v carries O<v> and X<u> for u # v, nobody carries Z; relationship types T/U; "
               "weight properties w (integer) and w2 = 4 - w (float); CALL procedures are asked for (label, type) in "
               "{none, each label} x {none, T, U} where they take them and for weight property none / w / w2 where they take one; "
               "a relationship without the property does not occur (the 1.0 default of build_view is not exercised)",
               "count_triangles_leapfrog (documented: for each relationship (a,b) the number of nodes c with b->c and c->a) is called "
               "after compact_adjacency only: it intersects the frozen adjacency tier and documents that write-buffer entries are "
               "ignored; CALL algo.wcc / triangleCount are repeated on the compacted store (nothing is deleted, so no frozen ghosts)",
               "5/6-node multigraphs (7/9 relationships) come from TLC -simulate (seeded) and are checked against the same brute-force "
               "definitions; PageRank is limited to 2 iterations there (32-bit TLC integers)")
    # label / type / weight projections asked through CALL (two relationship types, label subsets): prefix "proj";
    # larger graphs, still against the brute-force definitions: random 5/6-node multigraphs drawn by TLC -simulate: prefix "mid"
    pscripts = A.graphs(ctx, pfam, "proj")
    walks = A.mid_graphs(ctx, 40 if q else 400, 10 if q else 150)
    sp = A.batch(ctx, "graphs", [("all", scripts), ("proj", pscripts), ("mid", walks)])
    tr = ctx.run_harness("algo", sp, name="graphs", args=[ONLY, "proj=basic", "fullprefix=proj", "midprefix=mid", "rep=%d" % (1 if q else 2),
                                                          "repalgos=tri,lcc"], timeout=7200)
    ctx.validate("Algo_Trace", A.TRACE, tr, name="graphs", corrupt=A.corrupt, timeout=7200)
    if not q:
        # every insertion ORDER of every 3-node graph with <= 3 relationships (weights {1,2})
        seqs = ctx.tlc_gen("MC_Algo", A.gen("{3}", 3, w=A.W2, canon="FALSE"), "allseq-n3e3", workers=4, timeout=3000)
        sp = ctx.write_scripts("allseq", seqs)
        tr = ctx.run_harness("algo", sp, name="allseq", args=["only=Path,Mst,Flow,Comp", "proj=basic", "rep=0"], timeout=7200)
        ctx.validate("Algo_Trace", A.TRACE, tr, name="allseq", corrupt=A.corrupt, timeout=7200)
        # random graphs of 20..300 nodes: CERTIFICATES only (weaker, see Algo_Trace.tla)
        empty = ctx.write_scripts("none", [])
        tr = ctx.run_harness("algo", empty, name="random", args=["mode=random", "seed=%d" % ctx.seed, "count=24", "minn=20", "maxn=300",
                                                                 "only=Cert", "repalgos=tri,lcc"], timeout=7200)
        ctx.validate("Algo_Trace", A.TRACE, tr, name="random", corrupt=A.corrupt, timeout=7200)
        ctx.assume("random graphs of 20..300 nodes are judged by certificates only: single-source path results certify optimality and "
                   "unreachability completely (feasible potential), WCC/SCC labellings completely (connecting paths + closure / class "
                   "ranking), max flow ONLY by the upper bound of sampled cuts and zero-iff-unreachable, triangles/LCC only by "
                   "parallel path = sequential path on copies crossing the 1000-node threshold")
