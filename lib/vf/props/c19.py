"""C19 writes acknowledged by the server survive a restart: Server.tla / MC_Server.tla / Server_Trace.tla, harness bin server."""
import concurrent.futures as cf
import json, os
from vf.core import ToolError

GEN = """SPECIFICATION Spec
CONSTANTS Keys = {keys}
  Vals = {vals}
  MaxHist = {maxh}
  MaxRestarts = {maxr}
  Legacy = {legacy}
  Rets = {{TRUE, FALSE}}
{view}
CONSTRAINT Bound
{emit}
INVARIANTS STypeOK WellFormedGraph {inv}
{prop}
CHECK_DEADLOCK FALSE
"""

TRACE = """SPECIFICATION TSpec
CONSTANTS Keys = {1, 2, 3}
  Vals = {1, 2}
  OpenKF = @OPENKF@
INVARIANTS STypeOK WellFormedGraph
POSTCONDITION Post
CHECK_DEADLOCK FALSE
"""


def corrupt(ev, rng):
    # a restart that serves a graph no persistence behaviour explains: a property value nobody wrote, or a node nobody created
    if ev.get("ev") != "Restart":
        return False
    o = ev["obs"]
    if o["nodes"]:
        n = o["nodes"][rng.randrange(len(o["nodes"]))]
        n[3] = 7
        ev["_corrupted"] = "nodes/p"
    else:
        o["nodes"].append([9, 3, ["A"], 0])
        ev["_corrupted"] = "nodes/+ghost"
    return True


def run(ctx):
    q = ctx.quick
    W = min(6, int(os.environ.get("VERIF_WORKERS", "4")))

    def gen(name, **kw):
        d = dict(keys="{1, 2}", vals="{1}", maxh=4, maxr=1, legacy="FALSE", view="VIEW View", emit="ACTION_CONSTRAINT Emit",
                 inv="Durable", prop="PROPERTY RestartKeepsServed")
        d.update(kw)
        ev = d.pop("expect_violation", False)
        sim = d.pop("simulate", None)
        return ctx.tlc_gen("MC_Server", GEN.format(**d), name, workers=W, expect_violation=ev, timeout=2400, simulate=sim)

    # self-test: with the persistence of the pinned tree (RESP: only returned entities, HTTP: nothing) a restart loses writes
    gen("legacy-selftest", legacy="TRUE", emit="", expect_violation=True)
    # one script per (state, last write step) followed by Restart: every write kind x front end x RETURN variant is the
    # step a restart puts to the test, in every reachable graph of the small universe
    scripts = gen("cover", maxh=4 if q else 6)
    # restarts in the middle: what a second incarnation writes must survive the next restart as well
    two = gen("two-restarts", maxh=5 if q else 6, maxr=2)
    two = [s for s in two if sum(1 for st in s if st["op"] == "Restart") == 2]
    scripts += two[::4] if q else two[::2]
    if not q:
        scripts += gen("three-keys", keys="{1, 2, 3}", vals="{1, 2}", maxh=4)
    # long random behaviours with several restarts
    walks = gen("walks", keys="{1, 2, 3}", vals="{1, 2}", maxh=10, maxr=3, view="", emit="", inv="Durable SimEmit",
                simulate=(40 if q else 600, 11))
    scripts += [w if w[-1]["op"] == "Restart" else w + [{"op": "Restart"}] for w in walks]
    ctx.assume("statements address nodes by a key property k (<= 3 keys), one label :A plus an optional :B, one property p, one relationship "
               "type :T with property w; write kinds: CREATE node / relationship with and without RETURN, SET / REMOVE property, "
               "SET / REMOVE label, SET relationship property, DELETE, DETACH DELETE, DELETE relationship, each through RESP GRAPH.QUERY "
               "and POST /api/query of ONE server incarnation",
               "a server incarnation = the library calls of main.rs start_server on a temporary data directory (PersistenceManager::new, "
               "list_persisted_tenants/recover/insert_recovered_*, snapshot restore only if nothing was recovered, shared store, "
               "CommandHandler::new_with_tenants, HttpServer::router, start_indexer); restart = drop all of it and boot again on the same "
               "directory (clean shutdown; crash points inside a write are not explored); the real binary on a socket is not started",
               "node and relationship ids are part of the served graph: recovery is expected to keep them (they are the storage keys)",
               "a statement that is not acknowledged must leave the served graph unchanged")
    # the harness spends its time opening and closing RocksDB: run it as several processes
    ctx.build_harness("server")
    nproc = max(1, min(8, len(scripts) // 40))
    parts = [scripts[i::nproc] for i in range(nproc)]

    def one(i):
        sp = ctx.write_scripts("server%d" % i, parts[i], prefix="server%d" % i)
        return ctx.run_harness("server", sp, name="server%d" % i, timeout=3000, env={"TMPDIR": tmpdir()})

    with cf.ThreadPoolExecutor(max_workers=nproc) as ex:
        traces = list(ex.map(one, range(nproc)))
    tr = ctx.path("server.trace.ndjson")
    with open(tr, "w") as out:
        for t in traces:
            for ln in open(t):
                if not ln.startswith('{"ev":"reset","sid":"end"}'):
                    out.write(ln)
        out.write('{"ev":"reset","sid":"end"}\n')
    ctx.validate("Server_Trace", TRACE, tr, jobs=int(os.environ.get("VERIF_JOBS", "6")), corrupt=corrupt)
    narrow_selftest(ctx, tr)


def tmpdir():
    # the data directories: memory-backed when available (a clean restart does not depend on the medium)
    return "/dev/shm" if os.path.isdir("/dev/shm") and os.access("/dev/shm", os.W_OK) else os.environ.get("TMPDIR", "/tmp")


def narrow_selftest(ctx, trace_path):
    """the deviations are narrow: a node that RESP returned (and therefore persisted) and that is missing after the
    restart must be rejected even with every known finding open"""
    groups, cur = [], None
    for ln in open(trace_path):
        if ln.startswith('{"ev":"reset"'):
            if cur and len(cur) > 1:
                groups.append(cur)
            cur = [ln]
        elif cur is not None:
            cur.append(ln)
    for g in groups:
        evs = [json.loads(x) for x in g]
        first, last = evs[1], evs[-1]
        if (first["ev"] == "CreateNode" and first["r"] == "resp" and first["ret"] and first["obs"]["ack"] == "ok" and last["ev"] == "Restart"
                and sum(1 for e in evs if e["ev"] == "Restart") == 1
                and not any(e["ev"] in ("DeleteNode", "DetachDelete") for e in evs)):
            nid = first["obs"]["retn"][0]
            o = last["obs"]
            if not any(n[0] == nid for n in o["nodes"]) or o["rels"]:
                continue
            o["nodes"] = [n for n in o["nodes"] if n[0] != nid]
            o["byA"] = [x for x in o["byA"] if x[0] != nid]
            o["byB"] = [x for x in o["byB"] if x[0] != nid]
            flat = g[:-1] + [json.dumps(last) + "\n", '{"ev":"reset","sid":"end"}\n']
            cfg = TRACE.replace("@OPENKF@", "{" + ", ".join('"%s"' % k for k in sorted(ctx.open_kf)) + "}")
            r = ctx._validate_chunk("Server_Trace", cfg, flat, "narrow.selftest", 900)
            rejected = r["reached"] is not None and evs[0]["sid"] not in r["used"]
            ctx.cov["binding_selftest"].append({"check": "Server_Trace narrowness", "script": evs[0]["sid"],
                                                "field": "a node RESP returned is missing after Restart", "rejected": bool(rejected)})
            if not rejected:
                raise ToolError("narrowness self-test failed: a returned node that did not survive the restart was accepted")
            ctx.log("narrowness self-test: returned node missing after restart rejected (ok)")
            return
    ctx.log("narrowness self-test: no suitable script in this run")
