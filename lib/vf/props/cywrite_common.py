"""Shared by C04 / C05 / C11: CypherWrite.tla, MC_CypherWrite.tla, CypherWrite_Trace.tla, harness bin cywrite."""

GEN = """SPECIFICATION Spec
CONSTANTS MaxN = {maxn}
          MaxE = {maxe}
          MaxInt = 24
          Legacy = {legacy}
          Mode = "{mode}"
          MaxHist = {maxh}
          UseKF = {usekf}
          ListLen = {listlen}
          Rich = {rich}
          Sim = {sim}
          HubSizes = {hubsizes}
          HubDels = {hubdels}
          HubAllOrders = {huball}
{view}
CONSTRAINT Bound
{emit}
INVARIANTS TypeOK {inv}
{props}
CHECK_DEADLOCK FALSE
"""

TRACE = """SPECIFICATION TSpec
CONSTANTS MaxN = {maxn}
          MaxE = {maxe}
          MaxInt = 24
          Legacy = {{}}
          CheckProbes = {probes}
          OpenKF = @OPENKF@
INVARIANTS TypeOK IdealHolds
POSTCONDITION Post
CHECK_DEADLOCK FALSE
"""


def gen(mode, maxn, maxe, maxh, view=True, emit="Emit", inv="", props="", legacy="{}", usekf="{}", listlen=1, rich=False, sim=False,
        hubsizes="{3}", hubdels=1, huball=True):
    return GEN.format(mode=mode, maxn=maxn, maxe=maxe, maxh=maxh, legacy=legacy, usekf=usekf, listlen=listlen,
                      rich="TRUE" if rich else "FALSE", sim="TRUE" if sim else "FALSE", hubsizes=hubsizes, hubdels=hubdels, huball="TRUE" if huball else "FALSE", view="VIEW View" if view else "",
                      emit=("ACTION_CONSTRAINT " + emit) if emit else "", inv=inv,
                      props=("PROPERTIES " + props) if props else "")


def trace_cfg(maxn, maxe, probes):
    return TRACE.format(maxn=maxn, maxe=maxe, probes="TRUE" if probes else "FALSE")


def corrupt_dump(ev, rng):
    """binding self-test: change one dumped fact (a property value, a label, a relationship endpoint, the outcome)"""
    o = ev.get("obs") or {}
    nodes = o.get("nodes") or []
    rels = o.get("rels") or []
    choices = []
    if nodes:
        choices += ["prop", "label"]
    if rels:
        choices += ["rel"]
    choices += ["res"]
    what = choices[rng.randrange(len(choices))]
    if what == "prop":
        n = nodes[rng.randrange(len(nodes))]
        key = "k" if rng.randrange(2) else "p"
        new = "i7" if n["props"][key] != "i7" else "i8"
        n["props"][key] = new
        n["full"][key] = new
        ev["_corrupted"] = "nodes/%s/props/%s" % (n["id"], key)
    elif what == "label":
        n = nodes[rng.randrange(len(nodes))]
        n["labels"] = sorted(set(n["labels"]) ^ {"B"})
        ev["_corrupted"] = "nodes/%s/labels" % n["id"]
    elif what == "rel":
        r = rels[rng.randrange(len(rels))]
        r["t"] = r["t"] + "~"
        ev["_corrupted"] = "rels/%s/t" % r["id"]
    else:
        ev["res"] = "err" if ev.get("res") == "ok" else "ok"
        ev["_corrupted"] = "res"
    return True


def dedup(scripts):
    import json
    seen, out = set(), []
    for s in scripts:
        k = json.dumps(s, sort_keys=True)
        if k not in seen:
            seen.add(k)
            out.append(s)
    return out


def cap(ctx, scripts, n, what):
    """seeded sample when a tier's budget cannot replay every generated script (the evidence says so)"""
    scripts = dedup(scripts)
    if len(scripts) <= n:
        return scripts
    ctx.assume("%s: %d distinct scripts generated, a seeded sample of %d replayed in this tier" % (what, len(scripts), n))
    idx = sorted(ctx.rng.sample(range(len(scripts)), n))
    return [scripts[i] for i in idx]


def sim_walks(ctx, cfg_text, name, total, depth, workers=4, timeout=3000):
    """random walks with TLC -simulate; every worker produces its share (core.tlc_gen keeps only the first `num` printed
    scripts, i.e. one worker's worth).  The model prints a walk from the state the walk really reached (DoFinishWalk)."""
    import json
    from ..core import RE_TAGGED, tla_unescape, ToolError, strip_scripts
    per = (total + workers - 1) // workers
    rc, out, dt = ctx.tlc("MC_CypherWrite", cfg_text, name, workers=workers, timeout=timeout, simulate=(per, depth))
    if rc == 124:
        raise ToolError("TLC generation %s timed out" % name)
    if ("is violated" in out) or ("Error:" in out):
        raise ToolError("TLC run %s failed on the design model (rc=%s):\n%s" % (name, rc, strip_scripts(out)[-3000:]))
    scripts = [json.loads(tla_unescape(s)) for s in RE_TAGGED("SCRIPT").findall(out)][:total]
    steps = sum(len(s) for s in scripts)
    ctx.cov["states"] += steps
    ctx.cov["transitions"] += steps
    ctx.cov["scripts_generated"] += len(scripts)
    ctx.cov["tlc_runs"].append({"run": name, "module": "MC_CypherWrite", "distinct_states": steps, "states_generated": steps, "depth": depth,
                                "scripts": len(scripts), "mode": "simulate", "wall_s": round(dt, 1)})
    ctx.log("TLC %s: %d random walks (%d steps), %.1fs" % (name, len(scripts), steps, dt))
    return scripts
