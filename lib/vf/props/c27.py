"""C27 iterative algorithms follow their specified iteration (PageRank, CDLP): Algo.tla / MC_Algo.tla / Algo_Trace.tla, harness bin algo."""
from . import algo_common as A

ONLY = "only=Cdlp,PageRank,Rep"
DESIGN_INV = "CdlpSane PRSumsToOne"


def run(ctx):
    q = ctx.quick
    # ---- design level: PageRank sums to one when dangling mass is redistributed; the disjoint-union lemma the
    #      replicated (parallel-path) runs rely on; CDLP labels stay inside weak components
    ctx.tlc_gen("MC_Algo", A.gen("{1, 2, 3}", 2, w="{1}", inv=DESIGN_INV + " UnionLemma", emit=""), "design-n123", workers=4, timeout=3000)
    if not q:
        ctx.tlc_gen("MC_Algo", A.gen("{2, 3}", 3, w="{1}", inv=DESIGN_INV + " UnionLemma", emit=""), "design-union-e3", workers=4, timeout=3000)
        ctx.tlc_gen("MC_Algo", A.gen("{4}", 2, w="{1}", inv=DESIGN_INV, emit=""), "design-n4", workers=4, timeout=3000)
    # self-test: without dangling redistribution the scores do NOT sum to one (TLC must find the witness)
    ctx.tlc_gen("MC_Algo", A.gen("{2}", 1, inv="PRSumsToOne", emit="", nored="TRUE"), "no-redistribution-selftest", expect_violation=True, workers=2)

    if q:
        fams = [("{1, 2, 3}", 3, "{1}", 1), ("{4}", 2, "{1}", 1)]
        pfam = [("{2, 3}", 2, "{1}", 2)]
    else:
        fams = [("{1, 2, 3}", 4, "{1}", 1), ("{4}", 3, "{1}", 1)]
        pfam = [("{2, 3}", 3, "{1}", 2), ("{4}", 2, "{1}", 2)]
    ctx.assume(A.ASSUME_GRAPH,
               "weights play no role in PageRank / CDLP: the graphs are enumerated with one weight",
               "PageRank is compared with the exact rational iteration at 10^-6 per score (dampings 1/2, 3/4, 1/4; <=3 iterations; "
               "tolerances none, 1/10, 1/10000; with and without dangling redistribution); CALL algo.pageRank exposes only "
               "iterations and damping (tolerance 0.0001, redistribution on)",
               "CDLP on a multigraph: every relationship end votes (a reciprocal pair, parallel relationships and self-loops count "
               "per end), as LDBC prescribes for directed graphs; the reported iteration count is only required to be <= k and "
               "consistent with the labelling",
               "parallel code paths (n >= 1000) are reached with ceil(1000/n) disjoint copies of each small graph under rayon pools "
               "of 1 and 8 threads (UnionLemma, model-checked for k = 2, 3: score/k per copy, the copy's own labels); the thorough tier adds "
               "2 copies as the sequential control",
               "the tolerance is the L1 change of one iteration (as pagerank.rs documents and computes it); an iteration stops when "
               "the change is strictly below it",
               "5/6-node multigraphs from TLC -simulate are limited to 2 PageRank iterations (32-bit TLC integers)")
    scripts = A.graphs(ctx, fams, "all")
    pscripts = A.graphs(ctx, pfam, "proj")
    walks = A.mid_graphs(ctx, 40 if q else 400, 10 if q else 150, w="{1}")
    sp = A.batch(ctx, "graphs", [("all", scripts), ("proj", pscripts), ("mid", walks)])
    tr = ctx.run_harness("algo", sp, name="graphs", args=[ONLY, "proj=basic", "fullprefix=proj", "midprefix=mid", "rep=%d" % (1 if q else 2),
                                                          "repalgos=pr,cdlp"], timeout=7200)
    ctx.validate("Algo_Trace", A.TRACE, tr, name="graphs", corrupt=A.corrupt, timeout=7200)
    if not q:
        empty = ctx.write_scripts("none", [])
        tr = ctx.run_harness("algo", empty, name="random", args=["mode=random", "seed=%d" % ctx.seed, "count=24", "minn=20", "maxn=300",
                                                                 "only=Rep", "repalgos=pr,cdlp"], timeout=7200)
        ctx.validate("Algo_Trace", A.TRACE, tr, name="random", corrupt=A.corrupt, timeout=7200)
        ctx.assume("random graphs of 20..300 nodes (damping 0.85, 5 and 20 iterations, tolerance 0 / 0.0001): only the RELATION "
                   "parallel path (copies crossing 1000 nodes, 1 and 8 threads) = sequential path (one copy) is checked, at 2*10^-6 "
                   "per score and exactly for labels; the sequential path itself is compared with the definition on small graphs only")
