"""C33 cluster health / quorum: Quorum.tla, MC_Quorum.tla, Quorum_Trace.tla, harness bin quorum."""

GEN = """SPECIFICATION Spec
CONSTANTS Ids = {ids}
          MaxHist = {maxh}
          MaxCfg = {maxcfg}
VIEW {view}
CONSTRAINT {bound}
{emit}
INVARIANTS TypeOK QuorumsIntersect {extra}
CHECK_DEADLOCK FALSE
"""

TRACE = """SPECIFICATION TSpec
CONSTANTS Ids = {1,2,3,4,5,6,7,8}
          OpenKF = @OPENKF@
INVARIANTS TypeOK
POSTCONDITION Post
CHECK_DEADLOCK FALSE
"""


def corrupt(ev, rng):
    # the property is an implication: the only corruption that must be rejected is an unjustified "healthy"
    return False


def run(ctx):
    q = ctx.quick
    # self-test: the pinned tree's entry-counting health rule violates the property on duplicate ids
    ctx.tlc_gen("MC_Quorum", GEN.format(ids="{1,2,3}", maxh=7, maxcfg=3, view="ViewLegacy", bound="BoundLegacy", emit="", extra="LegacySound"),
                "legacy-selftest", expect_violation=True, workers=4)
    # transition cover over 3 ids (every transition of the abstract state graph, reached through one representative history)
    scripts = ctx.tlc_gen("MC_Quorum", GEN.format(ids="{1,2,3}", maxh=8 if q else 10, maxcfg=2, view="View", bound="Bound",
                                                  emit="ACTION_CONSTRAINT Emit", extra=""), "cover3", workers=8, coverage=True)
    if not q:
        # state cover over 4 ids and design check over 5 ids
        scripts += ctx.tlc_gen("MC_Quorum", GEN.format(ids="{1,2,3,4}", maxh=12, maxcfg=2, view="View", bound="Bound",
                                                       emit="", extra="EmitState"), "states4", workers=12, timeout=1800)
        ctx.tlc_gen("MC_Quorum", GEN.format(ids="{1,2,3,4,5}", maxh=14, maxcfg=2, view="View", bound="Bound", emit="", extra=""),
                    "design5", workers=12, timeout=2400)
    scripts += ctx.tlc_gen("MC_Quorum", GEN.format(ids="{1,2,3,4,5}", maxh=60, maxcfg=3, view="View", bound="Bound", emit="", extra="SimEmit"),
                           "walks", simulate=(300 if q else 5000, 61), workers=4)
    ctx.tlaps("proofs/QuorumProof.tla")
    ctx.assume("membership is the map id -> voter flag in which the last successful add of an id wins; roles are only set for current members",
               "replication factor 1; ids <= 5")
    sp = ctx.write_scripts("quorum", scripts)
    tr = ctx.run_harness("quorum", sp)
    ctx.validate("Quorum_Trace", TRACE, tr, corrupt=corrupt_healthy)


def corrupt_healthy(ev, rng):
    o = ev.get("obs")
    if not o or o.get("healthy"):
        return False
    o["healthy"] = True
    return True
