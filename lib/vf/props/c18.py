"""C18 tenant quotas hold under every interleaving of writers.
Persist.tla / MC_Persist.tla (Mode "conc") / Persist_Trace.tla, harness bin persist mode=conc and mode=free."""
from .persist_common import gen, TRACE, WORKERS, JOBS, corrupt_conc, cap, harness_env, SIBLINGS

C18 = "QuotaHolds RefusedLeavesNothing UsageExact Atomic"
CONC = dict(mode="conc", constraint="", maxhist=99, tenants=SIBLINGS)
BOTH = '{"n", "e"}'


def run(ctx):
    q = ctx.quick
    # self-tests: the pinned tree's check-then-act quota check admits more than the quota; the pinned recover doubles usage
    ctx.tlc_gen("MC_Persist", gen(procs="{1, 2}", quotas="{1}", race="TRUE", view="VIEW View", invs="QuotaHolds", **CONC),
                "race-selftest", expect_violation=True, workers=4)
    ctx.tlc_gen("MC_Persist", gen(procs="{1, 2}", quotas="{2}", legacy_recover="TRUE", view="VIEW View", invs="UsageExact", **CONC),
                "recover-selftest", expect_violation=True, workers=4)
    # design: with an admission that counts reservations every interleaving of 2 / 3 writers keeps the quota,
    # refusals leave nothing, usage is exact at quiescence and after recovery; every call returns (fair scheduling)
    ctx.tlc_gen("MC_Persist", gen(procs="{1, 2, 3}", quotas="{1, 2}", kinds=BOTH, view="VIEW View", invs=C18, **CONC),
                "design3", workers=WORKERS)
    ctx.tlc_gen("MC_Persist", gen(spec="LiveSpec", procs="{1, 2, 3}", quotas="{1, 2}", kinds='{"n"}' if q else BOTH, view="",
                                  props="PROPERTY EveryCallReturns", **CONC),
                "liveness3", workers=WORKERS)
    # schedules to replay: ALL interleavings of the steps as the code performs them (Race = TRUE: the check reads the counter)
    scripts = ctx.tlc_gen("MC_Persist", gen(procs="{1, 2}", quotas="{1, 2}", kinds='{"n"}' if q else BOTH, race="TRUE", view="",
                                            invs="RefusedLeavesNothing UsageExact", emit="ACTION_CONSTRAINT EmitQuiet", **CONC),
                          "all2", workers=WORKERS)
    if q:
        scripts += ctx.tlc_gen("MC_Persist", gen(procs="{1, 2}", quotas="{1}", kinds='{"e"}', race="TRUE", view="",
                                                 invs="RefusedLeavesNothing UsageExact", emit="ACTION_CONSTRAINT EmitQuiet", **CONC),
                               "all2e", workers=WORKERS)
    if q:
        scripts = cap(ctx, scripts, 260)
    # three writers: one schedule per transition of the state graph (the harness completes it deterministically)
    three = ctx.tlc_gen("MC_Persist", gen(procs="{1, 2, 3}", quotas="{1, 2}", kinds='{"n"}', race="TRUE", view="VIEW View",
                                          invs="RefusedLeavesNothing UsageExact", emit="ACTION_CONSTRAINT EmitStep", **CONC),
                        "cover3", workers=WORKERS)
    if not q:
        three += ctx.tlc_gen("MC_Persist", gen(procs="{1, 2, 3}", quotas="{1, 2}", kinds=BOTH, race="TRUE", view="", invs="SimEmitQuiet", **CONC),
                             "walks3", simulate=(2000, 40), workers=4)
    scripts += cap(ctx, three, 120 if q else 3000)
    scripts = [[st for st in s if st["op"] != "Recover"] for s in scripts]
    ctx.assume("quota 1-2, 2-3 threads, each creating one node (or relationship) with its own id for tenant t1; two more registered "
               "tenants (t10, t1z: ids that sort directly before / after t1's keys) each hold one node and one relationship created "
               "before the writers start; their scans and counters are judged at quiescence and each is recovered once at the end",
               "the counters are judged when nothing is in flight (after every call returned) and after each of two recoveries on the "
               "same manager; stored ids are judged after every scheduled step; a refusal is never judged wrong by itself (the statement "
               "does not require admission), it must only leave nothing in storage or the log",
               "schedules are replayed by parking each thread at the hook points; a thread blocked on a lock is left running and its "
               "steps are recorded when they happen")
    sp = ctx.write_scripts("persist-conc", scripts)
    tr = ctx.run_harness("persist", sp, name="persist-conc", args=["mode=conc", "jobs=%d" % min(JOBS, 6)], timeout=7200, env=harness_env())
    ctx.validate("Persist_Trace", TRACE.format(bind_usage="TRUE"), tr, name="persist-conc", jobs=JOBS, corrupt=corrupt_conc)
    # impl -> spec: free-running threads, events ordered by sequence numbers taken at the hook points
    seen, configs = set(), []
    for s in scripts:
        head = [st for st in s if st["op"] in ("Open", "Begin")]
        key = repr(head)
        if key not in seen:
            seen.add(key)
            configs.append(head)
    fp = ctx.write_scripts("persist-free", configs)
    ft = ctx.run_harness("persist", fp, name="persist-free", args=["mode=free", "runs=%d" % (8 if q else 30), "seed=%d" % ctx.seed, "jobs=%d" % min(JOBS, 6)],
                         timeout=7200, env=harness_env())
    ctx.validate("Persist_Trace", TRACE.format(bind_usage="TRUE"), ft, name="persist-free", jobs=JOBS, corrupt=corrupt_conc)
