"""Shared by c16.py / c18.py / c32.py: cfg texts for spec/MC_Persist.tla and spec/Persist_Trace.tla
(harness bin: persist)."""
import os

WORKERS = min(int(os.environ.get("VERIF_WORKERS", "8")), 8)
JOBS = min(int(os.environ.get("VERIF_JOBS", "12")), 12)

GEN = """SPECIFICATION {spec}
CONSTANTS Tenants = {tenants}
          Main = "t1"
          OpTenants = {optenants}
          Procs = {procs}
          Unlimited = 1000000
          LegacyUpdates = {legacy_updates}
          SkipUpdateAtZeroUsage = {skip_update}
          LegacyRecover = {legacy_recover}
          Race = {race}
          Mode = "{mode}"
          MaxOps = {maxops}
          MaxHist = {maxhist}
          NodeIds = {nodeids}
          EdgeIds = {edgeids}
          LabelSeqs <- {labels}
          Ends <- {ends}
          CreateVals = {createvals}
          SeedMain = {seedmain}
          UpdateVals = {{2}}
          ConcQuotas = {quotas}
          ConcKinds = {kinds}
          CrashOn = {crash}
{view}
{constraint}
{emit}
INVARIANTS TypeOK {invs}
{props}
CHECK_DEADLOCK FALSE
"""

# the writers' tenant "t1" with two registered neighbours whose ids extend it by a character sorting below / above the
# key separator ':' ("t10:..." < "t1:..." < "t1z:..."): scans, recovery and counters of one tenant next to the others' keys
SIBLINGS = '{"t1", "t10", "t1z"}'

DEFAULTS = dict(optenants='{"t1"}', skip_update="FALSE", edgeids="{1}", createvals="{0, 1}", seedmain="FALSE", tenants='{"t1"}', spec="Spec", procs="{1}", legacy_updates="FALSE", legacy_recover="FALSE", race="FALSE", mode="seq",
                maxops=3, maxhist=9, nodeids="{1, 2}", labels="LS2", ends="Ends1", quotas="{1}", kinds='{"n"}',
                crash="TRUE", view="VIEW ViewSeq", constraint="CONSTRAINT Bound", emit="", invs="", props="")


def gen(**kw):
    d = dict(DEFAULTS)
    d.update(kw)
    return GEN.format(**d)


TRACE = """SPECIFICATION TSpec
CONSTANTS Tenants = {{"t1", "t10", "t1z"}}
          Procs = {{1, 2, 3}}
          Unlimited = 1000000
          LegacyUpdates = FALSE
          SkipUpdateAtZeroUsage = FALSE
          LegacyRecover = FALSE
          BindUsage = {bind_usage}
          OpenKF = @OPENKF@
INVARIANTS TypeOK QuotaHoldsT AtomicT
POSTCONDITION Post
CHECK_DEADLOCK FALSE
"""


def cap(ctx, scripts, n):
    """at most n scripts, a seeded sample (TLC has checked the whole model; this bounds the replay cost)"""
    import json
    seen, uniq = set(), []
    for s in scripts:
        k = json.dumps(s, sort_keys=True)
        if k not in seen:
            seen.add(k)
            uniq.append(s)
    if len(uniq) <= n:
        return uniq
    keep = sorted(ctx.rng.sample(range(len(uniq)), n))
    return [uniq[i] for i in keep]


def harness_env():
    """RocksDB directories of the replays live in memory when possible (each open costs ~0.2 CPU-s already)"""
    return {"TMPDIR": "/dev/shm"} if os.path.isdir("/dev/shm") and os.access("/dev/shm", os.W_OK) else None


def corrupt_recover(ev, rng):
    """change what one recovery returned (a property value, or a phantom node)"""
    if ev.get("ev") != "Recover" or "obs" not in ev:
        return False
    o = ev["obs"]
    if o["nodes"]:
        o["nodes"][rng.randrange(len(o["nodes"]))]["p"] += 1
    elif o["edges"]:
        o["edges"][0]["p"] += 1
    else:
        o["nodes"].append({"id": 7, "labels": [], "p": 0})
    return True


def corrupt_conc(ev, rng):
    """change a bound observation of a concurrent run: stored ids after a step, or counters at quiescence / recovery"""
    k = ev.get("ev")
    if k == "Quiesce" and "obs" in ev:
        per = ev["obs"]["per"]
        per[rng.randrange(len(per))]["un"] += 1
        return True
    if k == "Recover" and "obs" in ev:
        ev["obs"]["un"] += 1
        return True
    if k == "Step" and "obs" in ev:
        ev["obs"]["n"].append(9)
        return True
    return False
