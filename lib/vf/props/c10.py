"""C10 lawful orders: Order.tla (laws over the recorded relations), OrderIndex*.tla (insertion-order independence), harness bin order."""
import json, os, re
from ..core import ToolError, tla_unescape, corrupt_field

LAWS_CFG = """SPECIFICATION Spec
CONSTANT OpenKF = @OPENKF@
CHECK_DEADLOCK FALSE
"""

GEN = """SPECIFICATION Spec
CONSTANTS Vals = {vals}
          Nodes = {{1,2,3,4,5}}
          MaxHist = {maxh}
CONSTRAINT Bound
ACTION_CONSTRAINT EmitLeaf
INVARIANT GetSound
CHECK_DEADLOCK FALSE
"""

TRACE = """SPECIFICATION TSpec
CONSTANTS Vals = {1,2,3,4,5,6,7,8}
          Nodes = {1,2,3,4,5}
          OpenKF = @OPENKF@
POSTCONDITION Post
CHECK_DEADLOCK FALSE
"""


def run(ctx):
    q = ctx.quick
    # ---- clause 1: laws over the relations recorded from the implementation
    empty = ctx.write_scripts("none", [])
    ctx.build_harness("order")
    table = ctx.path("table.json")
    import subprocess
    rc = subprocess.call([ctx.vh["order"], empty, table, "mode=table"])
    if rc != 0:
        raise ToolError("order table harness failed")
    cfg = LAWS_CFG.replace("@OPENKF@", "{" + ", ".join('"%s"' % k for k in sorted(ctx.open_kf)) + "}")
    rc, out, dt = ctx.tlc("Order", cfg, "laws", workers=1, timeout=1200, env={"TABLE": table})
    m = re.search(r'<<\s*"STATS",\s*(\d+),\s*(\d+)\s*>>', out)
    if not m:
        raise ToolError("Order.tla produced no STATS:\n" + out[-2000:])
    n, nbad = int(m.group(1)), int(m.group(2))
    tab = json.load(open(table))
    ctx.cov["states"] += 1
    ctx.cov["transitions"] += 1
    ctx.cov["values"] = n
    ctx.cov["pairs_checked"] = n * n
    ctx.cov["triples_checked"] = n * n * n
    ctx.cov["law_counterexamples"] = nbad
    ctx.cov["events_validated"] += n * n
    ctx.cov["tlc_runs"].append({"run": "laws", "module": "Order", "values": n, "triples": n ** 3, "counterexamples": nbad, "wall_s": round(dt, 1)})
    ctx.sample({"values": tab["show"][:12]})
    for name, body in re.findall(r'<<\s*"KFUSED",\s*"([^"]+)",\s*"((?:[^"\\]|\\.)*)"\s*>>', out, re.S):
        ctx.cov["deviation_uses"][name] = ctx.cov["deviation_uses"].get(name, 0) + 1
        f = ctx.open_kf.get(name)
        if f:
            ctx.kf_lines[f["id"]] = f["what"]
    seen = 0
    for body in re.findall(r'<<\s*"UNEXPLAINED",\s*"((?:[^"\\]|\\.)*)"\s*>>', out, re.S):
        b = json.loads(tla_unescape(body))
        vals = [tab["show"][i - 1] for i in b[1:]]
        seen += 1
        if seen <= 25:
            ctx.violation("law %s fails for %s" % (b[0], vals), {"property": "C10", "law": b[0], "indices": b[1:], "values": vals,
                                                               "classes": [tab["cls"][i - 1] for i in b[1:]]})
    if seen:
        ctx.log("%d unexplained law counterexamples" % seen)
    ctx.log("laws: %d values, %d counterexamples, %d unexplained" % (n, nbad, seen))
    # ---- clause 2: index answers do not depend on insertion order (every order of small multisets)
    scripts = ctx.tlc_gen("MC_OrderIndex", GEN.format(vals="{1,2,3,4}" if q else "{1,2,3,4,5,6,7,8}", maxh=4), "orders")
    ctx.assume("the value universe is a fixed list of boundary values in harness/src/bin/order.rs (TLC judges the observed relations, "
               "it does not model IEEE-754); index clause: every insertion/removal order of <=4 operations over 4 (quick) / 8 (thorough) "
               "values including -NaN, -1.0, Integer 0")
    sp = ctx.write_scripts("orders", scripts)
    tr = ctx.run_harness("order", sp, args=["mode=index"])
    ctx.validate("OrderIndex_Trace", TRACE, tr, corrupt=corrupt_field("all", 0))
