"""C34 optimisation solvers: Solver.tla (contract of a run / of a pair of runs), MC_Solver.tla (tiny design model + self-test),
Solver_Trace.tla (impl -> spec), harness bin solver.

TLC generates nothing here: the behaviours come from the implementation (every solver x generated problems x seeds, each
run in a 1-thread and an 8-thread rayon pool); TLC validates every run against the contract."""
import os, random

MC = """SPECIFICATION Spec
CONSTANTS MaxRank = 2
          MaxIter = 3
          Legacy = {legacy}
INVARIANTS HistoryMonotone ResultInBox PairIdentical
CHECK_DEADLOCK FALSE
"""

TRACE = """SPECIFICATION TSpec
CONSTANTS OpenKF = @OPENKF@
POSTCONDITION Post
CHECK_DEADLOCK FALSE
"""

SO = ["Jaya", "Rao1", "Rao2", "Rao3", "TLBO", "BMR", "BWR", "QOJaya", "ITLBO", "PSO", "DE", "GOTLBO", "Firefly", "Cuckoo", "GWO", "GA",
      "SA", "Bat", "ABC", "GSA", "HS", "FPA", "BMWR", "SAMPJaya", "EHRJaya", "QORao1", "QORao2", "QORao3", "SAPHR"]
MO = ["NSGA2", "MOTLBO", "MOBMR", "MOBWR", "MOBMWR", "MORaoDE"]
BOXES = ["sym", "asym", "pos", "neg", "degen", "alldegen", "tiny", "huge", "mixed"]
OBJS = ["sphere", "shift", "lin", "ras", "negsphere"]


def problems(rng, n, iters=(0, 6, 12, 20), pops=(5, 8, 12)):
    """n problem descriptions: every box kind and every dimension 1..6 appears from n = 18 on, every (dimension, box) pair at n = 54;
    objective, penalty, population and iteration count are drawn from the seed"""
    out = []
    for k in range(n):
        a, b = divmod(k, len(BOXES))
        out.append({"dim": 1 + (a + b) % 6, "box": BOXES[b], "obj": OBJS[rng.randrange(len(OBJS))],
                    "pen": rng.random() < 0.4, "pop": rng.choice(pops), "iters": rng.choice(iters)})
    return out

def tie_problems(q):
    """problems in which several candidates have bit-identical fitness: the optimum sits on a face or corner of the box (clamping
    puts several candidates on exactly the same point), or the objective is piecewise constant.  Strict / non-strict comparison
    slips of a solver only show on such ties."""
    out = []
    for dim, box, obj in ((1, "pos", "sphere"), (2, "pos", "sphere"), (2, "neg", "sphere"), (2, "degen", "sphere"),
                          (1, "pos", "plateau"), (2, "sym", "plateau")):
        for pop, iters in (((12, 30),) if q else ((12, 30), (6, 60), (25, 40))):
            out.append({"dim": dim, "box": box, "obj": obj, "pen": False, "pop": pop, "iters": iters})
    return out


JOBS = int(os.environ.get("VERIF_JOBS", "12"))


def corrupt(ev, rng):
    """binding self-test: make a logged result leave the box / a history entry get worse"""
    if ev.get("ev") == "Iter":
        ev["best"] = ev["best"] + 1000
        ev["_corrupted"] = "best"
        return True
    if ev.get("ev") == "Done" and ev.get("res") == "ok" and ev.get("vars"):
        ev["vars"][0] = ev["vars"][0] + 100000
        ev["_corrupted"] = "vars/0"
        return True
    if ev.get("ev") == "Done" and ev.get("res") == "ok" and ev.get("front"):
        ev["front"][0]["vars"][0] += 100000
        ev["_corrupted"] = "front/0/vars/0"
        return True
    if ev.get("ev") == "Start":
        ev["lo"][0] += 100000
        ev["_corrupted"] = "lo/0"
        return True
    return False


def run(ctx):
    q = ctx.quick
    # design-level model of the contract + self-test (a Legacy run whose history gets worse must be rejected)
    ctx.tlc_gen("MC_Solver", MC.format(legacy="TRUE"), "legacy-selftest", expect_violation=True, workers=2)
    ctx.tlc_gen("MC_Solver", MC.format(legacy="FALSE"), "contract", workers=4)
    rng = random.Random(ctx.seed)
    nprob = 18 if q else 54
    nseed = 1 if q else 8
    iters = (0, 6, 12, 20) if q else (0, 6, 12, 20, 40)
    pops = (5, 8, 12) if q else (5, 8, 12, 25)
    scripts = []
    for s in SO + MO:
        for p in problems(rng, nprob, iters, pops):
            for _ in range(nseed):
                step = dict(p)
                step.update({"op": "Pair", "solver": s, "seed": rng.randrange(1, 2 ** 31 - 1)})
                scripts.append([step])
    for s in SO + MO:
        for p in tie_problems(q):
            for _ in range(2 if q else 8):
                step = dict(p)
                step.update({"op": "Pair", "solver": s, "seed": rng.randrange(1, 2 ** 31 - 1)})
                scripts.append([step])
    ctx.assume("impl -> spec only: TLC generates no behaviours for C34, it validates every recorded run against Solver.tla; the state "
               "counts are those of the tiny design model MC_Solver, the coverage is events validated",
               "every f64 of a pair of runs is replaced by its dense rank among all f64 of that pair (order-isomorphic, exact for <= and =); NaN = -1",
               "Iter events are the entries of the returned history (the solvers offer no per-iteration callback)",
               "multi-objective solvers: `history` is compared across the pair but not required to be monotone (the crate documents it as "
               "'hypervolume or min of first objective'); domination is Deb's constrained domination with the harness's own penalties",
               "tie problems (optimum on a face of the box, piecewise-constant objective): 6 shapes x %d seeds per solver" % (2 if q else 8),
               "problems: dimensions 1-6, boxes %s, objectives %s, optional half-space penalty, population %s, iterations %s; "
               "%d problems x %d seeds per solver, %d solvers (variants of Rao, QO-Rao and MO-BMWR counted separately)"
               % (BOXES, OBJS, list(pops), list(iters), nprob, nseed, len(SO + MO)))
    ctx.cov["pairs_of_runs"] = len(scripts)
    sp = ctx.write_scripts("solver", scripts)
    tr = ctx.run_harness("solver", sp, timeout=3000)
    ctx.validate("Solver_Trace", TRACE, tr, corrupt=corrupt, jobs=min(3, JOBS) if q else JOBS)
