"""C14 persisted snapshots survive restart and crashes: FsPersist.tla / MC_FsPersist.tla / FsPersist_Trace.tla,
harness module fspersist (drives the real /api/snapshot/import route, parks it at every hook point of
persist_snapshot, materialises every post-crash / post-power-loss directory TLC reaches and calls the real
restore_persisted_snapshots on it)."""
import json, os, re
from ..core import ToolError, sh

GEN = """SPECIFICATION Spec
CONSTANTS MaxImp = {maximp}
          Prog {prog}
          WriteAll = {writeall}
          MaxDown = {maxdown}
          MaxHist = 80
          MaxBad = {maxbad}
          BadPersists = {badp}
{obs}
VIEW View
CONSTRAINT Bound
{emit}
INVARIANTS TypeOK DirConsistent {inv}
CHECK_DEADLOCK FALSE
"""

TRACE = """SPECIFICATION TSpec
CONSTANTS MaxImp = 9
          OpenKF = @OPENKF@
INVARIANTS TypeOK DirConsistent
POSTCONDITION Post
CHECK_DEADLOCK FALSE
"""

BOOTGEN = """SPECIFICATION Spec
CONSTANTS Legacy = {legacy}
          MaxHist = 5
VIEW View
{emit}
INVARIANTS BootOK
CHECK_DEADLOCK FALSE
"""


def build_server(ctx):
    """the real server binary (src/main.rs) of the tree the harness is bound to, built into the harness target directory"""
    hdir = os.environ.get("VERIF_HARNESS_DIR") or os.path.join(ctx.root, "harness")
    m = re.search(r'samyama\s*=\s*\{\s*path\s*=\s*"([^"]+)"', open(os.path.join(hdir, "Cargo.toml")).read())
    if not m:
        raise ToolError("cannot find the samyama path dependency in %s/Cargo.toml" % hdir)
    env = {"CARGO_PROFILE_DEV_OPT_LEVEL": "1", "CARGO_PROFILE_DEV_DEBUG": "0"}
    rc, out = sh(["cargo", "build", "--offline", "--bin", "samyama", "--manifest-path", os.path.join(m.group(1), "Cargo.toml"),
                  "--target-dir", os.path.join(hdir, "target")], cwd=hdir, env=env, timeout=5400)
    if rc != 0:
        raise ToolError("building the samyama server binary failed:\n" + out[-3000:])
    return os.path.join(hdir, "target", "debug", "samyama")


PROBE = [{"op": "Import", "k": 1}] + [{"op": "Step"}] * 14 + [{"op": "Import", "k": 2}] + [{"op": "Step"}] * 14 + \
        [{"op": "Reject", "k": 9, "kind": "cut"}] + [{"op": "Step"}] * 14 + [{"op": "Reject", "k": 9, "kind": "garbage"}] + \
        [{"op": "Step"}] * 14 + [{"op": "Crash"}, {"op": "Restart"}]


def obs_consts(prog=()):
    if len(prog) > 12:
        raise ToolError("persist_snapshot passes more than 12 hook points: %s" % (prog,))
    p = list(prog) + [""] * (12 - len(prog))
    return "\n".join('          O%d = "%s"' % (i + 1, x) for i, x in enumerate(p))


def observed_program(trace_path):
    """the sequence of hook points persist_snapshot really passes, and whether the file it writes holds the
    whole live graph or only the import of the request (read from the probe run of the real code)"""
    prog, cur, writes_all, bad_persists = None, None, None, False
    for ln in open(trace_path):
        ev = json.loads(ln)
        if ev.get("ev") == "Reject" and ev.get("res") == "begin":
            bad_persists = True     # an upload that is going to be refused reached persist_snapshot
        if ev.get("ev") == "Import":
            if ev.get("res") != "begin":
                raise ToolError("probe: the import request did not reach persist_snapshot/begin: %s" % ln[:300])
            cur = (ev["k"], [])
        elif ev.get("ev") == "Step" and cur:
            cur[1].append(ev["point"])
            if ev["point"] == "tmp_written" and cur[0] == 2:
                writes_all = ev["obs"]["dir"]["tmp"]["g"] == [1, 2]
        elif ev.get("ev") == "Ack" and cur:
            if cur[0] == 2:
                prog = cur[1]
            cur = None
    if not prog or writes_all is None:
        raise ToolError("probe: could not read the persist_snapshot program from the probe trace")
    return prog, writes_all, bad_persists


def drop_prefixes(scripts):
    keys = sorted(json.dumps(s, sort_keys=True)[:-1] for s in scripts)   # strip the closing bracket: prefix test on text
    keep = []
    for i, k in enumerate(keys):
        if i + 1 < len(keys) and keys[i + 1].startswith(k + ","):
            continue
        keep.append(json.loads(k + "]"))
    return keep


def run(ctx):
    q = ctx.quick
    W = 4
    # (a) the design: the repaired step order, whole live graph written; every ip x {crash, power loss} x 1..3 imports
    ctx.tlc_gen("MC_FsPersist", GEN.format(maximp=3, prog="<- ProgFixed", writeall="TRUE", maxdown=2, emit="",
                                           inv="RestartOK", obs=obs_consts(), maxbad=1, badp="FALSE"), "design", workers=W, timeout=2400)
    # (b) anti-vacuity: each of these designs must violate RestartOK
    tests = [("legacy-marker-first", "<- ProgLegacy", "TRUE"), ("only-last-import", "<- ProgFixed", "FALSE")]
    if not q:
        tests += [("no-dir-fsync", "<- ProgNoDirSync", "TRUE"), ("no-data-fsync", "<- ProgNoDataSync", "TRUE"),
                  ("marker-first-dirsync", "<- ProgMarkerFirst", "TRUE")]
    for name, prog, wa in tests:
        ctx.tlc_gen("MC_FsPersist", GEN.format(maximp=2, prog=prog, writeall=wa, maxdown=1, emit="", inv="RestartOK", obs=obs_consts(),
                                               maxbad=0, badp="FALSE"), "selftest-" + name, expect_violation=True, workers=2)
    # a handler that persists the upload before the import has accepted it: a refused upload replaces the committed snapshot
    ctx.tlc_gen("MC_FsPersist", GEN.format(maximp=2, prog="<- ProgFixed", writeall="TRUE", maxdown=1, emit="", inv="RestartOK",
                                           obs=obs_consts(), maxbad=1, badp="TRUE"), "selftest-persist-before-import",
                expect_violation=True, workers=2)
    # (c) probe: which steps does the real persist_snapshot perform, and what does it write
    pp = ctx.write_scripts("probe", [PROBE])
    ptrace = ctx.run_harness("fspersist", pp, name="probe")
    prog, writes_all, bad_persists = observed_program(ptrace)
    ctx.log("observed program:", prog, "writes whole graph:", writes_all, "refused uploads reach persist_snapshot:", bad_persists)
    ctx.cov["observed_program"] = prog
    # (d) every crash point of the REAL program: TLC enumerates ip x {crash, power-loss outcome} x histories and emits
    #     one script per Restart / Ack transition; no invariant here - the recorded traces are judged by TLC below
    scripts = [PROBE]
    scripts += ctx.tlc_gen("MC_FsPersist",
                           GEN.format(maximp=3, prog="<- ProgObserved", obs=obs_consts(prog),
                                      writeall="TRUE" if writes_all else "FALSE", maxdown=1 if q else 2,
                                      maxbad=1, badp="TRUE" if bad_persists else "FALSE",
                                      emit="ACTION_CONSTRAINT Emit", inv=""), "crashpoints", workers=W, timeout=2400)
    scripts = drop_prefixes(scripts)
    if len(scripts) > (400 if q else 6000):
        ctx.rng.shuffle(scripts)
        scripts = scripts[:400 if q else 6000]
    ctx.assume("strict POSIX durability: fsync(file) makes the file's data durable, only fsync(directory) makes link/unlink/rename "
               "durable; a power loss keeps any dependency-closed subset of the un-fsynced directory operations and old, torn "
               "or new data of un-fsynced files",
               "the creation of <data>/snapshots itself and I/O errors during persist_snapshot are not modelled",
               "a process crash is the unwinding of the request thread at a hook point of persist_snapshot; restart = "
               "restore_persisted_snapshots into a fresh store; the boot sequence of main.rs is covered separately (stage e)",
               "import k is a snapshot holding one node with property k; a graph is abstracted to the set of k it holds",
               "refused uploads: a snapshot whose gzip trailer is cut off (valid header, every record readable, import fails at the "
               "end) and a non-gzip body, at most one per history, after at least one acknowledged import")
    sp = ctx.write_scripts("fspersist", scripts)
    tr = ctx.run_harness("fspersist", sp)
    ctx.validate("FsPersist_Trace", TRACE, tr)
    # (e) whole-server view (src/main.rs boot sequence): the design restores RocksDB AND the snapshot; the pinned
    #     `if !recovered` rule must violate BootOK; the histories are replayed on the REAL server binary (start, HTTP
    #     import, RESP write, SIGKILL, start again, query).  Building the binary is slow when cold: thorough tier, or
    #     VERIF_C14_BOOT=1.
    ctx.tlc_gen("MC_FsPersistBoot", BOOTGEN.format(legacy="TRUE", emit=""), "selftest-boot-legacy", expect_violation=True, workers=2)
    boot = ctx.tlc_gen("MC_FsPersistBoot", BOOTGEN.format(legacy="FALSE", emit="ACTION_CONSTRAINT Emit"), "boot-design", workers=2)
    if not q or os.environ.get("VERIF_C14_BOOT"):
        server = build_server(ctx)
        bp = ctx.write_scripts("boot", drop_prefixes(boot))
        btr = ctx.run_harness("fspersist", bp, name="boot", args=["server=" + server], timeout=1800)
        ctx.validate("FsPersistBoot_Trace", TRACE.replace("CONSTANTS MaxImp = 9\n          OpenKF", "CONSTANTS OpenKF").replace(
            "INVARIANTS TypeOK DirConsistent\n", ""), btr, name="FsPersistBoot_Trace", corrupt=corrupt_boot)
    else:
        ctx.assume("quick tier: the boot sequence of main.rs (RocksDB recovery vs snapshot restore) is model-checked only; it is "
                   "replayed on the real server binary in the thorough tier (or with VERIF_C14_BOOT=1)")


def corrupt_boot(ev, rng):
    if ev.get("ev") == "BootRestart" and "obs" in ev:
        ev["obs"]["g"] = ev["obs"]["g"] + [7]
        return True
    return False
