"""C12 snapshot export then import reproduces the graph: SnapshotRT.tla (on Snapshot.tla) / MC_SnapshotRT.tla /
SnapshotRT_Trace.tla, harness module snapshot (graphs built through the GraphStore API, real export_tenant +
import_tenant, dump of the imported store abstracted back to value tokens)."""

# class tokens = canonical text of the concrete boundary values (harness/src/bin/snapshot.rs boundary_values)
TOKENS = ["s:plain", "s: lead", "s:trail ", "s: ", "s:", "s:@nonascii", "s:@escapes",
          "i:9223372036854775807", "i:-9223372036854775808", "f:2.5", "f:2.0", "f:-0.0", "f:1e300",
          "f:nan", "f:inf", "f:-inf", "b:true", "dt:1700000000123", "du:1,2,3,4", "v:[1.5,-2.0]", "v:[]",
          "a:[i:1|s:x]", "a:[s: pad ]", "a:[]", "m:{a=i:1;b=m:{c=s:z}}", "m:{__type=s:DateTime;value=i:5}",
          "m:{__type=s:Vector;value=a:[f:1.0]}", "m:{__type=s:Other}", "m:{}"]

GEN0 = """SPECIFICATION Spec
CONSTANTS MaxNodes = {maxn}
          MaxRels = {maxr}
          Tokens = {tokens}
          Dev = {dev}
          MaxHist = {maxh}
          Extras = {extras}
          FamKinds = {famk}
          FamSizes = {fams}
{view}
{emit}
INVARIANTS {inv}
CHECK_DEADLOCK FALSE
"""

class _Gen:
    """GEN.format with the scaled-family constants defaulting to none"""
    @staticmethod
    def format(**kw):
        kw.setdefault("famk", "{}")
        kw.setdefault("fams", "{}")
        return GEN0.format(**kw)


GEN = _Gen

TRACE = """SPECIFICATION TSpec
CONSTANTS OpenKF = @OPENKF@
POSTCONDITION Post
CHECK_DEADLOCK FALSE
"""


def tset(toks):
    return "{" + ", ".join('"%s"' % t for t in toks) + "}"


def corrupt(ev, rng):
    d = (ev.get("obs") or {}).get("dump")
    if not d or not d["nodes"]:
        return False
    n = d["nodes"][rng.randrange(len(d["nodes"]))]
    if n["props"]:
        k = sorted(n["props"])[0]
        n["props"][k] += "~"
    else:
        n["labels"] = n["labels"] + ["Zz"]
    return True


ALLX = '{"versions", "compact", "hier"}'


def run(ctx):
    q = ctx.quick
    W = 4
    # (a) the design: exported records imported record by record give back the graph (small exhaustive scope)
    ctx.tlc_gen("MC_SnapshotRT", GEN.format(maxn=2, maxr=1, tokens=tset(["s: lead"]), dev="{}", maxh=4 if q else 6, extras=ALLX,
                                            view="VIEW View", emit="", inv="RoundTripIdeal"), "design", workers=W, timeout=3000)
    # (b) anti-vacuity: each deviation of the pinned tree, put into the model, must break the round trip
    tests = [("trim", '{"s: lead"}', '{}'), ("ghost", '{}', '{"compact"}')]
    if not q:
        tests += [("versions", '{}', '{"versions"}'), ("nolabel", '{}', '{}'), ("nonfinite", '{"f:nan"}', '{}'),
                  ("tagged", '{"m:{__type=s:DateTime;value=i:5}"}', '{}')]
    for d, toks, ex in tests:
        ctx.tlc_gen("MC_SnapshotRT", GEN.format(maxn=2, maxr=1, tokens=toks, dev='{"%s"}' % d, maxh=6, extras=ex, view="VIEW View", emit="",
                                                inv="RoundTripIdeal"), "selftest-" + d, expect_violation=True, workers=2)
    # (c) one boundary token at a time: every graph of one node + one (self-)relationship x every token x every place;
    #     the same run chooses the scaled families (kind, n): ring / chain / sparse graphs whose relationship count crosses
    #     the word boundaries of export's relationship-id bitset.  The harness builds them and logs a count abstraction of
    #     the imported store; TLC compares it with the same abstraction of the family definition (SnapshotRT!FamilyOK)
    scripts = ctx.tlc_gen("MC_SnapshotRT", GEN.format(maxn=1, maxr=1, tokens=tset(TOKENS), dev="{}", maxh=3, extras="{}", view="VIEW View",
                                                      famk='{"ring", "chain", "sparse"}',
                                                      fams="{63, 64, 65, 127, 128, 129}" if q else "{5, 62, 63, 64, 65, 66, 127, 128, 129, 191, 192, 193, 256}",
                                                      emit="ACTION_CONSTRAINT Emit", inv="RoundTripIdeal"), "tokens", workers=W, timeout=3000)
    # (d) structure: every graph of <= 2 nodes / <= 2 relationships (labels, direction, type, multiplicity, stub / full) with plain values
    scripts += ctx.tlc_gen("MC_SnapshotRT", GEN.format(maxn=2, maxr=1 if q else 2, tokens="{}", dev="{}", maxh=4 if q else 5, extras="{}",
                                                       view="VIEW View", emit="ACTION_CONSTRAINT Emit", inv="RoundTripIdeal"),
                           "structure", workers=W, timeout=3000)
    # (d') hierarchy declarations: declared at any point of the history (also before any data, also on an otherwise empty
    #      graph), over R, over S, over R+S, with / without measure, on plain graphs of <= 2 nodes and <= 1 relationship of
    #      type R or S -- so over populated types, over types without any relationship, and over two types of which one is empty
    hier = ctx.tlc_gen("MC_SnapshotRT", GEN.format(maxn=2, maxr=1, tokens="{}", dev="{}", maxh=5, extras='{"hier", "hierfocus"}',
                                                   view="VIEW View", emit="ACTION_CONSTRAINT Emit", inv="RoundTripIdeal"),
                       "hier", workers=W, timeout=3000)
    hier = [x for x in hier if any(st["op"] == "Hier" for st in x)]
    fam = [x for x in scripts if x[0]["op"] == "FamilyRT"] + hier
    scripts = [x for x in scripts if x[0]["op"] != "FamilyRT"]
    ctx.rng.shuffle(scripts)
    scripts = fam + scripts[:300 if q else 6000]
    # (e) random histories with version bumps, rewrites, compaction, deletions, hierarchy declarations, <= 3 nodes / <= 3 rels
    for depth in ((9,) if q else (6, 8, 10, 12)):
        scripts += ctx.tlc_gen("MC_SnapshotRT", GEN.format(maxn=3, maxr=3, tokens=tset(TOKENS), dev="{}", maxh=depth, extras=ALLX, view="",
                                                           emit="", inv="SimEmit"), "walks%d" % depth,
                               simulate=(150 if q else 1500, depth + 1), workers=W, timeout=3000)
    ctx.assume("value fidelity is per class token (one concrete value per class: plain / leading / trailing / blank / empty / non-ASCII / "
               "escape-laden strings, i64 extremes, floats incl. -0.0, 1e300, NaN, +-inf, bool, datetime, duration, vectors, arrays, nested "
               "map, maps with a __type key, empty containers), at most one boundary token per graph",
               "a property set to null is an absent property; set_node_property is exercised on row-backed nodes only",
               "scaled families (ring / chain / sparse, sizes around 64, 128, ...) are compared through a count abstraction (node summary; "
               "relationships grouped by end-point offset, type and properties with count and sum of source handles), not by a full "
               "isomorphism search",
               "hierarchy declarations are compared by name, relationship types, measure property and monoids (what HierarchyIndexManager::list exposes)")
    sp = ctx.write_scripts("snapshot12", scripts)
    tr = ctx.run_harness("snapshot", sp, name="snapshot12", timeout=3000)
    ctx.validate("SnapshotRT_Trace", TRACE, tr, corrupt=corrupt, timeout=3000)
