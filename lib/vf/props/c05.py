"""C05 a write statement that fails changes nothing (CypherWrite.tla Mode C05, harness bin cywrite)."""
from .cywrite_common import gen, trace_cfg, corrupt_dump, cap

INV = "C11_NoDuplicate"
PROPS = "C05_ErrorChangesNothing"


def run(ctx):
    q = ctx.quick
    # self-test: with row-by-row application (the pinned executor) a failing statement leaves its first rows behind
    ctx.tlc_gen("MC_CypherWrite", gen("C05", 6, 1, 4, emit="", inv=INV, props=PROPS, usekf='{"KF_C05_RowByRowApply"}', listlen=2),
                "kf-witness", expect_violation=True, workers=4)
    # set-up prefix x one multi-row statement, a failure planted at every row position:
    #   UNWIND [v1..vk] AS x CREATE (:A {k: 10/x}) | UNWIND .. MERGE (n:A {k: 10/x}) | MATCH (n:A) SET n.k = 10/n.p
    #   | MATCH (n:A) CREATE (:A {k: 10/n.p}) | MATCH (n:B) SET n:A        with :A(k) unique
    scripts = ctx.tlc_gen("MC_CypherWrite", gen("C05", 6 if q else 7, 1, 5, emit="EmitFaulty", inv=INV, props=PROPS,
                                                listlen=3 if q else 4, rich=not q), "faults", timeout=3000, workers=1)
    scripts = cap(ctx, scripts, 6000 if q else 60000, "faults")
    ctx.assume("graphs of <= 3 nodes built by CREATE statements after CREATE CONSTRAINT :A(k); UNWIND lists of length <= %d over "
               "{1,2,0,'a'%s}: 10/x fails on 0 (zero divisor) and 'a' (operand type) and collides on repeated values" % (3 if q else 4, "" if q else ",5"),
               "index / constraint probes = MATCH (n:L {k:v}) and MATCH (n:L) WHERE n.k = v for every value k can take, label scans "
               "and the label index, through the engine after every statement; the constraint registry is dumped",
               "the order in which MATCH feeds rows to the write clause is left open (every order is tried)")
    sp = ctx.write_scripts("faults", scripts)
    tr = ctx.run_harness("cywrite", sp, name="faults", args=["cap=10", "probes=1", "universe=i10,i5,i2"])
    ctx.validate("CypherWrite_Trace", trace_cfg(8, 1, True), tr, name="faults", corrupt=corrupt_dump)
    # refused DELETE, sequence-exhaustive (no VIEW, nothing sampled): (:A {k:1})-[:T]->(:B {k:1}) plus 0..2 further relationships on
    # either end (other type, other direction, parallel, same type to another node, at the far end), then ONE plain
    # MATCH (n..)-[r:T]->(m..) DELETE <n, r | r, n | n, r, m | m, r, n | r, m | n, m>: a node that keeps a relationship the clause does not
    # name refuses the statement, and then the relationships it does name must still be there
    dels = ctx.tlc_gen("MC_CypherWrite", gen("C05DEL", 5, 4, 4, view=False, emit="EmitFaulty", inv=INV, props=PROPS), "delete", timeout=3000)
    ctx.assume("refused DELETE: graphs of <= 4 nodes / 3 relationships of types T, U around one (:A)-[:T]->(:B); the DELETE names one or "
               "both end nodes and the matched T relationships, in every order of the names")
    sp = ctx.write_scripts("delete", dels)
    tr = ctx.run_harness("cywrite", sp, name="delete", args=["cap=10", "probes=1", "universe=i1,i2"])
    ctx.validate("CypherWrite_Trace", trace_cfg(6, 5, True), tr, name="delete", corrupt=corrupt_dump)
