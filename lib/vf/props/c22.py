"""C22 every reply is exactly one well-formed RESP frame: Resp.tla (StrictOne, Command), MC_Resp.tla, MC_RespProbe.tla
(CSpec / WSpec generators), Resp_Trace.tla, harness bin resp."""
from . import resp_common as R
from ..core import ToolError

ALL17 = "{1,2,3,4,5,6,7,8,9,10,11,12,13,14,15,16,17}"
UTF8_JVM = {"JAVA_TOOL_OPTIONS": "-Dfile.encoding=UTF-8 -Dstdout.encoding=UTF-8 -Dsun.stdout.encoding=UTF-8"}


def run(ctx):
    q = ctx.quick
    # self-tests: an encoder that writes error text raw, and one that announces bulk lengths in characters instead of
    # bytes, must violate RepliesWellFormed on the design model
    ctx.tlc_gen("MC_Resp", R.mc(1, 1, legacy='{"encode"}', emit=""), "legacy-encode-selftest", expect_violation=True)
    ctx.tlc_gen("MC_Resp", R.mc(1, 1, legacy='{"chars"}', emit="", univ="{4,17}"), "chars-length-selftest", expect_violation=True)
    # design: every reply of the modelled command layer to every frame of the universe is one frame, under every chunking
    ctx.tlc_gen("MC_Resp", R.mc(2, 2, emit="", univ="{1,3,4,5,7,9,11,12,13,14,15,16,17}") if q else R.mc(2, 3, emit="", univ=ALL17),
                "design", timeout=2400)
    # commands / queries / stored data with CR, LF, CRLF-bearing text and with multi-byte UTF-8 text (2-, 3-, 4-byte
    # characters) in every syntactic position: PING / ECHO payloads, string literals, stored property values, aliases ...
    # ... and (Sweep scripts) at every byte offset of an argument.  (The non-ASCII literals of the spec need a UTF-8 JVM.)
    scripts = ctx.tlc_gen("MC_RespProbe", R.probe("CSpec", "EmitCur"), "commands", env=UTF8_JVM)
    nonascii = sum(1 for s in scripts if any(ord(ch) > 127 for st in s for a in st.get("args", []) for ch in a))
    if nonascii < 100 or not any("\u20ac" in a for s in scripts for st in s for a in st.get("args", [])):
        raise ToolError("C22: the multi-byte UTF-8 texts of MC_RespProbe.tla did not survive TLC (%d scripts with non-ASCII text)" % nonascii)
    ctx.assume("a reply is what handle_command returned, encoded by RespValue::encode (the bytes handle_connection writes); "
               "protocol-error replies of the read loop are covered by C21's Probe events",
               "well-formed reply = one typed frame; simple string / error text may hold any byte except CR and LF; "
               "bulk lengths are byte counts (payloads with 2-, 3- and 4-byte UTF-8 characters are part of every tier)")
    sp = ctx.write_scripts("resp-cmd", scripts)
    tr = ctx.run_harness("resp", sp, name="resp-cmd")
    ctx.validate("Resp_Trace", R.TRACE, tr, name="cmd", corrupt=R.corrupt_res)
