"""C22 every reply is exactly one well-formed RESP frame: Resp.tla (StrictOne, Command), MC_Resp.tla, MC_RespProbe.tla
(CSpec / WSpec generators), Resp_Trace.tla, harness bin resp."""
from . import resp_common as R


def run(ctx):
    q = ctx.quick
    # self-test: an encoder that writes error text raw must violate RepliesWellFormed on the design model
    ctx.tlc_gen("MC_Resp", R.mc(1, 1, legacy='{"encode"}', emit=""), "legacy-encode-selftest", expect_violation=True)
    # design: every reply of the modelled command layer to every frame of the universe is one frame, under every chunking
    ctx.tlc_gen("MC_Resp", R.mc(2, 2, emit="", univ="{1,3,4,5,7,9,11,12,13,14,15,16}") if q else R.mc(2, 3, emit=""), "design", timeout=2400)
    # commands / queries / stored data with CR, LF, CRLF-bearing text in every syntactic position
    # ... and (Sweep scripts) at every byte offset of an argument
    scripts = ctx.tlc_gen("MC_RespProbe", R.probe("CSpec", "EmitCur"), "commands")
    ctx.assume("a reply is what handle_command returned, encoded by RespValue::encode (the bytes handle_connection writes); "
               "protocol-error replies of the read loop are covered by C21's Probe events",
               "well-formed reply = one typed frame; simple string / error text may hold any byte except CR and LF")
    sp = ctx.write_scripts("resp-cmd", scripts)
    tr = ctx.run_harness("resp", sp, name="resp-cmd")
    ctx.validate("Resp_Trace", R.TRACE, tr, name="cmd", corrupt=R.corrupt_res)
