"""C16 recovery returns exactly the acknowledged persisted state.
Persist.tla / MC_Persist.tla (Mode "seq") / Persist_Trace.tla, harness bin persist mode=seq."""
from .persist_common import gen as gen1, TRACE, WORKERS, JOBS, corrupt_recover, cap, harness_env, SIBLINGS

INVS = "Atomic QuiescentStorageIsG"


def gen(**kw):
    """calls are for tenant t1; tenants t10 and t1z (neighbours of t1 in key order) hold one node and one relationship
    each and are recovered after every recovery of t1"""
    kw.setdefault("tenants", SIBLINGS)
    return gen1(**kw)


def cut_to_last_recover(s):
    """recovery is the only observation: a script ends with its last Recover step"""
    k = max([i for i, st in enumerate(s) if st.get("op") == "Recover"], default=-1)
    return s[:k + 1]


def run(ctx):
    q = ctx.quick
    # self-test: the pinned tree's update path (log only) must violate the design invariants
    ctx.tlc_gen("MC_Persist", gen(legacy_updates="TRUE", invs=INVS, maxops=2, maxhist=6),
                "legacy-selftest", expect_violation=True, workers=4)
    # design check (TLC, exhaustive): every sequence of <= 4 calls, a crash possible at every step boundary of every
    # call and between calls, clean restarts, recoveries.  Scripts = one per Recover transition of the state graph.
    cover = ctx.tlc_gen("MC_Persist", gen(invs=INVS, maxops=4, maxhist=11, emit="ACTION_CONSTRAINT EmitRec"),
                        "cover", workers=WORKERS, timeout=2400)
    ncalls = lambda s: sum(1 for st in s if st["op"] not in ("Open", "Crash", "Restart", "Recover"))
    # replayed: every such script with <= 1 call (quick) / <= 2 calls, a seeded sample of the longer ones
    # (one replayed segment = one child process + one RocksDB open, ~0.2-0.7 CPU-s)
    short = [s for s in cover if ncalls(s) <= (1 if q else 2)]
    scripts = short + cap(ctx, [s for s in cover if ncalls(s) > (1 if q else 2)], 50 if q else 300)
    # sequence-exhaustive over a one-node / one-relationship alphabet: every operation sequence,
    # every crash boundary (no VIEW: histories are not merged)
    allseq = ctx.tlc_gen("MC_Persist", gen(invs=INVS, maxops=2 if q else 3, maxhist=6 if q else 7, nodeids="{1}", labels="LS1",
                                           view="", emit="ACTION_CONSTRAINT EmitRec"),
                         "allseq", workers=WORKERS, timeout=1800)
    scripts += cap(ctx, allseq, 25 if q else 200)
    # every crash-free sequence of <= 2 (quick) / <= 3 calls over that alphabet, shut down cleanly and recovered:
    # every ordered pair of operations on one entity (create-delete, create-update, delete-create, ...)
    scripts += ctx.tlc_gen("MC_Persist", gen(crash="FALSE", invs=INVS, maxops=2 if q else 3, maxhist=5 if q else 6, nodeids="{1}", labels="LS1",
                                             view="", emit="ACTION_CONSTRAINT EmitRec"),
                           "pairs", workers=WORKERS, timeout=1800)
    # longer random histories with several crashes
    scripts += ctx.tlc_gen("MC_Persist", gen(invs=INVS + " SimEmit", maxops=8, maxhist=16, labels="LS3", ends="Ends2", view="", constraint=""),
                           "walks", simulate=(8 if q else 40, 120), workers=4)
    scripts = [cut_to_last_recover(s) for s in scripts]
    scripts = [s for s in scripts if len(s) > 1]
    # the same histories with the process killed at an arbitrary (seeded) instant around / inside the call
    inside = [s for s in scripts if any(st.get("op") == "Crash" and st.get("at") != "idle" for st in s)]
    for s in ctx.rng.sample(inside, min(len(inside), 10 if q else 60)):
        scripts.append([dict(st, at="random", n=ctx.rng.randrange(0, 60000)) if st.get("op") == "Crash" and st.get("at") != "idle" else st
                        for st in s])
    ctx.assume("calls for one tenant (t1) next to two registered tenants (t10, t1z) that hold one node and one relationship each and "
               "are recovered after every recovery of t1; node ids {1,2}, one relationship id; property maps are {} or {k: v}; an update carries the full map "
               "{k: v}, so replace- and merge-semantics of an update coincide",
               "not generated because the statement leaves their effect open: creating an id that currently exists, deleting a node "
               "that still has relationships",
               "a crash is abort() of a child process at the hook point (kernel page cache survives; no power loss); a clean restart "
               "drops the manager and opens a new one on the same directory",
               "recovery (PersistenceManager::recover on a fresh manager) is the only observation; the crash point is recorded but not "
               "judged: whatever the point, the recovered graph must be the acknowledged one or that plus the in-flight operation")
    sp = ctx.write_scripts("persist-seq", scripts)
    tr = ctx.run_harness("persist", sp, name="persist-seq", args=["mode=seq", "jobs=%d" % min(JOBS, 6)], timeout=7200, env=harness_env())
    ctx.validate("Persist_Trace", TRACE.format(bind_usage="FALSE"), tr, name="persist-seq", jobs=JOBS, corrupt=corrupt_recover)
