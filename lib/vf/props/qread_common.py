"""Shared recipe parts of C01 / C35 / C02 (spec/CypherRead*.tla, harness bin cyread)."""
import json, os

ALL4 = '{{}, {"A"}, {"B"}, {"A", "B"}}'
L_NONE = '{{}}'
L_A = '{{}, {"A"}}'
L_AB = '{{"A"}, {"A", "B"}}'
T1, T2 = '{"T"}', '{"T", "U"}'

GEN = """SPECIFICATION Spec
CONSTANTS MaxNodes = {maxn}
          MaxRels = {maxr}
          LabelSets = {labels}
          PSet = "{p}"
          QSet = "{q}"
          RSet = "{r}"
          Types = {types}
          Family = "{fam}"
          Canon = {canon}
          Hist = {hist}
          MaxHist = {maxh}
          AskAt = {askat}
          Tier = "{tier}"
          Sim = {sim}
          Dev = {dev}
{view}
CONSTRAINT Bound
{emit}
INVARIANTS {inv}
CHECK_DEADLOCK FALSE
"""
LAWS = "WellFormed AllLabelsLaw CountLaw"

TRACE = """SPECIFICATION TSpec
CONSTANTS OpenKF = @OPENKF@
          ShapesFile = "{shapes}"
POSTCONDITION Post
CHECK_DEADLOCK FALSE
"""


def gen_cfg(fam="scanL", tier="single", maxn=2, maxr=0, labels=L_A, p="one", q="none", r="none", types=T1, canon=True, hist=False, maxh=8, askat=1, sim=False,
            dev="{}", view="VIEW View", emit="ACTION_CONSTRAINT EmitAsk", inv=LAWS):
    return GEN.format(askat=askat, tier=tier, sim="TRUE" if sim else "FALSE", fam=fam, maxn=maxn, maxr=maxr, labels=labels, p=p, q=q, r=r, types=types, canon="TRUE" if canon else "FALSE",
                      hist="TRUE" if hist else "FALSE", maxh=maxh, dev=dev, view=view, emit=emit, inv=inv)


def shapes_path(ctx):
    p = os.path.join(ctx.root, "supported_shapes.json")
    return p if os.path.exists(p) and not os.environ.get("VERIF_CYR_NOSHAPES") else ""


def trace_cfg(ctx):
    return TRACE.format(shapes=shapes_path(ctx))


def batch(scripts, per=25, extra=None):
    """TLC prints one (graph history, query) case per script; cases sharing the history (and family) are replayed on one
    store: history steps followed by up to `per` Query steps.  `extra(step)` may add fields to a Query step."""
    groups, order = {}, []
    for s in scripts:
        k = 0
        while k < len(s) and s[k]["op"] != "Query":
            k += 1
        key = json.dumps([s[:k], s[k].get("fam") if k < len(s) else None], sort_keys=True)
        if key not in groups:
            groups[key] = (s[:k], [])
            order.append(key)
        for st in s[k:]:
            if extra:
                st = extra(dict(st))
            groups[key][1].append(st)
    out = []
    for key in order:
        pre, qs = groups[key]
        seen, uq = set(), []
        for st in qs:
            kk = json.dumps(st, sort_keys=True)
            if kk not in seen:
                seen.add(kk)
                uq.append(st)
        for i in range(0, len(uq), per):
            out.append(pre + uq[i:i + per])
    return out


def corrupt_outcome(field="out"):
    """binding self-test: change the multiplicity of one returned row (or add a row to an empty result) of a query event"""
    def f(ev, rng):
        if ev.get("ev") != "Query":
            return False
        outs = [ev[field]] if field in ev else [o["out"] for o in ev.get("outs", [])]
        for o in outs:
            if o.get("res") != "ok":
                continue
            if o["rows"]:
                o["rows"][0]["m"] += 1
            else:
                o["rows"].append({"r": [{"k": "I", "n": 7, "s": ""} for _ in o["cols"]], "m": 1})
            ev["_corrupted"] = field + "/rows/0"
            return True
        return False
    return f


def count_cases(trace_path):
    n = ok = err = 0
    for ln in open(trace_path):
        if '"ev":"Query"' in ln:
            ev = json.loads(ln)
            for o in ([ev["out"]] if "out" in ev else [x["out"] for x in ev.get("outs", [])]):
                n += 1
                ok += o["res"] == "ok"
                err += o["res"] == "err"
    return n, ok, err


def count_params(trace_path):
    n = ok = 0
    by = {}
    for ln in open(trace_path):
        if '"pouts"' in ln:
            for po in json.loads(ln).get("pouts", []):
                n += 1
                ok += po["out"]["res"] == "ok"
                b = by.setdefault(po["pm"], [0, 0])
                b[0 if po["out"]["res"] == "ok" else 1] += 1
    return n, ok, {k: "%d answered / %d refused" % tuple(v) for k, v in sorted(by.items())}


def corrupt_pout(ev, rng):
    """binding self-test for C35: change one answered parameterised outcome (or, if every parameterised execution of the
    event was refused, add an answered one that returns a row no query of the fragment returns)"""
    if ev.get("ev") != "Query" or "pouts" not in ev:
        return False
    for po in ev["pouts"]:
        o = po["out"]
        if o.get("res") == "ok":
            if o["rows"]:
                o["rows"][0]["m"] += 1
            else:
                o["rows"].append({"r": [{"k": "I", "n": 7, "s": ""} for _ in o["cols"]], "m": 1})
            ev["_corrupted"] = "pouts/%s/rows/0" % po["pm"]
            return True
    ncol = len(ev["q"]["parts"][0]["clauses"][-1]["items"])
    ev["pouts"].append({"pm": "selftest", "ptext": "", "np": 0,
                        "out": {"res": "ok", "msg": "", "cols": ["c"] * ncol, "ord": False, "copies": 1,
                                "rows": [{"r": [{"k": "S", "n": 0, "s": "z"}] * ncol, "m": 3}]}})
    ev["_corrupted"] = "pouts/+selftest"
    return True


def shape_stats(trace_path, stats):
    """shape key -> [answered, refused] over the outcomes of a trace"""
    for ln in open(trace_path):
        if '"ev":"Query"' in ln:
            ev = json.loads(ln)
            for o in ([ev["out"]] if "out" in ev else [x["out"] for x in ev.get("outs", [])]):
                st = stats.setdefault(ev["shape"], [0, 0])
                st[0 if o["res"] == "ok" else 1] += 1


def record_shapes(ctx, stats):
    """VERIF_CYR_RECORD=1: (re)generate supported_shapes.json from this run: the query shapes (query text with labels,
    types, keys and literals abstracted) that were answered on EVERY case of the run.  Done once on the pinned tree;
    the file is committed data."""
    if not os.environ.get("VERIF_CYR_RECORD"):
        return
    path = os.path.join(ctx.root, "supported_shapes.json")
    old = set()
    if os.path.exists(path) and os.environ.get("VERIF_CYR_RECORD") == "merge":
        old = set(json.load(open(path))["shapes"])
    ok = {k for k, v in stats.items() if v[1] == 0 and v[0] > 0}
    bad = {k for k, v in stats.items() if v[1] > 0}
    shapes = sorted((old | ok) - bad)
    with open(path, "w") as f:
        json.dump({"version": 1, "comment": "query shapes answered (never refused) by the engine on the pinned tree; an error on one "
                   "of them is a C01 rejection unless the reference semantics itself defines an error", "shapes": shapes}, f, indent=0)
    ctx.log("recorded %d supported shapes (%d shapes were refused at least once)" % (len(shapes), len(bad)))
