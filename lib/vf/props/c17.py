"""C17 persistent storage never mixes tenants: KvTenants.tla / MC_KvTenants.tla / KvTenants_Trace.tla, harness bin kvtenants."""
import os

GEN = """SPECIFICATION Spec
CONSTANTS Ids = {ids}
          NameSeq <- {names}
          MaxTenants = {maxt}
          MaxWrites = {maxw}
          RejectSep = {reject}
VIEW View
{emit}
INVARIANTS TypeOK {inv}
CHECK_DEADLOCK FALSE
"""

TRACE = """SPECIFICATION TSpec
CONSTANTS Ids = {1, 2}
          OpenKF = @OPENKF@
INVARIANTS TypeOK
POSTCONDITION Post
CHECK_DEADLOCK FALSE
"""

DESIGN_INV = "NoMixingGet NoMixingScan NoMixingList ViewsExact KeysInjective"


# temp dirs of the harness on tmpfs when there is one (thousands of tiny directories / RocksDB opens)
TMPENV = {"TMPDIR": "/dev/shm"} if os.path.isdir("/dev/shm") and os.access("/dev/shm", os.W_OK) else None


def corrupt(ev, rng):
    """binding self-test: attribute one foreign item to a tenant's scan (or a tenant without data to the listing)"""
    o = ev.get("obs")
    if not o:
        return False
    if o["scans"]:
        e = o["scans"][rng.randrange(len(o["scans"]))]
        which = ["nodes", "edges", "recn", "rece", "getn", "gete"][rng.randrange(6)]
        e[which].append([1, [122], 99])
        return True
    o["list"].append([122])
    return True


def run(ctx):
    q = ctx.quick
    # design level 1: with a registry that refuses ids containing ':' the key layout separates tenants under a
    # prefix-bounded scan: point lookups, scans and the listing computed over the ordered key space are exact
    ctx.tlc_gen("MC_KvTenants", GEN.format(ids="{1, 2}", names="NamesFull", maxt=3, maxw=2 if q else 4, reject="TRUE", emit="", inv=DESIGN_INV),
                "design-rejectsep", workers=4, timeout=2400)
    # self-tests: (a) seek-and-run-to-the-end scan mixes tenants even without separators in ids,
    # (b) a prefix-bounded scan still mixes tenants when ids may contain the separator
    ctx.tlc_gen("MC_KvTenants", GEN.format(ids="{1}", names="NamesPlain", maxt=2, maxw=2, reject="TRUE", emit="", inv="NoMixingScanLegacy"),
                "legacy-scan-selftest", expect_violation=True, workers=4)
    ctx.tlc_gen("MC_KvTenants", GEN.format(ids="{1}", names="NamesFull", maxt=2, maxw=2, reject="FALSE", emit="", inv="NoMixingScan NoMixingList"),
                "separator-selftest", expect_violation=True, workers=4)
    # (script-emitting runs use one worker: strict BFS, the same representative histories every run)
    # scripts: every pair of candidate ids x every interleaving of <= 2/4 writes (one script per transition of the
    # abstract state graph); the registry of the model accepts everything so that every write is attempted
    scripts = ctx.tlc_gen("MC_KvTenants", GEN.format(ids="{1}", names="NamesFull", maxt=2, maxw=2 if q else 4, reject="FALSE",
                                                      emit="ACTION_CONSTRAINT EmitWrites", inv=""),
                          "pairs", workers=1, timeout=2400)
    # triples over the names that are prefixes of one another / adjacent in byte order / contain the separator
    scripts += ctx.tlc_gen("MC_KvTenants", GEN.format(ids="{1}", names="NamesCore", maxt=3, maxw=2 if q else 4, reject="FALSE",
                                                       emit="ACTION_CONSTRAINT EmitWrites", inv=""),
                           "triples", workers=1, timeout=2400)
    # two ids per tenant (id order inside a tenant's key range) on separator-free names
    scripts += ctx.tlc_gen("MC_KvTenants", GEN.format(ids="{1, 2}", names="NamesPlain", maxt=2, maxw=2 if q else 3, reject="FALSE",
                                                       emit="ACTION_CONSTRAINT EmitWrites", inv=DESIGN_INV),
                           "plain2ids", workers=1, timeout=2400)
    ctx.assume("tenant ids the system accepts = ids for which TenantManager::create_tenant returns Ok; writes reach the store "
               "only through PersistenceManager, which refuses unregistered ids",
               "candidate ids: every string of length <= 2 over {a, b, ':'}, plus 'a:n', 'a0' (and 'n', 'an' in the separator-free set); "
               "node / relationship ids 1..2; <= 3 tenants and <= 4 writes per history",
               "scans, recover and lookups are required to return exactly the tenant's own items (stronger than 'nothing foreign'); "
               "the listing is only required to name tenants that have stored data")
    sp = ctx.write_scripts("kvtenants", scripts)
    tr = ctx.run_harness("kvtenants", sp, args=["ids=1,2"], timeout=3600, env=TMPENV)
    ctx.validate("KvTenants_Trace", TRACE, tr, corrupt=corrupt, timeout=3000)
