"""Shared by C20 / C21 / C22 (RESP front end): Resp.tla, MC_Resp.tla, MC_RespProbe.tla, Resp_Trace.tla,
harness bin resp.  Not a check by itself."""

# what every server must accept (beyond: left open) and the C21 reservation bound
LIMITS = """CONSTANTS MaxDepth = 8
          MaxBulk = 1048576
          MaxArray = 65536
          MemFactor = 32
          MemSlack = 1024
"""

ALL = "{1,2,3,4,5,6,7,8,9,10,11,12,13,14,15,16}"

MC = """SPECIFICATION {spec}
""" + LIMITS + """          MaxFrames = {frames}
          MaxChunks = {chunks}
          MaxChunks1 = {chunks1}
          Live = {live}
          Legacy = {legacy}
          Univ = {univ}
          Lemmas = {lemmas}
          BigN = {bign}
          BigUniv = {biguniv}
          BigCuts = {bigcuts}
          BigChunks = {bigchunks}
{emit}
INVARIANTS TypeOK {inv}
CHECK_DEADLOCK FALSE
"""
DESIGN_INV = "DecodedIsPrefix OneReplyEach NeverClosed BufferParses Quiescent RepliesWellFormed NoStuck"


def mc(frames, chunks, chunks1=None, univ=ALL, live=False, legacy="{}", emit="ACTION_CONSTRAINT EmitEnd", inv=DESIGN_INV, lemmas=False,
       bign=0, biguniv="{}", bigcuts="{}", bigchunks=1):
    return MC.format(spec="SpecLive" if live else "Spec", frames=frames, chunks=chunks, chunks1=chunks1 or chunks, univ=univ, live="TRUE" if live else "FALSE", legacy=legacy, emit=emit,
                     inv=inv, lemmas="TRUE" if lemmas else "FALSE", bign=bign, biguniv=biguniv, bigcuts=bigcuts, bigchunks=bigchunks)


PROBE = """SPECIFICATION {spec}
""" + LIMITS + """          Alpha <- {alpha}
          N = {n}
          P = {p}
          NMin = {nmin}
          NMax = {nmax}
INVARIANTS {inv}
CHECK_DEADLOCK FALSE
"""


def probe(spec, inv, alpha="Alpha13", n=3, p=2, nmin=0, nmax=3):
    return PROBE.format(spec=spec, inv=inv, alpha=alpha, n=n, p=p, nmin=nmin, nmax=nmax)


TRACE = """SPECIFICATION TSpec
""" + LIMITS + """          OpenKF = @OPENKF@
INVARIANTS TraceInv
POSTCONDITION Post
CHECK_DEADLOCK FALSE
"""

ASSUME_GRAMMAR = ("well-formed = RESP as spoken by this server: simple/error lines without CR/LF (ASCII when sent to the server), "
                  "canonical decimal integers (<= 18 digits) and lengths, $-1, arrays of typed frames, _, and at top level an inline "
                  "line of space/tab separated words without quotes or backslashes; everything else is 'open' (any answer but a crash)")
ASSUME_LIMITS = ("a server must accept bulk strings <= 1 MiB, arrays <= 65536 elements, nesting <= 8; beyond that it may refuse "
                 "(the decoder's own limits are 512 MB / 1 Mi elements / depth 128)")


def corrupt_res(ev, rng):
    """binding self-test for decode outcomes: a crash must always be rejected"""
    if ev.get("ev") in ("Probe", "Case", "Big"):
        ev["res"] = "abort"
        return True
    if ev.get("ev") == "Decode":
        ev["obs"]["buf"] = list(ev["obs"]["buf"]) + [33]
        return True
    if ev.get("ev") == "End":
        ev["obs"]["decoded"] += 1
        return True
    if ev.get("ev") == "LiveClose":
        ev["obs"]["replies"] = list(ev["obs"]["replies"]) + [43, 79, 75, 13, 10]
        return True
    if ev.get("ev") == "BigClose":
        ev["obs"]["run"] += 1
        return True
    if ev.get("ev") in ("Cmd", "SweepCmd"):
        ev["obs"]["reply"] = list(ev["obs"]["reply"]) + [65]
        return True
    return False
