"""C13 a failed snapshot import leaves the store unchanged: Snapshot.tla / MC_Snapshot.tla / Snapshot_Trace.tla,
harness module snapshot (real export_tenant_with_compression + import_tenant_with_dedup on real .sgsnap bytes,
truncated at byte offsets / with flipped bytes, into stores that already hold matching and non-matching nodes)."""

GEN = """SPECIFICATION Spec
CONSTANTS MaxPre = {maxpre}
          MaxSnap = {maxsnap}
          Legacy = {legacy}
          MaxHist = 2
          Cuts = {cuts}
VIEW View
{emit}
INVARIANTS OkMeetsPost {inv}
CHECK_DEADLOCK FALSE
"""

TRACE = """SPECIFICATION TSpec
CONSTANTS OpenKF = @OPENKF@
POSTCONDITION Post
CHECK_DEADLOCK FALSE
"""


def corrupt(ev, rng):
    """change one logged fact of a dump: a property value, a label, or drop a relationship"""
    d = (ev.get("obs") or {}).get("dump")
    if not d or ev.get("ev") != "Import":
        return False
    if d["nodes"]:
        n = d["nodes"][rng.randrange(len(d["nodes"]))]
        if n["props"] and rng.random() < 0.5:
            k = sorted(n["props"])[0]
            n["props"][k] += "~"
        else:
            n["labels"] = n["labels"] + ["Zz"]
        return True
    return False


def run(ctx):
    q = ctx.quick
    # (a) the design: the record-by-record import + transactional rollback meets the post-conditions the trace spec
    #     uses (OkMeetsPost, FailUnchanged); the same run emits one scenario per (pre-existing store, snapshot, keys)
    scripts = ctx.tlc_gen("MC_Snapshot", GEN.format(maxpre=2, maxsnap=2, legacy="FALSE", emit="ACTION_CONSTRAINT Emit", cuts="TRUE",
                                                    inv="FailUnchanged LegacyExplained"), "design", workers=4, timeout=3000)
    if not q:
        # larger snapshots (3 node records, chains of relationships): complete imports only, scenarios for the replay
        scripts += ctx.tlc_gen("MC_Snapshot", GEN.format(maxpre=2, maxsnap=3, legacy="FALSE", emit="ACTION_CONSTRAINT Emit", cuts="FALSE",
                                                         inv=""), "scenarios3", workers=4, timeout=3000)
    # (b) anti-vacuity: the pinned tree's rollback (delete created nodes only) violates FailUnchanged ...
    ctx.tlc_gen("MC_Snapshot", GEN.format(maxpre=2, maxsnap=2, legacy="TRUE", emit="", cuts="TRUE", inv="FailUnchanged"),
                "selftest-legacy-rollback", expect_violation=True, workers=2)
    if not q:
        # ... and everything it leaves behind is characterised exactly by the deviation predicate
        ctx.tlc_gen("MC_Snapshot", GEN.format(maxpre=2, maxsnap=2, legacy="TRUE", emit="", cuts="TRUE", inv="LegacyExplained"),
                    "legacy-explained", workers=4, timeout=2400)
    ctx.rng.shuffle(scripts)
    scripts = scripts[:24 if q else 40]
    # pre-existing store loaded through the API (row properties), through an import (column properties), or through the API with
    # recycled ids waiting on the free lists
    for i, s in enumerate(scripts):
        if i % 3 == 1:
            s[0]["via"] = "import"
        elif i % 3 == 2:
            s[0]["via"] = "api-holes"     # same store with non-empty id free lists (two nodes created and deleted again)
    ctx.assume("dedup values in generated scenarios are lower-case, blank-free strings (normalisation = identity) and no value "
               "is both a string and a number; where an existing node and a merged record both carry a key, either value is accepted",
               "truncation at %s byte offset of the real .sgsnap (gzip level 3%s), %d seeded single-byte flips per scenario; "
               "every run starts from a freshly loaded store and is followed by an intact import" %
               ("every 7th" if q else "EVERY", "" if q else " and level 0 = stored", 6 if q else 24))
    sp = ctx.write_scripts("snapshot13", scripts)
    args = ["cut=7", "flips=6", "levels=3", "seed=%d" % ctx.seed] if q else ["cut=1", "flips=24", "levels=3,0", "seed=%d" % ctx.seed]
    tr = ctx.run_harness("snapshot", sp, name="snapshot13", args=args, timeout=3000)
    ctx.validate("Snapshot_Trace", TRACE, tr, name="Snapshot_Trace", corrupt=corrupt, timeout=3000)
