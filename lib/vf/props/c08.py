"""C08 version GC preserves reads: same machinery as C07, restricted to histories containing GC / active transactions."""
from . import c07


def run(ctx):
    c07.run(ctx, gc=True)
