"""C11 unique constraints reject exactly the duplicates (CypherWrite.tla Mode C11, harness bin cywrite)."""
from .cywrite_common import gen, trace_cfg, corrupt_dump, cap, sim_walks

INV = "C11_NoDuplicate"
PROPS = "C11_RefusedIffWouldDuplicate C05_ErrorChangesNothing"


def run(ctx):
    q = ctx.quick
    # self-test: a write path that never consults the registry (SET n:A as on the pinned tree) breaks NoDuplicate
    ctx.tlc_gen("MC_CypherWrite", gen("C11", 3, 1, 4, emit="", inv=INV, legacy='{"label_add_unchecked"}'),
                "legacy-selftest", expect_violation=True, workers=4)
    # every transition of the abstract state graph (graph x registry) reached within the history bound
    # (one worker: strict breadth-first order, so the generated set does not depend on scheduling)
    scripts = ctx.tlc_gen("MC_CypherWrite", gen("C11", 3, 1, 4 if q else 6, inv=INV, props=PROPS), "cover", timeout=3000, workers=1)
    scripts = cap(ctx, scripts, 6000 if q else 60000, "cover")
    # long random histories: stale index entries need value changes, removals, deletions and id reuse to line up
    walks = sim_walks(ctx, gen("C11", 3, 1, 12, view=False, emit="", inv=INV, sim=True), "walks", 300 if q else 4000, 14)
    ctx.assume("<= 3 live nodes addressed through a tag property p (label-less MATCH (n {p: tag}), so no index is involved in "
               "addressing); labels {A,B}; constrained key k with values {1,2,absent}; one constraint :A(k), created at any point",
               "a statement touches one node; multi-row statements and constraints are exercised by C05",
               "a stored null and an absent property are not distinguished")
    for name, ss in (("cover", scripts), ("walks", walks)):
        sp = ctx.write_scripts(name, ss)
        # probes=2: label index, MATCH (n:L) scans and the unique-constraint index itself (registered holder of every value);
        # no index-backed property lookups: the ordinary property index is C02's subject
        tr = ctx.run_harness("cywrite", sp, name=name, args=["cap=8", "probes=2", "universe=i1,i2"])
        ctx.validate("CypherWrite_Trace", trace_cfg(4, 1, True), tr, name=name, corrupt=corrupt_dump)
