"""C30 column store = map: ColumnMap.tla / MC_ColumnMap.tla / ColumnMap_Trace.tla, harness bin columnar."""
import json, os
from ..core import ToolError

GEN = """SPECIFICATION Spec
CONSTANTS MRows = {rows}
          MKeys = {keys}
          MVals = {vals}
          LoadLo = 2
          LoadN = 3
          MaxHist = {maxh}
          Legacy = {legacy}
{emit}
INVARIANTS TypeOK LastWriteWins KeysExact
CHECK_DEADLOCK FALSE
"""

TRACE = """SPECIFICATION TSpec
CONSTANTS OpenKF = @OPENKF@
INVARIANTS TypeOK
POSTCONDITION Post
CHECK_DEADLOCK FALSE
"""

# pre-built columns (shape-kind) x instantiation of the six row classes (near = base-1, base, mid, top,
# top+1, far; break = the break-even rows of dense_is_smaller on both sides, and row 0)
SC_QUICK = ["dense-int-near", "dense-str-break", "sparse-bool-near", "gappy-float-near"]
SC_FULL = ["%s-%s-%s" % (s, k, i) for s in ("dense", "sparse", "gappy") for k in ("int", "str", "float", "bool")
           for i in ("near", "break")] + ["desc-int-near", "desc-str-break", "big-int-near", "big-bool-break"]

# every representation change of columnar.rs must have been crossed by the replayed behaviours
MUST_CROSS = ["sparse->dense", "dense->sparse", "dense:grow-up", "dense:rebase-down", "dense->other", "sparse->other",
              "dense:remove", "dense:fill-gap"]


def corrupt(ev, rng):
    """change one logged read (token) of the event; a Scan without reads has nothing cheap to corrupt"""
    o = ev.get("obs") or {}
    if o.get("reads"):
        r = o["reads"][rng.randrange(len(o["reads"]))]
        r[2] = "i:424242" if r[2] != "i:424242" else "null"
        return True
    return False


def check_cov(ctx, trace, label):
    cov = json.load(open(trace + ".cov.json"))
    ctx.cov.setdefault("representation_changes", {})[label] = cov
    missing = [k for k in MUST_CROSS + (["none->sparse", "none->other"] if label == "scripted" else []) if not cov.get(k)]
    if missing:
        raise ToolError("C30 %s: representation changes never crossed by the replayed behaviours: %s" % (label, missing))


def run(ctx):
    q = ctx.quick
    W = dict(workers=min(4, int(os.environ.get("VERIF_WORKERS", "4"))))
    # self-test: before #594 remove_property did not exist (the column kept its copy): TLC must refute LastWriteWins
    ctx.tlc_gen("MC_ColumnMap", GEN.format(rows="{1,2,3}", keys='{"a"}', vals='{"v1"}', maxh=2, legacy="TRUE", emit=""),
                "legacy-selftest", expect_violation=True, workers=2)
    full = dict(rows="{1,2,3,4,5,6}", keys='{"a","b"}', vals='{"v1","v2","w1","o1","nul"}')    # 78 operations
    mid = dict(rows="{1,2,3,4,5,6}", keys='{"a","b"}', vals='{"v1","w1","nul"}')               # 54
    red = dict(rows="{1,2,3,4,5,6}", keys='{"a"}', vals='{"v1","w1","nul"}')                   # 30
    edge = dict(rows="{1,2,5,6}", keys='{"a"}', vals='{"v1","w1"}')                            # 16
    edge1 = dict(rows="{1,2,5,6}", keys='{"a"}', vals='{"v1"}')                                # 12
    tiny = dict(rows="{1,6}", keys='{"a"}', vals='{"v1"}')                                     # 6
    E = "ACTION_CONSTRAINT EmitLeaf"

    def gen(name, alpha, maxh):
        # every operation sequence of length maxh over the row classes (no VIEW: the implementation's
        # representation depends on the history, not on the abstract map)
        return ctx.tlc_gen("MC_ColumnMap", GEN.format(maxh=maxh, legacy="FALSE", emit=E, **alpha), name, timeout=3000, **W)

    if q:
        runs = [("mid2", gen("allseq2-mid", mid, 2), SC_QUICK),
                ("edge3", gen("allseq3-edge", edge, 3), ["dense-int-break"])]
    else:
        runs = [("full2", gen("allseq2-full", full, 2), SC_FULL[::3]),
                ("red3", gen("allseq3-reduced", red, 3), ["dense-int-break", "sparse-str-near"]),
                ("edge4", gen("allseq4-edge", edge1, 4), ["dense-float-break", "gappy-int-near"]),
                ("tiny5", gen("allseq5-tiny", tiny, 5), ["dense-int-near", "dense-bool-break", "sparse-int-near", "gappy-str-break"])]
    ctx.assume("rows are instantiated from six classes per pre-built column (base-1, base, mid, top, top+1, far / the break-even rows of "
               "dense_is_smaller); values from {same type, the type's default, other primitive type, DateTime, Null}",
               "Set(Null): the read after it is checked (null); whether get_property_keys lists such a key is left open because the property "
               "does not say whether an explicit null is 'a value' (the code lists it, its doc comment says non-null only)",
               "Column::len / is_dense and the order of get_property_keys are not constrained")
    for k, (name, scripts, scen) in enumerate(runs):
        sp = ctx.write_scripts("columnar-" + name, scripts, prefix=name)
        tr = ctx.run_harness("columnar", sp, name="columnar-" + name, args=["scenarios=" + ",".join(scen)], timeout=3000)
        if k == 0:
            check_cov(ctx, tr, "scripted")
        ctx.validate("ColumnMap_Trace", TRACE, tr, name="ColumnMap_Trace-" + name, corrupt=corrupt, timeout=3000)
    # impl -> spec: seeded adversarial random sequences
    nscr, nev = (8, 3000) if q else (80, 5000)
    rnd = [{"sid": "rnd-%d" % i, "random": {"seed": ctx.seed * 100003 + i, "events": nev}} for i in range(nscr)]
    sp = ctx.write_scripts("columnar-random", rnd, wrap=False)
    tr = ctx.run_harness("columnar", sp, name="columnar-random", timeout=3000)
    check_cov(ctx, tr, "random")
    ctx.validate("ColumnMap_Trace", TRACE, tr, name="ColumnMap_Trace-random", corrupt=corrupt, timeout=3000)
