"""C28 hierarchy index: Hierarchy.tla / MC_Hierarchy.tla / Hierarchy_Trace.tla, harness bin hier."""
import json, os
from .c29 import drop_prefixes, cap

GEN = """SPECIFICATION Spec
CONSTANTS Nodes = {nodes}
          MVals <- {mvals}
          Inits <- {inits}
          Encs = {encs}
          MaxUpd = {maxupd}
          MaxEdge = {maxedge}
          Legacy = {legacy}
          Ordered = {ordered}
{emit}
INVARIANTS TypeOK Fresh {inv}
CHECK_DEADLOCK FALSE
"""

TRACE = """SPECIFICATION TSpec
CONSTANTS Nodes {nodes}
          OpenKF = @OPENKF@
INVARIANTS TypeOK Fresh
POSTCONDITION Post
CHECK_DEADLOCK FALSE
"""

ALLENC = '{"auto","nested-set","near-tree","chain"}'
E = "ACTION_CONSTRAINT Emit"


def corrupt(ev, rng):
    """flip one logged answer of a usable index / one query row"""
    o = ev.get("obs") or {}
    a = o.get("ans")
    if a and a.get("sub"):
        r = a["sub"][rng.randrange(len(a["sub"]))]
        r[2] = not r[2]
        return True
    c = o.get("certs")
    if c and c.get("roots"):
        r = c["roots"][0]
        r["roll"][0][1] = r["roll"][0][1] + 2 if isinstance(r["roll"][0][1], int) else 0
        return True
    return False


def run(ctx):
    q = ctx.quick
    W = min(6, int(os.environ.get("VERIF_WORKERS", "6")))
    # self-test: a measure removal that does not reach the index leaves a "fresh" index that disagrees with the graph
    ctx.tlc_gen("MC_Hierarchy", GEN.format(nodes="{1,2}", mvals="MV2", inits="Inits2", encs='{"auto"}', maxupd=1, maxedge=0, legacy="TRUE", emit="", inv="", ordered="FALSE"),
                "legacy-selftest", expect_violation=True, workers=2)
    # OehIndex level: ALL labelled DAGs x every encoding that can be forced x ALL measure-update sequences
    # (thorough: every sequence <= 3 over 3 nodes; a seeded sample of 100000 of the sequences <= 2 over 4 nodes; every 5-node DAG up to renaming)
    api = drop_prefixes(ctx.tlc_gen("MC_Hierarchy", GEN.format(nodes="{1,2,3}", mvals="MV3", inits="Inits3a", encs=ALLENC, maxupd=2 if q else 3,
                                                               maxedge=0, legacy="FALSE", emit=E, inv="AnswersMatchGraph", ordered="FALSE"),
                                    "dags3", workers=W, timeout=3000))
    api = cap(ctx, api, 10**9 if q else 70000, "3-node DAGs x update sequences <= 3")
    a4 = drop_prefixes(ctx.tlc_gen("MC_Hierarchy", GEN.format(nodes="{1,2,3,4}", mvals="MV2" if q else "MV3", inits="Inits4", encs=ALLENC,
                                                              maxupd=1 if q else 2, maxedge=0, legacy="FALSE", emit=E, inv="", ordered="FALSE"),
                                   "dags4", workers=W, timeout=3000))
    api += cap(ctx, a4, 10**9 if q else 100000, "4-node DAGs x update sequences <= 2")
    if not q:
        # 5 nodes: every DAG up to renaming of its nodes (edges from larger to smaller numbers: 1024), one update each
        api += drop_prefixes(ctx.tlc_gen("MC_Hierarchy", GEN.format(nodes="{1,2,3,4,5}", mvals="MV2", inits="Inits5", encs=ALLENC,
                                                      maxupd=1, maxedge=0, legacy="FALSE", emit=E, inv="", ordered="TRUE"), "dags5", workers=W, timeout=3400))
    # manager / GraphStore / planner level: index declared over the store, measure writes, covering-edge writes, rebuilds
    st = ctx.tlc_gen("MC_Hierarchy", GEN.format(nodes="{1,2,3}", mvals="MV3", inits="Inits3a" if q else "Inits3", encs='{"auto"}',
                                                maxupd=1, maxedge=1 if q else 2, legacy="FALSE", emit=E, inv="AnswersMatchGraph", ordered="FALSE"), "store3", workers=W, timeout=3000)
    if not q:
        st += ctx.tlc_gen("MC_Hierarchy", GEN.format(nodes="{1,2,3,4}", mvals="MV2", inits="Inits4", encs='{"auto"}',
                                                     maxupd=1, maxedge=1, legacy="FALSE", emit=E, inv="", ordered="FALSE"), "store4", workers=W, timeout=3000)
    st = cap(ctx, drop_prefixes(st), 10**9 if q else 30000, "store histories")
    ctx.cov["scripts_after_prefix_removal"] = len(api) + len(st)
    ctx.assume("every acyclic relation over <= 4 labelled nodes (thorough: plus every 5-node DAG up to renaming) is enumerated, i.e. the covering relations AND their "
               "non-reduced supersets; measures are integers and halves (floats k/2), NoM = property absent",
               "a measure write may always mark the index stale instead of being absorbed; a stale index must not answer",
               "COUNT = |{y} + descendants(y)| (answered structurally, as the planner rewrite of count(d) needs)",
               "label-restricted measures (MEASURE Label.prop) are exercised with a fixed labelling (odd nodes carry the label); labels "
               "are not changed after the index is built",
               "planner clause: six query shapes per root (sum/count/min/max roll-up, descendants in both spellings) run on a store with "
               "the index and on a twin without; subsumes()-predicate shapes are not compared because without a usable index the "
               "function has no expansion to fall back to")
    sp = ctx.write_scripts("hier-api", api, prefix="api")
    tr = ctx.run_harness("hier", sp, name="hier-api", args=["layers=api"], timeout=3000)
    ctx.validate("Hierarchy_Trace", TRACE.format(nodes="= {1,2,3,4,5}"), tr, name="Hierarchy_Trace-api", corrupt=corrupt, timeout=3000)
    sp = ctx.write_scripts("hier-store", st, prefix="st")
    tr = ctx.run_harness("hier", sp, name="hier-store", args=["layers=store"], timeout=3000)
    ctx.validate("Hierarchy_Trace", TRACE.format(nodes="= {1,2,3,4,5}"), tr, name="Hierarchy_Trace-store", corrupt=corrupt, timeout=3000)
    # the same histories with every write issued as a Cypher statement, and with a label-restricted measure
    # (quick: every third history)
    sp = ctx.write_scripts("hier-store2", st[::3] if q else st, prefix="st2")
    tr = ctx.run_harness("hier", sp, name="hier-store2", args=["layers=store-cy,store-lab"], timeout=3000)
    ctx.validate("Hierarchy_Trace", TRACE.format(nodes="= {1,2,3,4,5}"), tr, name="Hierarchy_Trace-store2", corrupt=corrupt, timeout=3000)
    if not q:
        # random trees / forests / near-trees / low-width DAGs up to 300 nodes, certificate-style observations
        shapes = ["tree", "forest", "near", "dag", "chainy"]
        rnd = [{"sid": "big-%d" % i, "random": {"seed": ctx.seed * 15485863 + i, "n": [40, 120, 300][i % 3], "shape": shapes[i % 5], "updates": 6}}
               for i in range(30)]
        sp = ctx.write_scripts("hier-random", rnd, wrap=False)
        tr = ctx.run_harness("hier", sp, name="hier-random", timeout=3000)
        ctx.validate("Hierarchy_Trace", TRACE.format(nodes="<- N300"), tr, name="Hierarchy_Trace-random", corrupt=corrupt, timeout=3000)
