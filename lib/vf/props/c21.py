"""C21 RESP decoder safety on arbitrary bytes: Resp.tla (grammar, Probe), MC_RespProbe.tla, Resp_Trace.tla, harness bin resp."""
from . import resp_common as R


def run(ctx):
    q = ctx.quick
    nmax = 5 if q else 6
    # grammar lemmas on every byte string of length <= 4 (quick) / 5 (thorough) over the 13-symbol alphabet, and the
    # Exhaust scripts (one per 2-byte prefix and length; the harness expands them, the trace spec re-enumerates them)
    scripts = ctx.tlc_gen("MC_RespProbe", R.probe("Spec", "Lemma EmitExhaust", n=4 if q else 5, p=2, nmax=nmax), "exhaust", workers=6, timeout=2400)
    # mutants of valid frames: byte replaced / inserted / deleted, lengths replaced by negative / huge / malformed texts, nesting
    scripts += ctx.tlc_gen("MC_RespProbe", R.probe("MSpec", "Lemma EmitProbe"), "mutants", workers=6, timeout=1800)
    scripts += ctx.tlc_gen("MC_RespProbe", R.probe("BigSpec", "EmitBig"), "big", workers=2)
    ctx.assume(R.ASSUME_GRAMMAR, R.ASSUME_LIMITS,
               "reservation = peak of live heap bytes above the level at the start of the decode call (counting global allocator in a "
               "forked worker, 2 MiB stack as on a tokio worker thread); bound 32 * bytes received + 1024",
               "exhaustive: all strings of length <= %d over {* $ + - : _ 0 1 2 9 a CR LF}; mutants and nesting are a fixed TLC-generated set" % nmax)
    sp = ctx.write_scripts("resp-probe", scripts)
    tr = ctx.run_harness("resp", sp, name="resp-probe", timeout=3000)
    ctx.validate("Resp_Trace", R.TRACE, tr, name="probe", corrupt=R.corrupt_res, timeout=2400)
