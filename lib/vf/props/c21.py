"""C21 RESP decoder safety on arbitrary bytes: Resp.tla (grammar, Probe), MC_RespProbe.tla, Resp_Trace.tla, harness bin resp."""
from . import resp_common as R


def run(ctx):
    q = ctx.quick
    nmax = 4 if q else 5
    # grammar lemmas on every byte string of length <= 4 over the 13-symbol alphabet {* $ + - : _ 0 1 2 9 a CR LF}, and the
    # Exhaust scripts (one per 2-byte prefix and length; the harness expands them, the trace spec re-enumerates them)
    scripts = ctx.tlc_gen("MC_RespProbe", R.probe("Spec", "Lemma EmitExhaust", n=4, p=2, nmax=nmax), "exhaust13", timeout=2400)
    if not q:
        # length 6 (and the lemmas up to length 5) over the 9 structural symbols {* $ - 0 1 2 9 CR LF}
        scripts += ctx.tlc_gen("MC_RespProbe", R.probe("Spec", "Lemma EmitExhaust", alpha="Alpha9", n=5, p=2, nmin=6, nmax=6), "exhaust9", timeout=2400)
    # mutants of valid frames: byte replaced / inserted / deleted, lengths replaced by negative / huge / malformed texts, nesting
    # (+ Big scripts: 41 .. 600000 nested array headers)
    scripts += ctx.tlc_gen("MC_RespProbe", R.probe("MSpec", "Lemma EmitProbe"), "mutants", timeout=1800)
    ctx.assume(R.ASSUME_GRAMMAR, R.ASSUME_LIMITS,
               "reservation = peak of live heap bytes above the level at the start of the decode call (counting global allocator in a "
               "forked worker, 2 MiB stack as on a tokio worker thread); bound 32 * bytes received + 1024",
               "exhaustive: all strings of length <= %d over {* $ + - : _ 0 1 2 9 a CR LF}%s; mutants and nesting are a fixed "
               "TLC-generated set" % (nmax, "" if q else " and of length 6 over {* $ - 0 1 2 9 CR LF}"))
    sp = ctx.write_scripts("resp-probe", scripts)
    tr = ctx.run_harness("resp", sp, name="resp-probe", timeout=3000)
    ctx.validate("Resp_Trace", R.TRACE, tr, name="probe", corrupt=R.corrupt_res, timeout=2400)
