"""C03 parsed-query cache: QueryCache.tla / MC_QueryCache.tla / QueryCache_Trace.tla, harness bin qcache."""
import json

GEN = """SPECIFICATION Spec
CONSTANTS KeyMode = "{key}"
  Evict = "lru"
  Bases = {bases}
  Edits = "{edits}"
  Caps = {caps}
  MaxHist = {maxh}
  TabDom <- Fam
{view}
{emit}
INVARIANTS Correct EntriesSound Bounded NoDuplicateKeys {extra}
CHECK_DEADLOCK FALSE
"""

TRACE = """SPECIFICATION TSpec
CONSTANTS KeyMode = "raw"
  Evict = "any"
  OpenKF = @OPENKF@
  Text <- Render
  Mng <- Meaning
INVARIANTS Correct
POSTCONDITION Post
CHECK_DEADLOCK FALSE
"""

ALL = "{1,2,3,4,5,6}"


def corrupt(ev, rng):
    # the engine answers something else than a fresh parse + execution of the exact string
    if ev.get("ev") != "Exec":
        return False
    ev["obs"]["cached"] = ev["obs"]["cached"] + "~"
    return True


def run(ctx):
    q = ctx.quick
    W = 4

    def gen(name, **kw):
        d = dict(key="outside", bases=ALL, edits="single", caps="{2}", maxh=3, view="", emit="", extra="")
        d.update(kw)
        ev = d.pop("expect_violation", False)
        sim = d.pop("simulate", None)
        to = d.pop("timeout", 1800)
        return ctx.tlc_gen("MC_QueryCache", GEN.format(**d), name, workers=W, expect_violation=ev, simulate=sim, timeout=to)

    # self-test: with the pinned tree's key (blanks collapsed everywhere) TLC must find RETURN 'a  b' after RETURN 'a b'
    gen("legacy-selftest", key="legacy", bases="{1}", edits="strings", maxh=3, expect_violation=True)
    gen("legacy-key-selftest", key="legacy", bases="{3}", edits="single", maxh=0, extra="KeyOK", expect_violation=True)
    # the repaired key and the raw string never identify strings of different meaning (whole family, one state)
    gen("key-outside", key="outside", edits="single" if q else "double", maxh=0, extra="KeyOK")
    gen("key-raw", key="raw", edits="single", maxh=0, extra="KeyOK")
    scripts = []
    # every ordered pair of near-duplicates of each base query (sequence-exhaustive, capacity 2)
    for b in (1, 2, 3, 4, 5, 6):
        scripts += gen("pairs-b%d" % b, bases="{%d}" % b, maxh=3, emit="ACTION_CONSTRAINT EmitLeaf")
    # every triple inside the family in which the legacy keys collide (eviction in between)
    if not q:
        for b, caps in ((1, (2,)), (2, (2,)), (3, (1, 2, 3)), (4, (2,)), (5, (2,))):
            for cap in caps:
                scripts += gen("triples-b%d-c%d" % (b, cap), bases="{%d}" % b, edits="strings", caps="{%d}" % cap, maxh=4,
                               emit="ACTION_CONSTRAINT EmitLeaf")
    # transition cover of the design model (one script per transition of the cache-state graph), capacities 1 and 2
    scripts += gen("cover", bases="{3}" if q else "{1,3}", edits="strings", caps="{1,2}", maxh=4, view="VIEW View",
                   emit="ACTION_CONSTRAINT Emit")
    # long seeded random walks over every single-edit variant TLC emitted above (TLC's own -simulate mode spends seconds per
    # step on this model); the trace specification re-renders every text from the variant, so the binding is still checked
    pool, seen = [], set()
    for sc in scripts:
        for st in sc:
            if st["op"] == "Exec":
                k = json.dumps(st["v"], sort_keys=True)
                if k not in seen:
                    seen.add(k)
                    pool.append(st)
    for k in range(150 if q else 3000):
        walk = [{"op": "Open", "cap": ctx.rng.choice([1, 2, 3])}]
        fam = ctx.rng.choice([1, 2, 3, 4, 5, 6, 0])      # mostly inside one base query, sometimes across all
        cand = [st for st in pool if fam == 0 or st["v"]["b"] == fam]
        for i in range(12):
            st = dict(ctx.rng.choice(cand))
            st["path"] = ctx.rng.choice(["read", "mut"])
            walk.append(st)
        scripts.append(walk)
    ctx.assume("queries are 6 base queries over a fixed 4-node graph and their near-duplicates: one spelling edit (keyword case, "
               "quote kind, blanks/tab/newline/case inside a string literal, identifier case, back-ticks, letter case of a variable / map key / result column) and/or one separator edit "
               "(blanks, tab, newline, CRLF, block comment, line comment with and without its newline) and leading blanks",
               "meaning is defined on tokens: keywords case-insensitive, everything else verbatim; a cache hit is legitimate only for "
               "an entry parsed from a string of the same meaning; key function, capacity handling and eviction order are left open",
               "hit/miss is read from QueryEngine::cache_stats(); capacities 1..3")
    sp = ctx.write_scripts("qcache", scripts)
    tr = ctx.run_harness("qcache", sp)
    ctx.validate("QueryCache_Trace", TRACE, tr, jobs=int(__import__("os").environ.get("VERIF_JOBS", "4")), corrupt=corrupt)
