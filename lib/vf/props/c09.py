"""C09 first-committer-wins transactions: Txn.tla, MC_Txn.tla, Txn_Trace.tla, harness bin txn."""

GEN = """SPECIFICATION Spec
CONSTANTS Entities = {ents}
          MaxTxn = {maxt}
          MaxHist = {maxh}
          Legacy = {legacy}
{view}
CONSTRAINT Bound
{emit}
INVARIANTS TypeOK CommitVersionsIncrease FirstCommitterWins {extra}
PROPERTY FinishedStayFinished
CHECK_DEADLOCK FALSE
"""

TRACE = """SPECIFICATION TSpec
CONSTANTS Entities = {"n1", "n2", "e1"}
          MaxTxn = 100
          OpenKF = @OPENKF@
INVARIANTS TypeOK CommitVersionsIncrease FirstCommitterWins
POSTCONDITION Post
CHECK_DEADLOCK FALSE
"""

E3 = '{"n1", "n2", "e1"}'
E2 = '{"n1", "e1"}'


def run(ctx):
    q = ctx.quick
    ctx.tlc_gen("MC_Txn", GEN.format(ents=E2, maxt=2, maxh=8, legacy="TRUE", view="VIEW View", emit="", extra=""),
                "legacy-selftest", expect_violation=True, workers=4)
    # all interleavings of 2 transactions over 3 entities: one script per transition of the state graph
    scripts = ctx.tlc_gen("MC_Txn", GEN.format(ents=E3, maxt=2, maxh=9, legacy="FALSE", view="VIEW View",
                                               emit="ACTION_CONSTRAINT Emit", extra=""), "cover-2txn-3ent", coverage=True)
    # all interleavings of 3 transactions over 2 entities: design check; scripts per transition in thorough, walks in quick
    scripts += ctx.tlc_gen("MC_Txn", GEN.format(ents=E2, maxt=3, maxh=12, legacy="FALSE", view="VIEW View",
                                                emit="" if q else "ACTION_CONSTRAINT Emit", extra=""), "design-3txn-2ent", timeout=1800)
    scripts += ctx.tlc_gen("MC_Txn", GEN.format(ents=E3, maxt=3 if q else 4, maxh=24, legacy="FALSE", view="", emit="", extra="SimEmit"),
                           "walks", simulate=(1500 if q else 20000, 25), workers=4)
    ctx.assume("entities n1,n2 (nodes) and e1 (relationship); reads are observed on node n1 through a version marker property the "
               "harness rewrites after every successful commit (relies on copy-on-write of set_node_property)",
               "finished transactions may be forgotten by GC: status 'gone' is accepted for them")
    sp = ctx.write_scripts("txn", scripts)
    tr = ctx.run_harness("txn", sp)
    ctx.validate("Txn_Trace", TRACE, tr)
