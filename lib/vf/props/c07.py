"""C07 versioned reads / C08 version GC: Mvcc.tla, MC_Mvcc.tla, Mvcc_Trace.tla, harness bin mvcc."""

GEN = """SPECIFICATION Spec
CONSTANTS MaxN = {maxn}
          MaxE = {maxe}
          MaxV = {maxv}
          Labels = {{"A"}}
          Vals = {vals}
          MaxHist = {maxh}
{view}
CONSTRAINT Bound
{emit}
INVARIANTS TypeOK {inv}
{prop}
CHECK_DEADLOCK FALSE
"""

TRACE = """SPECIFICATION TSpec
CONSTANTS MaxN = {maxn}
          MaxE = {maxe}
          MaxV = {maxv}
          Labels = {{"A"}}
          Vals = {{"v1", "v2"}}
          OpenKF = @OPENKF@
INVARIANTS TypeOK
POSTCONDITION Post
CHECK_DEADLOCK FALSE
"""


def is_gc(step):
    return step["op"] in ("Gc", "GcAuto", "BeginTxn", "EndTxn")


from ..core import corrupt_field


def run(ctx, gc=False):
    q = ctx.quick
    # design level: the pinned structures do NOT refine the ideal history (witnesses of the open findings)
    ctx.tlc_gen("MC_Mvcc", GEN.format(maxn=1, maxe=1, maxv=3, vals='{"v1"}', maxh=6, view="VIEW View", emit="",
                                      inv="ImplRefinesIdeal", prop=""), "impl-witness", expect_violation=True, workers=4)
    # design level: the ideal history satisfies C07(ii) and C08 (action properties); transition cover emitted
    scripts = ctx.tlc_gen("MC_Mvcc", GEN.format(maxn=1, maxe=1, maxv=3, vals='{"v1"}', maxh=5 if q else 7, view="VIEW View",
                                                emit="ACTION_CONSTRAINT Emit", inv="", prop="PROPERTY HistoryStable GcKeeps"),
                          "cover", workers=1, timeout=3000, coverage=True)
    walks = ctx.tlc_gen("MC_Mvcc", GEN.format(maxn=2, maxe=1, maxv=5, vals='{"v1", "v2"}', maxh=24, view="", emit="",
                                              inv="SimEmit", prop=""), "walks", simulate=(600 if q else 8000, 25), workers=4)
    # relationships only, two values: one script per transition of (state, what the last GC pass drained) -- ViewP keeps apart
    # the states a GC pass reached by draining a log down to its base entry from the same states reached without draining, so a
    # later write of ANOTHER value is replayed after both (seven steps, two values: out of reach of the cover above)
    edges = ctx.tlc_gen("MC_Mvcc", GEN.format(maxn=0, maxe=1, maxv=3 if q else 4, vals='{"v1", "v2"}', maxh=7, view="VIEW ViewP",
                                              emit="ACTION_CONSTRAINT Emit", inv="", prop=""), "edges", workers=1, timeout=3000)
    if gc:
        edges = [s for s in edges if any(is_gc(st) for st in s)]
    else:
        edges = [s for s in edges if not any(is_gc(st) for st in s)]
    if gc:
        scripts = [s for s in scripts if any(is_gc(st) for st in s)]
        walks = [s for s in walks if any(is_gc(st) for st in s)]
    else:
        scripts = [s for s in scripts if not any(is_gc(st) for st in s)]
        walks = [[st for st in s if not is_gc(st)] for s in walks]
    ctx.assume("universe: <=2 nodes, 1 relationship (between two permanent anchor nodes), versions <=5, one label, one property key",
               "the global version is advanced by committing an empty transaction",
               "reads released by GC (versions below the watermark and below the current version) are unconstrained")
    for name, ss, (mn, me, mv) in (("cover", scripts, (1, 1, 3)), ("edges", edges, (0, 1, 3 if q else 4)), ("walks", walks, (2, 1, 5))):
        sp = ctx.write_scripts(name, ss)
        tr = ctx.run_harness("mvcc", sp, name=name, args=["maxn=%d" % mn, "maxe=%d" % me])
        ctx.validate("Mvcc_Trace", TRACE.format(maxn=mn, maxe=me, maxv=mv), tr, name=name, corrupt=corrupt_field("cur"))
