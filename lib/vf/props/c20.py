"""C20 RESP framing under chunking / pipelining: Resp.tla, MC_Resp.tla, Resp_Trace.tla, harness bin resp."""
from . import resp_common as R

SMALL = "{1,2,3,4,6,7,8,10,15,16}"      # self-test universe (no CR/LF-bearing command names)
QUICK = "{1,2,3,4,7,8,11,12,15,16}"
LIVE = "{1,2,3,4,5,7,11,12,13,15,16,18,20,21,22}"
MINQ = "{4,6,18,20,21,22}"
MINIMAL = "{4,6,8,18,19,20,21,22,23}"   # frames built from minimal-size elements (arrays of RESP3 nulls, *0) + two ordinary ones


def run(ctx):
    q = ctx.quick
    # self-test: the pinned tree's decoder (header consumed before "incomplete") must violate the design invariants
    ctx.tlc_gen("MC_Resp", R.mc(2, 2, univ=SMALL, legacy='{"decode"}', emit=""), "legacy-decode-selftest", expect_violation=True)
    # every stream of <= 2 frames of the universe (10 of its 16 frames in the quick tier) x EVERY split into <= 2 reads, every
    # single frame x every split into <= 3 (thorough: 4) reads; the round-trip / prefix lemmas are checked by the same run
    scripts = ctx.tlc_gen("MC_Resp", R.mc(2, 2, 3 if q else 4, univ=QUICK if q else R.ALL, lemmas=True), "cover", timeout=2400, coverage=True)
    # frames made of minimal-size elements (arrays of 1..3 RESP3 nulls, nested all-null arrays, an integer next to an all-null
    # array, the empty array): alone, as the LAST frame of a pipeline and followed by another frame, under every split
    scripts += ctx.tlc_gen("MC_Resp", R.mc(2, 2 if q else 3, 3 if q else 4, univ=MINQ if q else MINIMAL), "minimal", timeout=2400)
    if not q:
        # every pair (10-frame universe) x every split into <= 3 reads, every triple of a smaller universe x <= 2 reads
        scripts += ctx.tlc_gen("MC_Resp", R.mc(2, 3, univ=QUICK), "pairs-3chunks", timeout=2400)
        scripts += ctx.tlc_gen("MC_Resp", R.mc(3, 2, univ="{1,3,4,7,12,15}"), "triples-2chunks", timeout=2400)
    # random larger streams: <= 6 frames, <= 6 reads
    scripts += ctx.tlc_gen("MC_Resp", R.mc(6, 6, emit="", inv="SimEmit " + R.DESIGN_INV), "walks", simulate=(60 if q else 3000, 40))
    # the same behaviours through a socket of a live RespServer
    # ... and connections whose first frame is a 20 000 byte ECHO (kept run-length encoded in model, scripts and trace)
    # followed by PING / inline PING (thorough: 6 followers), written in <= 3 pieces cut inside the big payload and at EVERY
    # byte of the follower: what the connection loop does with a grown receive buffer must not depend on the chunking
    live = ctx.tlc_gen("MC_Resp", R.mc(2, 2, 2 if q else 3, univ="{3,4,12,16,18,22}" if q else LIVE, live=True, bign=20000,
                                        biguniv="{5,15}" if q else "{4,5,12,13,15,16}",
                                        bigcuts="{1,16385}" if q else "{1,4096,8192,16384,16385,19999}", bigchunks=3),
                       "live", timeout=2400, coverage=True)
    ctx.assume(R.ASSUME_GRAMMAR, R.ASSUME_LIMITS,
               "in-process runs drive RespValue::decode / handle_command / encode exactly as handle_connection does (one Deliver per "
               "socket read); the live runs cannot force the kernel to keep two writes in two reads (1.5 ms pause, TCP_NODELAY)",
               "replies are pinned only for PING / ECHO (pure commands); for other frames exactly one well-formed reply is required")
    sp = ctx.write_scripts("resp-stream", scripts)
    tr = ctx.run_harness("resp", sp, name="resp-stream")
    ctx.validate("Resp_Trace", R.TRACE, tr, name="stream", corrupt=R.corrupt_res)
    sp = ctx.write_scripts("resp-live", live)
    tr = ctx.run_harness("resp", sp, name="resp-live")
    ctx.validate("Resp_Trace", R.TRACE, tr, name="live", corrupt=R.corrupt_res)
