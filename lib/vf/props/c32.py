"""C32 replicated requests have their persistence effect on every replica.
Persist.tla / MC_Persist.tla (Mode "seq", no crashes) / Persist_Trace.tla, harness bin persist mode=rep."""
from .persist_common import gen, TRACE, WORKERS, JOBS, corrupt_recover, cap, harness_env

INVS = "Atomic QuiescentStorageIsG"


def run(ctx):
    q = ctx.quick
    # self-test: with the pinned tree's update path (log only) storage differs from the effect of the requests
    ctx.tlc_gen("MC_Persist", gen(legacy_updates="TRUE", crash="FALSE", invs=INVS, maxops=2, maxhist=6),
                "legacy-selftest", expect_violation=True, workers=4)
    # self-test: a storage step that trusts the usage counter ("no nodes counted: nothing to update") loses an update once a
    # deletion of an id that was never stored has driven the counter to 0 (CreateNode 1; DeleteNode 2; UpdateNode 1)
    ctx.tlc_gen("MC_Persist", gen(skip_update="TRUE", crash="FALSE", invs=INVS, maxops=3, maxhist=6, edgeids="{}", labels="LS1"),
                "counter-selftest", expect_violation=True, workers=4)
    # UN-sampled: every sequence of <= 3 (quick) / <= 4 requests over a nodes-only alphabet (ids {1,2}: create {k:1}, delete,
    # update {k:2}; deletions / updates of absent ids included) and over its relationship analogue (two nodes given,
    # relationship ids {1,2}: create, delete, update), each followed by shutdown + recovery on every replica
    small = dict(crash="FALSE", invs=INVS, maxops=3 if q else 4, maxhist=6 if q else 7, createvals="{1}", view="",
                 emit="ACTION_CONSTRAINT EmitRec")
    exhaustive = ctx.tlc_gen("MC_Persist", gen(edgeids="{}", labels="LS1", **small), "nodes-all", workers=WORKERS, timeout=1800)
    exhaustive += ctx.tlc_gen("MC_Persist", gen(nodeids="{}", edgeids="{1, 2}", seedmain="TRUE", **small), "rels-all", workers=WORKERS,
                              timeout=1800)
    # UN-sampled, one replicated stream for SIBLING tenants: every sequence of <= 3 requests over {CreateNode, UpdateNode,
    # DeleteNode} x tenants {t1, t10} x ids {1,2} (t10's id extends t1's; it also starts with a node and a relationship of its
    # own), then shutdown and recovery of BOTH tenants, each judged against its own graph (thorough: also relationships)
    sib = dict(crash="FALSE", invs=INVS, maxops=3, maxhist=6, tenants='{"t1", "t10"}', optenants='{"t1", "t10"}', createvals="{1}",
               view="", emit="ACTION_CONSTRAINT EmitRec")
    exhaustive += ctx.tlc_gen("MC_Persist", gen(edgeids="{}", labels="LS1", **sib), "siblings-nodes", workers=WORKERS, timeout=1800)
    if not q:
        exhaustive += ctx.tlc_gen("MC_Persist", gen(nodeids="{}", edgeids="{1, 2}", seedmain="TRUE", **sib), "siblings-rels",
                                  workers=WORKERS, timeout=1800)
    # every request sequence of <= 2 (quick) / <= 3 requests over the full alphabet (requests incl. relationships to
    # missing nodes, deletions of absent ids, updates of absent ids), each followed by shutdown + recovery
    scripts = ctx.tlc_gen("MC_Persist", gen(crash="FALSE", invs=INVS, maxops=2, maxhist=5, labels="LS2", view="",
                                            emit="ACTION_CONSTRAINT EmitRec"),
                          "allseq2", workers=WORKERS, timeout=1800)
    scripts = cap(ctx, scripts, 110 if q else 1000)
    more = ctx.tlc_gen("MC_Persist", gen(crash="FALSE", invs=INVS, maxops=3, maxhist=6, labels="LS2", view="",
                                         emit="ACTION_CONSTRAINT EmitRec"),
                       "allseq3", workers=WORKERS, timeout=1800)
    # one sequence per reachable graph (<= 4 requests, three label lists, self-loops)
    more += ctx.tlc_gen("MC_Persist", gen(crash="FALSE", invs=INVS, maxops=4, maxhist=7, labels="LS3", ends="Ends2",
                                          emit="ACTION_CONSTRAINT EmitRec"),
                        "cover4", workers=WORKERS, timeout=1800)
    if not q:
        # every sequence of <= 4 requests over a one-node alphabet
        more += ctx.tlc_gen("MC_Persist", gen(crash="FALSE", invs=INVS, maxops=4, maxhist=7, nodeids="{1}", labels="LS2", view="",
                                              emit="ACTION_CONSTRAINT EmitRec"),
                            "allseq4", workers=WORKERS, timeout=1800)
    scripts += cap(ctx, more, 70 if q else 600)
    scripts += exhaustive
    # every script is one request sequence followed by Restart, Recover
    scripts = [s for s in scripts if [st["op"] for st in s[-2:]] == ["Restart", "Recover"]
               and not any(st["op"] in ("Restart", "Recover", "Crash") for st in s[1:-2])]
    ctx.assume("replayed without sampling: all sequences of <= 3 (quick) / <= 4 requests over {create, delete, update} x node ids {1,2}, "
               "and the same over relationship ids {1,2} between two given nodes; the other families are seeded samples",
               "also un-sampled: all sequences of <= 3 node requests addressed to tenants t1 and t10 in one stream (t10 holds a node and "
               "a relationship from the start); after the restart every registered tenant is recovered and judged against its own graph",
               "the other families: one tenant; node ids {1,2}, one relationship id, label lists [], [A], [A,B]; property maps {} or {k: v}; an update carries "
               "the full map {k: v} (replace = merge)",
               "a request answered with an error must have no effect, one answered without error must have its effect; whether a "
               "relationship to a missing node is accepted is left open (its answer decides), as long as every replica decides alike",
               "not generated: creating an id that currently exists, deleting a node that still has relationships",
               "wall-clock timestamps (created_at / updated_at) are not compared")
    reps = 2 if q else 3
    sp = ctx.write_scripts("persist-rep", scripts)
    tr = ctx.run_harness("persist", sp, name="persist-rep", args=["mode=rep", "replicas=%d" % reps, "jobs=%d" % min(JOBS, 6)], timeout=7200,
                         env=harness_env())
    ctx.validate("Persist_Trace", TRACE.format(bind_usage="FALSE"), tr, name="persist-rep", jobs=JOBS, corrupt=corrupt_recover)
