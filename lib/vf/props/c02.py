"""C02 results do not depend on indexes, storage tier, planner mode or process.  TLC generates graph HISTORIES (create /
delete / property and label changes with id reuse, Compact and CreateIndex steps at any point) x query templates whose plan
depends on indexes, the adjacency tier or the filter path (MC_CypherRead.tla, family c02).  The harness (bin cyread,
mode=c02) replays every history under {index steps executed / skipped} x {compact steps executed / skipped} x
{SAMYAMA_GRAPH_NATIVE unset / true} x {SAMYAMA_FILTER_PARALLEL_COST 0 / huge}, for linear queries also on a store holding
260 disjoint copies of the history (so that the >= 256-row parallel filter path runs), in several worker processes.
CypherRead_Trace.T_QueryC: every configuration's outcome must be the reference result on the LOGICAL graph (TLC evaluates
CypherRead!Poss); known deviations are explained from the modelled physical state (index content, frozen tier)."""
import concurrent.futures as cf
from .qread_common import *
from .c01 import replay

# random histories: (name, constants, quick / thorough number of walks)
WALKS = [
    dict(name="idxwalk", maxn=3, maxr=2, labels=ALL4, p="c02", r="one", types=T1, maxh=9, askat=5, quick=500, thorough=6000),
    dict(name="tierwalk", maxn=2, maxr=5, labels=L_NONE, p="none", r="one", types=T2, maxh=11, askat=7, quick=700, thorough=8000),
    dict(name="mixwalk", maxn=3, maxr=4, labels=L_A, p="c02b", r="one", types=T2, maxh=12, askat=7, quick=300, thorough=5000),
]


def run(ctx):
    q = ctx.quick
    jobs = [
        # design-level self-test: a planner deviation breaks "the answer is a function of the logical graph"
        ("dev-witness", gen_cfg("c02", maxn=2, maxr=1, labels=L_NONE, p="none", types=T1, canon=False, emit="", inv="DevAgrees",
                                dev='{"KF_C02_NativePlannerDropsPatternDetails"}'), None, 2, True),
        # every history of exactly 3 (thorough: 4) steps over 2 nodes / 1 relationship x every template
        ("hist", gen_cfg("c02", maxn=2, maxr=1, labels=L_A, p="num2", types=T1, canon=False, hist=True, maxh=4 if q else 5,
                         askat=3 if q else 4, inv="NoLaw"), None, 4, False),
    ]
    for w in WALKS:
        kw = {k: v for k, v in w.items() if k not in ("name", "quick", "thorough")}
        jobs.append((w["name"], gen_cfg("c02", canon=False, hist=True, sim=True, view="", emit="", inv="SimEmit", **kw),
                     (w["quick"] if q else w["thorough"], w["maxh"] + 2), 2, False))

    def one(job):
        name, cfg, sim, workers, expect = job
        return name, ctx.tlc_gen("MC_CypherRead", cfg, "gen-" + name, workers=workers, timeout=3000, simulate=sim, expect_violation=expect)

    with cf.ThreadPoolExecutor(max_workers=3) as ex:
        res = list(ex.map(one, jobs))
    scripts = []
    for name, ss in res:
        for k, st in enumerate(batch(ss, per=6)):
            scripts.append({"sid": "%s-%d" % (name, k), "steps": st})
    ctx.assume("histories: <= 3 nodes / <= 5 relationships created, labels {A,B}, values {absent, 1, 2, 2.0, 'a', true}; every history of "
               "3 (thorough 4) steps over 2 nodes / 1 relationship exhaustively, longer ones by random walks; each Compact / CreateIndex step "
               "is executed or skipped as a whole per configuration (CreateIndex = an index on every (label, key))",
               "a query is run on the 260-copy store only if it is one connected MATCH with a plain RETURN (its answer on k disjoint "
               "copies is k times the answer on one); the 260-copy store is never compacted, because the copies share the id free lists "
               "and a stale frozen entry of one copy would be revived by another copy",
               "mutations go through the GraphStore API (set_node_property, remove_node_property, delete_node, ...), not through Cypher")
    tr = replay(ctx, scripts, "c02", name="hist")
    # the same cases again in other worker processes (different HashMap RandomState seeds)
    again = [dict(s, sid=s["sid"] + "~p2") for s in scripts[::3]]
    tr2 = replay(ctx, again, "c02", name="hist2", args=["proc=2"])
    merged = ctx.path("c02.trace.ndjson")
    with open(merged, "w") as f:
        for t in (tr, tr2):
            for ln in open(t):
                if not ln.startswith('{"ev":"reset","sid":"end"}'):
                    f.write(ln)
        f.write('{"ev":"reset","sid":"end"}\n')
    n, ok, err = count_cases(merged)
    ctx.cov["executions"] = n
    ctx.log("%d distinct outcomes over the configuration matrix (%d answered, %d refused)" % (n, ok, err))
    ctx.validate("CypherRead_Trace", trace_cfg(ctx), merged, name="c02", corrupt=corrupt_outcome("out"), jobs=int(os.environ.get("VERIF_JOBS", "6")))
