"""C23 RESP and HTTP run every statement like the engine does: FrontEnds.tla / MC_FrontEnds.tla / FrontEnds_Trace.tla,
harness bin frontends (statement vocabulary shared with C24: Routing.tla)."""
import json, os
from vf.core import ToolError

WR = '{"none","CREATE","MERGE","SET","SETLBL","REMOVE","DELETE","DETACH","FOREACH","SETW","CREATEW","CRINDEX","CRCONS","DRINDEX","CRVEC","CRHIER","DRHIER"}'

GEN = """SPECIFICATION Spec
CONSTANTS Mode = "{mode}"
  MaxPre = {maxpre}
  Exs = {exs}
  Writes = {writes}
  Cases = {cases}
  Seps = {seps}
  Rets = {rets}
  Decos = {decos}
VIEW View
{emit}
INVARIANTS FTypeOK ReadPathNeverWrites ServeIsTwoSteps SameAsEngine
CHECK_DEADLOCK FALSE
"""

TRACE = """SPECIFICATION TSpec
CONSTANTS Mode = "parsed"
  OpenKF = @OPENKF@
INVARIANTS FTypeOK ReadPathNeverWrites
POSTCONDITION Post
CHECK_DEADLOCK FALSE
"""


def corrupt(ev, rng):
    # a front end that answers differently from the engine, or leaves a different graph behind
    if ev.get("ev") != "Serve":
        return False
    o = ev["obs"]
    if rng.randrange(2) == 0:
        o["out"] = "refused" if o["out"] == "rows" else "rows"
        ev["_corrupted"] = "out"
    else:
        o["dump"]["full"] += "~"
        ev["_corrupted"] = "dump/full"
    return True


def run(ctx):
    q = ctx.quick
    W = min(6, int(os.environ.get("VERIF_WORKERS", "4")))

    def gen(name, **kw):
        d = dict(mode="parsed", maxpre=1, exs='{""}', writes=WR, cases='{"upper","lower"}', seps='{"sp","tab","nl"}',
                 rets="{TRUE, FALSE}", decos='{"none"}', emit="ACTION_CONSTRAINT Emit")
        d.update(kw)
        ev = d.pop("expect_violation", False)
        return ctx.tlc_gen("MC_FrontEnds", GEN.format(**d), name, workers=W, expect_violation=ev, timeout=2400)

    # self-test: with the prefix/substring classifiers of the pinned tree TLC must find a misrouted statement
    gen("legacy-selftest", mode="legacy", emit="", expect_violation=True)
    # the exhaustive product: read prefixes x write/DDL clause x closing RETURN x keyword case x separator
    cases = gen("product", maxpre=1 if q else 2)
    # EXPLAIN / PROFILE in front
    WQ = '{"none","CREATE","SET","SETW","CREATEW","REMOVE","DETACH","CRINDEX","DRINDEX"}'
    cases += gen("explain", exs='{"EXPLAIN","PROFILE"}', maxpre=1, writes=WQ if q else WR, cases='{"upper"}' if q else '{"upper","lower"}',
                 seps='{"sp","nl"}' if q else '{"sp","tab","nl"}')
    # write keywords that are not clauses: string literals (blank- and newline-delimited), a UNION branch
    cases += gen("decorated", decos='{"kwlit","kwlitnl","union"}', rets="{FALSE}", maxpre=1, writes=WQ if q else WR,
                 cases='{"upper"}' if q else '{"upper","lower"}', seps='{"sp","nl"}')
    steps = [c[0] for c in cases]
    scripts = []
    for i in range(0, len(steps), 5):
        s = []
        for st in steps[i:i + 5]:
            s += [st, {"op": "Engine"}, {"op": "Serve", "r": "resp"}, {"op": "Serve", "r": "http"}]
        scripts.append(s)
    ctx.assume("statements = EXPLAIN/PROFILE? + up to %d leading read clauses (MATCH, OPTIONAL MATCH, UNWIND, WITH, CALL, RETURN) + at most one "
               "write/DDL clause (CREATE, MERGE, SET property/label, REMOVE, DELETE, DETACH DELETE, FOREACH, CREATE/DROP INDEX, CREATE CONSTRAINT, "
               "CREATE VECTOR INDEX, CREATE/DROP HIERARCHY INDEX) + closing RETURN?, keyword case upper/lower, separator blank/tab/newline; plus "
               "closing RETURNs whose string literals / UNION branch contain write keywords" % (1 if q else 2),
               "every statement runs on its own fresh copy of a fixed graph (2 unconnected Person, 2 City joined by 1 KNOWS, property index, unique constraint, "
               "hierarchy index) on each of the three routes; the graph effect is the full dump (nodes with labels and merged properties, "
               "relationships, SHOW INDEXES / CONSTRAINTS / HIERARCHY INDEXES, vector index list)",
               "the reference is the engine's own choice: QueryEngine::execute_mut iff the planner marks the parsed statement's plan is_write "
               "(and it is not EXPLAIN), else QueryEngine::execute",
               "rows are compared as sorted lists of cells rendered to the coarsest common form of the three replies (integers, strings, "
               "booleans, null, node/relationship ids); error messages are not compared; PROFILE rows (timings) are compared by columns only")
    sp = ctx.write_scripts("frontends", scripts)
    tr = ctx.run_harness("frontends", sp, timeout=3000)
    # anti-vacuity of the model's structure (not a verdict): whenever the engine executes a statement (without EXPLAIN/PROFILE) its own verdict equals
    # the model's EngineWrite, and every write/DDL kind is seen changing the dump at least once
    bad, kinds, mutating, w = [], set(), set(), None
    for ln in open(tr):
        ev = json.loads(ln)
        if ev.get("ev") == "Stmt":
            w = ev
        elif ev.get("ev") == "Engine":
            o = ev["obs"]
            if o["cls"] == "write" and not w["w"]:
                bad.append(w["text"])
            if o["out"] == "rows" and w["stmt"]["ex"] == "" and (o["cls"] == "write") != w["w"]:
                bad.append(w["text"])
            if w["w"]:
                kinds.add(w["stmt"]["w"])
                if o["dump"]["full"] != o["g0"]:
                    mutating.add(w["stmt"]["w"])
    ctx.cov["write_kinds_generated"] = sorted(kinds)
    ctx.cov["write_kinds_seen_mutating_the_fixed_graph"] = sorted(mutating)
    if bad or not kinds or kinds != mutating:
        raise ToolError("C23 model sanity: engine verdict differs from the model's structure for %s; write kinds never seen mutating: %s"
                        % (bad[:5], sorted(kinds - mutating)))
    ctx.validate("FrontEnds_Trace", TRACE, tr, jobs=int(os.environ.get("VERIF_JOBS", "6")), corrupt=corrupt)
