"""Shared by c26.py / c27.py: cfg texts for spec/MC_Algo.tla and spec/Algo_Trace.tla (harness bin: algo)."""
import os

WORKERS = min(int(os.environ.get("VERIF_WORKERS", "8")), 8)

GEN = """SPECIFICATION Spec
CONSTANTS Ns = {n}
          MaxE = {e}
          Weights = {w}
          NTypes = {t}
          NoRedistribution = {nored}
          Canonical = {canon}
INVARIANTS TypeOK {inv}
{emit}
CHECK_DEADLOCK FALSE
"""
EMIT = "ACTION_CONSTRAINT Emit"

TRACE = """SPECIFICATION TSpec
CONSTANT OpenKF = @OPENKF@
POSTCONDITION Post
CHECK_DEADLOCK FALSE
"""

W3, W2 = "{1, 2, 3}", "{1, 2}"


def gen(n, e, w=W3, t=1, inv="", emit=EMIT, nored="FALSE", canon="TRUE"):
    return GEN.format(n=n, e=e, w=w, t=t, inv=inv, emit=emit, nored=nored, canon=canon)


def graphs(ctx, families, tag):
    """families: list of (node counts "{..}", maxe, weights, ntypes); returns scripts (each = AddNode* AddEdge*)"""
    out = []
    for k, fam in enumerate(families):
        (n, e, w, t) = fam[:4]
        emit = "ACTION_CONSTRAINT " + (fam[4] if len(fam) > 4 else "Emit")
        out += ctx.tlc_gen("MC_Algo", gen(n, e, w, t, emit=emit), "%s-%d" % (tag, k), workers=min(WORKERS, 4), timeout=3000)
    return out


def batch(ctx, name, parts):
    """parts: list of (sid prefix, scripts); one script file with explicit sids (duplicates inside a part dropped)"""
    import json
    recs = []
    for prefix, scripts in parts:
        seen = set()
        for s in scripts:
            key = json.dumps(s, sort_keys=True)
            if key not in seen:
                seen.add(key)
                recs.append({"sid": "%s-%d" % (prefix, len(seen) - 1), "steps": s})
    return ctx.write_scripts(name, recs, wrap=False)


def mid_graphs(ctx, n5, n6, w=W3):
    walks = ctx.tlc_gen("MC_Algo", gen("{5}", 7, w=w, canon="FALSE", emit="", inv="SimEmit"), "mid5", simulate=(n5, 13), workers=1)
    walks += ctx.tlc_gen("MC_Algo", gen("{6}", 9, w=w, canon="FALSE", emit="", inv="SimEmit"), "mid6", simulate=(n6, 16), workers=1)
    return walks


def corrupt(ev, rng):
    """binding self-test: change one logged result so that it can no longer satisfy its definition"""
    k = ev.get("ev")
    if k in ("AddNode", "AddEdge"):
        return False          # corrupt a logged RESULT, not the graph construction
    runs = ev.get("runs")
    if k in ("RandGraph",):
        return False
    if k == "CertPaths":
        for r in ev["res"]:
            if r["found"] and r["cost"] > 0:
                r["cost"] += 1
                ev["_corrupted"] = "res/cost"
                return True
        return False
    if k == "CertWcc" or k == "CertScc":
        # merge node 1's class into another one (if there are two classes)
        c = ev["comp"]
        for i, x in enumerate(c):
            if x != c[0]:
                c[i] = c[0]
                ev["_corrupted"] = "comp/%d" % i
                return True
        return False
    if k == "CertFlow":
        ev["val"] = -1 - ev["val"]
        ev["_corrupted"] = "val"
        return True
    if not runs:
        return False
    r = runs[rng.randrange(len(runs))]
    if k == "Comp":
        if not r["nodes"]:
            return False
        r["nodes"][0] += 7
        w = "nodes/0"
    elif k == "Path":
        x = r["res"][rng.randrange(len(r["res"]))]
        x["found"] = not x["found"]
        w = "res/found"
    elif k == "AllPaths":
        x = r["res"][rng.randrange(len(r["res"]))]
        x["paths"].append([x["s"], x["s"], x["t"], 99])
        w = "res/paths"
    elif k == "Flow":
        if not r["res"]:
            return False
        r["res"][rng.randrange(len(r["res"]))]["val"] += 1
        w = "res/val"
    elif k == "Mst":
        r["total"] += 1
        w = "total"
    elif k in ("Tri", "Leap"):
        r["count"] += 1
        w = "count"
    elif k == "Lcc":
        if not r["val"]:
            return False
        r["val"][0] += 7
        w = "val/0"
    elif k == "Cdlp":
        if not r["lab"]:
            return False
        r["lab"][0] += 1
        w = "lab/0"
    elif k == "PageRank":
        if not r["val"]:
            return False
        r["val"][0] += 7
        w = "val/0"
    elif k in ("Rep", "RepRand"):
        r["total"] += 1
        w = "total"
    else:
        return False
    ev["_corrupted"] = "%s/%s/%s" % (k, r.get("via", r.get("algo", "?")), w)
    return True


ASSUME_GRAPH = ("a multigraph is a BAG of relationships: TLC enumerates every bag once (relationships appended in non-decreasing "
                "(s,d,w,type) order) and every graph is replayed in that insertion order and in the opposite one; other insertion "
                "orders of the same bag are covered only by the all-sequences run of the thorough tier")
