"""C06 graph store read views: GraphStore.tla, MC_GraphStore.tla, GraphStore_Trace.tla, harness bin gstore."""

GEN = """SPECIFICATION Spec
CONSTANTS MaxN = {maxn}
          MaxE = {maxe}
          Labels = {labels}
          Types = {types}
          Vals = {vals}
          MaxHist = {maxh}
          Full = {full}
          UseKF = {kf}
{view}
CONSTRAINT Bound
{emit}
INVARIANTS TypeOK {inv}
CHECK_DEADLOCK FALSE
"""
IDEAL_INV = "ViewsAgree NoDangling NothingInherited"

TRACE = """SPECIFICATION TSpec
CONSTANTS MaxN = {maxn}
          MaxE = {maxe}
          Labels = {{"A", "B"}}
          Types = {{"T", "U"}}
          Vals = {{"v1", "v2"}}
          OpenKF = @OPENKF@
INVARIANTS TypeOK IdealHolds
POSTCONDITION Post
CHECK_DEADLOCK FALSE
"""


from ..core import corrupt_field


def run(ctx):
    q = ctx.quick
    L1, L2, T1, T2 = '{"A"}', '{"A", "B"}', '{"T"}', '{"T", "U"}'
    # design-level self-test / witness: with the frozen-tier deviation the invariants fail
    ctx.tlc_gen("MC_GraphStore", GEN.format(maxn=2, maxe=2, labels=L1, types=T1, vals='{"v1"}', maxh=5, full="FALSE", kf="TRUE",
                                            view="VIEW View", emit="", inv=IDEAL_INV), "kf-witness", expect_violation=True, workers=4)
    # transition cover, small alphabet
    scripts = ctx.tlc_gen("MC_GraphStore", GEN.format(maxn=2, maxe=2, labels=L1, types=T2, vals='{"v1"}', maxh=4 if q else 5, full="FALSE", kf="FALSE",
                                                      view="VIEW View", emit="ACTION_CONSTRAINT Emit", inv=IDEAL_INV), "cover", timeout=3000,
                          workers=1 if q else 8, coverage=True)
    walks = ctx.tlc_gen("MC_GraphStore", GEN.format(maxn=3, maxe=3, labels=L2, types=T2, vals='{"v1", "v2"}', maxh=30, full="TRUE", kf="FALSE",
                                                    view="", emit="", inv="SimEmit"), "walks", simulate=(300 if q else 6000, 31), workers=4)
    # four nodes / four relationships, one label, one type, no compaction: nodes with three and more neighbours (adjacency lists
    # that are kept sorted and binary-searched only show a lost order from three entries on)
    hubs = ctx.tlc_gen("MC_GraphStore", GEN.format(maxn=4, maxe=4, labels=L1, types=T1, vals='{"v1"}', maxh=18, full="FALSE", kf="FALSE",
                                                   view="", emit="", inv="SimEmit"), "hubs", simulate=(400 if q else 6000, 19), workers=4)
    # sequence-exhaustive hub families: 4 unlabelled nodes, 3-4 relationships from (to) the first node in every order, deletions
    for spec_name in ("SpecHubOut", "SpecHubIn"):
        hubs += ctx.tlc_gen("MC_GraphStore", GEN.format(maxn=4, maxe=4, labels="{}", types=T1, vals='{"v1"}', maxh=9 if q else 10, full="FALSE",
                                                        kf="FALSE", view="", emit="ACTION_CONSTRAINT EmitLeaf", inv="")
                            .replace("SPECIFICATION Spec", "SPECIFICATION " + spec_name), "hub-" + spec_name, workers=4, timeout=1800)
    ctx.assume("ids <= 3 (<= 4 in the hub walks); labels {A,B}; types {T,U}; one property key p; stub relationships are created between live nodes only",
               "while a bulk load is open (stub inserted, finish_bulk_load not yet called) the type index and relationships-between "
               "lookups are not checked")
    sp = ctx.write_scripts("cover", scripts)
    tr = ctx.run_harness("gstore", sp, name="cover", args=["maxn=2", "maxe=2"])
    ctx.validate("GraphStore_Trace", TRACE.format(maxn=2, maxe=2), tr, name="cover", corrupt=corrupt_field("nodeCount"))
    sp = ctx.write_scripts("walks", walks)
    tr = ctx.run_harness("gstore", sp, name="walks", args=["maxn=3", "maxe=3"])
    ctx.validate("GraphStore_Trace", TRACE.format(maxn=3, maxe=3), tr, name="walks", corrupt=corrupt_field("nodeCount"))
    sp = ctx.write_scripts("hubs", hubs)
    tr = ctx.run_harness("gstore", sp, name="hubs", args=["maxn=4", "maxe=4"])
    ctx.validate("GraphStore_Trace", TRACE.format(maxn=4, maxe=4), tr, name="hubs", corrupt=corrupt_field("nodeCount"))
