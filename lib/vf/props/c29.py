"""C29 vector search: VectorIdx.tla / MC_VectorIdx.tla / VectorIdx_Trace.tla, harness bin vecidx."""
import json, os

GEN = """SPECIFICATION Spec
CONSTANTS ExactMax = 128
          Ids = {ids}
          LabelSets <- {ls}
          Labels = {{"A","B"}}
          Props = {{"e"}}
          Vecs <- {vecs}
          Qs <- {qs}
          Ks = {ks}
          Keys <- {keys}
          MetricsUsed = {metrics}
          MaxHist = {maxh}
{view}
{emit}
INVARIANTS TypeOK {inv}
CHECK_DEADLOCK FALSE
"""

TRACE = """SPECIFICATION TSpec
CONSTANTS ExactMax = 128
          OpenKF = @OPENKF@
INVARIANTS TypeOK
POSTCONDITION Post
CHECK_DEADLOCK FALSE
"""

ALLM = '{"cosine","l2","dot"}'

# minimal histories in which each known deviation shows (found by TLC as counterexamples of DevSound*;
# replayed on every run so that a KNOWN-FINDING line is printed only while the defect still reproduces)
WITNESS = {
    "append-only": [
        {"op": "CreateIndex", "label": "A", "prop": "e", "metric": "cosine", "backfill": False},
        {"op": "CreateNode", "h": 1, "labels": ["A"], "vecs": {"e": [1, 0]}},
        {"op": "SetVector", "h": 1, "prop": "e", "v": [0, 1]}],
    "deleted": [
        {"op": "CreateIndex", "label": "A", "prop": "e", "metric": "cosine", "backfill": False},
        {"op": "CreateNode", "h": 1, "labels": ["A"], "vecs": {"e": [1, 0]}},
        {"op": "DeleteNode", "h": 1}],
    "metric": [
        {"op": "CreateIndex", "label": "A", "prop": "e", "metric": "l2", "backfill": False},
        {"op": "CreateNode", "h": 1, "labels": ["A"], "vecs": {"e": [2, 1]}},     # q = (1,0): L2 ranks (1,1) first, cosine (2,1)
        {"op": "CreateNode", "h": 2, "labels": ["A"], "vecs": {"e": [1, 1]}}],
}


def drop_prefixes(scripts):
    """a script that is a proper prefix of another one is replayed as part of it"""
    keys = [tuple(json.dumps(s, sort_keys=True) for s in sc) for sc in scripts]
    pref = set()
    for k in keys:
        for i in range(1, len(k)):
            pref.add(k[:i])
    seen, out = set(), []
    for k, sc in zip(keys, scripts):
        if k not in pref and k not in seen:
            seen.add(k)
            out.append(sc)
    return out


def cap(ctx, scripts, n, what):
    """keep at most n scripts (seeded sample, order preserved); the evidence records what was dropped"""
    if len(scripts) <= n:
        return scripts
    keep = set(ctx.rng.sample(range(len(scripts)), n))
    ctx.cov.setdefault("sampled", []).append({"what": what, "generated": len(scripts), "replayed": n})
    ctx.log("%s: %d scripts generated, seeded sample of %d replayed" % (what, len(scripts), n))
    return [s for i, s in enumerate(scripts) if i in keep]


def corrupt(ev, rng):
    """drop the last element of one search answer (or invent one); for a mutator event: invent a node / a label"""
    if ev.get("ev") == "Searches":
        oks = [a for a in ev.get("s", []) if a.get("ok")]
        if not oks:
            return False
        a = oks[rng.randrange(len(oks))]
        a["res"] = a["res"][:-1] if a["res"] else [987654]
        return True
    nodes = (ev.get("obs") or {}).get("nodes")
    if nodes is None:
        return False
    if nodes:
        nodes[0][1] = sorted(nodes[0][1] + ["Zz"])
    else:
        nodes.append([987654, [], {}])
    return True


def run(ctx):
    q = ctx.quick
    W = min(6, int(os.environ.get("VERIF_WORKERS", "6")))
    small = dict(ids="{1,2}", ls="LS3", vecs="V4", qs="Q2", keys="KeysABe", ks="{1,2,3}")
    mini = dict(ids="{1,2}", ls="LS1", vecs="V3", qs="Q1", keys="KeysAe", ks="{1,2}")
    # self-tests = witnesses: each deviation alone makes the physical model answer wrongly
    for inv in ("DevSoundStale", "DevSoundDead", "DevSoundMetric"):
        ctx.tlc_gen("MC_VectorIdx", GEN.format(maxh=3, metrics='{"cosine","l2"}', view="VIEW View", emit="", inv=inv, **mini),
                    "selftest-" + inv, expect_violation=True, workers=2)
    # design checks + transition cover of the (logical + physical) state graph
    scripts = ctx.tlc_gen("MC_VectorIdx", GEN.format(maxh=3 if q else 4, metrics=ALLM, view="VIEW View", emit="ACTION_CONSTRAINT Emit",
                                                     inv="Satisfiable DirectWording CurMatchesGraph", **small), "cover2", workers=W, timeout=3000)
    if not q:
        scripts += ctx.tlc_gen("MC_VectorIdx", GEN.format(maxh=2, metrics=ALLM, view="VIEW View", emit="ACTION_CONSTRAINT Emit",
                                                          inv="Satisfiable DirectWording CurMatchesGraph",
                                                          **dict(ids="{1,2,3}", ls="LS4", vecs="V8", qs="Q3", keys="KeysABe", ks="{1,2,3}")),
                               "cover3", workers=W, timeout=3000)
    # long random walks of the model (3 nodes, 6-8 vectors)
    scripts += ctx.tlc_gen("MC_VectorIdx", GEN.format(maxh=10 if q else 14, metrics=ALLM, view="", emit="", inv="SimEmit",
                                                      **dict(ids="{1,2,3}", ls="LS4", vecs="V6" if q else "V8", qs="Q3", keys="KeysABe", ks="{1,2,3}")),
                           "walks", simulate=(100 if q else 1500, 16), workers=4)
    scripts = drop_prefixes(scripts)
    ctx.cov["scripts_after_prefix_removal"] = len(scripts)
    scripts = cap(ctx, scripts, 6000 if q else 100000, "vector histories")
    ctx.assume("2-D integer vectors with |coordinate| <= 3, no zero vector (cosine distance undefined); ties in exact arithmetic may be "
               "returned in any order (the implementation ranks in f32)",
               "every vector has the index's dimension; searches are issued only on declared indexes; k in {1,2,3}",
               "create_vector_index over a label that already has vector-bearing nodes is followed by rebuild_vector_index (as "
               "CREATE VECTOR INDEX does); the bare call registers an empty index by design and is only issued when no node is eligible",
               "'small enough to be searched exactly' = at most 128 add_vector calls since the index was registered or rebuilt "
               "(EXACT_SEARCH_MAX counts stored vectors); above that only: live holders, no more copies than entries, sorted, <= k")
    allw = [WITNESS[k] for k in ("append-only", "deleted", "metric")]
    sp = ctx.write_scripts("vecidx", allw + scripts)
    tr = ctx.run_harness("vecidx", sp, args=["via=store", "qs=1:0,1:1,-1:2", "ks=1,2,3"], timeout=3000)
    ctx.validate("VectorIdx_Trace", TRACE, tr, corrupt=corrupt, timeout=3000)
    # the same histories with every operation issued as a Cypher statement (quick: the witnesses + every third history)
    sp = ctx.write_scripts("vecidx-cy", allw + (scripts[::3] if q else scripts), prefix="cy")
    tr = ctx.run_harness("vecidx", sp, name="vecidx-cy", args=["via=cypher", "qs=1:0,1:1,-1:2", "ks=1,2,3"], timeout=3000)
    ctx.validate("VectorIdx_Trace", TRACE, tr, name="VectorIdx_Trace-cypher", corrupt=corrupt, timeout=3000)
    # impl -> spec: seeded random histories generated by the harness (more nodes, longer), store API and Cypher
    n, steps = (12, 50) if q else (80, 90)
    rnd = [{"sid": "rnd-%d" % i, "random": {"seed": ctx.seed * 7919 + i, "steps": steps, "nodes": 4 + i % 4, "ks": [1, 3] if i % 2 else [2, 4]}}
           for i in range(n)]
    if not q:
        # indexes beyond the exact-search threshold (HNSW): only the soundness clauses are claimed there
        rnd += [{"sid": "big-%d" % i, "random": {"seed": ctx.seed * 104729 + i, "steps": 420, "nodes": 200, "ks": [5], "search_every": 12}} for i in range(3)]
    sp = ctx.write_scripts("vecidx-random", rnd, wrap=False)
    tr = ctx.run_harness("vecidx", sp, name="vecidx-random", args=["via=store,cypher", "qs=1:0,-1:2,2:3", "ks=1,2,4"], timeout=3000)
    ctx.validate("VectorIdx_Trace", TRACE, tr, name="VectorIdx_Trace-random", corrupt=corrupt, timeout=3000)
