"""C25 parser never panics / never changes numbers: Numerals.tla / MC_Numerals.tla / Numerals_Trace.tla, harness bin numerals."""
import os

GEN = """SPECIFICATION Spec
CONSTANTS ParserMode = "{mode}"
  Part = "{part}"
  Alphabet = "{alpha}"
  BaseIds = {bases}
  MaxHist = 1
VIEW View
{emit}
INVARIANTS TypeOK NoPanic Exact
CHECK_DEADLOCK FALSE
"""

TRACE = """SPECIFICATION TSpec
CONSTANTS ParserMode = "ideal"
  OpenKF = @OPENKF@
INVARIANTS TypeOK NoPanic
POSTCONDITION Post
CHECK_DEADLOCK FALSE
"""

TOK = "{" + ",".join(str(i) for i in range(1, 23)) + "}"


def corrupt(ev, rng):
    if ev.get("ev") == "Num" and ev.get("res") == "ok":
        # every number the AST carries is off
        for k, v in ev["obs"].items():
            ev["obs"][k] = v + "0"
        return True
    if ev.get("ev") in ("Num", "Mut"):
        ev["res"] = "panic"
        return True
    return False


def run(ctx):
    q = ctx.quick
    W = 4

    def gen(name, **kw):
        d = dict(mode="ideal", part="num", alpha="small", bases="{1}", emit="ACTION_CONSTRAINT Emit")
        d.update(kw)
        ev = d.pop("expect_violation", False)
        return ctx.tlc_gen("MC_Numerals", GEN.format(**d), name, workers=W, expect_violation=ev, timeout=2400)

    # self-test: the call sites of the pinned tree (unwrap, unwrap_or(1), .ok()) violate NoPanic / Exact
    gen("legacy-selftest", mode="legacy", emit="", expect_violation=True)
    cases = gen("numerals")                                              # positions x numerals
    cases += gen("tokens", part="tok", alpha="small" if q else "full", bases=TOK)   # token-level damage of 22 base queries
    cases += gen("bytes", part="chr", bases="{1,2}" if q else "{1,2,3,4,5,6}")      # byte-level damage
    steps = [c[0] for c in cases]
    scripts = [steps[i:i + 10] for i in range(0, len(steps), 10)]
    ctx.assume("28 grammar positions (variable-length lower/upper/exact bounds, SKIP and LIMIT of every statement kind that has its own "
               "parsing code, WITH ... SKIP/LIMIT, integer/float literals in RETURN, arithmetic, WHERE, property maps, lists, CREATE) x "
               "27 numerals (0, 1, leading zeros, i64::MAX, i64::MAX+1, usize::MAX, usize::MAX+1, 20 digits, negative, i64::MIN, "
               "i64::MIN-1, hex, hex overflow, octal, octal overflow, floats, f64::MAX, float overflow)",
               "an error is always an acceptable answer; an accepted query must carry exactly the written value (compared as decimal "
               "strings) in the AST field of the position; float underflow to 0 is not judged",
               "damaged input = every single deletion / insertion / substitution of one token (22 base queries, alphabet of %d tokens) "
               "and of one character (%d base queries, 20 characters); only NoPanic is claimed for it" % (15 if q else 38, 2 if q else 6))
    sp = ctx.write_scripts("numerals", scripts)
    tr = ctx.run_harness("numerals", sp)
    ctx.validate("Numerals_Trace", TRACE, tr, jobs=int(os.environ.get("VERIF_JOBS", "4")), corrupt=corrupt)
