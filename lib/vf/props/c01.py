"""C01 read queries = openCypher rows: CypherRead.tla (reference semantics evaluated by TLC), MC_CypherRead.tla
(graph x query enumeration), CypherRead_Trace.tla (Accept per logged case), harness bin cyread."""
import concurrent.futures as cf
from .qread_common import *

L_ONLYA = '{{"A"}}'
# one entry per clause family: every graph within the bounds (nodes added in non-decreasing order = up to handle symmetry)
# is crossed with every query of the family.  name = trace / script file name.
QUICK = [
    dict(name="scanL", fam="scanL", maxn=2, labels=ALL4, p="none"),
    dict(name="scanW1", fam="scanW1", maxn=2, labels=L_ONLYA, p="mixed"),
    dict(name="scanW2", fam="scanW2", maxn=2, labels=L_NONE, p="num", q="one"),
    dict(name="scanI", fam="scanI", maxn=2, labels=L_ONLYA, p="mixed"),
    dict(name="hopD", fam="hopD", maxn=2, maxr=2, labels=L_NONE, p="none", types=T1),
    dict(name="hopD2", fam="hopD", maxn=2, maxr=1, labels=L_NONE, p="none", types=T2),
    dict(name="hopP", fam="hopP", maxn=2, maxr=1, labels=L_A, p="one", r="one"),
    dict(name="agg", fam="agg", maxn=2, labels=L_NONE, p="num", q="one"),
    dict(name="aggM", fam="agg", maxn=2, labels=L_NONE, p="mixed"),
    dict(name="sum", fam="sum", maxn=2, labels=L_A, p="num", q="one"),
    dict(name="aggHop", fam="aggHop", maxn=2, maxr=2, labels=L_NONE, p="none"),
    dict(name="opt", fam="opt", maxn=2, maxr=1, labels=L_A, p="one"),
    dict(name="ord", fam="ord", maxn=2, labels=L_NONE, p="mixed"),
    dict(name="ord2", fam="ord2", maxn=2, maxr=1, labels=L_NONE, p="two", q="one"),
    dict(name="with", fam="with", maxn=2, labels=L_A, p="num"),
    dict(name="withHop", fam="withHop", maxn=2, maxr=1, labels=L_A, p="one"),
    dict(name="unwind", fam="unwind", maxn=1, labels=L_A, p="num"),
    dict(name="union", fam="union", maxn=2, labels=L_A, p="num"),
    dict(name="var", fam="var", maxn=2, maxr=2, labels=L_NONE, p="none"),
    dict(name="short", fam="short", maxn=2, maxr=2, labels=L_NONE, p="none"),
]
# thorough: the value sets / multi-edges that the quick tier trims, and three-node graphs for the pattern families
THOROUGH = [
    dict(name="scanL", fam="scanL", maxn=2, labels=ALL4, p="one"),
    dict(name="scanW1", fam="scanW1", maxn=2, labels=L_A, p="mixed"),
    dict(name="scanW2", fam="scanW2", maxn=2, labels=L_NONE, p="mixed", q="one"),
    dict(name="scanI", fam="scanI", maxn=2, labels=L_A, p="mixed"),
    dict(name="hopD", fam="hopD", maxn=2, maxr=2, labels=L_NONE, p="none", types=T2),
    dict(name="hopD3", fam="hopD", maxn=3, maxr=2, labels=L_NONE, p="none", types=T1),
    dict(name="hopP", fam="hopP", maxn=2, maxr=2, labels=L_A, p="one", r="one"),
    dict(name="agg", fam="agg", maxn=2, labels=L_NONE, p="mixed", q="one"),
    dict(name="agg3", fam="agg", maxn=3, labels=L_NONE, p="num"),
    dict(name="sum", fam="sum", maxn=2, labels=L_A, p="num", q="one"),
    dict(name="aggHop", fam="aggHop", maxn=2, maxr=2, labels=L_NONE, p="none", r="one"),
    dict(name="opt", fam="opt", maxn=2, maxr=2, labels=L_A, p="one", r="one"),
    dict(name="ord", fam="ord", maxn=2, labels=L_A, p="mixed"),
    dict(name="ord3", fam="ord", maxn=3, labels=L_NONE, p="num"),
    dict(name="ord2", fam="ord2", maxn=2, maxr=1, labels=L_NONE, p="num", q="one"),
    dict(name="with", fam="with", maxn=2, labels=L_A, p="mixed"),
    dict(name="withHop", fam="withHop", maxn=2, maxr=2, labels=L_A, p="one"),
    dict(name="unwind", fam="unwind", maxn=1, labels=L_A, p="mixed"),
    dict(name="union", fam="union", maxn=2, labels=L_A, p="num", q="one"),
    dict(name="var", fam="var", maxn=2, maxr=2, labels=L_A, p="none"),
    dict(name="var3", fam="var", maxn=3, maxr=3, labels=L_NONE, p="none"),
    dict(name="short", fam="short", maxn=3, maxr=3, labels=L_NONE, p="none"),
]
# random walks: bigger graphs (3 nodes, 3-4 relationships, all label sets) x composed queries / every family
WALKS = [
    dict(name="walkMix", fam="mix", maxn=3, maxr=3, labels=ALL4, p="num", r="one", types=T2, canon=False, maxh=9, askat=5, quick=400, thorough=12000),
    dict(name="walkAll", fam="all", maxn=3, maxr=4, labels=ALL4, p="mixed", q="one", r="one", types=T2, canon=False, maxh=10, askat=4, quick=300, thorough=8000),
]


SELFTEST = ("scanW1", "hopD", "agg", "ord", "walkMix")   # binding self-test (one corrupted outcome must be rejected) on these


def families(ctx, which):
    only = os.environ.get("VERIF_CYR_FAMS")
    fams = QUICK if ctx.quick else THOROUGH
    return [f for f in fams if not only or f["name"] in only.split(",")]


def generate(ctx, which, per=3, extra=None):
    """all GEN runs (three TLC processes at a time); returns [(name, batched scripts)]"""
    jobs = []
    for f in families(ctx, which):
        kw = {k: v for k, v in f.items() if k != "name"}
        jobs.append((f["name"], gen_cfg(inv="NoLaw", **kw), None))
    only = os.environ.get("VERIF_CYR_FAMS")
    for w in WALKS:
        if only and w["name"] not in only.split(","):
            continue
        kw = {k: v for k, v in w.items() if k not in ("name", "quick", "thorough")}
        jobs.append((w["name"], gen_cfg(sim=True, view="", emit="", inv="SimEmit", **kw), (w["quick"] if ctx.quick else w["thorough"], w["maxh"] + 2)))

    def one(job):
        name, cfg, sim = job
        return name, ctx.tlc_gen("MC_CypherRead", cfg, "gen-" + name, workers=2, timeout=3000, simulate=sim)

    with cf.ThreadPoolExecutor(max_workers=3) as ex:
        res = list(ex.map(one, jobs))
    return [(name, batch(scripts, per=per, extra=extra)) for name, scripts in res]


def design_checks(ctx):
    # self-test: with the multi-label deviation the all-labels law of the statement fails on the design
    ctx.tlc_gen("MC_CypherRead", gen_cfg("scanL", maxn=1, labels=ALL4, p="none", dev='{"KF_C01_MultiLabelUnion"}', emit=""),
                "kf-witness", expect_violation=True, workers=2)
    # laws of the reference semantics itself (well-formed tables, all-labels law, count(*) law) over every family
    ctx.tlc_gen("MC_CypherRead", gen_cfg("all", maxn=2, maxr=1, labels=ALL4, p="one", types=T1, emit="", askat=3 if ctx.quick else 1),
                "laws", workers=6, timeout=3000)


ASSUME = (
    "graphs: every graph with <= 2 nodes / <= 2 relationships (3 / 3 in the thorough tier and in the random walks) over labels {A,B}, "
    "types {T,U}, node keys p,q and relationship key p with values {absent, 1, 2, 2.0, 'a', true}; floats are half-integers; "
    "strings come from a 5-element table",
    "results are compared as bags (exact sequence constraints only from ORDER BY keys); lists are compared as bags of elements "
    "(collect order is undefined); in queries with DISTINCT / grouping / UNION numerically equal values (2 and 2.0) are identified in "
    "the comparison because the representative of a class is undefined",
    "not generated (outside the checked fragment): type errors inside AND/OR operands, sum() over non-numbers, shortestPath with "
    "identical end points, named variable-length relationship variables, path variables, ORDER BY on expressions that are not "
    "returned, arithmetic, string / list functions",
)


def run(ctx):
    design_checks(ctx)
    total = generate(ctx, "c01")
    ctx.assume(*ASSUME)
    stats = {}
    for name, scripts in total:
        sp = ctx.write_scripts(name, scripts)
        tr = ctx.run_harness("cyread", sp, name=name, args=["mode=c01"])
        n, ok, err = count_cases(tr)
        shape_stats(tr, stats)
        ctx.log("%s: %d cases, %d answered, %d refused" % (name, n, ok, err))
        ctx.validate("CypherRead_Trace", trace_cfg(ctx), tr, name=name, corrupt=corrupt_outcome("out"), jobs=int(os.environ.get("VERIF_JOBS", "6")),
                     selftest=name in SELFTEST)
    ctx.cov["query_shapes"] = len(stats)
    ctx.cov["query_shapes_refused"] = sorted(k for k, v in stats.items() if v[1] > 0)[:40]
    record_shapes(ctx, stats)
