"""C01 read queries = openCypher rows: CypherRead.tla (reference semantics evaluated by TLC), MC_CypherRead.tla
(graph x query enumeration), CypherRead_Trace.tla (Accept per logged case), harness bin cyread."""
from .qread_common import *

# one entry per clause family: (family, graph bounds); every graph within the bounds (up to handle symmetry) is crossed
# with every query of the family.  quick: <= 2 nodes (3 where the clause needs it) / <= 2 relationships.
QUICK = [
    dict(fam="scanL", maxn=2, labels=ALL4, p="one"),
    dict(fam="scanW1", maxn=2, labels=L_A, p="mixed"),
    dict(fam="scanW2", maxn=2, labels=L_NONE, p="num", q="one"),
    dict(fam="scanI", maxn=2, labels=L_A, p="mixed"),
    dict(fam="hopD", maxn=2, maxr=2, labels=L_NONE, p="none", types=T2),
    dict(fam="hopP", maxn=2, maxr=1, labels=L_A, p="one", r="one"),
]
THOROUGH = []


def families(ctx, which):
    only = os.environ.get("VERIF_CYR_FAMS")
    fams = QUICK if ctx.quick else QUICK + THOROUGH
    return [f for f in fams if not only or f["fam"] in only.split(",")]


def run(ctx):
    # design-level self-test: with the multi-label deviation the all-labels law of the statement fails
    ctx.tlc_gen("MC_CypherRead", gen_cfg("scanL", maxn=2, labels=ALL4, p="none", dev='{"KF_C01_MultiLabelUnion"}', emit=""),
                "kf-witness", expect_violation=True, workers=4)
    total = []
    for f in families(ctx, "c01"):
        scripts = ctx.tlc_gen("MC_CypherRead", gen_cfg(**f), "gen-" + f["fam"], workers=6, timeout=3000)
        total.append((f["fam"], batch(scripts)))
    ctx.assume("graphs: <= 2 nodes / <= 2 relationships exhaustively (quick), labels {A,B}, types {T,U}, property keys p,q over "
               "{absent, 1, 2, 2.0, 'a', true}; floats are half-integers; strings from a 5-element table",
               "results are compared as bags; lists (collect) as bags of elements; in queries with DISTINCT / grouping / UNION "
               "numerically equal values (2 and 2.0) are identified because the representative of a class is not defined")
    stats = {}
    for fam, scripts in total:
        sp = ctx.write_scripts(fam, scripts)
        tr = ctx.run_harness("cyread", sp, name=fam, args=["mode=c01"])
        n, ok, err = count_cases(tr)
        shape_stats(tr, stats)
        ctx.log("%s: %d cases, %d answered, %d refused" % (fam, n, ok, err))
        ctx.validate("CypherRead_Trace", trace_cfg(ctx), tr, name=fam, corrupt=corrupt_outcome("out"))
    ctx.cov["query_shapes"] = len(stats)
    ctx.cov["query_shapes_refused"] = sorted(k for k, v in stats.items() if v[1] > 0)[:40]
    record_shapes(ctx, stats)
