"""C01 read queries = openCypher rows: CypherRead.tla (reference semantics evaluated by TLC), MC_CypherRead.tla
(graph x query enumeration), CypherRead_Trace.tla (Accept per logged case), harness bin cyread."""
import concurrent.futures as cf
from .qread_common import *

# The per-family graph bounds live in MC_CypherRead.tla (QuickTable / ThoroughTable): one TLC run enumerates, for every clause
# family, every graph within that family's bounds (up to handle symmetry) x every query of the family.
# random walks: bigger graphs (3 nodes, 3-4 relationships, all label sets) x composed queries / every family
WALKS = [
    dict(name="walkMix", fam="mix", maxn=3, maxr=3, labels=ALL4, p="num", r="one", types=T2, canon=False, maxh=9, askat=5, quick=400, thorough=12000),
    dict(name="walkAll", fam="all", maxn=3, maxr=4, labels=ALL4, p="mixed", q="one", r="one", types=T2, canon=False, maxh=10, askat=4, quick=300, thorough=8000),
]


def generate(ctx, per=3, extra=None, design=True):
    """GEN (three TLC processes at a time): design-level checks, the table run, the random walks;
    returns the batched scripts as [{sid, steps}]"""
    only = os.environ.get("VERIF_CYR_FAMS")
    jobs = []
    if design:
        # self-test: with the multi-label deviation the all-labels law of the statement fails on the design
        jobs.append(("kf-witness", gen_cfg("scanL", maxn=1, labels=ALL4, p="none", dev='{"KF_C01_MultiLabelUnion"}', emit=""), None, 2, True))
        # laws of the reference semantics itself (well-formed tables, all-labels law, count(*) law) over every family
        jobs.append(("laws-nodes", gen_cfg("all", maxn=2, maxr=0, labels=ALL4, p="none", emit=""), None, 2, False))
        jobs.append(("laws-rels", gen_cfg("all", maxn=2, maxr=1, labels=L_NONE, p="one", types=T1, emit="", askat=3), None, 2, False))
    jobs.append(("table", gen_cfg(tier="quick" if ctx.quick else "thorough", inv="NoLaw"), None, 4, False))
    for w in WALKS:
        kw = {k: v for k, v in w.items() if k not in ("name", "quick", "thorough")}
        jobs.append((w["name"], gen_cfg(sim=True, view="", emit="", inv="SimEmit", **kw),
                     (w["quick"] if ctx.quick else w["thorough"], w["maxh"] + 2), 2, False))

    def one(job):
        name, cfg, sim, workers, expect = job
        return name, ctx.tlc_gen("MC_CypherRead", cfg, "gen-" + name, workers=workers, timeout=3000, simulate=sim, expect_violation=expect)

    with cf.ThreadPoolExecutor(max_workers=3) as ex:
        res = list(ex.map(one, jobs))
    out, count = [], {}
    for name, scripts in res:
        for st in batch(scripts, per=per, extra=extra):
            fam = name if name != "table" else st[-1].get("fam", name)
            if only and fam not in only.split(","):
                continue
            count[fam] = count.get(fam, 0) + 1
            out.append({"sid": "%s-%d" % (fam, count[fam]), "steps": st})
    return out


def replay(ctx, scripts, mode, name="reads", shards=4, args=()):
    """RUN: the harness over `shards` slices of the scripts in parallel processes; returns the concatenated trace"""
    parts = [scripts[i::shards] for i in range(shards)]
    paths = [ctx.write_scripts("%s.%d" % (name, i), p, wrap=False) for i, p in enumerate(parts) if p]

    def one(i):
        return ctx.run_harness("cyread", paths[i], name="%s.%d" % (name, i), args=["mode=" + mode] + list(args))

    ctx.build_harness("cyread")
    with cf.ThreadPoolExecutor(max_workers=shards) as ex:
        traces = list(ex.map(one, range(len(paths))))
    out = ctx.path(name + ".trace.ndjson")
    with open(out, "w") as f:
        for t in traces:
            for ln in open(t):
                if ln.startswith('{"ev":"reset","sid":"end"}'):
                    continue
                f.write(ln)
        f.write('{"ev":"reset","sid":"end"}\n')
    return out


ASSUME = (
    "graphs: every graph with <= 2 nodes / <= 2 relationships (3 / 3 in the thorough tier and in the random walks) over labels {A,B}, "
    "types {T,U}, node keys p,q and relationship key p with values {absent, 1, 2, 2.0, 'a', true}; floats are half-integers; "
    "strings come from a 5-element table",
    "results are compared as bags (exact sequence constraints only from ORDER BY keys); lists are compared as bags of elements "
    "(collect order is undefined); in queries with DISTINCT / grouping / UNION numerically equal values (2 and 2.0) are identified in "
    "the comparison because the representative of a class is undefined",
    "not generated (outside the checked fragment): type errors inside AND/OR operands, sum() over non-numbers, shortestPath with "
    "identical end points, named variable-length relationship variables, path variables, ORDER BY on expressions that are not "
    "returned, arithmetic, string / list functions",
)


def run(ctx):
    scripts = generate(ctx)
    ctx.assume(*ASSUME)
    tr = replay(ctx, scripts, "c01")
    n, ok, err = count_cases(tr)
    stats = {}
    shape_stats(tr, stats)
    ctx.log("%d cases, %d answered, %d refused, %d query shapes" % (n, ok, err, len(stats)))
    ctx.validate("CypherRead_Trace", trace_cfg(ctx), tr, name="reads", corrupt=corrupt_outcome("out"), jobs=int(os.environ.get("VERIF_JOBS", "6")))
    ctx.cov["query_shapes"] = len(stats)
    ctx.cov["query_shapes_refused"] = sorted(k for k, v in stats.items() if v[1] > 0)[:40]
    record_shapes(ctx, stats)
