"""C36 RDF serializations round-trip: Rdf.tla (contract + reference design of the three formats over character classes),
MC_Rdf.tla (bounded universes, script emission), Rdf_Trace.tla, harness bin rdf."""
import os, re
from ..core import ToolError

GEN = """SPECIFICATION Spec
CONSTANTS Universe = "{universe}"
          LitClasses = {litclasses}
          LitMaxLen = {litlen}
          LitQuals = {quals}
          IriClasses = {iriclasses}
          IriMaxLen = {irilen}
          Fmts = {{"nt", "ttl", "xml"}}
          Legacy = "{legacy}"
{emit}
INVARIANTS RefMeetsContract IsoReflexive
CHECK_DEADLOCK FALSE
"""

TRACE = """SPECIFICATION TSpec
CONSTANTS OpenKF = @OPENKF@
POSTCONDITION Post
CHECK_DEADLOCK FALSE
"""

ALL = '{"pl", "qu", "bs", "lf", "cr", "ct", "as", "sp", "lt", "am"}'
QUALS = '{"", "@en", "^str", "^int", "^cus"}'
QUALS_T = '{"", "@en", "@en-US", "^str", "^int", "^cus"}'
EMIT = "ACTION_CONSTRAINT Emit"


def S(xs):
    return "{" + ", ".join('"%s"' % x for x in xs) + "}"


def gen(ctx, name, universe, litclasses=ALL, litlen=2, quals=QUALS, iriclasses='{"pl"}', irilen=1, legacy="", emit=EMIT, **kw):
    scripts = ctx.tlc_gen("MC_Rdf", GEN.format(universe=universe, litclasses=litclasses, litlen=litlen, quals=quals, iriclasses=iriclasses,
                                               irilen=irilen, legacy=legacy, emit=emit), name, **kw)
    if emit:
        # MC_Rdf!NCases: the size of the universe (cases x formats) as TLC computed it; every case must have been emitted
        m = re.search(r'<<\s*"NCASES",\s*(\d+)\s*>>', open(ctx.path(name + ".tlc.out")).read())
        n = int(m.group(1)) if m else -1
        ctx.cov.setdefault("cases_in_universe", {})[name] = n
        if n != len(scripts):
            raise ToolError("universe %s has %d cases but TLC emitted %d scripts" % (name, n, len(scripts)))
    return scripts

JOBS = int(os.environ.get("VERIF_JOBS", "12"))


def corrupt(ev, rng):
    """binding self-test: change one class of one parsed term; claim success for a graph the constructors refused; claim a
    failure for the empty graph"""
    if ev.get("ev") != "RoundTrip":
        return False
    if ev.get("res") == "unbuildable":
        ev["res"] = "ok"
        ev["_corrupted"] = "res"
        return True
    if ev.get("res") != "ok":
        return False
    for t in ev.get("out") or []:
        for pos in ("o", "s", "p"):
            if t[pos]["k"] != "bn":
                t[pos]["v"] = list(t[pos]["v"]) + ["other"]
                ev["_corrupted"] = "out/%s/v" % pos
                return True
    ev["res"] = "parse_err"
    ev["_corrupted"] = "res"
    return True


def run(ctx):
    q = ctx.quick
    w = 4
    # self-tests (TLC must find a counterexample): a serializer that escapes nothing, a reader that merges blank node labels
    gen(ctx, "legacy-ser", "lit", litclasses=S(["pl", "qu"]), litlen=1, quals=S([""]), legacy="ser", emit="", expect_violation=True, workers=2)
    gen(ctx, "legacy-merge", "pair", litclasses=S(["pl"]), litlen=0, quals=S([""]), iriclasses="{}", legacy="merge", emit="",
        expect_violation=True, workers=2)
    # the open finding's design-level witness: a reader that ignores all-white-space element content
    gen(ctx, "legacy-ws", "lit", litclasses=S(["pl", "sp"]), litlen=1, quals=S([""]), legacy="ws", emit="", expect_violation=True, workers=2)
    scripts = []
    # 1. every literal: strings <= 2 classes over the 10-class alphabet x 5 literal kinds x 3 formats (one statement)
    scripts += gen(ctx, "literals", "lit", litlen=2 if q else 3, quals=QUALS if q else QUALS_T, workers=w, timeout=2400)
    # 2. IRIs in every position: strings over the legal IRI classes plus one illegal class (must be refused by the constructors)
    scripts += gen(ctx, "iris", "iri", iriclasses=S(["pl", "as", "am", "sp"]), irilen=1 if q else 3, workers=w, timeout=2400)
    # 3. graphs of <= 2 statements (both orders): blank node structure, statement grouping, mixed literal kinds
    if q:
        scripts += gen(ctx, "pairs", "pair", litclasses=S(["pl"]), litlen=1, quals=S(["", "@en"]), iriclasses="{}", workers=w)
    else:
        scripts += gen(ctx, "pairs", "pair", litclasses=S(["pl", "sp"]), litlen=1, quals=S(["", "@en"]), iriclasses=S(["as"]),
                       workers=w, timeout=2400)
    ctx.assume("per character CLASS, not per code point: pl 'a', qu '\"', bs '\\', lf U+000A, cr U+000D, ct U+0001, as U+1F600, sp ' ', lt '<', am '&' "
               "(table in harness/src/bin/rdf.rs); a parsed character outside the table is class 'other' and equals nothing",
               "IRIs are 'http://e/' + the class string; datatypes xsd:string / xsd:integer / http://e/dt; language tag 'en'; blank labels b1, b2",
               "exhaustive within the bounds: every literal string of <= %d classes x 5 literal kinds, every IRI string of <= %d classes over "
               "{pl, as, am, sp} in each of subject/predicate/object position (<= 1 class in all three at once), every sequence of <= 2 distinct statements over the pair universe of "
               "MC_Rdf.tla, each x 3 formats" % (2 if q else 3, 1 if q else 3),
               "graphs are SETS: a duplicate statement in the parsed output is not a difference")
    sp = ctx.write_scripts("rdf", scripts)
    tr = ctx.run_harness("rdf", sp)
    ctx.validate("Rdf_Trace", TRACE, tr, corrupt=corrupt, jobs=min(3, JOBS) if q else JOBS)
