"""C31 Raft log storage: RaftLog.tla / MC_RaftLog.tla / RaftLog_Trace.tla, harness module raftlog."""

GEN = """SPECIFICATION Spec
CONSTANTS MaxIndex = {maxi}
          MaxTerm = {maxt}
          MaxRun = 2
          MaxHist = {maxh}
          Legacy = {legacy}
{view}
CONSTRAINT Bound
{emit}
INVARIANTS TypeOK OneEntryPerIndex SortedContiguous LastIsNewest
PROPERTY SnapshotKeepsTail
CHECK_DEADLOCK FALSE
"""

TRACE = """SPECIFICATION TSpec
CONSTANTS MaxIndex = 1000
          MaxTerm = 1000
          OpenKF = @OPENKF@
INVARIANTS OneEntryPerIndex SortedContiguous LastIsNewest
POSTCONDITION Post
CHECK_DEADLOCK FALSE
"""


def run(ctx):
    q = ctx.quick
    # self-test of the design-level property: the legacy behaviour must violate it
    ctx.tlc_gen("MC_RaftLog", GEN.format(maxi=3, maxt=2, maxh=4, legacy="TRUE", view="VIEW View", emit=""),
                "legacy-selftest", expect_violation=True, workers=4)
    # transition cover: one script per transition of the abstract state graph
    scripts = ctx.tlc_gen("MC_RaftLog", GEN.format(maxi=4 if q else 5, maxt=2 if q else 3, maxh=5 if q else 6, legacy="FALSE",
                                                   view="VIEW View", emit="ACTION_CONSTRAINT Emit"),
                          "cover", workers=8, coverage=True)
    # sequence-exhaustive: every operation sequence up to a depth (no VIEW)
    scripts += ctx.tlc_gen("MC_RaftLog", GEN.format(maxi=3, maxt=2, maxh=3 if q else 4, legacy="FALSE",
                                                    view="", emit="ACTION_CONSTRAINT EmitLeaf"),
                           "allseq", workers=8)
    # long random walks
    scripts += ctx.tlc_gen("MC_RaftLog",
                           GEN.format(maxi=6, maxt=3, maxh=40, legacy="FALSE", view="", emit="").replace(
                               "INVARIANTS", "INVARIANTS SimEmit"),
                           "walks", simulate=(200 if q else 5000, 41), workers=4)
    ctx.assume("appends are contiguous runs starting at most one past the last index and above the snapshot index "
               "(the property does not define gaps); indices <= 6, terms <= 3, runs of <= 2 entries",
               "the order in which get_entries lists entries is not constrained (compared as a bag)")
    sp = ctx.write_scripts("raftlog", scripts)
    tr = ctx.run_harness("raftlog", sp, args=["maxindex=7"])
    ctx.validate("RaftLog_Trace", TRACE, tr)
