"""Core of the orchestrator: TLC generation runs, harness runs, TLC trace validation,
known-finding classification, evidence files.  TLC is the only oracle: nothing here
compares implementation output with expected values."""
import concurrent.futures as cf
import json, os, random, re, shutil, subprocess, sys, time

TLA_CP = "/opt/veriftools/tla/tla2tools.jar:/opt/veriftools/tla/CommunityModules-deps.jar"
GUARD = "samyama_ai_samyama_graph_verif"


class ToolError(Exception):
    pass


def sh(cmd, timeout=None, env=None, cwd=None):
    e = dict(os.environ)
    if env:
        e.update(env)
    try:
        p = subprocess.run(cmd, stdout=subprocess.PIPE, stderr=subprocess.STDOUT, timeout=timeout,
                           env=e, cwd=cwd, text=True, errors="replace")
        return p.returncode, p.stdout
    except subprocess.TimeoutExpired as ex:
        out = ex.stdout or ""
        if isinstance(out, bytes):
            out = out.decode("utf8", "replace")
        return 124, out


def tla_unescape(s):
    out, i = [], 0
    while i < len(s):
        c = s[i]
        if c == "\\" and i + 1 < len(s):
            n = s[i + 1]
            out.append({"n": "\n", "t": "\t", "r": "\r", "f": "\f"}.get(n, n))
            i += 2
        else:
            out.append(c)
            i += 1
    return "".join(out)


RE_TAGGED = lambda tag: re.compile(r'<<\s*"' + tag + r'",\s*"((?:[^"\\]|\\.)*)"\s*>>', re.S)
RE_STATS = re.compile(r"(\d+) states generated, (\d+) distinct states found")
RE_DEPTH = re.compile(r"depth of the complete state graph search is (\d+)")
RE_USED = re.compile(r'<<\s*"USED",\s*"([^"]*)",\s*\{([^}]*)\}\s*>>', re.S)
RE_FAILED = re.compile(r'<<\s*"FAILED",\s*"([^"]*)",\s*(\d+)\s*>>')
RE_RESULT = re.compile(r'<<\s*"TRACE_RESULT",\s*(\d+),\s*(\d+)\s*>>')


def setup(root):
    """build the harness (lib + every binary) once and syntax-check every specification.
    Only a failing library build is fatal: a binary or spec that is broken makes its own check fail, not the others."""
    t0 = time.time()
    hdir = os.path.join(root, "harness")
    rc, out = sh(["cargo", "build", "--offline", "--lib"], cwd=hdir, timeout=3600)
    print(out[-2000:])
    if rc != 0:
        print("setup: harness library build failed")
        return 2
    bins = sorted(f[:-3] for f in os.listdir(os.path.join(hdir, "src", "bin")) if f.endswith(".rs"))
    for b in bins:
        rc, out = sh(["cargo", "build", "--offline", "--bin", b], cwd=hdir, timeout=3600)
        print("build", b, "ok" if rc == 0 else "FAILED")
        if rc != 0:
            print(out[-1500:])
    spec = os.path.join(root, "spec")
    for f in sorted(os.listdir(spec)):
        if f.endswith(".tla"):
            rc, out = sh(["java", "-cp", TLA_CP, "tla2sany.SANY", f], cwd=spec, timeout=120)
            ok = rc == 0 and "Semantic errors" not in out and "***Parse Error***" not in out
            print("sany", f, "ok" if ok else "FAILED")
            if not ok:
                print(out[-1500:])
    print("setup done in %.0fs" % (time.time() - t0))
    return 0


class Ctx:
    def __init__(self, root, pid, tier, seed):
        self.root, self.pid, self.tier, self.seed = root, pid, tier, seed
        self.t0 = time.time()
        self.quick = tier != "thorough"
        self.spec = os.path.join(root, "spec")
        self.work = os.path.join(root, ".work", "%s-%s" % (pid, tier))
        shutil.rmtree(self.work, ignore_errors=True)
        os.makedirs(self.work, exist_ok=True)
        self.replays = os.path.join(root, ".work", "replay")
        os.makedirs(self.replays, exist_ok=True)
        self.rng = random.Random(seed)
        self.cov = {"states": 0, "transitions": 0, "traces_validated_against_impl": 0,
                    "events_validated": 0, "scripts_generated": 0, "samples": [], "exhaustive": False,
                    "tlc_runs": [], "deviation_uses": {}, "binding_selftest": []}
        self.assumptions = []
        self.violations = []   # (text, replay)
        self.kf_lines = {}     # finding id -> text
        self.level = "model_checking"
        self.vh = {}
        kf = json.load(open(os.path.join(root, "known_findings.json")))
        if os.environ.get("VERIF_KF_EXTRA"):   # development aid only: try proposed entries before they are committed
            kf["findings"] += json.load(open(os.environ["VERIF_KF_EXTRA"]))["findings"]
        self.findings = [f for f in kf["findings"] if f["property"] == pid or pid in f.get("also_explains", [])]
        self.open_kf = {}      # deviation action name -> finding
        for f in self.findings:
            if f.get("status") == "open":
                for d in f.get("deviation_actions", []):
                    self.open_kf[d] = f

    # ------------------------------------------------------------------ utilities
    def log(self, *a):
        print("[%s %6.1fs]" % (self.pid, time.time() - self.t0), *a, flush=True)

    def path(self, name):
        return os.path.join(self.work, name)

    def assume(self, *texts):
        for t in texts:
            if t not in self.assumptions:
                self.assumptions.append(t)

    def sample(self, obj):
        if len(self.cov["samples"]) < 6:
            s = json.dumps(obj)
            if len(s) > 1500:
                obj = s[:1500] + "..."
            self.cov["samples"].append(obj)

    # ------------------------------------------------------------------ harness
    def build_harness(self, module):
        if module in self.vh:
            return self.vh[module]
        hdir = os.environ.get("VERIF_HARNESS_DIR") or os.path.join(self.root, "harness")
        t = time.time()
        rc, out = sh(["cargo", "build", "--offline", "--bin", module], cwd=hdir, timeout=3600)
        if rc != 0:
            raise ToolError("harness build failed:\n" + out[-4000:])
        self.log("harness %s built in %.0fs" % (module, time.time() - t))
        self.vh[module] = os.path.join(hdir, "target", "debug", module)
        return self.vh[module]

    def run_harness(self, module, scripts_path, name=None, args=(), timeout=1800, env=None):
        vh = self.build_harness(module)
        trace = self.path((name or module) + ".trace.ndjson")
        t = time.time()
        rc, out = sh([vh, scripts_path, trace] + list(args), timeout=timeout, env=env, cwd=self.work)
        if rc != 0:
            raise ToolError("harness %s failed rc=%s:\n%s" % (module, rc, out[-4000:]))
        self.log("harness %s: %.1fs %s" % (module, time.time() - t, out.strip()[-300:]))
        return trace

    # ------------------------------------------------------------------ TLC generation
    def write_cfg(self, name, text):
        p = self.path(name)
        with open(p, "w") as f:
            f.write(text)
        return p

    def tlc(self, module, cfg_text, name, workers=int(os.environ.get("VERIF_WORKERS", "8")), timeout=900, simulate=None, env=None, xmx="6g", extra=()):
        """run TLC on spec/<module>.tla with the given cfg text; returns (rc, output)"""
        cfg = self.write_cfg(name + ".cfg", cfg_text)
        md = self.path("md-" + name)
        cmd = ["java", "-XX:+UseParallelGC", "-Xmx" + xmx, "-Xss1g", "-cp", TLA_CP, "tlc2.TLC",
               "-workers", str(workers), "-metadir", md, "-cleanup", "-noGenerateSpecTE", "-config", cfg]
        if simulate:
            cmd += ["-simulate", "num=%d" % simulate[0], "-depth", str(simulate[1]), "-seed", str(self.seed)]
        cmd += list(extra) + [os.path.join(self.spec, module + ".tla")]
        t = time.time()
        rc, out = sh(cmd, timeout=timeout, env=env, cwd=self.spec)
        shutil.rmtree(md, ignore_errors=True)
        with open(self.path(name + ".tlc.out"), "w") as f:
            f.write(out)
        return rc, out, time.time() - t

    def tlc_gen(self, module, cfg_text, name, tag="SCRIPT", workers=int(os.environ.get("VERIF_WORKERS", "8")), timeout=900, simulate=None,
                expect_violation=False, exhaustive=True, env=None, coverage=False):
        """model-check the design (invariants/properties of the cfg) and collect emitted scripts.
        coverage=True adds `-coverage 1` and records how often each action of the spec was taken (anti-vacuity)."""
        rc, out, dt = self.tlc(module, cfg_text, name, workers=workers, timeout=timeout, simulate=simulate, env=env,
                               extra=("-coverage", "1") if coverage else ())
        if rc == 124:
            raise ToolError("TLC generation %s timed out" % name)
        violated = ("is violated" in out) or ("Error:" in out and "violated" in out)
        if expect_violation:
            if not violated:
                raise ToolError("self-test %s: TLC did not find the expected counterexample" % name)
            self.cov["tlc_runs"].append({"run": name, "expected_counterexample_found": True, "wall_s": round(dt, 1)})
            return []
        if violated or ("Error:" in out) or (rc != 0 and not simulate):
            raise ToolError("TLC run %s failed on the design model (rc=%s):\n%s" % (name, rc, strip_scripts(out)[-3000:]))
        m = RE_STATS.findall(out)
        gen, dist, depth = 0, 0, 0
        if m:
            gen, dist = int(m[-1][0]), int(m[-1][1])
        d = RE_DEPTH.findall(out)
        if d:
            depth = int(d[-1])
        scripts = [json.loads(tla_unescape(s)) for s in RE_TAGGED(tag).findall(out)]
        if simulate:
            scripts = scripts[:simulate[0]]   # TLC honours num= only approximately
            gen = sum(len(s) for s in scripts) if scripts and isinstance(scripts[0], list) else len(scripts)
            dist = gen
        self.cov["states"] += dist
        self.cov["transitions"] += gen
        self.cov["scripts_generated"] += len(scripts)
        self.cov["tlc_runs"].append({"run": name, "module": module, "distinct_states": dist, "states_generated": gen,
                                     "depth": depth, "scripts": len(scripts), "mode": "simulate" if simulate else "exhaustive-bfs",
                                     "wall_s": round(dt, 1)})
        if coverage:
            acts = {}
            for an, _d, tot in re.findall(r"^<(\w+) line \d+, col \d+ to line \d+, col \d+ of module \w+(?: \([\d ]+\))?>: (\d+):(\d+)", out, re.M):
                if an != "Init":
                    acts[an] = acts.get(an, 0) + int(tot)
            self.cov["tlc_runs"][-1]["action_counts"] = acts
            never = sorted(a for a, c in acts.items() if c == 0 and a != "Next")
            if never:
                raise ToolError("anti-vacuity: actions never taken in %s: %s" % (name, never))
        if exhaustive and not simulate:
            self.cov["exhaustive"] = True
        self.log("TLC %s: %d distinct states, %d generated, depth %d, %d scripts, %.1fs" % (name, dist, gen, depth, len(scripts), dt))
        return scripts

    def write_scripts(self, name, scripts, prefix=None, wrap=True):
        """scripts: list of step-lists (or dicts already holding sid/steps when wrap=False)"""
        p = self.path(name + ".scripts.ndjson")
        prefix = prefix or name
        if wrap:
            seen, uniq = set(), []
            for s in scripts:
                key = json.dumps(s, sort_keys=True)
                if key not in seen:
                    seen.add(key)
                    uniq.append(s)
            scripts = uniq
        with open(p, "w") as f:
            for k, s in enumerate(scripts):
                rec = {"sid": "%s-%d" % (prefix, k), "steps": s} if wrap else s
                f.write(json.dumps(rec) + "\n")
        if scripts:
            self.sample({"script": scripts[min(len(scripts) - 1, 7)]})
        return p

    # ------------------------------------------------------------------ trace validation
    def _validate_chunk(self, module, cfg_text, lines, name, timeout):
        tp = self.path(name + ".ndjson")
        with open(tp, "w") as f:
            f.write("".join(lines))
        env = {"TRACE": tp, "JAVA_TOOL_OPTIONS": "-Xss1g"}
        rc, out, dt = self.tlc(module, cfg_text, name, workers=1, timeout=timeout, env=env, xmx="2g")
        res = {"rc": rc, "out": out, "n": len(lines), "dt": dt, "used": {}, "failed": {}, "reached": None, "invariant": None}
        for fsid, fl in RE_FAILED.findall(out):
            res["failed"][fsid] = max(res["failed"].get(fsid, 0), int(fl))
        for sid, body in RE_USED.findall(out):
            names = set(re.findall(r'"([^"]+)"', body))
            if sid not in res["used"] or len(names) < len(res["used"][sid]):
                res["used"][sid] = names
        m = RE_RESULT.findall(out)
        if m:
            res["reached"] = int(m[-1][0])
        iv = re.search(r"Invariant (\S+) is violated|Action property (\S+) is violated|property (\S+) is violated", out)
        if iv:
            res["invariant"] = next(g for g in iv.groups() if g)
            ls = re.findall(r"/\\ l = (\d+)", out)
            if ls:
                res["reached"] = int(ls[-1]) - 1  # state l means events < l were consumed; the last consumed one broke it
        if rc == 124:
            res["timeout"] = True
        return res

    def validate(self, module, cfg_text, trace_path, name=None, jobs=int(os.environ.get("VERIF_JOBS", "12")), timeout=1200, max_fail=3, selftest=True,
                 corrupt=None):
        """TLC trace validation of a recorded trace (many scripts separated by reset events).
        Returns list of failures; records violations and known-finding uses in the context."""
        name = name or module
        cfg_text = cfg_text.replace("@OPENKF@", "{" + ", ".join('"%s"' % k for k in sorted(self.open_kf)) + "}")
        lines = open(trace_path).readlines()
        # split into scripts
        groups, cur = [], None
        for ln in lines:
            if ln.startswith('{"ev":"reset"'):
                if cur:
                    groups.append(cur)
                cur = [ln]
            elif cur is not None:
                cur.append(ln)
        if cur and len(cur) > 1:
            groups.append(cur)
        if not groups:
            raise ToolError("empty trace " + trace_path)
        END = '{"ev":"reset","sid":"end"}\n'
        nev = sum(len(g) - 1 for g in groups)
        njobs = max(1, min(jobs, nev // 1500 + 1, len(groups)))
        chunks = [groups[i::njobs] for i in range(njobs)]
        self.sample({"trace_events": [json.loads(x) for x in groups[0][:3]]})

        def work(ci):
            todo = list(chunks[ci])      # groups not yet judged
            fails, used, nscripts, nevents = [], {}, 0, 0
            for attempt in range(max_fail + 2):
                if not todo:
                    break
                flat = [ln for g in todo for ln in g] + [END]
                r = self._validate_chunk(module, cfg_text, flat, "%s.v%d" % (name, ci), timeout)
                if r.get("timeout"):
                    return {"error": "trace validation timed out (chunk %d)" % ci}
                if r["reached"] is None:
                    return {"error": "trace validation produced no result (chunk %d):\n%s" % (ci, strip_scripts(r["out"])[-2500:])}
                complete = r["reached"] == len(flat) + 1 and not r["invariant"]
                starts, pos = [], 0
                for g in todo:
                    starts.append(pos)
                    pos += len(g)
                rest = []
                stop_at = r["reached"] if not r["invariant"] else max(1, r["reached"])
                for k, g in enumerate(todo):
                    gsid = json.loads(g[0]).get("sid")
                    if gsid in r["used"]:
                        used[gsid] = r["used"][gsid]
                        nscripts += 1
                        nevents += len(g) - 1
                    elif complete:
                        fl = r["failed"].get(gsid)
                        fails.append({"group": g, "event_index": (fl - starts[k]) if fl else 1, "invariant": None})
                    elif starts[k] < stop_at <= starts[k] + len(g):
                        fails.append({"group": g, "event_index": stop_at - starts[k], "invariant": r["invariant"]})
                    else:
                        rest.append(g)
                todo = rest
                if len(fails) > 200:
                    break
            return {"fails": fails, "used": used, "scripts": nscripts, "events": nevents, "unjudged": len(todo)}

        t = time.time()
        with cf.ThreadPoolExecutor(max_workers=njobs) as ex:
            results = list(ex.map(work, range(njobs)))
        fails = []
        for r in results:
            if "error" in r:
                raise ToolError(r["error"])
            self.cov["traces_validated_against_impl"] += r["scripts"]
            self.cov["events_validated"] += r["events"]
            for sid, names in r["used"].items():
                for n in names:
                    self.cov["deviation_uses"][n] = self.cov["deviation_uses"].get(n, 0) + 1
                    f = self.open_kf.get(n)
                    if f:
                        self.kf_lines[f["id"]] = f["what"]
            for fl in r["fails"]:
                fails.append(fl)
                self._record_violation(name, fl)
        unj = sum(r.get("unjudged", 0) for r in results)
        if unj:
            self.log("WARNING: %d scripts left unjudged after too many rejections" % unj)
            self.cov["unjudged_scripts"] = self.cov.get("unjudged_scripts", 0) + unj
        self.log("validated %s: %d scripts / %d events in %d JVMs, %d rejected, %.1fs" % (
            name, sum(r["scripts"] for r in results), sum(r["events"] for r in results), njobs, len(fails), time.time() - t))
        if selftest and not fails:
            self._binding_selftest(module, cfg_text, groups, name, corrupt, timeout)
        return fails

    def _record_violation(self, name, fl):
        g = fl["group"]
        sid = json.loads(g[0]).get("sid", "?")
        k = fl["event_index"]
        rp = os.path.join(self.replays, "%s-%s-%s.json" % (self.pid, name, re.sub(r"[^A-Za-z0-9_.-]", "_", str(sid))))
        ev = g[k - 1] if 0 < k <= len(g) else None
        with open(rp, "w") as f:
            json.dump({"property": self.pid, "check": name, "script": sid,
                       "first_unexplained_event_index": k,
                       "first_unexplained_event": json.loads(ev) if ev else None,
                       "violated_invariant": fl["invariant"],
                       "trace": [json.loads(x) for x in g]}, f, indent=1)
        what = "event %d of script %s is not a behaviour of the specification" % (k, sid)
        if fl["invariant"]:
            what += " (invariant %s)" % fl["invariant"]
        self.violations.append((what, rp))
        self.log("REJECTED:", what, (ev or "")[:400].strip())

    def _binding_selftest(self, module, cfg_text, groups, name, corrupt, timeout):
        """corrupt one logged observation of one accepted script; TLC must reject it"""
        cands = [g for g in groups if len(g) > 1]
        if not cands:
            return
        g = list(cands[self.rng.randrange(len(cands))])
        idx = self.rng.randrange(1, len(g))
        ev = json.loads(g[idx])
        ok = (corrupt or default_corrupt)(ev, self.rng)
        if not ok:
            # try other events
            for idx in range(1, len(g)):
                ev = json.loads(g[idx])
                if (corrupt or default_corrupt)(ev, self.rng):
                    ok = True
                    break
        if not ok:
            raise ToolError("binding self-test: nothing to corrupt in " + name)
        what = ev.pop("_corrupted", "?")
        g[idx] = json.dumps(ev) + "\n"
        flat = g + ['{"ev":"reset","sid":"end"}\n']
        r = self._validate_chunk(module, cfg_text, flat, name + ".selftest", timeout)
        gsid = json.loads(g[0]).get("sid")
        rejected = r["reached"] is not None and (r["reached"] != len(flat) + 1 or r["invariant"] or gsid not in r["used"])
        self.cov["binding_selftest"].append({"check": name, "corrupted_event": idx, "field": what, "rejected": bool(rejected)})
        if not rejected:
            raise ToolError("binding self-test failed: corrupted trace of %s was accepted (field %s): %s" % (name, what, g[idx][:300]))
        self.log("binding self-test %s: corrupted event %d rejected (ok)" % (name, idx))

    def tlaps(self, rel, timeout=900):
        """run the TLA+ proof system on spec/<rel>; extra evidence only (obligations / discharged)"""
        d = os.path.join(self.spec, os.path.dirname(rel))
        shutil.rmtree(os.path.join(d, ".tlacache"), ignore_errors=True)
        rc, out = sh(["tlapm", "--threads", "8", os.path.basename(rel)], cwd=d, timeout=timeout)
        m = re.search(r"All (\d+) obligations? proved", out)
        shutil.rmtree(os.path.join(d, ".tlacache"), ignore_errors=True)
        if not m:
            raise ToolError("tlapm did not prove %s:\n%s" % (rel, out[-2000:]))
        n = int(m.group(1))
        self.cov.setdefault("proofs", []).append({"module": rel, "obligations": n, "discharged": n,
                                                   "checker_cmd": "tlapm --threads 8 " + rel})
        self.log("TLAPS %s: all %d obligations proved" % (rel, n))

    # ------------------------------------------------------------------ direct verdicts
    def violation(self, text, replay_obj):
        rp = os.path.join(self.replays, "%s-%d.json" % (self.pid, len(self.violations)))
        with open(rp, "w") as f:
            json.dump(replay_obj, f, indent=1)
        self.violations.append((text, rp))

    # ------------------------------------------------------------------ finish
    def finish(self, tool_error=None):
        wall = time.time() - self.t0
        cov = self.cov
        if not cov["samples"]:
            cov["samples"] = ["(none: run ended before any case was produced)"]
        ev = {"property_id": self.pid, "tier": self.tier if self.tier in ("quick", "thorough") else "quick",
              "seed": self.seed, "level": self.level, "coverage": cov, "assumptions": self.assumptions,
              "wall_s": round(wall, 1), "violations": len(self.violations)}
        cov["known_findings_reproduced"] = sorted(self.kf_lines)
        cov["evaluations"] = cov["events_validated"] or cov["scripts_generated"]
        cov["distinct_nontrivial"] = cov["traces_validated_against_impl"]
        cov["rule"] = ("cases are behaviours (operation sequences) emitted by TLC from the specification, one per transition / "
                       "state / simulated walk as described in tlc_runs, plus seeded random scripts from the harness; each counts "
                       "once per distinct script replayed on the real code and accepted or rejected by TLC trace validation")
        if tool_error:
            cov["tool_error"] = tool_error[:2000]
        os.makedirs(os.path.join(self.root, "evidence"), exist_ok=True)
        with open(os.path.join(self.root, "evidence", self.pid + ".json"), "w") as f:
            json.dump(ev, f, indent=1)
        if tool_error:
            return 2
        for fid, what in sorted(self.kf_lines.items()):
            print("KNOWN-FINDING: property=%s %s: %s" % (self.pid, fid, what))
        # every OPEN finding listed for this property gets its line, also when this tier's scripts did not run into it
        for f in self.findings:
            if f.get("status") == "open" and f["id"] not in self.kf_lines:
                print("KNOWN-FINDING: property=%s %s: %s [listed; not reproduced by the scripts of this %s run]"
                      % (self.pid, f["id"], f["what"], self.tier))
        for what, rp in self.violations[:20]:
            print("VIOLATION property=%s replay=%s" % (self.pid, rp))
            print("  ", what)
        self.log("done: %d violations, %d known findings, %.0fs" % (len(self.violations), len(self.kf_lines), wall))
        if not self.violations and not os.environ.get("VERIF_KEEP"):
            shutil.rmtree(self.work, ignore_errors=True)
        return 1 if self.violations else 0


def strip_scripts(out):
    return "\n".join(ln for ln in out.splitlines()
                     if not ln.startswith('<<"SCRIPT"') and not ln.startswith('<<"USED"') and not ln.startswith('<<"FAILED"'))


def default_corrupt(ev, rng):
    """change one scalar inside ev['obs'] (or ev['res']); returns True if something was changed"""
    target = ev.get("obs", None)
    if target is None:
        return False
    paths = []

    def walk(v, p):
        if isinstance(v, bool):
            paths.append((p, v))
        elif isinstance(v, int):
            paths.append((p, v))
        elif isinstance(v, str):
            paths.append((p, v))
        elif isinstance(v, list):
            for i, x in enumerate(v):
                walk(x, p + [i])
        elif isinstance(v, dict):
            for k, x in v.items():
                walk(x, p + [k])

    walk(target, [])
    if not paths:
        return False
    p, v = paths[rng.randrange(len(paths))]
    ev["_corrupted"] = "/".join(str(k) for k in p)
    if not p:
        ev["obs"] = mutate(v)
        return True
    cur = target
    for k in p[:-1]:
        cur = cur[k]
    cur[p[-1]] = mutate(v)
    return True


def mutate(v):
    if isinstance(v, bool):
        return not v
    if isinstance(v, int):
        return v + 1
    if isinstance(v, str):
        return v + "~"
    return v


def corrupt_field(*path):
    """corruptor that bumps one named scalar under ev['obs'] (for specs where some logged fields are legitimately unconstrained)"""
    def f(ev, rng):
        cur = ev.get("obs")
        if cur is None:
            return False
        for k in path[:-1]:
            if isinstance(cur, dict) and k in cur:
                cur = cur[k]
            elif isinstance(cur, list) and isinstance(k, int) and k < len(cur):
                cur = cur[k]
            else:
                return False
        k = path[-1]
        try:
            cur[k] = mutate(cur[k])
        except (KeyError, IndexError, TypeError):
            return False
        ev["_corrupted"] = "/".join(str(x) for x in path)
        return True
    return f
