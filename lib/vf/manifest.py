"""Single source of MANIFEST.json: `bin/verif manifest` regenerates and validates it."""
import json, os, subprocess

TECH = "TLA+ spec + TLC model checking; TLC-generated behaviours replayed on the real code; recorded traces validated by TLC against the trace spec"

# property id -> dict(level category, text, note, design_ref, technique?)   (only claimed properties)
CLAIMED = {
    "C31": dict(
        text="RaftLog.tla models RaftStorage's log + snapshot metadata with one action per mutator; TLC checks one-entry-per-index, "
             "contiguity, last-index/term and snapshot-keeps-tail on the design exhaustively (indices<=5, terms<=3), emits one script per "
             "transition of the abstract state graph, every operation sequence up to depth 3/4 and long random walks; each is replayed on "
             "the real RaftStorage and every observation (get_entries/get_entry/last index+term/snapshot) after every step is validated "
             "by TLC against RaftLog_Trace.tla.",
        note="Bounded model (indices<=6, terms<=3, runs<=2); appends restricted to contiguous runs starting <= last+1 and above the "
             "snapshot (the property does not define gaps); order of get_entries not constrained.",
        ref="DESIGN.md §4 C31"),
    "C33": dict(
        text="Quorum.tla models membership (id -> voter/learner, last add wins), heartbeat marks and recorded roles with one action per "
             "ClusterConfig/ClusterManager mutator. TLC checks quorum intersection and type invariants over all configurations of <=3 ids "
             "(quick) / <=5 ids (thorough) including repeated additions of one id, voter/learner flips and removals, finds the legacy "
             "entry-counting rule's counterexample as a self-test, and emits one script per transition; each is replayed on the real "
             "ClusterManager and TLC validates that every observed healthy=true is allowed by the model state (leader known and strict "
             "majority of distinct voters active). The intersection lemma is additionally proved for all sizes with TLAPS "
             "(spec/proofs/QuorumProof.tla, reported under coverage.proofs).",
        note="The property is an implication (healthy only when ...): reporting unhealthy is never rejected. Membership semantics for a "
             "repeated id: the last successful add wins. Replication factor 1.",
        ref="DESIGN.md §4 C33"),
    "C09": dict(
        text="Txn.tla models GraphStore's transaction table (begin, recorded write sets, commit with first-committer-wins conflict "
             "detection, abort, GC forgetting finished transactions) with one action per public call. TLC enumerates ALL interleavings "
             "of 2 transactions over 3 entities and of 3 transactions over 2 entities, checks FirstCommitterWins, increasing commit "
             "versions and absorbing terminal states on the design, finds the last-committer-wins counterexample as a self-test, and "
             "emits one script per transition of the state graph plus random interleavings of 3-4 transactions; each is replayed on the "
             "real GraphStore and TLC validates every commit/abort outcome, commit version, visible status and the version each active "
             "transaction reads at (ReadCommitted = current, SnapshotIsolation = start).",
        note="Bounded: <=4 concurrent transactions, 3 entities. Read versions are observed on one node through a version-marker "
             "property the harness rewrites after every commit. Error kinds (not found vs not active) are not constrained.",
        ref="DESIGN.md §4 C09"),
    "C06": dict(
        text="GraphStore.tla models the store's redundant structures (endpoint/type arrays, write buffer and frozen CSR tier as a bag of "
             "(src,dst,id) entries, label and type indexes, node row map and property column) with one action per public mutator "
             "(create/delete node and relationship, stubs, finish_bulk_load, compact_adjacency, set/remove property, add/remove label). "
             "Every read view the property names is defined from the PHYSICAL variables the way the Rust read paths compute it; TLC checks "
             "ViewsAgree / NoDangling / NothingInherited exhaustively on the design (2 nodes, 2 relationships, all histories to depth 4/7) "
             "and finds the frozen-tier witness when the deviation actions are enabled. One script per transition plus random 30-step "
             "histories over 3 nodes / 3 relationships are replayed on the real GraphStore; after every step ~25 read APIs for every id are "
             "logged and TLC validates each against the model's views (GraphStore_Trace.tla).",
        note="Bounded universe (ids <= 3, labels {A,B}, types {T,U}, one property key). Stub relationships only between live nodes; "
             "type-index and relationships-between views are not checked while a bulk load is open. Open finding "
             "KF_C06_FrozenKeepsDeleted is modelled by two deviation actions (delete after compaction leaves frozen entries).",
        ref="DESIGN.md §4 C06"),
    "C07": dict(
        text="Mvcc.tla carries the IDEAL versioned history (state of every node / relationship as of every version) next to the IMPL "
             "structures (version chains, relationship version log) updated exactly as the code does. TLC shows on the design that IMPL "
             "does not refine IDEAL (witnesses of the three open findings) and that the ideal history is stable; scripts (one per "
             "transition over 1 node/1 relationship/3 versions, random 24-step histories over 2 nodes/5 versions: create, set/remove "
             "property, label changes, commit bump, delete, relationship property writes) are replayed on the real GraphStore; every "
             "(entity, version) read, node_count and all_nodes after every step must equal the IDEAL view, or the IMPL view where a "
             "listed finding explains the difference; anything else is a violation.",
        note="Bounded universe (<=2 nodes, 1 relationship, <=5 versions). Known findings are accepted only when the observation equals "
             "the pinned algorithm's result exactly (category-wise: node history, relationship history, counts).",
        ref="DESIGN.md §4 C07"),
    "C08": dict(
        text="Same specification as C07 (Mvcc.tla) restricted to histories containing gc_versions(w) for every watermark 0..MaxV+1, "
             "gc_auto and active snapshot transactions. TLC checks GcKeeps (reads at versions >= watermark unchanged) on the ideal "
             "history; on the real store every GC event is validated twice: against the model views, and directly on the observations "
             "(every read at a version >= the watermark equals what the previous event observed; the automatic watermark never exceeds "
             "the start version of an active transaction).",
        note="Bounded universe as C07. Reads released by GC (below the watermark and below the current version) are unconstrained.",
        ref="DESIGN.md §4 C08"),
    "C10": dict(
        text="Order.tla states the order laws (reflexive, antisymmetric, transitive, agreement of cmp with equality, equal values hash "
             "equally, ORDER BY order a total preorder) over relations RECORDED from the implementation on a 54-value boundary universe "
             "(signed zeros, NaNs of both signs, infinities, integers around 2^53, i64 extremes, empty/nested lists and maps, vectors, "
             "durations, datetimes, null): TLC evaluates every pair and every triple (157k) and classifies each counterexample by the "
             "classes of the values involved. OrderIndex.tla models the property index as a set of (value, node) pairs; TLC enumerates "
             "every insertion/removal order of <=4 operations over values that include -NaN, -1.0 and Integer 0, each order is replayed "
             "on the real PropertyIndex (BTreeMap keyed by Ord) and get() of every value plus the full range() after every step are "
             "validated by TLC.",
        note="TLC judges the observed relation; IEEE-754 itself is not modelled, so values outside the enumerated universe are not "
             "covered (no random values). Thin use of the technique for the law clause (the specification is a set of quantified laws, "
             "not a state machine).",
        technique="TLA+ order laws evaluated by TLC over relations recorded from the implementation; TLC-generated insertion orders replayed on the real index and validated by TLC",
        ref="DESIGN.md §4 C10"),
    "C15": dict(
        text="Wal.tla models the WAL directory (segment files named by first sequence; records [len|seq|entry|sum] at field granularity "
             "with exact byte lengths; BufWriter buffer; open file; counter; sync mode) with one action per mutator (append, flush, "
             "set_sync_mode, checkpoint), Reopen, and the faults Truncate(b) (crash tearing the newest file at byte b) and Flip (one byte "
             "of a record XORed). TLC checks strictly increasing sequences and file-layout invariants on the design, finds the legacy "
             "reopen counterexample as self-test, and emits one script per transition of the abstract state graph (histories of <=5 "
             "operations x EVERY truncation offset of the newest file x every byte of the last two records x masks {1,128,255}), every "
             "operation sequence of length <=4 and random walks of depth 12; each is replayed on the real Wal in a temp dir (set_len / "
             "byte flip on the real files) and TLC validates after every step current_sequence(), the directory (names, sizes) and the "
             "result of the real replay(from) for from=0..7 (result class, returned last sequence, delivered payload tokens) against "
             "Wal_Trace.tla.",
        note="Bounded: <=6 steps (cover) / 12 (walks), payloads of 38-44 bytes, crash = loss of the BufWriter content and tearing of the "
             "newest file only, one byte flip per history as last step. Replay is judged on the flushed files. The sequence a reopened log "
             "continues with may be any number >= the highest durable one; error classes are not distinguished. A damaged length prefix "
             "pointing beyond EOF may end the file silently (indistinguishable from a torn tail). Open finding "
             "KF_C15_SequenceNotChecksummed (format change, ADR-023). Opening a log that already contains a corrupted record is not modelled.",
        ref="DESIGN.md §4 C15"),
    "C17": dict(
        text="KvTenants.tla models the tenant registry, the stored data per tenant and the ordered byte-string key space of the "
             "nodes/edges column families with keys built exactly as node_key/edge_key build them; actions create_tenant, put/delete of "
             "nodes and relationships; read views point lookup, prefix scan, legacy seek-and-run scan and tenant listing over the key "
             "space. TLC proves on the model that with a registry refusing ids containing ':' every view returns exactly the tenant's own "
             "items (all triples of 15 candidate ids, <=4 writes), and finds the legacy-scan and separator counterexamples as self-tests. "
             "One script per transition (all pairs of all names of length <=2 over {a,b,':'} plus 'a:n','a0'; triples of the "
             "prefix/adjacent/separator names; <=4 interleaved writes) is replayed on the real PersistenceManager (RocksDB in a temp dir, "
             "TenantManager deciding which ids are accepted) and after every step scan_nodes, scan_edges, recover, get_node/get_edge for "
             "every registered tenant and list_persisted_tenants are validated by TLC against KvTenants_Trace.tla.",
        note="Quantifies over ids TenantManager::create_tenant accepts; writes go through PersistenceManager (which refuses unregistered "
             "ids). Bounded: <=3 tenants, <=4 writes, ids 1..2, names <=3 chars. Scans/lookups are required to be exactly the tenant's own "
             "items; the listing only to name tenants that have data.",
        ref="DESIGN.md §4 C17"),
    "C03": dict(
        text="QueryCache.tla models query strings as token sequences with separators (Render = exact text, Meaning = token meanings, Key = "
             "legacy / outside-quotes / raw) and the engine's LRU parse cache with one action per entry point (Open, Exec for execute and "
             "execute_mut). TLC checks Correct / EntriesSound / Bounded and that the key never identifies strings of different meaning "
             "over the whole near-duplicate family (keyword case, quote kind, blanks/tab/newline/case inside literals, identifier case, "
             "back-ticks, blanks, tabs, newlines, CRLF, block and line comments), finds the pinned tree's counterexamples as self-tests, "
             "and emits every ordered pair (thorough: every triple of the colliding family, capacities 1-3) plus a transition cover and "
             "seeded 12-step walks; each is replayed on one real QueryEngine per script and TLC validates that the text is the rendering "
             "of the named variant, that the rows answered through the cache equal the rows of a fresh parse_query + executor run of the "
             "exact string, and that every cache hit reported by cache_stats is explained by an entry parsed from a string of the same meaning.",
        note="4 base queries over a fixed 4-node graph; meaning is defined on tokens (keywords case-insensitive, everything else verbatim); "
             "key function, capacity handling and eviction order are left open; the random walks are seeded in Python from TLC-emitted "
             "variants (TLC -simulate is too slow on this model).",
        ref="DESIGN.md §4 C03"),
    "C24": dict(
        text="Routing.tla models statements as structures (EXPLAIN/PROFILE, read prefix over MATCH / OPTIONAL MATCH / UNWIND / WITH / CALL / "
             "RETURN, one of 14 write/DDL clauses, closing RETURN, keyword case, separator) rendered to text, IsWrite by structure, 8 "
             "response wrappers, and the NLQ pipeline (the pinned tree's line filter + first-keyword test as the self-test mode, "
             "structural safety as the design). TLC checks NeverHandsBackAWrite over the exhaustive product and emits every response; each "
             "is answered by a local Ollama-speaking server to the real NLQPipeline::text_to_cypher (a third through POST /api/nlq on the "
             "real router); every handed-back statement is executed by the engine on a fresh fixed graph and TLC validates that it left "
             "nodes, relationships, indexes and constraints unchanged, and that the outcome is a statement or a rejection.",
        note="Prefixes <= 1 (quick) / <= 2 (thorough); mutation is judged on one fixed graph on which every write kind mutates (checked as a "
             "sanity condition); refusing harmless statements is not judged; no write procedures exist in the engine.",
        ref="DESIGN.md §4 C23/C24"),
    "C25": dict(
        text="Numerals.tla models 28 grammar positions x 27 numerals (exact value as a decimal string, fits-i64 / fits-usize facts) with "
             "Parse = Ok(exact) only if it fits, else Err, the pinned tree's call sites as the self-test mode, and every single deletion / "
             "insertion / substitution of one token (22 base queries) or one character (6 base queries). TLC generates all cases; each text "
             "is parsed by the real parse_query in a worker process under catch_unwind, the AST numbers are logged as decimal strings, and "
             "TLC validates no panic/abort, and that an accepted query carries exactly the written value in the position's field (and the "
             "template's other numerals in theirs).",
        note="An error is always accepted; float underflow is not judged; damaged input is single-edit token-level and byte-level over a "
             "fixed alphabet, not general fuzzing.",
        ref="DESIGN.md §4 C25"),
    "C36": dict(
        text="Rdf.tla states the round-trip contract over RDF terms abstracted to character classes (plain, quote, backslash, LF, CR, control "
             "U+0001, astral U+1F600, space, '<', '&') x term kinds (IRI, blank node, simple / language-tagged / xsd:string / xsd:integer / "
             "custom-datatype literal): the parsed graph must be isomorphic to the original up to a bijection of blank node labels (brute "
             "force), xsd:string literals are simple literals, and a graph is refused exactly when an IRI contains a class RFC 3987 "
             "forbids. A reference design of the three formats (Build / Serialize / Parse as token-level transducers) is model-checked "
             "against the contract over every case, and three Legacy variants (serializer that escapes nothing, reader that merges blank "
             "labels, reader that drops all-white-space content) must each yield a counterexample. TLC enumerates every case of three "
             "universes - every literal string of <=2 (thorough 3) classes x literal kinds; every IRI string in each term position; every "
             "sequence of <=2 distinct statements (shared, distinct and subject+object blank nodes; the empty graph) - x {N-Triples, "
             "Turtle, RDF/XML}: 4 449 cases quick, 36 693 thorough. Each is built with the public constructors, serialized with "
             "RdfSerializer::serialize, parsed with RdfParser::parse of the same format, abstracted back to classes and validated by TLC.",
        note="Per character CLASS, not per code point (one representative per class; a character outside the table maps to 'other'); strings "
             "<=3 classes, graphs <=2 statements, one language tag pair, three datatypes. Graphs are sets. All three formats are rio_* "
             "formatters and parsers behind thin wrappers; open finding KF_C36_XmlWhitespaceOnlyLiteralEmptied is a named deviation "
             "identified by (format, classes sp/lf/cr only, literal position).",
        technique="TLA+ contract + reference design of the formats model-checked by TLC; TLC-enumerated cases round-tripped through the real serializers/parsers and validated by TLC",
        ref="DESIGN.md §4 C36"),
    "C34": dict(
        text="Solver.tla states the contract of a solver run - Start(bounds) -> Iter(best)* -> Done(result): history never increases (the "
             "crate minimises), returned variables inside the box, reported best fitness = fitness recomputed by the caller from the "
             "returned variables and not worse than the last history entry; for multi-objective solvers every front member inside the box "
             "with objective vector = recomputed and no member dominating another (Deb's constrained dominance) - and of a PAIR of runs "
             "(rayon pool of 1 thread vs 8 threads, same seed): identical event for event. Every f64 is replaced by its dense rank within "
             "the pair (order-isomorphic; NaN a token outside every bound). The harness runs all 35 solver variants of the crate on "
             "generated problems (dimensions 1-6 x 9 box kinds incl. degenerate lo=hi, 5 objectives, optional penalty, population 5-25, "
             "iterations 0-40, seeds from VERIF_SEED), and TLC validates every run (quick 630 pairs / 15k events, thorough 5 670 pairs / "
             "205k events) against Solver_Trace.tla; a panic is an outcome no action accepts. MC_Solver.tla is a tiny design model of the "
             "contract whose Legacy variant (history without elitism) TLC must refute.",
        note="impl -> spec only: TLC generates nothing for this property (thinnest use of the technique): state counts are those of the tiny "
             "contract model, coverage is events validated. Iter events are the entries of the returned history. Multi-objective history "
             "is compared across the pair but not required to be monotone; an empty front is not rejected; front order is part of 'same "
             "result'. Floating-point behaviour is observed through ranks, not modelled.",
        technique="TLA+ run contract; traces recorded from every solver validated by TLC against the trace spec (no generation)",
        ref="DESIGN.md §4 C34"),
    "C20": dict(
        text="Resp.tla defines the RESP grammar (Top: frame/need/open), Encode and the connection machine shaped like handle_connection "
             "(Open, Deliver = one socket read, Decode = one loop iteration, End). TLC checks decoded = sent, one reply per frame, the "
             "buffer never becoming garbage, and the round-trip / prefix lemmas over every stream of <=2 (thorough <=3) frames of a "
             "16-frame universe under every split into <=2-4 reads, finds the legacy header-eating decoder's counterexample as a "
             "self-test, and emits one script per stream and split plus random walks. Each script is replayed on the real decode / "
             "handle_command / encode loop and through a socket of a live RespServer, and TLC validates every decode outcome, value, "
             "reply and buffer content against Resp_Trace.tla.",
        note="Bounded universe (nested arrays, $0, $-1, payload with CRLF, inline commands). Replies are pinned only for PING and ECHO. The "
             "live runs cannot force the kernel to keep two writes in two reads. Quoted inline commands and non-ASCII simple strings are left open.",
        ref="DESIGN.md §4 C20"),
    "C21": dict(
        text="Top(b) of Resp.tla classifies any buffer. TLC proves the class lemmas (prefix-freedom, prefix-closure of need, garbage stays "
             "garbage, canonical re-encoding) on all strings of length <=4 over 13 RESP symbols and generates Exhaust, mutant and "
             "deep-nesting scripts. A forked worker with a counting allocator and 2 MiB stack runs RespValue::decode on every string of "
             "length <=4 (thorough: <=5, plus length 6 over 9 symbols, about 940k cases) and about 5500 mutants of valid frames (negative, "
             "huge, malformed lengths, nesting to 600000). Abort and panic are recorded results. TLC re-enumerates the cases and validates "
             "outcome class, exact value and rest, no panic/abort, and reservation <= 32*n + 1024.",
        note="For malformed input any of value/need/error is accepted, as the statement only demands an answer. Must-accept limits are 1 MiB "
             "bulk, 65536 elements, depth 8. Mutants are a fixed TLC-generated set, not random. Heap use is measured by the harness; the "
             "bound is stated in the spec.",
        ref="DESIGN.md §4 C21"),
    "C22": dict(
        text="StrictOne(bytes) of Resp.tla means exactly one typed well-formed frame. TLC checks it on the design model for every reply "
             "under every chunking, finds the raw-error-text encoder's counterexample as a self-test, and generates 769 command / query / "
             "stored-data scripts with CR, LF and CRLF in every syntactic position, plus sweeps over every byte offset. The replies of the "
             "real handle_command + encode are validated with StrictOne. Protocol-error replies of the read loop are validated in C21's "
             "Probe events.",
        note="Strict reading: a lone CR or LF inside a simple string or error is malformed. Reply contents are not predicted except for PING "
             "and ECHO. GRAPH.* replies depend on this build's Cypher dialect; many templates end in parse errors, which still echo the input.",
        ref="DESIGN.md §4 C22"),
    "C14": dict(
        text="FsPersist.tla models <data>/snapshots as a volatile and a durable directory, pending directory operations and written/fsynced "
             "file data, with one action per file-system step of persist_snapshot (named hook points), Import/Ack of the HTTP handler, "
             "Crash, PowerLoss (any dependency-closed subset of un-fsynced directory operations, old/torn/new un-fsynced data) and "
             "Restart. TLC checks on the design (repaired step order) that every restart restores the last acknowledged or the in-flight "
             "graph for every program counter x crash kind x 1..3 imports, finds the counterexamples of the pinned order / missing fsyncs "
             "as self-tests, and enumerates the same space for the program observed on the real code. Every history is replayed through "
             "the real /api/snapshot/import route parked at each hook point, with real fsync observation, materialised power-loss "
             "directories and the real restore_persisted_snapshots; every event is validated by TLC against FsPersist_Trace.tla. "
             "FsPersistBoot.tla covers main.rs's boot sequence and is replayed on the real server binary (thorough tier).",
        note="Strict POSIX durability assumed; creation of snapshots/ and I/O errors not modelled; the graph is abstracted to the set of "
             "imports it holds; at most 2 crashes or power losses per history; the boot stage (real binary) runs in the thorough tier or "
             "with VERIF_C14_BOOT=1. Open findings: only the last import is persisted; RocksDB recovery suppresses the snapshot restore.",
        ref="DESIGN.md §4 C14"),
    "C13": dict(
        text="Snapshot.tla states the post-conditions of import_tenant_with_dedup (ok: old dump + snapshot with dedup merges; err: dump "
             "unchanged) and the import as the code runs it record by record; MC_Snapshot checks the two against each other for every "
             "pre-existing store (<=2 nodes), snapshot (<=2/3 records, parallel/loop relationships), dedup key choice and failure point, "
             "and that the pinned rollback violates the property exactly as the deviation predicate says. Each scenario's real exported "
             ".sgsnap is truncated at every byte offset (quick: every 7th) and bit-flipped, imported with and without dedup keys into "
             "stores holding matching and non-matching nodes, and the full dump after every call is judged by TLC (Snapshot_Trace.tla).",
        note="Dedup values lower-case and blank-free; conflicting property values on merge are left open; for flipped files whose altered "
             "records were applied before the checksum failed the deviation is matched by its signature (only additions to pre-existing "
             "nodes, nothing created survives). Open finding: merged nodes keep additions after a failed import.",
        ref="DESIGN.md §4 C13"),
    "C12": dict(
        text="SnapshotRT.tla keeps the graph built through the store API in the shape that reaches the file (superseded node versions, "
             "frozen adjacency, ghosts of deleted frozen relationships, hierarchy declarations), defines the exported records and "
             "re-imports them with the record-by-record import of Snapshot.tla; TLC checks Import(Export(G)) iso Logical(G) on the design "
             "and finds each pinned deviation as a counterexample. Graphs (exhaustive small scopes x every class token in every position, "
             "random histories <=3 nodes/<=3 relationships with version bumps, compaction, deletions, hierarchy declarations) are built "
             "with the real API, round-tripped through the real export_tenant/import_tenant, abstracted back to tokens, and the "
             "isomorphism (handles, not ids; multiplicity, direction, type, typed values, label sets, hierarchy declarations) is decided by TLC.",
        note="Fidelity per value class (one concrete value per class), one boundary token per graph; null property = absent; hierarchy "
             "reverse flag / measure label not observable. Open findings: unlabelled node gets label \"\"; NaN and +-inf dropped; ghost "
             "stub edges after compact+delete; maps with a __type key read as scalars; hierarchy over a cycle dropped.",
        ref="DESIGN.md §4 C12"),
    "C16": dict(
        text="Persist.tla models PersistenceManager as WAL + storage + usage counters with every persist_* call split into the atomic steps "
             "the code performs (quota check, log append, storage write, usage update, return) and a process crash possible at every step "
             "boundary; TLC checks exhaustively (all sequences of <=4 calls x every crash boundary, restarts, recoveries) that storage is "
             "always the acknowledged graph plus at most the in-flight operation. Scripts (one per Recover transition, every history over "
             "a one-node alphabet, crash-free pair sequences, random walks, seeded random-instant kills) are replayed with the operation "
             "sequence in a child process that abort()s at the hook point; a fresh PersistenceManager on the same directory recovers and "
             "TLC validates every recovered graph (ids, labels, types, properties) against {acknowledged, acknowledged + in-flight}.",
        note="One tenant, 2 node ids, 1 relationship id, properties {} or {k:v}, updates carry the full map; creating an existing id and "
             "deleting a node with relationships are not generated (effect left open by the statement). Crash = process abort (page cache "
             "survives), no power loss. Only recovery is observed; the crash point is not judged. Replays are a seeded sample of the "
             "model-checked histories (each costs a RocksDB open).",
        ref="DESIGN.md §4 C16"),
    "C18": dict(
        text="Persist.tla (Mode conc): one process per writer thread (chk -> wal -> put -> inc -> ret), quota 1-2, 2-3 threads, nodes and "
             "relationships; TLC checks that an admission counting reservations keeps the quota in every interleaving, refusals leave "
             "nothing in storage or the log, usage = persisted at quiescence and after recovery, and every call returns under fair "
             "scheduling. ALL interleavings of 2 threads and a transition cover of 3 are replayed on the real code by parking threads at "
             "the hook points and releasing them in TLC's order; stored ids are validated after every step, counters at quiescence and "
             "after two recoveries on the same manager. Free-running runs are recorded with sequence numbers taken inside the usage lock "
             "and validated too. The pinned tree's check-then-act race is the open finding KF_C18_CheckThenActRace.",
        note="The race needs deviation KF_C18_CheckThenActRace (admitted although usage + admitted-not-yet-counted >= quota while the "
             "counter alone is below quota); any other over-admission is a violation. A refusal is never judged wrong by itself. One "
             "creation per thread, distinct ids, one tenant.",
        ref="DESIGN.md §4 C18"),
    "C32": dict(
        text="The sequential actions of Persist.tla driven through GraphStateMachine::apply: every request sequence of <=2 (quick) / <=3 "
             "requests, all <=4 over one node, one per reachable graph, incl. relationships to missing nodes, deletions and updates of "
             "absent ids, empty label lists, is applied to 2-3 state machines on fresh stores; each is shut down, reopened and recovered; "
             "TLC validates each recovered graph against the effect of the requests in order and against the first replica's graph.",
        note="Error response => no effect, other response => effect; whether a relationship to a missing node is accepted is left open as "
             "long as all replicas agree. Timestamps are not compared. Replicas run one after the other, without openraft.",
        ref="DESIGN.md §4 C32"),
    "C23": dict(
        text="FrontEnds.tla models a front-end call as classification (read/write path) then execution on the engine's two entry points, "
             "for statements rendered to text in TLA+ (Routing.tla structures + decorations that put write keywords inside literals and "
             "UNION branches); TLC checks outcome/effect equality with the engine, finds the misrouted statement with the pinned tree's "
             "substring classifiers (self-test), and every statement of the exhaustive product (1 936 quick / 11 502 thorough) is run on "
             "the engine, through CommandHandler (GRAPH.QUERY) and through the axum router (POST /api/query) on identical graphs; TLC "
             "validates outcome class, columns, rows and the full dump (incl. SHOW INDEXES / CONSTRAINTS) per route, and that a "
             "read-routed statement leaves the dump unchanged.",
        note="<=2 leading read clauses, one write/DDL clause, upper/lower case, 3 separators, 3 keyword decorations; fixed 3-node graph; "
             "error messages and PROFILE timings not compared.",
        ref="DESIGN.md §4 C23"),
    "C19": dict(
        text="Server.tla models served graph and data directory id-keyed, one action per write kind x front end, Restart = main.rs "
             "recovery; TLC checks Durable / Restart => served' = served on the design, emits one script per (state, last write) + Restart, "
             "two-restart scripts and random walks; each runs on a CommandHandler + HTTP router wired to a real PersistenceManager exactly "
             "as main.rs wires them, restart = drop everything and boot again on the same directory; the dump after every step is "
             "validated by TLC. The two open findings are narrow deviation actions (which writes are lost is stated exactly).",
        note="<=3 keys, 2 labels, 1 property, 1 relationship type; clean restart by library calls (real binary not started, crash points not "
             "explored); ids expected to survive recovery; open findings: RESP persists only returned entities, HTTP persists nothing.",
        ref="DESIGN.md §4 C19"),
    "C30": dict(
        text="ColumnMap.tla models ColumnStore as the map (row,key)->value with bulk loads kept symbolically. TLC checks the history-based "
             "statement of C30 (last write wins, exact key listing) on the design. It enumerates every operation sequence of length 2-5 "
             "over six row classes, which the harness instantiates around pre-built dense/sparse/gappy columns of every element type at "
             "the real dense_is_smaller break-even rows. Seeded adversarial sequences (3*10^4 quick / 4*10^5 thorough events) come from "
             "the harness. Every get_property/get_property_keys result of touched and probe rows and run-length-compressed full column "
             "scans are validated by TLC against ColumnMap_Trace.tla. The run fails unless promotion, demotion, growth, rebase and both "
             "type spills were crossed.",
        note="Row classes per pre-built column, not arbitrary rows. Whether a key holding an explicit Null is listed is left open (the "
             "property does not define it). len/is_dense/key order not constrained.",
        ref="DESIGN.md §4 C30"),
    "C29": dict(
        text="VectorIdx.tla models nodes (labels, vector properties), declared indexes and the physical add_vector log with entry status "
             "(current/stale/dead), one action per GraphStore mutator incl. create_vector_index(+backfill) and rebuild. C29 is an exact "
             "top-k predicate over integer ranking classes (cosine by cross-multiplication, L2, dot), proved equal to the property's "
             "wording on the model by TLC. Transition cover over 2 ids, 3 ids at depth 2 in thorough, random walks and harness-generated "
             "random histories are replayed through the GraphStore API and as Cypher statements. After every step every search "
             "(index x query x k) is run and judged by TLC. The three defects of the pinned tree are named deviations explained by the "
             "physically kept entries / forced cosine.",
        note="2-D integer vectors |c|<=3, no zero vector; exact ties in any order. Exact clauses for <=128 add_vector calls since (re)build, "
             "above that only soundness clauses (live, multiplicity, sorted, <=k). Bare create_vector_index over existing eligible nodes "
             "not driven. Open: KF_C29_AppendOnlyEntries, KF_C29_DeletedStillIndexed, KF_C29_MetricIgnored.",
        ref="DESIGN.md §4 C29"),
    "C28": dict(
        text="Hierarchy.tla models the covering relation, measures (integers and halves), a label-restricted measure set and the static "
             "index (snapshot cover, measure vector, poset nodes, none/fresh/stale). The index answers by definition as brute force over "
             "its snapshot; C28 is the invariant Fresh plus 'stale does not answer'. TLC enumerates every labelled DAG over 3 and 4 nodes "
             "(every 5-node DAG up to renaming in thorough) x every forced encoding x measure-update sequences. At the OehIndex level all "
             "pairs subsumes/LCA, all descendant sets and all sum/count/min/max roll-ups are compared after every step. At the GraphStore "
             "level the index is declared by DDL and measure writes (API and Cypher SET/REMOVE), covering-edge writes and REBUILD are "
             "replayed. Six query shapes per root are run with and without the index; TLC requires equal row bags and, for rewritten "
             "queries, a usable index and the brute-force rows. Thorough adds random posets up to 300 nodes checked by closure certificates.",
        note="Update sequences <=3 (3 nodes) / <=2 (4 nodes; thorough replays a seeded sample of 100k of 252k scripts). Large posets: sampled "
             "roots/pairs. subsumes()-predicate rewrites not compared. Labels fixed after build.",
        ref="DESIGN.md §4 C28"),
    "C26": dict(
        text="Algo.tla defines every algorithm by brute force over a directed multigraph (sequence of [s,d,w,type]): WCC/SCC = classes of "
             "(mutual) reachability via simple paths; BFS/Dijkstra = a real walk whose cost equals the claimed cost and the minimum over "
             "all simple paths, none iff unreachable; max flow = minimum over all s-t cuts; MST = minimum over all spanning relationship "
             "subsets of the start node's component, returned edges a real spanning tree of that weight; triangles, undirected and "
             "Fagiolo-directed LCC and the leapfrog triangle count by definition. MC_Algo.tla enumerates every multigraph as a bag (both "
             "insertion orders), checks cross-characterisations (Kruskal = brute-force MST, SCC refines WCC, cut and cost bounds, LCC "
             "identities) and finds the pinned-Prim witness as a self-test. Each graph is replayed on the crate functions (both index "
             "orders) and through CALL algo.* on a real GraphStore for label / type / weight-property projections; Algo_Trace.tla "
             "recomputes each definition from the logged relationship list. The n>=1000 rayon branches of triangle count / LCC are "
             "reached with disjoint copies under 1- and 8-thread pools.",
        note="Exhaustive <=3 nodes/<=4 relationships and <=4 nodes/<=3 relationships (weights {1,2,3}, {1,2} at the largest count); plus all "
             "insertion sequences of 3-node/<=3-relationship graphs and 5/6-node TLC-simulated multigraphs against the same definitions. "
             "Random graphs of 20-300 nodes by certificates only: paths and WCC/SCC completely, max flow only by sampled-cut upper bounds, "
             "triangles/LCC only as parallel = sequential. s # t for max flow; CALL algo.mst start node unspecified; leapfrog count after "
             "compaction only; no deletions or version bumps, so the C06/C07 store findings do not interact.",
        ref="DESIGN.md §4 C26"),
    "C27": dict(
        text="Algo.tla defines PageRank as the LDBC Graphalytics iteration in exact rational arithmetic (dampings 1/2, 3/4, 1/4; <=3 "
             "iterations; tolerance as strict L1 change; with and without dangling redistribution; sum = 1 when redistributed) and CDLP as "
             "the synchronous LDBC iteration with smallest-label tie-breaking (every relationship end votes). TLC enumerates all "
             "multigraphs with <=3 nodes/<=4 and <=4 nodes/<=3 relationships plus simulated 5/6-node graphs, proves sum-to-one and the "
             "disjoint-union lemma (score/k per copy, the copy's own labels, k = 2, 3) on the design, and finds the no-redistribution "
             "counterexample as a self-test. page_rank / cdlp (both index orders) and CALL algo.pageRank / algo.cdlp with label/type "
             "projections are validated at 10^-6 per score / exactly for labels; the n>=1000 rayon branches are reached with ceil(1000/n) "
             "disjoint copies under pools of 1 and 8 threads.",
        note="Exact comparison on graphs of <=6 nodes only (32-bit TLC integers; <=2 iterations at 5/6 nodes). Random graphs of 20-300 nodes: "
             "only parallel path (1/8 threads, copies crossing the threshold) = sequential path, at 2*10^-6. CALL algo.pageRank exposes "
             "only iterations and damping. CDLP's iteration counter only required to be <= k and consistent with the labelling.",
        ref="DESIGN.md §4 C26/C27"),
    "C11": dict(
        text="CypherWrite.tla gives the reference mutation semantics of the openCypher write fragment over a logical property graph with a "
             "unique-constraint registry (a write is refused iff afterwards two live nodes of the constrained label would hold equal "
             "values, and then changes nothing). TLC checks NoDuplicate and Refused<=>WouldDuplicate on all histories of single-node "
             "CREATE / SET / REMOVE / DELETE / SET label / REMOVE label statements over 3 tagged nodes, values {1,2}, with CREATE "
             "CONSTRAINT at any point (backfill), finds the unchecked-label-add counterexample as a self-test, and emits one script per "
             "transition (depth 4 / 6) plus random 12-step histories; each is rendered to Cypher, executed through "
             "QueryEngine::execute_mut, and after every statement the outcome, the full graph dumped through the GraphStore API, the label "
             "index and the registered holder of every value in the constraint index are validated by TLC against CypherWrite_Trace.tla.",
        note="Bounded: <=3 live nodes, one constraint :A(k), statements touch one node addressed through a tag property (no index involved). "
             "Index-backed property lookups are not probed here (C02). Stored null = absent. Node ids are bound from the dump.",
        ref="DESIGN.md §4 C11"),
    "C05": dict(
        text="Same specification (CypherWrite.tla); a statement leaves the graph unchanged whenever it reports an error. TLC enumerates "
             "set-up graphs (<=3 nodes, constraint :A(k)) x multi-row statements (UNWIND list CREATE / MERGE with k: 10/x, MATCH SET k = "
             "10/n.p, MATCH CREATE, MATCH SET label) in which every row position can fail by zero divisor, operand type or duplicate "
             "constrained value (lists <=3 / <=4), checks C05_ErrorChangesNothing on the design and finds the row-by-row counterexample "
             "when the deviation is enabled; every script is replayed on the real engine and TLC validates outcome, full dump, constraint "
             "registry, and index / constraint-index / label probes for every value after every statement. The open finding "
             "KF_C05_RowByRowApply admits exactly 'rows before the failing one stay applied'.",
        note="Every row order of a MATCH is accepted. Fault kinds: evaluation errors and constraint violations (not 'missing node'). Write "
             "shapes are single-entity per row, so a half-applied row would be a violation.",
        ref="DESIGN.md §4 C05"),
    "C04": dict(
        text="Same specification over ~45 (thorough ~56) statement shapes: CREATE of nodes and paths, MATCH/UNWIND-driven CREATE, MERGE with "
             "ON CREATE / ON MATCH (labelled, unlabelled, per UNWIND row, several matches), SET (literal, from another property, swap, "
             "n.k+1, += map, label, null, failing expression), REMOVE (property, label), DELETE / DETACH DELETE of nodes and "
             "relationships, RETURN; TLC checks connected-DELETE-refused, MERGE idempotence, no dangling relationships and "
             "error-changes-nothing on the design, emits one script per transition of the state graph to depth 3 (thorough: rich alphabet "
             "+ depth 4) plus random 6-statement walks; after every statement outcome, returned rows (as a bag) and the full dump (labels, "
             "typed properties from row and column store, endpoints, types, relationship properties, adjacency lists) must equal the "
             "specified graph up to the ids of created entities.",
        note="No constraints/indexes here. WITH only as MATCH (n) WITH n <write>; FOREACH, path/relationship MERGE, SET n = {..}, cross-node "
             "reads in SET not modelled; MATCH row order left open; stored null = absent.",
        ref="DESIGN.md §4 C04"),
    "C01": dict(
        text="CypherRead.tla is an executable openCypher reference for the read fragment (brute-force pattern matching under relationship "
             "isomorphism, Kleene logic, bags, aggregation, OPTIONAL MATCH, WITH, UNWIND, UNION, ORDER BY/SKIP/LIMIT windows, variable "
             "length and shortest paths), evaluated by TLC. TLC enumerates every graph within per-family bounds x every query of 20 clause "
             "families plus random walks, checks laws of the semantics itself, and each case is rendered to Cypher, run on the real engine "
             "and judged by TLC (Accept) from the logged graph and AST. An error on a shape listed in supported_shapes.json is a violation.",
        note="Small scope (<=3 nodes, values {absent,1,2,2.0,'a',true}); lists compared as bags; 2 and 2.0 identified under "
             "DISTINCT/grouping/UNION; not generated: sum over non-numbers, type errors inside AND/OR, named variable-length relationship "
             "variables, path values, arithmetic and functions. Four open findings are modelled as deviations identified by query shape.",
        ref="DESIGN.md §4 C01"),
    "C35": dict(
        text="The C01 cases are executed with literals inlined and, per position class (WHERE, RETURN, WITH, ORDER BY, inline pattern "
             "properties, UNWIND, whole list, list elements, SKIP/LIMIT, all together), with the literals as $parameters "
             "(QueryExecutor::with_params); TLC requires each parameterised run to be refused or to answer something the same reference "
             "(CypherRead.tla) allows that also equals the inlined answer.",
        note="Reads only; inline pattern properties and SKIP/LIMIT parameters are always refused by the engine, which is allowed.",
        ref="DESIGN.md §4 C35"),
    "C02": dict(
        text="TLC generates graph histories (deletes, id reuse, Compact and CreateIndex at any point) x plan-sensitive query templates; each "
             "history is replayed under {index} x {compact} x {graph-native planner} x {parallel filter threshold}, plus a 260-copy store "
             "so the >=256-row parallel path really runs, in several processes; TLC requires every configuration's outcome to equal the "
             "reference result (CypherRead.tla) on the logical graph. Known deviations are explained from modelled physical state (index "
             "content, frozen tier phantoms), never by tolerance.",
        note="Mutations via the GraphStore API; the inflated store is never compacted; the graph-native planner finding and the C06 "
             "frozen-tier finding stay open.",
        ref="DESIGN.md §4 C02"),
}

NOT_YET = "check not built yet in this round (planned in DESIGN.md §4); not claimed until its check is green on the unchanged tree"


def build(root):
    props = [json.loads(l) for l in open(os.path.join(root, "properties.jsonl"))]
    checks, na = [], []
    for p in props:
        pid = p["id"]
        c = CLAIMED.get(pid)
        if not c:
            na.append({"property_id": pid, "reason": NOT_YET})
            continue
        checks.append({
            "property_id": pid,
            "quick_cmd": "bin/verif check %s --tier quick" % pid,
            "thorough_cmd": "bin/verif check %s --tier thorough" % pid,
            "evidence_file": "/verif/evidence/%s.json" % pid,
            "replay_cmd_template": "cat {path}",
            "engine": "tla-mbt",
            "level_claimed": {"category": c.get("level", "model_checking"), "text": c["text"], "design_ref": c.get("ref", "DESIGN.md §4")},
            "level_note": c["note"],
            "technique": c.get("technique", TECH),
        })
    m = {
        "version": 1,
        "setup_cmd": "bin/verif setup",
        "hooks": {
            "guard": "--cfg samyama_ai_samyama_graph_verif",
            "enable": "harness/.cargo/config.toml sets rustflags = [\"--cfg\", \"samyama_ai_samyama_graph_verif\"]; the harness crate has a path dependency on /repo and is rebuilt from its working tree by every check",
            "baseline_off_cmd": "cd /repo && cargo nextest run --workspace --no-fail-fast --test-threads 8 --offline || cargo test --workspace --no-fail-fast --offline",
            "source_commits": HOOK_COMMITS,
            "add_only": True,
        },
        "engines": [{
            "name": "tla-mbt", "path": "bin/verif",
            "serves_properties": [c["property_id"] for c in checks],
            "kind_free_text": "TLA+ specifications (spec/*.tla) model-checked by TLC; behaviours emitted by TLC are replayed by the Rust harness "
                              "(harness/, path dependency on /repo) on the real code; recorded ndjson traces are validated by TLC against "
                              "trace specifications (*_Trace.tla) that reuse the specification's actions"}],
        "checks": checks,
        "not_applicable": na,
        "notes": "See DESIGN.md. Exit codes: 0 held (KNOWN-FINDING lines possible), 1 VIOLATION, 2 tool error. known_findings.json is read-only at run time.",
    }
    return m


HOOK_COMMITS = ["db4e1a5", "da76390"]


def write(root):
    m = build(root)
    path = os.path.join(root, "MANIFEST.json")
    with open(path, "w") as f:
        json.dump(m, f, indent=1)
    code = ("import json,jsonschema;jsonschema.validate(json.load(open('%s')),json.load(open('/root/.vp/MANIFEST.schema.json')));print('MANIFEST valid: %d checks, %d not claimed')"
            % (path, len(m["checks"]), len(m["not_applicable"])))
    return subprocess.call(["/opt/veriftools/pyvenv/bin/python", "-c", code])
