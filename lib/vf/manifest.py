"""Single source of MANIFEST.json: `bin/verif manifest` regenerates and validates it."""
import json, os, subprocess

TECH = "TLA+ spec + TLC model checking; TLC-generated behaviours replayed on the real code; recorded traces validated by TLC against the trace spec"

# property id -> dict(level category, text, note, design_ref, technique?)   (only claimed properties)
CLAIMED = {
    "C31": dict(
        text="RaftLog.tla models RaftStorage's log + snapshot metadata with one action per mutator; TLC checks one-entry-per-index, "
             "contiguity, last-index/term and snapshot-keeps-tail on the design exhaustively (indices<=5, terms<=3), emits one script per "
             "transition of the abstract state graph, every operation sequence up to depth 3/4 and long random walks; each is replayed on "
             "the real RaftStorage and every observation (get_entries/get_entry/last index+term/snapshot) after every step is validated "
             "by TLC against RaftLog_Trace.tla.",
        note="Bounded model (indices<=6, terms<=3, runs<=2); appends restricted to contiguous runs starting <= last+1 and above the "
             "snapshot (the property does not define gaps); order of get_entries not constrained.",
        ref="DESIGN.md §4 C31"),
    "C33": dict(
        text="Quorum.tla models membership (id -> voter/learner, last add wins), heartbeat marks and recorded roles with one action per "
             "ClusterConfig/ClusterManager mutator. TLC checks quorum intersection and type invariants over all configurations of <=3 ids "
             "(quick) / <=5 ids (thorough) including repeated additions of one id, voter/learner flips and removals, finds the legacy "
             "entry-counting rule's counterexample as a self-test, and emits one script per transition; each is replayed on the real "
             "ClusterManager and TLC validates that every observed healthy=true is allowed by the model state (leader known and strict "
             "majority of distinct voters active). The intersection lemma is additionally proved for all sizes with TLAPS "
             "(spec/proofs/QuorumProof.tla, reported under coverage.proofs).",
        note="The property is an implication (healthy only when ...): reporting unhealthy is never rejected. Membership semantics for a "
             "repeated id: the last successful add wins. Replication factor 1.",
        ref="DESIGN.md §4 C33"),
    "C09": dict(
        text="Txn.tla models GraphStore's transaction table (begin, recorded write sets, commit with first-committer-wins conflict "
             "detection, abort, GC forgetting finished transactions) with one action per public call. TLC enumerates ALL interleavings "
             "of 2 transactions over 3 entities and of 3 transactions over 2 entities, checks FirstCommitterWins, increasing commit "
             "versions and absorbing terminal states on the design, finds the last-committer-wins counterexample as a self-test, and "
             "emits one script per transition of the state graph plus random interleavings of 3-4 transactions; each is replayed on the "
             "real GraphStore and TLC validates every commit/abort outcome, commit version, visible status and the version each active "
             "transaction reads at (ReadCommitted = current, SnapshotIsolation = start).",
        note="Bounded: <=4 concurrent transactions, 3 entities. Read versions are observed on one node through a version-marker "
             "property the harness rewrites after every commit. Error kinds (not found vs not active) are not constrained.",
        ref="DESIGN.md §4 C09"),
    "C06": dict(
        text="GraphStore.tla models the store's redundant structures (endpoint/type arrays, write buffer and frozen CSR tier as a bag of "
             "(src,dst,id) entries, label and type indexes, node row map and property column) with one action per public mutator "
             "(create/delete node and relationship, stubs, finish_bulk_load, compact_adjacency, set/remove property, add/remove label). "
             "Every read view the property names is defined from the PHYSICAL variables the way the Rust read paths compute it; TLC checks "
             "ViewsAgree / NoDangling / NothingInherited exhaustively on the design (2 nodes, 2 relationships, all histories to depth 4/7) "
             "and finds the frozen-tier witness when the deviation actions are enabled. One script per transition plus random 30-step "
             "histories over 3 nodes / 3 relationships are replayed on the real GraphStore; after every step ~25 read APIs for every id are "
             "logged and TLC validates each against the model's views (GraphStore_Trace.tla).",
        note="Bounded universe (ids <= 3, labels {A,B}, types {T,U}, one property key). Stub relationships only between live nodes; "
             "type-index and relationships-between views are not checked while a bulk load is open. Open finding "
             "KF_C06_FrozenKeepsDeleted is modelled by two deviation actions (delete after compaction leaves frozen entries).",
        ref="DESIGN.md §4 C06"),
    "C07": dict(
        text="Mvcc.tla carries the IDEAL versioned history (state of every node / relationship as of every version) next to the IMPL "
             "structures (version chains, relationship version log) updated exactly as the code does. TLC shows on the design that IMPL "
             "does not refine IDEAL (witnesses of the three open findings) and that the ideal history is stable; scripts (one per "
             "transition over 1 node/1 relationship/3 versions, random 24-step histories over 2 nodes/5 versions: create, set/remove "
             "property, label changes, commit bump, delete, relationship property writes) are replayed on the real GraphStore; every "
             "(entity, version) read, node_count and all_nodes after every step must equal the IDEAL view, or the IMPL view where a "
             "listed finding explains the difference; anything else is a violation.",
        note="Bounded universe (<=2 nodes, 1 relationship, <=5 versions). Known findings are accepted only when the observation equals "
             "the pinned algorithm's result exactly (category-wise: node history, relationship history, counts).",
        ref="DESIGN.md §4 C07"),
    "C08": dict(
        text="Same specification as C07 (Mvcc.tla) restricted to histories containing gc_versions(w) for every watermark 0..MaxV+1, "
             "gc_auto and active snapshot transactions. TLC checks GcKeeps (reads at versions >= watermark unchanged) on the ideal "
             "history; on the real store every GC event is validated twice: against the model views, and directly on the observations "
             "(every read at a version >= the watermark equals what the previous event observed; the automatic watermark never exceeds "
             "the start version of an active transaction).",
        note="Bounded universe as C07. Reads released by GC (below the watermark and below the current version) are unconstrained.",
        ref="DESIGN.md §4 C08"),
    "C10": dict(
        text="Order.tla states the order laws (reflexive, antisymmetric, transitive, agreement of cmp with equality, equal values hash "
             "equally, ORDER BY order a total preorder) over relations RECORDED from the implementation on a 54-value boundary universe "
             "(signed zeros, NaNs of both signs, infinities, integers around 2^53, i64 extremes, empty/nested lists and maps, vectors, "
             "durations, datetimes, null): TLC evaluates every pair and every triple (157k) and classifies each counterexample by the "
             "classes of the values involved. OrderIndex.tla models the property index as a set of (value, node) pairs; TLC enumerates "
             "every insertion/removal order of <=4 operations over values that include -NaN, -1.0 and Integer 0, each order is replayed "
             "on the real PropertyIndex (BTreeMap keyed by Ord) and get() of every value plus the full range() after every step are "
             "validated by TLC.",
        note="TLC judges the observed relation; IEEE-754 itself is not modelled, so values outside the enumerated universe are not "
             "covered (no random values). Thin use of the technique for the law clause (the specification is a set of quantified laws, "
             "not a state machine).",
        technique="TLA+ order laws evaluated by TLC over relations recorded from the implementation; TLC-generated insertion orders replayed on the real index and validated by TLC",
        ref="DESIGN.md §4 C10"),
}

NOT_YET = "check not built yet in this round (planned in DESIGN.md §4); not claimed until its check is green on the unchanged tree"


def build(root):
    props = [json.loads(l) for l in open(os.path.join(root, "properties.jsonl"))]
    checks, na = [], []
    for p in props:
        pid = p["id"]
        c = CLAIMED.get(pid)
        if not c:
            na.append({"property_id": pid, "reason": NOT_YET})
            continue
        checks.append({
            "property_id": pid,
            "quick_cmd": "bin/verif check %s --tier quick" % pid,
            "thorough_cmd": "bin/verif check %s --tier thorough" % pid,
            "evidence_file": "/verif/evidence/%s.json" % pid,
            "replay_cmd_template": "cat {path}",
            "engine": "tla-mbt",
            "level_claimed": {"category": c.get("level", "model_checking"), "text": c["text"], "design_ref": c.get("ref", "DESIGN.md §4")},
            "level_note": c["note"],
            "technique": c.get("technique", TECH),
        })
    m = {
        "version": 1,
        "setup_cmd": "bin/verif setup",
        "hooks": {
            "guard": "--cfg samyama_ai_samyama_graph_verif",
            "enable": "harness/.cargo/config.toml sets rustflags = [\"--cfg\", \"samyama_ai_samyama_graph_verif\"]; the harness crate has a path dependency on /repo and is rebuilt from its working tree by every check",
            "baseline_off_cmd": "cd /repo && cargo nextest run --workspace --no-fail-fast --test-threads 8 --offline || cargo test --workspace --no-fail-fast --offline",
            "source_commits": HOOK_COMMITS,
            "add_only": True,
        },
        "engines": [{
            "name": "tla-mbt", "path": "bin/verif",
            "serves_properties": [c["property_id"] for c in checks],
            "kind_free_text": "TLA+ specifications (spec/*.tla) model-checked by TLC; behaviours emitted by TLC are replayed by the Rust harness "
                              "(harness/, path dependency on /repo) on the real code; recorded ndjson traces are validated by TLC against "
                              "trace specifications (*_Trace.tla) that reuse the specification's actions"}],
        "checks": checks,
        "not_applicable": na,
        "notes": "See DESIGN.md. Exit codes: 0 held (KNOWN-FINDING lines possible), 1 VIOLATION, 2 tool error. known_findings.json is read-only at run time.",
    }
    return m


HOOK_COMMITS = []


def write(root):
    m = build(root)
    path = os.path.join(root, "MANIFEST.json")
    with open(path, "w") as f:
        json.dump(m, f, indent=1)
    code = ("import json,jsonschema;jsonschema.validate(json.load(open('%s')),json.load(open('/root/.vp/MANIFEST.schema.json')));print('MANIFEST valid: %d checks, %d not claimed')"
            % (path, len(m["checks"]), len(m["not_applicable"])))
    return subprocess.call(["/opt/veriftools/pyvenv/bin/python", "-c", code])
