import importlib, os, sys, time, traceback
from . import core

def main(root):
    a = sys.argv[1:]
    if not a:
        print(__doc__ or "usage: verif check <ID> [--tier quick|thorough]"); sys.exit(2)
    if a[0] == "setup":
        sys.exit(core.setup(root))
    if a[0] == "manifest":
        from . import manifest
        sys.exit(manifest.write(root))
    if a[0] == "design-tables":
        from . import designmd
        sys.exit(designmd.update(root))
    if a[0] == "list":
        for f in sorted(os.listdir(os.path.join(root, "lib/vf/props"))):
            if f.startswith("c") and f.endswith(".py"):
                print(f[:-3].upper())
        sys.exit(0)
    if a[0] == "check":
        pid = a[1].upper()
        tier = os.environ.get("VERIF_TIER", "quick")
        if "--tier" in a:
            tier = a[a.index("--tier") + 1]
        seed = int(os.environ.get("VERIF_SEED", "1") or "1")
        ctx = core.Ctx(root, pid, tier, seed)
        try:
            mod = importlib.import_module("vf.props." + pid.lower())
            mod.run(ctx)
            code = ctx.finish()
        except core.ToolError as e:
            print("TOOL-ERROR:", e)
            ctx.finish(tool_error=str(e))
            code = 2
        except Exception:
            traceback.print_exc()
            ctx.finish(tool_error="internal error")
            code = 2
        sys.exit(code)
    print("unknown command", a[0]); sys.exit(2)
