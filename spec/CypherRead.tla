----------------------------- MODULE CypherRead -----------------------------
(* Executable reference semantics of the read fragment of openCypher           *)
(* (properties C01, C35, C02).  TLC evaluates Poss(q, G, D): the set of        *)
(* results openCypher allows for the query q (a typed AST, see below) on the   *)
(* property graph G.  Nothing here is shaped after the engine: pattern         *)
(* matching is a brute-force set comprehension over walks under RELATIONSHIP   *)
(* ISOMORPHISM, predicates use Kleene logic, tables are bags (functions        *)
(* row -> multiplicity).                                                       *)
(*                                                                             *)
(* Graph    [nodes |-> <<[live, labels (set), props |-> [p, q]]>>,             *)
(*           rels  |-> <<[live, s, d, t, props |-> [p, q]]>>]   index = handle *)
(* Query    [parts |-> <<[clauses |-> <<clause>>]>>, all |-> BOOLEAN]  (UNION) *)
(* clause   [c |-> "match", opt, paths, where] | [c |-> "unwind", list, as]    *)
(*          [c |-> "with"|"return", distinct, items |-> <<[e, as]>>, where,    *)
(*           order |-> <<[e, asc]>>, skip, limit]       (-1 = absent)          *)
(* path     [sp, pv, start |-> node, segs |-> <<[rel, node]>>]                 *)
(* node     [x, labels |-> <<..>>, props |-> <<[key, v]>>]    x = "" anonymous *)
(* rel      [x, types, dir |-> "out"|"in"|"both", props, vl, lo, hi]           *)
(* expr     [e |-> "lit", v] [e |-> "prop", x, key] [e |-> "var", x]           *)
(*          [e |-> "cmp", op, a, b] [e |-> "and"|"or"|"xor", a, b]             *)
(*          [e |-> "not"|"isnull"|"notnull", a] [e |-> "in", a, b]             *)
(*          [e |-> "list", items] [e |-> "cstar"] [e |-> "agg", f, a, d]       *)
(*          [e |-> "none"] (no WHERE)                                          *)
(* D is the set of enabled known deviations (KF_ names); {} = openCypher.      *)
(* Each deviation is the model of one recorded defect of the engine and        *)
(* changes exactly the operator that names it: KF_C01_MultiLabelUnion /        *)
(* CountMin (LabelsOK, CountMinTable), KF_C01_RelIsoPerPathOnly (MatchExt),    *)
(* KF_C01_KeysCompareStructurally (EquivD), KF_C01_VarLengthReachability       *)
(* (SegExt), KF_C02_IndexStorageOrder / IndexStaleEntries (IxMult,             *)
(* IndexVariants), KF_C02_NativePlannerDropsPatternDetails (NativeClause),     *)
(* KF_C02_ParallelFilterSwallowsErrors (WhereD; repaired, kept for the         *)
(* self-test).                                                                  *)
EXTENDS Values, TLC

VErr == [k |-> "ERR", n |-> 0, s |-> ""]
IsErr(v) == v.k = "ERR"

\* ------------------------------------------------------------------ small helpers
Max2(a, b) == IF a > b THEN a ELSE b
Min2(a, b) == IF a < b THEN a ELSE b
RECURSIVE WSum(_, _)
WSum(S, f) == IF S = {} THEN 0 ELSE LET x == CHOOSE x \in S : TRUE IN f[x] + WSum(S \ {x}, f)
BagSize(B) == WSum(DOMAIN B, B)
EmptyBag == [x \in {} |-> 0]
RECURSIVE ConcatAll(_)
ConcatAll(ss) == IF ss = <<>> THEN <<>> ELSE Head(ss) \o ConcatAll(Tail(ss))
Range(q) == {q[i] : i \in DOMAIN q}
Restrict(f, S) == [x \in S |-> f[x]]
\* bag obtained by mapping every row of B through F (a function on DOMAIN B)
MapBag(B, F) == [o \in {F[r] : r \in DOMAIN B} |-> WSum({r \in DOMAIN B : F[r] = o}, B)]

\* ------------------------------------------------------------------ graphs
\* nid: handle -> the id the store gave the node; idx: physical content of the property indexes (entries
\* [lb, key, v, id]) -- both only matter to the C02 index deviations and are maintained by the trace specification
EmptyGraph == [nodes |-> <<>>, rels |-> <<>>, nid |-> <<>>, idx |-> {}]
NodeRec(labels, p, q) == [live |-> TRUE, labels |-> labels, props |-> [p |-> p, q |-> q]]
\* h = the handle under which the relationship is reported (its own index, except for the phantom copies the trace
\* specification adds to model stale entries of the frozen adjacency tier)
RelRec(s, d, t, p, h) == [live |-> TRUE, s |-> s, d |-> d, t |-> t, props |-> [p |-> p, q |-> VNull], h |-> h]
AddNodeId(G, labels, p, q, id) == [G EXCEPT !.nodes = Append(@, NodeRec(labels, p, q)), !.nid = Append(@, id)]
AddNode(G, labels, p, q) == AddNodeId(G, labels, p, q, Len(G.nodes) + 1)
AddRel(G, s, d, t, p) == [G EXCEPT !.rels = Append(@, RelRec(s, d, t, p, Len(G.rels) + 1))]
LiveN(G) == {h \in DOMAIN G.nodes : G.nodes[h].live}
LiveR(G) == {h \in DOMAIN G.rels : G.rels[h].live}
\* deleting a node removes its relationships (what GraphStore::delete_node does)
DelNode(G, h) == [G EXCEPT !.nodes[h].live = FALSE,
                           !.rels = [r \in DOMAIN G.rels |-> IF G.rels[r].s = h \/ G.rels[r].d = h
                                                             THEN [G.rels[r] EXCEPT !.live = FALSE] ELSE G.rels[r]]]
DelRel(G, r) == [G EXCEPT !.rels[r].live = FALSE]

\* ------------------------------------------------------------------ expressions
Cmp3(op, a, b) ==
    CASE op = "=" -> Eq3(a, b)
      [] op = "<>" -> Not3(Eq3(a, b))
      [] op = "<" -> Lt3(a, b)
      [] op = ">" -> Lt3(b, a)
      [] op = "<=" -> IF Lt3(a, b) = "U" THEN "U" ELSE Or3(Lt3(a, b), Eq3(a, b))
      [] op = ">=" -> IF Lt3(b, a) = "U" THEN "U" ELSE Or3(Lt3(b, a), Eq3(a, b))
\* x IN list: true if some element equals, else unknown if some comparison is unknown, else false
In3(a, l) ==
    LET ts == {Eq3(a, l.l[i]) : i \in DOMAIN l.l} IN
    IF "T" \in ts THEN "T" ELSE IF "U" \in ts THEN "U" ELSE "F"

RECURSIVE EvalX(_, _, _)
EvalX(x, row, G) ==
    CASE x.e = "lit" -> x.v
      [] x.e = "var" -> row[x.x]
      [] x.e = "prop" ->
            LET b == row[x.x] IN
            IF b.k = "N" THEN VNull
            ELSE IF b.k = "V" THEN G.nodes[b.n].props[x.key]
            ELSE IF b.k = "E" THEN G.rels[b.n].props[x.key]
            ELSE VErr
      [] x.e = "cmp" ->
            LET a == EvalX(x.a, row, G)  b == EvalX(x.b, row, G) IN
            IF IsErr(a) \/ IsErr(b) THEN VErr ELSE ValOf3(Cmp3(x.op, a, b))
      [] x.e \in {"and", "or", "xor"} ->
            LET a == EvalX(x.a, row, G)  b == EvalX(x.b, row, G) IN
            IF IsErr(a) \/ IsErr(b) THEN VErr
            ELSE LET ta == TruthOf(a)  tb == TruthOf(b) IN
                 IF ta = "E" \/ tb = "E" THEN VErr
                 ELSE ValOf3(IF x.e = "and" THEN And3(ta, tb) ELSE IF x.e = "or" THEN Or3(ta, tb) ELSE Xor3(ta, tb))
      [] x.e = "not" ->
            LET a == EvalX(x.a, row, G) IN
            IF IsErr(a) \/ TruthOf(a) = "E" THEN VErr ELSE ValOf3(Not3(TruthOf(a)))
      [] x.e = "isnull" -> LET a == EvalX(x.a, row, G) IN IF IsErr(a) THEN VErr ELSE VBool(a.k = "N")
      [] x.e = "notnull" -> LET a == EvalX(x.a, row, G) IN IF IsErr(a) THEN VErr ELSE VBool(a.k # "N")
      [] x.e = "list" ->
            LET vs == [i \in DOMAIN x.items |-> EvalX(x.items[i], row, G)] IN
            IF \E i \in DOMAIN vs : IsErr(vs[i]) THEN VErr ELSE VList(vs)
      [] x.e = "in" ->
            LET a == EvalX(x.a, row, G)  b == EvalX(x.b, row, G) IN
            IF IsErr(a) \/ IsErr(b) THEN VErr
            ELSE IF b.k = "N" THEN VNull
            ELSE IF b.k # "L" THEN VErr
            ELSE IF a.k = "N" THEN (IF b.l = <<>> THEN VBool(FALSE) ELSE VNull)
            ELSE ValOf3(In3(a, b))

\* truth of a WHERE predicate on a row: "T" keep, "F"/"U" drop, "E" type error
Where3(x, row, G) == IF x.e = "none" THEN "T" ELSE LET v == EvalX(x, row, G) IN IF IsErr(v) THEN "E" ELSE TruthOf(v)

\* ------------------------------------------------------------------ property index (C02 deviations)
\* the order of the B-tree index keys (PropertyValue's Ord): Boolean < numbers < String; equal numbers: Integer < Float
StorageLt(a, b) ==
    LET bucket(v) == CASE v.k = "B" -> 0 [] v.k \in {"I", "F"} -> 1 [] v.k = "S" -> 2 [] OTHER -> 9 IN
    IF bucket(a) # bucket(b) THEN bucket(a) < bucket(b)
    ELSE CASE a.k = "B" -> a.n < b.n
           [] a.k = "S" -> StrRank(a.s) < StrRank(b.s)
           [] IsNum(a) -> Num2(a) < Num2(b) \/ (Num2(a) = Num2(b) /\ a.k = "I" /\ b.k = "F")
           [] OTHER -> FALSE
StorageCmp(op, v, lit) ==
    CASE op = "=" -> v = lit
      [] op = "<" -> StorageLt(v, lit)
      [] op = "<=" -> StorageLt(v, lit) \/ v = lit
      [] op = ">" -> StorageLt(lit, v)
      [] op = ">=" -> StorageLt(lit, v) \/ v = lit
\* what the indexes would hold if they followed the graph exactly
IdealIdx(G) == {[lb |-> lb, key |-> key, v |-> G.nodes[h].props[key], id |-> G.nid[h]] :
                   h \in {h \in DOMAIN G.nodes : G.nodes[h].live}, lb \in {"A", "B"}, key \in {"p", "q"}}
\* the number of index entries that deliver node h for the scan ix = [lb, key, op, v].
\* KF_C02_IndexStaleEntries: the physical content G.idx (entries survive REMOVE, label removal and id reuse);
\* KF_C02_IndexStorageOrder: keys are compared by storage order (2 and 2.0 are different keys, other types are in range)
IxMult(G, ix, h, D) ==
    LET content == IF "KF_C02_IndexStaleEntries" \in D THEN G.idx
                   ELSE {e \in IdealIdx(G) : e.lb \in G.nodes[h].labels /\ e.v.k # "N"}
        hit(e) == IF "KF_C02_IndexStorageOrder" \in D THEN StorageCmp(ix.op, e.v, ix.v) ELSE Cmp3(ix.op, e.v, ix.v) = "T"
    IN Cardinality({e \in content : e.lb = ix.lb /\ e.key = ix.key /\ e.id = G.nid[h] /\ hit(e)})

\* ------------------------------------------------------------------ pattern matching
PropsOK(ps, have, row, G) == \A i \in DOMAIN ps : Eq3(have[ps[i].key], EvalX(ps[i].v, row, G)) = "T"
\* union = TRUE is the known deviation KF_C01_MultiLabelUnion (a start-node scan with several labels unions them)
LabelsOK(np, have, union) ==
    IF union /\ Len(np.labels) >= 2 THEN \E i \in DOMAIN np.labels : np.labels[i] \in have
    ELSE \A i \in DOMAIN np.labels : np.labels[i] \in have
NodeOK(G, np, h, row, union) == LabelsOK(np, G.nodes[h].labels, union) /\ PropsOK(np.props, G.nodes[h].props, row, G)
\* a node position answered by an index scan (see IndexVariants): how many index entries deliver node h
NodeMult(G, np, h, D) == IF "ix" \in DOMAIN np THEN IxMult(G, np.ix, h, D) ELSE 1
RelOK(G, rp, r, row) ==
    /\ rp.types = <<>> \/ \E i \in DOMAIN rp.types : rp.types[i] = G.rels[r].t
    /\ PropsOK(rp.props, G.rels[r].props, row, G)
\* one hop from node a along pattern rp: pairs <<relationship, other end>>; a self-loop gives one pair
Hops(G, rp, a, row) ==
    {hb \in LiveR(G) \X LiveN(G) :
        /\ RelOK(G, rp, hb[1], row)
        /\ LET e == G.rels[hb[1]] IN
           CASE rp.dir = "out" -> e.s = a /\ e.d = hb[2]
             [] rp.dir = "in" -> e.d = a /\ e.s = hb[2]
             [] OTHER -> (e.s = a /\ e.d = hb[2]) \/ (e.d = a /\ e.s = hb[2])}
\* variable length: every trail (no repeated relationship) of at most n further hops
RECURSIVE Trails(_, _, _, _, _, _)
Trails(G, rp, row, a, rs, n) ==
    {[end |-> a, r |-> rs]} \cup
    (IF n = 0 THEN {}
     ELSE UNION {Trails(G, rp, row, hb[2], Append(rs, hb[1]), n - 1) :
                    hb \in {x \in Hops(G, rp, a, row) : \A i \in DOMAIN rs : rs[i] # x[1]}})
\* known deviation KF_C01_VarLengthReachability: a variable-length pattern is answered by a breadth-first search
\* that emits every node whose DISTANCE from the source lies in lo..hi exactly once (node reachability), instead of
\* one match per trail; the relationships it walked are not remembered for relationship isomorphism
RECURSIVE Bfs(_, _, _, _, _, _, _)
Bfs(G, rp, row, frontier, visited, k, hi) ==
    IF k > hi \/ frontier = {} THEN {}
    ELSE LET next == {hb[2] : hb \in UNION {Hops(G, rp, x, row) : x \in frontier}} \ visited IN
         {<<b, k>> : b \in frontier} \cup Bfs(G, rp, row, next, visited \cup next, k + 1, hi)
\* extensions of a walk ending in a over one relationship pattern: [end, r] with r the sequence of relationships used
SegExt(G, rp, row, a, D) ==
    IF rp.vl /\ "KF_C01_VarLengthReachability" \in D THEN
        {[end |-> bk[1], r |-> <<>>] : bk \in {x \in Bfs(G, rp, row, {a}, {a}, 0, rp.hi) : x[2] >= rp.lo}}
    ELSE IF rp.vl THEN {t \in Trails(G, rp, row, a, <<>>, rp.hi) : Len(t.r) >= rp.lo}
    ELSE {[end |-> hb[2], r |-> <<hb[1]>>] : hb \in Hops(G, rp, a, row)}
\* u = index of the node position (1 = start) that is matched with the union deviation, 0 = none
RECURSIVE WalksFrom(_, _, _, _, _, _, _)
WalksFrom(G, path, row, w, i, u, D) ==
    IF i > Len(path.segs) THEN {w}
    ELSE LET seg == path.segs[i]
             a == w.ns[Len(w.ns)]
         IN UNION {WalksFrom(G, path, row, [ns |-> Append(w.ns, xk[1].end), rs |-> Append(w.rs, xk[1].r), k |-> Append(w.k, xk[2])], i + 1, u, D) :
                      xk \in {yk \in SegExt(G, seg.rel, row, a, D) \X (1..3) :
                                 NodeOK(G, seg.node, yk[1].end, row, u = i + 1) /\ yk[2] <= NodeMult(G, seg.node, yk[1].end, D)}}
\* a walk: nodes ns, relationships rs (one sequence per segment), k (which of several identical index entries
\* delivered each node; always 1 without an index scan)
PathWalks(G, path, row, u, D) ==
    UNION {WalksFrom(G, path, row, [ns |-> <<hk[1]>>, rs |-> <<>>, k |-> <<hk[2]>>], 1, u, D) :
              hk \in {x \in LiveN(G) \X (1..3) : NodeOK(G, path.start, x[1], row, u = 1) /\ x[2] <= NodeMult(G, path.start, x[1], D)}}
\* shortestPath((a)-[*lo..hi]-(b)): one shortest trail per pair of end points (relationship list not observable)
ShortestOnly(ws) ==
    {w \in ws : \A v \in ws : (v.ns[1] = w.ns[1] /\ v.ns[Len(v.ns)] = w.ns[Len(w.ns)]) => Len(w.rs[1]) <= Len(v.rs[1])}
PathMatches(G, path, row, u, D) ==
    IF path.sp = "none" THEN PathWalks(G, path, row, u, D)
    ELSE LET S == ShortestOnly(PathWalks(G, path, row, u, D)) IN
         IF path.sp = "all" THEN S
         ELSE {w \in S : w = CHOOSE v \in S : v.ns[1] = w.ns[1] /\ v.ns[Len(v.ns)] = w.ns[Len(w.ns)]}

NodePatAt(path, j) == IF j = 1 THEN path.start ELSE path.segs[j - 1].node
WalkPairs(G, path, w) ==
    {<<NodePatAt(path, j).x, VNode(w.ns[j])>> : j \in {j \in 1..Len(w.ns) : NodePatAt(path, j).x # ""}}
    \cup {<<path.segs[j].rel.x,
            IF path.segs[j].rel.vl THEN VList([k \in DOMAIN w.rs[j] |-> VRel(G.rels[w.rs[j][k]].h)]) ELSE VRel(G.rels[w.rs[j][1]].h)>> :
              j \in {j \in 1..Len(w.rs) : path.segs[j].rel.x # ""}}
PathVars(path) == ({NodePatAt(path, j).x : j \in 1..(Len(path.segs) + 1)} \cup {path.segs[j].rel.x : j \in DOMAIN path.segs}) \ {""}
ClauseVars(c) == UNION {PathVars(c.paths[i]) : i \in DOMAIN c.paths}

\* us[i] = union-deviation position of path i
RECURSIVE Combos(_, _, _, _, _, _)
Combos(G, paths, row, i, us, D) ==
    IF i > Len(paths) THEN {<<>>}
    ELSE {<<w>> \o rest : w \in PathMatches(G, paths[i], row, us[i], D), rest \in Combos(G, paths, row, i + 1, us, D)}
\* the matches of the MATCH clause c that extend `row` (before its WHERE), as a bag: a row -> the number of
\* distinct assignments (anonymous nodes and relationships count) that produce it
\* known deviation KF_C01_RelIsoPerPathOnly: the comma-separated paths of one MATCH are matched
\* independently and joined, so relationship isomorphism is enforced inside each path only
MatchExt(G, c, row, us, D) ==
    LET perpath == "KF_C01_RelIsoPerPathOnly" \in D
        nouniq == "nouniq" \in DOMAIN c
        rep(q) == [i \in DOMAIN q |-> G.rels[q[i]].h]       \* relationships are identified by their reported handle
        pairs(cb) == UNION {WalkPairs(G, c.paths[i], cb[i]) : i \in DOMAIN cb}
        ok(cb) ==
            LET P == pairs(cb)
                rl == rep(ConcatAll([i \in DOMAIN cb |-> ConcatAll(cb[i].rs)]))
            IN /\ IF nouniq THEN TRUE
                  ELSE IF perpath THEN \A i \in DOMAIN cb : LET r1 == rep(ConcatAll(cb[i].rs)) IN Cardinality(Range(r1)) = Len(r1)
                  ELSE Cardinality(Range(rl)) = Len(rl)                \* relationship isomorphism
               /\ \A a \in P, b \in P : a[1] = b[1] => a[2] = b[2]
               /\ \A a \in P : a[1] \in DOMAIN row => row[a[1]] = a[2]
        mk(cb) ==
            LET P == pairs(cb) IN
            [x \in DOMAIN row \cup {a[1] : a \in P} |-> IF x \in DOMAIN row THEN row[x] ELSE (CHOOSE a \in P : a[1] = x)[2]]
        good == {cb \in Combos(G, c.paths, row, 1, us, D) : ok(cb)}
    IN [m \in {mk(cb) : cb \in good} |-> Cardinality({cb \in good : mk(cb) = m})]

\* ------------------------------------------------------------------ tables: [err |-> BOOLEAN, bag |-> [row -> count]]
ErrT == [err |-> TRUE, bag |-> EmptyBag]
OkT(B) == [err |-> FALSE, bag |-> B]
UnitT == OkT([r \in {[x \in {} |-> VNull]} |-> 1])

\* the choices of deviating node positions of a MATCH clause: all 0 unless the deviation is enabled
UnionChoices(c, D) ==
    LET none == [i \in DOMAIN c.paths |-> 0]
        pos == {ij \in (DOMAIN c.paths) \X (1..4) :
                   ij[2] <= Len(c.paths[ij[1]].segs) + 1 /\ Len(NodePatAt(c.paths[ij[1]], ij[2]).labels) >= 2}
    IN IF "KF_C01_MultiLabelUnion" \notin D THEN {none}
       ELSE {none} \cup {[none EXCEPT ![ij[1]] = ij[2]] : ij \in pos}

\* ---- C02 known deviation KF_C02_NativePlannerDropsPatternDetails (SAMYAMA_GRAPH_NATIVE=true): the graph-native
\* planner builds its plan from a pattern graph that keeps, of a single-path MATCH, only: the FIRST label of the node it
\* starts from (no label of any other node), the inline properties of named nodes, relationship types and the written
\* direction (an undirected pattern is walked source -> target only); relationship properties, variable length,
\* everything on anonymous nodes and relationship isomorphism are dropped.  st = the start position it chose.
SetPath(c, path) == [c EXCEPT !.paths = <<path>>]
NativeClause(c, st) ==
    LET path == c.paths[1]
        nn(np, j) == [x |-> np.x,
                      labels |-> IF np.x # "" /\ j = st /\ np.labels # <<>> THEN <<np.labels[1]>> ELSE <<>>,
                      props |-> IF np.x = "" THEN <<>> ELSE np.props]
        nr(rp) == [rp EXCEPT !.props = <<>>, !.vl = FALSE, !.dir = IF @ = "both" THEN "out" ELSE @]
        p2 == [path EXCEPT !.start = nn(path.start, 1),
                           !.segs = [j \in DOMAIN path.segs |-> [rel |-> nr(path.segs[j].rel), node |-> nn(path.segs[j].node, j + 1)]]]
    IN [nouniq |-> TRUE] @@ SetPath(c, p2)
NativeVariants(c, D) ==
    IF "KF_C02_NativePlannerDropsPatternDetails" \notin D \/ Len(c.paths) # 1 \/ c.paths[1].sp # "none" THEN {c}
    ELSE {c} \cup {NativeClause(c, st) : st \in {j \in 1..(Len(c.paths[1].segs) + 1) : NodePatAt(c.paths[1], j).x # ""}}

\* ---- C02 index deviations: a node position that carries a label and a predicate `x.key op literal` (inline property or
\* top-level AND conjunct of the WHERE) may be answered by an index scan on (its first label, key): the candidates are
\* whatever the index delivers (IxMult); that label is not checked again; an inline property is not checked again
\* either, a WHERE conjunct still is (the planner keeps it in the Filter above the scan).
RECURSIVE Conjuncts(_)
Conjuncts(x) == IF x.e = "and" THEN Conjuncts(x.a) \cup Conjuncts(x.b) ELSE {x}
FlipOp(op) == CASE op = "<" -> ">" [] op = "<=" -> ">=" [] op = ">" -> "<" [] op = ">=" -> "<=" [] OTHER -> op
IxOps == {"=", "<", "<=", ">", ">="}
\* the index predicates of variable x among the conjuncts of w: <<conjunct, key, op, literal>>
WherePreds(w, x) ==
    IF w.e = "none" THEN {}
    ELSE {<<cj, cj.a.key, cj.op, cj.b.v>> : cj \in {cj \in Conjuncts(w) : cj.e = "cmp" /\ cj.op \in IxOps /\ cj.a.e = "prop" /\ cj.b.e = "lit" /\ cj.a.x = x}}
         \cup {<<cj, cj.b.key, FlipOp(cj.op), cj.a.v>> : cj \in {cj \in Conjuncts(w) : cj.e = "cmp" /\ cj.op \in IxOps /\ cj.b.e = "prop" /\ cj.a.e = "lit" /\ cj.b.x = x}}
SetNodeAt(path, j, np) == IF j = 1 THEN [path EXCEPT !.start = np] ELSE [path EXCEPT !.segs[j - 1].node = np]
IndexVariants(c, D) ==
    IF D \cap {"KF_C02_IndexStaleEntries", "KF_C02_IndexStorageOrder"} = {} THEN {c}
    ELSE {c} \cup UNION {
        LET np == NodePatAt(c.paths[ij[1]], ij[2])
            rest == [np EXCEPT !.labels = Tail(np.labels)]
            withIx(n2, key, op, v) == [ix |-> [lb |-> np.labels[1], key |-> key, op |-> op, v |-> v]] @@ n2
            put(n2) == [c EXCEPT !.paths[ij[1]] = SetNodeAt(c.paths[ij[1]], ij[2], n2)]
        IN IF np.x = "" \/ np.labels = <<>> THEN {}
           ELSE {put(withIx([rest EXCEPT !.props = SelectSeq(np.props, LAMBDA kv : kv # np.props[k])], np.props[k].key, "=", np.props[k].v.v)) :
                    k \in {k \in DOMAIN np.props : np.props[k].v.e = "lit"}}
                \cup {put(withIx(rest, t[2], t[3], t[4])) : t \in WherePreds(c.where, np.x)}
        : ij \in {ij \in (DOMAIN c.paths) \X (1..4) : ij[2] <= Len(c.paths[ij[1]].segs) + 1}}
\* every way the enabled deviations may have planned the MATCH clause
ClauseVariants(c, D) == UNION {IndexVariants(c2, D) : c2 \in NativeVariants(c, D)}
\* KF_C02_ParallelFilterSwallowsErrors: the parallel filter path (>= 256 rows) treats a predicate that fails as false
WhereD(x, row, G, D) == LET t == Where3(x, row, G) IN IF t = "E" /\ "KF_C02_ParallelFilterSwallowsErrors" \in D THEN "F" ELSE t
ApplyMatch(G, c, T, us, D) ==
    IF T.err THEN T
    ELSE LET B == T.bag
             all == [r \in DOMAIN B |-> MatchExt(G, c, r, us, D)]
             tr == [r \in DOMAIN B |-> [m \in DOMAIN all[r] |-> WhereD(c.where, m, G, D)]]
             kept(r) == {m \in DOMAIN all[r] : tr[r][m] = "T"}
             nullrow(r) == [x \in DOMAIN r \cup ClauseVars(c) |-> IF x \in DOMAIN r THEN r[x] ELSE VNull]
             isnull(r) == c.opt /\ kept(r) = {}
             ext(r) == IF isnull(r) THEN {nullrow(r)} ELSE kept(r)
         IN IF \E r \in DOMAIN B : \E m \in DOMAIN all[r] : tr[r][m] = "E" THEN ErrT
            ELSE IF DOMAIN B = {} THEN T
            ELSE LET old == DOMAIN (CHOOSE r \in DOMAIN B : TRUE)
                     Dm == UNION {ext(r) : r \in DOMAIN B}
                     mult(m) == LET r == Restrict(m, old) IN B[r] * (IF isnull(r) THEN 1 ELSE all[r][m])
                 IN OkT([m \in Dm |-> mult(m)])
ApplyUnwind(G, c, T) ==
    IF T.err THEN T
    ELSE LET B == T.bag
             lv(r) == EvalX(c.list, r, G)
             elems(r) == LET v == lv(r) IN IF v.k = "L" THEN v.l ELSE IF v.k = "N" THEN <<>> ELSE <<v>>
         IN IF \E r \in DOMAIN B : IsErr(lv(r)) THEN ErrT
            ELSE IF DOMAIN B = {} THEN T
            ELSE LET old == DOMAIN (CHOOSE r \in DOMAIN B : TRUE)
                     Dm == {r @@ (c.as :> v) : r \in DOMAIN B, v \in UNION {Range(elems(r2)) : r2 \in DOMAIN B}}
                     cnt(m) == LET e == elems(Restrict(m, old)) IN Cardinality({i \in DOMAIN e : e[i] = m[c.as]})
                 IN OkT(Restrict([m \in Dm |-> B[Restrict(m, old)] * cnt(m)], {m \in Dm : cnt(m) > 0}))

\* ------------------------------------------------------------------ projection, DISTINCT, aggregation
ColName == <<"#1", "#2", "#3", "#4", "#5", "#6">>
Names(c) == [i \in DOMAIN c.items |-> IF c.items[i].as # "" THEN c.items[i].as ELSE ColName[i]]
IsAgg(x) == x.e \in {"agg", "cstar"}
\* known deviation KF_C01_KeysCompareStructurally (st = TRUE): DISTINCT, grouping keys, aggregate DISTINCT and UNION
\* compare values by representation, so Integer 2 and Float 2.0 (equal, hence equivalent, in openCypher) stay apart
EquivD(a, b, st) == IF st THEN a = b ELSE Equiv(a, b)
RowEquiv(a, b, st) == DOMAIN a = DOMAIN b /\ \A x \in DOMAIN a : EquivD(a[x], b[x], st)
\* one representative per equivalence class
Reps(S, st) == {o \in S : o = CHOOSE o2 \in {o3 \in S : RowEquiv(o3, o, st)} : TRUE}
ValReps(S, st) == {o \in S : o = CHOOSE o2 \in {o3 \in S : EquivD(o3, o, st)} : TRUE}
\* a total order on values used only to print bags of values canonically (collect)
TotLe(a, b) == OrdLt(a, b) \/ (OrdEq(a, b) /\ (a = b \/ a.k = "I"))
RECURSIVE SortBag(_)
SortBag(f) ==
    IF DOMAIN f = {} THEN <<>>
    ELSE LET m == CHOOSE m \in DOMAIN f : \A o \in DOMAIN f : TotLe(m, o) IN
         [i \in 1..f[m] |-> m] \o SortBag(Restrict(f, DOMAIN f \ {m}))
SeqBag(q) == [v \in Range(q) |-> Cardinality({i \in DOMAIN q : q[i] = v})]
\* lists are compared as bags at the final comparison (collect order is not defined): sort them
RECURSIVE CanonV(_)
CanonV(v) == IF v.k = "L" THEN VList(SortBag(SeqBag([i \in DOMAIN v.l |-> CanonV(v.l[i])]))) ELSE v

\* value of aggregate x over the group g (set of rows) of bag B
AggVal(x, g, B, G, st) ==
    IF x.e = "cstar" THEN VInt(WSum(g, B))
    ELSE LET val == [r \in g |-> EvalX(x.a, r, G)]
             nn == {r \in g : val[r].k # "N"}
             \* value -> multiplicity (DISTINCT: one per equivalence class)
             vals == {val[r] : r \in nn}
             wb == IF x.d THEN [v \in ValReps(vals, st) |-> 1] ELSE [v \in vals |-> WSum({r \in nn : val[r] = v}, B)]
         IN IF \E r \in g : IsErr(val[r]) THEN VErr
            ELSE CASE x.f = "count" -> VInt(WSum(DOMAIN wb, wb))
                   [] x.f = "sum" ->
                        IF \E v \in DOMAIN wb : ~IsNum(v) THEN VErr
                        ELSE LET h == WSum(DOMAIN wb, [v \in DOMAIN wb |-> wb[v] * Num2(v)]) IN
                             IF \A v \in DOMAIN wb : v.k = "I" THEN VInt(h \div 2) ELSE VFlt(h)
                   [] x.f = "min" -> IF DOMAIN wb = {} THEN VNull ELSE CHOOSE v \in DOMAIN wb : \A o \in DOMAIN wb : OrdLe(v, o)
                   [] x.f = "max" -> IF DOMAIN wb = {} THEN VNull ELSE CHOOSE v \in DOMAIN wb : \A o \in DOMAIN wb : OrdLe(o, v)
                   [] x.f = "collect" -> VList(SortBag(wb))

Project(G, c, T, st) ==
    IF T.err THEN T
    ELSE LET B == T.bag
             nm == Names(c)
             NS == Range(nm)
             idx(n) == CHOOSE i \in DOMAIN nm : nm[i] = n
             aggI == {i \in DOMAIN c.items : IsAgg(c.items[i].e)}
             keyN == {nm[i] : i \in DOMAIN c.items \ aggI}
             key == [r \in DOMAIN B |-> [n \in keyN |-> EvalX(c.items[idx(n)].e, r, G)]]
         IN IF \E r \in DOMAIN B : \E n \in keyN : IsErr(key[r][n]) THEN ErrT
            ELSE IF aggI = {} THEN
                    IF c.distinct THEN OkT([o \in Reps({key[r] : r \in DOMAIN B}, st) |-> 1])
                    ELSE OkT(MapBag(B, key))
            ELSE LET krep == IF keyN = {} THEN {[n \in {} |-> VNull]} ELSE Reps({key[r] : r \in DOMAIN B}, st)
                     grp(k) == {r \in DOMAIN B : RowEquiv(key[r], k, st)}
                     out(k) == [n \in NS |-> IF n \in keyN THEN k[n] ELSE AggVal(c.items[idx(n)].e, grp(k), B, G, st)]
                     outs == {out(k) : k \in krep}
                 IN IF \E o \in outs : \E n \in NS : IsErr(o[n]) THEN ErrT
                    ELSE IF c.distinct THEN OkT([o \in Reps(outs, st) |-> 1])
                    ELSE OkT(MapBag([k \in krep |-> 1], [k \in krep |-> out(k)]))

\* ------------------------------------------------------------------ ORDER BY / SKIP / LIMIT
\* index of the projected column an ORDER BY item refers to (an alias, or an expression identical to an item)
OrdIdx(c, j) ==
    LET oe == c.order[j].e  nm == Names(c) IN
    IF oe.e = "var" /\ \E i \in DOMAIN nm : nm[i] = oe.x THEN CHOOSE i \in DOMAIN nm : nm[i] = oe.x
    ELSE CHOOSE i \in DOMAIN c.items : c.items[i].e = oe
\* k1, k2: key tuples (one value per ORDER BY item)
KeysLe(c, k1, k2) ==
    LET Df == {j \in DOMAIN c.order : ~OrdEq(k1[j], k2[j])} IN
    IF Df = {} THEN TRUE
    ELSE LET j == CHOOSE j \in Df : \A i \in Df : j <= i IN
         IF c.order[j].asc THEN OrdLt(k1[j], k2[j]) ELSE OrdLt(k2[j], k1[j])
\* W (a bag) can be exactly the rows skip+1 .. skip+n of some ordering of B that is sorted by the keys K[row]
ValidWindow(c, B, W, K) ==
    LET N == BagSize(B)
        skip == Max2(c.skip, 0)
        avail == Max2(N - skip, 0)
        n == IF c.limit < 0 THEN avail ELSE Min2(c.limit, avail)
        M == [o \in DOMAIN B |-> B[o] - (IF o \in DOMAIN W THEN W[o] ELSE 0)]
        le(a, b) == KeysLe(c, K[a], K[b])
    IN /\ DOMAIN W \subseteq DOMAIN B
       /\ \A o \in DOMAIN W : W[o] <= B[o] /\ W[o] > 0
       /\ BagSize(W) = n
       /\ n > 0 =>
            LET lo == CHOOSE o \in DOMAIN W : \A o2 \in DOMAIN W : le(o, o2)
                hi == CHOOSE o \in DOMAIN W : \A o2 \in DOMAIN W : le(o2, o)
                cntLt == WSum({o \in DOMAIN M : le(o, lo) /\ ~le(lo, o)}, M)
                cntLe == WSum({o \in DOMAIN M : le(o, lo)}, M)
            IN IF le(hi, lo) THEN cntLt <= skip /\ skip <= cntLe
               ELSE skip = cntLe /\ \A o \in DOMAIN M : M[o] > 0 => le(o, lo) \/ le(hi, o)
HasWindow(c) == c.skip >= 0 \/ c.limit >= 0
RowKeys(c, o) == [j \in DOMAIN c.order |-> o[Names(c)[OrdIdx(c, j)]]]
\* every bag a WITH ... ORDER BY ... SKIP ... LIMIT may pass on
SubBags(B) ==
    LET mx == IF DOMAIN B = {} THEN 0 ELSE CHOOSE m \in {B[o] : o \in DOMAIN B} : \A o \in DOMAIN B : B[o] <= m IN
    {Restrict(f, {o \in DOMAIN B : f[o] > 0}) : f \in {f \in [DOMAIN B -> 0..mx] : \A o \in DOMAIN B : f[o] <= B[o]}}
Windows(c, B) ==
    IF ~HasWindow(c) THEN {B}
    ELSE LET K == [o \in DOMAIN B |-> RowKeys(c, o)] IN {W \in SubBags(B) : ValidWindow(c, B, W, K)}

\* ------------------------------------------------------------------ clause pipeline (sets of possible tables)
FilterT(G, x, T, D) ==
    IF T.err \/ x.e = "none" THEN T
    ELSE LET tr == [r \in DOMAIN T.bag |-> WhereD(x, r, G, D)] IN
         IF \E r \in DOMAIN T.bag : tr[r] = "E" THEN ErrT ELSE OkT(Restrict(T.bag, {r \in DOMAIN T.bag : tr[r] = "T"}))
ApplyClause(G, c, S, D) ==
    CASE c.c = "match" -> UNION {{ApplyMatch(G, c2, T, us, D) : T \in S, us \in UnionChoices(c2, D)} : c2 \in ClauseVariants(c, D)}
      [] c.c = "unwind" -> {ApplyUnwind(G, c, T) : T \in S}
      [] c.c = "with" ->
            UNION {LET P == Project(G, c, T, "KF_C01_KeysCompareStructurally" \in D) IN
                   IF P.err THEN {P} ELSE {FilterT(G, c.where, OkT(W), D) : W \in Windows(c, P.bag)} : T \in S}
      [] c.c = "return" -> {Project(G, c, T, "KF_C01_KeysCompareStructurally" \in D) : T \in S}      \* its window is judged by the acceptance predicate
RECURSIVE Pipe(_, _, _, _, _)
Pipe(G, cs, i, S, D) == IF i > Len(cs) THEN S ELSE Pipe(G, cs, i + 1, ApplyClause(G, cs[i], S, D), D)

LastClause(part) == part.clauses[Len(part.clauses)]
\* possible final tables of one part, rows positional (sequence of values in RETURN order), before the final window
Positional(c, T) == IF T.err THEN T ELSE OkT(MapBag(T.bag, [o \in DOMAIN T.bag |-> [i \in DOMAIN c.items |-> o[Names(c)[i]]]]))
PartPoss(G, part, D) == {Positional(LastClause(part), T) : T \in Pipe(G, part.clauses, 1, {UnitT}, D)}

BagPlus(A, B) == [o \in DOMAIN A \cup DOMAIN B |-> (IF o \in DOMAIN A THEN A[o] ELSE 0) + (IF o \in DOMAIN B THEN B[o] ELSE 0)]
SeqEquiv(a, b, st) == Len(a) = Len(b) /\ \A i \in DOMAIN a : EquivD(a[i], b[i], st)
SeqReps(S, st) == {o \in S : o = CHOOSE o2 \in {o3 \in S : SeqEquiv(o3, o, st)} : TRUE}
RECURSIVE UnionPoss(_, _, _, _)
UnionPoss(G, q, i, D) ==
    IF i = Len(q.parts) THEN PartPoss(G, q.parts[i], D)
    ELSE {IF A.err \/ B.err THEN ErrT ELSE OkT(BagPlus(A.bag, B.bag)) : A \in PartPoss(G, q.parts[i], D), B \in UnionPoss(G, q, i + 1, D)}
\* the results openCypher allows: a set of [err, bag]; for a single part the bag is the table BEFORE the final
\* ORDER BY / SKIP / LIMIT window (see Accept)
\* known deviation KF_C01_MultiLabelCountMin: `MATCH (n:A:B) RETURN count(n)` (one node pattern with several labels,
\* no properties, no WHERE, a single plain count) is answered from label statistics with the SMALLEST label count
CountMinShape(q) ==
    /\ Len(q.parts) = 1
    /\ LET cs == q.parts[1].clauses IN
       /\ Len(cs) = 2 /\ cs[1].c = "match" /\ ~cs[1].opt /\ cs[1].where.e = "none" /\ Len(cs[1].paths) = 1
       /\ cs[1].paths[1].segs = <<>> /\ cs[1].paths[1].sp = "none"
       /\ Len(cs[1].paths[1].start.labels) >= 2 /\ cs[1].paths[1].start.props = <<>>
       /\ cs[2].c = "return" /\ ~cs[2].distinct /\ Len(cs[2].items) = 1 /\ cs[2].order = <<>>
       /\ LET x == cs[2].items[1].e IN
          x.e = "cstar" \/ (x.e = "agg" /\ x.f = "count" /\ ~x.d /\ x.a.e = "var" /\ x.a.x = cs[1].paths[1].start.x)
CountMinTable(G, q) ==
    LET ls == q.parts[1].clauses[1].paths[1].start.labels
        cnt(lb) == Cardinality({h \in LiveN(G) : lb \in G.nodes[h].labels})
        m == CHOOSE m \in {cnt(ls[i]) : i \in DOMAIN ls} : \A i \in DOMAIN ls : m <= cnt(ls[i])
    IN OkT([o \in {<<VInt(m)>>} |-> 1])
Poss(G, q, D) ==
    IF "KF_C01_MultiLabelCountMin" \in D /\ CountMinShape(q) THEN {CountMinTable(G, q)}
    ELSE IF Len(q.parts) = 1 THEN PartPoss(G, q.parts[1], D)
    ELSE IF q.all THEN UnionPoss(G, q, 1, D)
    ELSE {IF T.err THEN T ELSE OkT([o \in SeqReps(DOMAIN T.bag, "KF_C01_KeysCompareStructurally" \in D) |-> 1]) : T \in UnionPoss(G, q, 1, D)}

\* ------------------------------------------------------------------ acceptance of an observed outcome
\* out = [res |-> "ok"|"err"|"panic", cols, ord |-> BOOLEAN, rows |-> <<[r |-> <<values>>, m |-> count]>>]
KnownKinds == {"I", "F", "S", "B", "N", "V", "E", "L"}
RECURSIVE Known(_)
Known(v) == v.k \in KnownKinds /\ (v.k = "L" => \A i \in DOMAIN v.l : Known(v.l[i]))
\* normal form modulo equivalence (2.0 ~ 2): used when the query has DISTINCT / grouping / UNION, whose
\* representative of a class of equivalent values is not defined
RECURSIVE NormV(_)
NormV(v) == IF v.k = "F" /\ v.n % 2 = 0 THEN VInt(v.n \div 2)
            ELSE IF v.k = "L" THEN VList([i \in DOMAIN v.l |-> NormV(v.l[i])]) ELSE v
HasDedup(q) == (Len(q.parts) > 1 /\ ~q.all)
               \/ \E p \in DOMAIN q.parts : \E i \in DOMAIN q.parts[p].clauses :
                     LET c == q.parts[p].clauses[i] IN
                     c.c \in {"with", "return"} /\ (c.distinct \/ \E k \in DOMAIN c.items : IsAgg(c.items[k].e))
FinalRow(q, r) == IF HasDedup(q) THEN [i \in DOMAIN r |-> CanonV(NormV(r[i]))] ELSE [i \in DOMAIN r |-> CanonV(r[i])]
NoWindow == [order |-> <<>>, skip |-> -1, limit |-> -1]
FinalClause(q) == IF Len(q.parts) = 1 THEN LastClause(q.parts[1]) ELSE NoWindow
RowsOK(q, out) ==
    LET c == LastClause(q.parts[1]) IN
    \A i \in DOMAIN out.rows : Len(out.rows[i].r) = Len(c.items) /\ out.rows[i].m > 0 /\ \A j \in DOMAIN out.rows[i].r : Known(out.rows[i].r[j])
TableOK(q, B, out) ==
    LET c == FinalClause(q)
        R == [i \in DOMAIN out.rows |-> FinalRow(q, out.rows[i].r)]
        W == [o \in Range(R) |-> WSum({i \in DOMAIN R : R[i] = o}, [i \in DOMAIN R |-> out.rows[i].m])]
        F == [o \in DOMAIN B |-> FinalRow(q, o)]
        BB == MapBag(B, F)
        K == [o \in DOMAIN BB \cup DOMAIN W |-> [j \in DOMAIN c.order |-> o[OrdIdx(c, j)]]]
    IN /\ ValidWindow(c, BB, W, K)
       /\ out.ord = (c.order # <<>>)
       /\ out.ord => \A i \in DOMAIN R, j \in DOMAIN R : i < j => KeysLe(c, K[R[i]], K[R[j]])
\* the outcome is one of the allowed results
Answers(G, q, out, D) == out.res = "ok" /\ RowsOK(q, out) /\ \E T \in Poss(G, q, D) : ~T.err /\ TableOK(q, T.bag, out)
MayFail(G, q, D) == \E T \in Poss(G, q, D) : T.err
\* C01: an error is a refusal (allowed, unless the shape is listed as supported today and openCypher defines a result)
Accept(G, q, out, supported, D) ==
    \/ out.res = "err" /\ (supported => MayFail(G, q, D))
    \/ Answers(G, q, out, D)
=============================================================================
