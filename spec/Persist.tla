------------------------------- MODULE Persist -------------------------------
(***************************************************************************)
(* Persistence layer of samyama-graph: PersistenceManager (src/persistence/ *)
(* mod.rs) = write-ahead log + RocksDB storage + in-memory tenant usage     *)
(* counters (src/persistence/tenant.rs), and the replicated state machine   *)
(* that drives it (src/raft/state_machine.rs).                              *)
(*                                                                         *)
(* Several tenants share one store and one log; each has its own stored     *)
(* graph, counters and quota, and nothing done for one tenant may show in    *)
(* another's scan, recovery or counters (tenant ids may be prefixes of one   *)
(* another: "t1", "t10", "t1z").                                            *)
(*                                                                         *)
(* The WAL and the key-value store are abstract here (atomic append / put / *)
(* delete / scan; their internals are Wal.tla / KvTenants.tla).             *)
(*                                                                         *)
(* State (implementation-shaped):                                          *)
(*   wal    the log, one sequence for all tenants                           *)
(*   kv     tenant -> stored graph [n : id -> node, e : id -> edge]         *)
(*   usage  tenant -> [n, e]  in-memory counters, lost with the process     *)
(*   quota  tenant -> [n, e]  (Unlimited = no limit)                        *)
(*   pc, call, res   one entry per caller thread: the persist_* call in     *)
(*          progress and where it is.  Every persist_* call is the sequence *)
(*          of atomic steps the code performs, in the code's order:         *)
(*             chk  TenantManager::check_quota   (creations only)           *)
(*             wal  Wal::append                                             *)
(*             put  PersistentStorage::put_* / delete_*                     *)
(*             inc  TenantManager::increment_/decrement_usage               *)
(*             ret  return to the caller = acknowledgement                  *)
(* Specification-level state (what the properties talk about):             *)
(*   G      tenant -> the graph produced by the ACKNOWLEDGED operations     *)
(*   pend   operations that were in flight when the process died and whose  *)
(*          fate no recovery has observed yet                               *)
(*   stale  tenants whose counters have not been rebuilt by a recovery      *)
(*          since the process started (main.rs recovers every persisted     *)
(*          tenant before serving; callers do the same here)                *)
(*                                                                         *)
(* C16  at every step boundary (= every state) what recovery would return  *)
(*      is G with at most the in-flight operation(s) applied atomically:    *)
(*      invariant Atomic; Recover returns exactly that (RecoverTo guard).   *)
(* C32  the effect of a request sequence is a function of the sequence      *)
(*      (Effect), and at quiescence storage = G (QuiescentStorageIsG), so   *)
(*      replicas applying one sequence recover one graph.                   *)
(* C18  QuotaHolds, RefusedLeavesNothing, UsageExact (creation-only         *)
(*      histories), and termination of every call under fair scheduling.    *)
(*                                                                         *)
(* Deviations of the pinned tree:                                          *)
(*   KF_C18_CheckThenActRace  the quota check reads the counter, which does *)
(*      not include creations that passed the check and have not yet        *)
(*      incremented it (check under read locks, increment under a separate  *)
(*      write lock).  Structural; a known finding.                          *)
(*   KF_C16_* / LegacyUpdates  persist_update_* only append to the WAL and  *)
(*      recover never reads the WAL.  Repaired by a fix; the deviation      *)
(*      actions exist for trees without the fix.                            *)
(*   LegacyRecover  recover ADDS the recovered counts to usage.  Repaired   *)
(*      by a fix; self-test only.                                           *)
(***************************************************************************)
EXTENDS Naturals, Sequences, FiniteSets

CONSTANTS Tenants,        \* tenant names
          Procs,          \* caller threads
          Unlimited,      \* quota value meaning "no limit" (larger than any count)
          LegacyUpdates,  \* TRUE: the storage step of an update does nothing (pinned tree)
          SkipUpdateAtZeroUsage,  \* TRUE: the storage step of an update is skipped while the tenant's counter of that
                                  \* kind says 0 (self-test only: the counters drift -- a deletion of an id that was
                                  \* never stored still decrements -- so they must not decide what is written)
          LegacyRecover   \* TRUE: recover adds to usage instead of setting it (pinned tree)

VARIABLES wal, kv, usage, quota, pc, call, res, G, pend, stale
pvars == <<wal, kv, usage, quota, pc, call, res, G, pend, stale>>

\* ---------------------------------------------------------------- data
ToSet(s) == {s[k] : k \in DOMAIN s}
Put(f, i, v) == [j \in DOMAIN f \cup {i} |-> IF j = i THEN v ELSE f[j]]
Drop(f, i) == [j \in DOMAIN f \ {i} |-> f[j]]

EmptyGraph == [n |-> <<>>, e |-> <<>>]
NoCall == [op |-> "none"]

\* Operations (records; the field op names the persist_* call / replicated request):
\*  [op |-> "CreateNode", t, id, labels (sequence of strings), p (0 = no property, v = {k: v})]
\*  [op |-> "CreateEdge", t, id, src, dst, ty, p]
\*  [op |-> "DeleteNode", t, id]     [op |-> "DeleteEdge", t, id]
\*  [op |-> "UpdateNode", t, id, p]  [op |-> "UpdateEdge", t, id, p]      (p >= 1: sets {k: p})
IsCreate(o) == o.op \in {"CreateNode", "CreateEdge"}
IsDelete(o) == o.op \in {"DeleteNode", "DeleteEdge"}
IsUpdate(o) == o.op \in {"UpdateNode", "UpdateEdge"}
Kind(o) == IF o.op \in {"CreateNode", "DeleteNode", "UpdateNode"} THEN "n" ELSE "e"

NodeRec(o) == [labels |-> ToSet(o.labels), p |-> o.p]
EdgeRec(o) == [src |-> o.src, dst |-> o.dst, ty |-> o.ty, p |-> o.p]

\* The effect of one operation on a graph: the post-condition the properties name
\* ("the nodes and relationships, with labels, types and properties, produced by the operations").
Effect(g, o) ==
    CASE o.op = "CreateNode" -> [g EXCEPT !.n = Put(g.n, o.id, NodeRec(o))]
      [] o.op = "CreateEdge" -> [g EXCEPT !.e = Put(g.e, o.id, EdgeRec(o))]
      [] o.op = "DeleteNode" -> [g EXCEPT !.n = Drop(g.n, o.id)]
      [] o.op = "DeleteEdge" -> [g EXCEPT !.e = Drop(g.e, o.id)]
      [] o.op = "UpdateNode" -> IF o.id \in DOMAIN g.n THEN [g EXCEPT !.n[o.id].p = o.p] ELSE g
      [] o.op = "UpdateEdge" -> IF o.id \in DOMAIN g.e THEN [g EXCEPT !.e[o.id].p = o.p] ELSE g

\* what the storage step of the call does to the stored graph
StoreEffect(g, o, u) ==
    IF IsUpdate(o) /\ (LegacyUpdates \/ (SkipUpdateAtZeroUsage /\ u[Kind(o)] = 0)) THEN g ELSE Effect(g, o)

WalEntry(o) == [k |-> o.op, t |-> o.t, id |-> o.id]

RECURSIVE ApplySet(_, _)
ApplySet(g, S) == IF S = {} THEN g ELSE LET o == CHOOSE x \in S : TRUE IN ApplySet(Effect(g, o), S \ {o})

Counts(g) == [n |-> Cardinality(DOMAIN g.n), e |-> Cardinality(DOMAIN g.e)]
Bump(u, o) ==
    IF IsCreate(o) THEN [u EXCEPT ![Kind(o)] = @ + 1]
    ELSE IF IsDelete(o) THEN [u EXCEPT ![Kind(o)] = IF @ = 0 THEN 0 ELSE @ - 1]    \* saturating_sub
    ELSE u

\* ---------------------------------------------------------------- derived
Busy == {p \in Procs : pc[p] # "idle"}
AllIdle == Busy = {}
InFlight(t) == {call[p] : p \in {q \in Busy : call[q].t = t}}

\* creations of the same kind for the same tenant that passed the quota check and are not counted yet
Reserved(p) ==
    Cardinality({q \in Procs \ {p} : /\ pc[q] \in {"wal", "put", "inc"}
                                     /\ IsCreate(call[q])
                                     /\ call[q].t = call[p].t
                                     /\ Kind(call[q]) = Kind(call[p])})
CounterSaysOk(p) == usage[call[p].t][Kind(call[p])] < quota[call[p].t][Kind(call[p])]
Admissible(p) == usage[call[p].t][Kind(call[p])] + Reserved(p) < quota[call[p].t][Kind(call[p])]

\* what a recovery may return for tenant t (C16): the acknowledged graph with any of the
\* operations in flight now, or in flight at the crash, applied (each wholly or not at all)
Allowed(t) == {ApplySet(G[t], S) : S \in SUBSET (InFlight(t) \cup {o \in pend : o.t = t})}

\* ---------------------------------------------------------------- initial state
RECURSIVE ApplySeq(_, _)
ApplySeq(g, ops) == IF ops = <<>> THEN g ELSE ApplySeq(Effect(g, Head(ops)), Tail(ops))

\* seed: operations acknowledged before the behaviour starts (data other tenants already hold)
PInitC(q, c, seed) ==
    /\ wal = [k \in DOMAIN seed |-> WalEntry(seed[k])]
    /\ kv = [t \in Tenants |-> ApplySeq(EmptyGraph, SelectSeq(seed, LAMBDA o : o.t = t))]
    /\ usage = [t \in Tenants |-> Counts(ApplySeq(EmptyGraph, SelectSeq(seed, LAMBDA o : o.t = t)))]
    /\ quota = q
    /\ call = c
    /\ pc = [p \in Procs |-> IF c[p] = NoCall THEN "idle" ELSE IF IsCreate(c[p]) THEN "chk" ELSE "wal"]
    /\ res = [p \in Procs |-> "ok"]
    /\ G = [t \in Tenants |-> ApplySeq(EmptyGraph, SelectSeq(seed, LAMBDA o : o.t = t))]
    /\ pend = {}
    /\ stale = {}
PInit(q) == PInitC(q, [p \in Procs |-> NoCall], <<>>)

\* ---------------------------------------------------------------- one persist_* call, step by step
Begin(p, o) ==
    /\ pc[p] = "idle" /\ pend = {} /\ o.t \notin stale
    /\ call' = [call EXCEPT ![p] = o]
    /\ pc' = [pc EXCEPT ![p] = IF IsCreate(o) THEN "chk" ELSE "wal"]
    /\ res' = [res EXCEPT ![p] = "ok"]
    /\ UNCHANGED <<wal, kv, usage, quota, G, pend, stale>>

Admit(p) ==
    /\ pc' = [pc EXCEPT ![p] = "wal"]
    /\ UNCHANGED <<wal, kv, usage, quota, call, res, G, pend, stale>>
Refuse(p) ==
    /\ pc' = [pc EXCEPT ![p] = "ret"]
    /\ res' = [res EXCEPT ![p] = "err"]
    /\ UNCHANGED <<wal, kv, usage, quota, call, G, pend, stale>>

\* check_quota, as the property needs it: a creation is admitted only if the entities counted
\* plus the creations already admitted stay below the quota
ChkAdmit(p) == pc[p] = "chk" /\ Admissible(p) /\ Admit(p)
\* a refusal is always within the property (it must only leave nothing behind); the model of
\* the code refuses exactly when the counter says so
ChkRefuse(p) == pc[p] = "chk" /\ Refuse(p)
ChkRefuseCode(p) == pc[p] = "chk" /\ ~CounterSaysOk(p) /\ Refuse(p)
\* DEVIATION (pinned tree): the check only looks at the counter
KF_C18_CheckThenActRace(p) == pc[p] = "chk" /\ CounterSaysOk(p) /\ ~Admissible(p) /\ Admit(p)

WalAppend(p) ==
    /\ pc[p] = "wal"
    /\ wal' = Append(wal, WalEntry(call[p]))
    /\ pc' = [pc EXCEPT ![p] = "put"]
    /\ UNCHANGED <<kv, usage, quota, call, res, G, pend, stale>>

Store(p) ==
    /\ pc[p] = "put"
    /\ kv' = [kv EXCEPT ![call[p].t] = StoreEffect(@, call[p], usage[call[p].t])]
    /\ pc' = [pc EXCEPT ![p] = IF IsUpdate(call[p]) THEN "ret" ELSE "inc"]
    /\ UNCHANGED <<wal, usage, quota, call, res, G, pend, stale>>

Count(p) ==
    /\ pc[p] = "inc"
    /\ usage' = [usage EXCEPT ![call[p].t] = Bump(@, call[p])]
    /\ pc' = [pc EXCEPT ![p] = "ret"]
    /\ UNCHANGED <<wal, kv, quota, call, res, G, pend, stale>>

\* the call returns: an Ok is the acknowledgement that makes the operation part of G
Ret(p) ==
    /\ pc[p] = "ret"
    /\ G' = IF res[p] = "ok" THEN [G EXCEPT ![call[p].t] = Effect(@, call[p])] ELSE G
    /\ pc' = [pc EXCEPT ![p] = "idle"]
    /\ call' = [call EXCEPT ![p] = NoCall]
    /\ UNCHANGED <<wal, kv, usage, quota, res, pend, stale>>

\* ---------------------------------------------------------------- whole calls (sequential callers)
\* The same steps taken at once by a caller nobody interleaves with (the replicated state
\* machine, a single-threaded client).  ok = the call was acknowledged.
CallDone(o, ok) ==
    /\ AllIdle /\ pend = {} /\ o.t \notin stale
    /\ IF ok
       THEN /\ wal' = Append(wal, WalEntry(o))
            /\ kv' = [kv EXCEPT ![o.t] = StoreEffect(@, o, usage[o.t])]
            /\ usage' = [usage EXCEPT ![o.t] = Bump(@, o)]
            /\ G' = [G EXCEPT ![o.t] = Effect(@, o)]
       ELSE UNCHANGED <<wal, kv, usage, G>>          \* refused / failed: nothing is left behind
    /\ UNCHANGED <<quota, pc, call, res, pend, stale>>

\* ---------------------------------------------------------------- crash, restart, recovery
\* The process dies (or is shut down when nothing is in flight) and a new PersistenceManager is
\* opened on the same directory with the same tenants: counters are gone, storage and log stay.
Crash ==
    /\ pend' = pend \cup {call[p] : p \in Busy}
    /\ pc' = [p \in Procs |-> "idle"]
    /\ call' = [p \in Procs |-> NoCall]
    /\ usage' = [t \in Tenants |-> [n |-> 0, e |-> 0]]
    /\ stale' = Tenants
    /\ UNCHANGED <<wal, kv, quota, res, G>>

\* PersistenceManager::recover(t) returning graph r
RecoverEff(t, r) ==
    /\ kv' = [kv EXCEPT ![t] = r]
    /\ G' = [G EXCEPT ![t] = r]
    /\ pend' = {o \in pend : o.t # t}
    /\ stale' = stale \ {t}
    /\ usage' = [usage EXCEPT ![t] = IF LegacyRecover THEN [n |-> @.n + Counts(r).n, e |-> @.e + Counts(r).e]
                                     ELSE Counts(r)]
    /\ UNCHANGED <<wal, quota, pc, call, res>>
RecoverTo(t, r) == AllIdle /\ r \in Allowed(t) /\ RecoverEff(t, r)
Recover(t) == RecoverTo(t, kv[t])        \* the code: a scan of storage

\* DEVIATIONS (tree without the update fix): an acknowledged update never reached storage, and
\* recovery returns storage
KF_C16_UpdateOnlyInWal(o) ==
    /\ AllIdle /\ pend = {} /\ o.t \notin stale /\ IsUpdate(o)
    /\ wal' = Append(wal, WalEntry(o))
    /\ G' = [G EXCEPT ![o.t] = Effect(@, o)]
    /\ Effect(G[o.t], o) # G[o.t]
    /\ UNCHANGED <<kv, usage, quota, pc, call, res, pend, stale>>
\* (storage = what was stored, with the creations / deletions in flight at the crash applied or not)
StorageAfterCrash(t) == {ApplySet(kv[t], S) : S \in SUBSET {o \in pend : o.t = t /\ ~IsUpdate(o)}}
KF_C16_RecoverMissesUpdates(t, r) == AllIdle /\ r \in StorageAfterCrash(t) /\ r \notin Allowed(t) /\ RecoverEff(t, r)

\* nothing is running (observation point)
Quiescent == AllIdle /\ UNCHANGED pvars

\* ---------------------------------------------------------------- properties
\* C16: at every step boundary recovery (= storage) is the acknowledged graph plus at most the
\* operations in flight
Atomic == \A t \in Tenants : kv[t] \in Allowed(t)
\* C32/C16: with nothing in flight storage is exactly the acknowledged graph
QuiescentStorageIsG == (AllIdle /\ pend = {}) => \A t \in Tenants : kv[t] = G[t]

\* C18 (creation-only histories)
QuotaHolds ==
    \A t \in Tenants : /\ Cardinality(DOMAIN kv[t].n) <= quota[t].n
                       /\ Cardinality(DOMAIN kv[t].e) <= quota[t].e
Stored(o) == IF Kind(o) = "n" THEN o.id \in DOMAIN kv[o.t].n ELSE o.id \in DOMAIN kv[o.t].e
Logged(o) == \E k \in DOMAIN wal : wal[k] = WalEntry(o)
RefusedLeavesNothing ==
    \A p \in Procs : (pc[p] = "ret" /\ res[p] = "err") => (~Stored(call[p]) /\ ~Logged(call[p]))
UsageExact == AllIdle => \A t \in Tenants \ stale : usage[t] = Counts(kv[t])

TypeOK ==
    /\ \A t \in Tenants : usage[t].n \in Nat /\ usage[t].e \in Nat
    /\ \A p \in Procs : pc[p] \in {"idle", "chk", "wal", "put", "inc", "ret"} /\ res[p] \in {"ok", "err"}
    /\ \A p \in Procs : (pc[p] = "idle") = (call[p] = NoCall)
=============================================================================
