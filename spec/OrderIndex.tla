----------------------------- MODULE OrderIndex -----------------------------
(* C10, second clause: index lookups never depend on insertion order.        *)
(* State: the multiset of (value, node) pairs inserted so far, where values   *)
(* are indices into the harness' value universe and `same` is the identity    *)
(* relation the harness reports (bit-identical values).  Insert(v, n) adds;   *)
(* the read view Get(v) is the set of nodes inserted under a value identical  *)
(* to v; All is every inserted node.  MC_OrderIndex makes TLC enumerate every *)
(* insertion order of small multisets; the trace spec requires the real       *)
(* PropertyIndex (a BTreeMap keyed by Ord) to answer get() for every inserted *)
(* value and the unbounded range() exactly like the model, in every order.    *)
EXTENDS Naturals, Sequences, FiniteSets

CONSTANTS Vals, Nodes
VARIABLE ins     \* set of <<v, n>>
OInit == ins = {}
Insert(v, n) == ins' = ins \cup {<<v, n>>}
Remove(v, n) == ins' = ins \ {<<v, n>>}
Get(v) == {p[2] : p \in {p \in ins : p[1] = v}}
All == {p[2] : p \in ins}
=============================================================================
