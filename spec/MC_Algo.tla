------------------------------ MODULE MC_Algo ------------------------------
(* GEN for C26 / C27: TLC enumerates ALL directed multigraphs with N nodes,   *)
(* N in Ns, and at most MaxE relationships (weights in Weights, NTypes types) as *)
(* BAGS of relationships (the history appends relationships in non-decreasing  *)
(* key order, so every bag is reached exactly once); every graph is printed    *)
(* as one script in that order and once more with the relationships in the     *)
(* opposite order (insertion order is an implementation-level dimension:       *)
(* adjacency lists keep it; EmitAlt prints one of the two).  Ns within 1..4       *)
(* covers "all graphs up to 4 nodes".  The same graphs serve every algorithm.  *)
(* Design-level checks (the definitions of Algo.tla against each other and     *)
(* the lemmas the trace specification relies on) are invariants evaluated on   *)
(* every complete graph.                                                       *)
EXTENDS Algo, Json

CONSTANTS Ns, MaxE, Weights, NTypes,
          Canonical,            \* TRUE: one history per bag (non-decreasing keys); FALSE: every insertion sequence
          NoRedistribution      \* self-test: claim "PageRank sums to one" WITHOUT dangling redistribution (must fail)

VARIABLES hist,
          N        \* number of nodes of the graph being built (chosen initially from Ns)
TypeSeq == SubSeq(<<"T", "U">>, 1, NTypes)
vars == <<nn, lab, edges, hist, N>>

\* label scheme of the scripts: N on every node, X<u> on every node except u, O<v> on node v only, (Z on nobody)
LabelsOf(v) == {"N"} \cup {"X" \o ToString(u) : u \in (1..N) \ {v}} \cup {"O" \o ToString(v)}

TIdx(t) == CHOOSE i \in DOMAIN TypeSeq : TypeSeq[i] = t
EKey(s, d, w, t) == ((s * 8 + d) * 8 + w) * 8 + TIdx(t)
LastKey == IF edges = <<>> THEN 0 ELSE LET e == edges[Len(edges)] IN EKey(e.s, e.d, e.w, e.t)

Init == GInit /\ hist = <<>> /\ N \in Ns

DoAddNode == /\ nn < N
             /\ AddNode(LabelsOf(nn + 1))
             /\ hist' = Append(hist, [op |-> "AddNode", labels |-> LabelsOf(nn + 1)])
             /\ UNCHANGED N
DoAddEdge == /\ nn = N /\ Len(edges) < MaxE
             /\ \E s \in 1..N, d \in 1..N, w \in Weights, t \in Range(TypeSeq) :
                   /\ Canonical => EKey(s, d, w, t) >= LastKey
                   /\ AddEdge(s, d, w, t)
                   /\ hist' = Append(hist, [op |-> "AddEdge", s |-> s, d |-> d, w |-> w, t |-> t])
             /\ UNCHANGED N
Next == DoAddNode \/ DoAddEdge
Spec == Init /\ [][Next]_vars

RevSeq(s) == [i \in 1..Len(s) |-> s[Len(s) + 1 - i]]
Reversed(h) == SubSeq(h, 1, N) \o RevSeq(SubSeq(h, N + 1, Len(h)))
Emit == nn' = N => /\ PrintT(<<"SCRIPT", ToJson(hist')>>)
                   /\ ((Canonical /\ Reversed(hist') # hist') => PrintT(<<"SCRIPT", ToJson(Reversed(hist'))>>))
\* one script per graph: insertion order ascending or descending depending on a parity of the relationship list
\* (largest families of the thorough tier: every bag once, both orders exercised)
EmitAlt == nn' = N => LET par == SumF([i \in DOMAIN edges' |-> edges'[i].s + edges'[i].d + edges'[i].w], DOMAIN edges') % 2
                      IN PrintT(<<"SCRIPT", ToJson(IF par = 0 THEN hist' ELSE Reversed(hist'))>>)
\* for -simulate: random graphs with exactly MaxE relationships
SimEmit == (nn = N /\ Len(edges) = MaxE) => PrintT(<<"SCRIPT", ToJson(hist)>>)

TypeOK == /\ N \in Ns /\ nn \in 0..N /\ Len(lab) = nn /\ Len(edges) <= MaxE
          /\ \A i \in DOMAIN edges : edges[i].s \in 1..nn /\ edges[i].d \in 1..nn /\ edges[i].w \in Weights

-----------------------------------------------------------------------------
(* design checks *)
G == Proj("", "", "w")
Done == nn = N
PairsST == {p \in G.V \X G.V : p[1] # p[2]}

\* every strongly connected class lies inside a weakly connected class; both are partitions
SccRefinesWcc == Done => \A u \in G.V : /\ u \in SccClass(G, u) /\ SccClass(G, u) \subseteq WccClass(G, u)
                                        /\ \A v \in SccClass(G, u) : SccClass(G, v) = SccClass(G, u)
                                        /\ \A v \in WccClass(G, u) : WccClass(G, v) = WccClass(G, u)
\* hop optimum and weighted optimum bound each other (weights in 1..3)
CostsBound == Done => \A s, t \in G.V : t \in Reach(G, s) =>
                 LET h == OptCost(G, "hops", s, t)
                     c == OptCost(G, "weight", s, t)
                 IN h <= c /\ c <= 3 * h /\ (s = t => c = 0)
\* min cut: zero iff unreachable, never more than what leaves s or enters t
CutBounds == Done => \A p \in PairsST :
                 LET c == MinCut(G, p[1], p[2]) IN
                 /\ (c = 0) <=> (p[2] \notin Reach(G, p[1]))
                 /\ c <= CutCap(G, {p[1]}) /\ c <= CutCap(G, G.V \ {p[2]})
\* brute-force MST weight = Kruskal's greedy weight (two independent definitions)
MstIsKruskal == Done => \A r \in G.V : MstWeight(G, r) = Kruskal(G, r)
\* self-test (must FAIL): Prim as pinned, which looks at ONE parallel relationship chosen by position, is not minimal
PositionalParallel(g) == LET keep == SelectSeq([i \in DOMAIN g.E |-> [e |-> g.E[i], i |-> i]],
                                               LAMBDA x : ~\E j \in DOMAIN g.E : j > x.i /\ g.E[j].s = x.e.s /\ g.E[j].d = x.e.d)
                         IN [V |-> g.V, E |-> [i \in DOMAIN keep |-> keep[i].e]]
LegacyPrimMinimal == Done => \A r \in G.V : Kruskal(PositionalParallel(G), r) = MstWeight(G, r)
\* Fagiolo's coefficient on a symmetric digraph is the undirected coefficient; triangles = sum of links / 3
LccAgree == Done => /\ \A v \in G.V : LET a == LccDirected(Sym(G), v)
                                          b == LccUndirected(G, v)
                                      IN a[1] * b[2] = b[1] * a[2]
                    /\ 3 * Triangles(G) = SumF([v \in G.V |-> IF LccUndirected(G, v)[2] = 1 THEN 0 ELSE LccUndirected(G, v)[1] \div 2], G.V)
\* CDLP labels are node ids of the node's own weak component; an isolated node keeps its own
CdlpSane == Done => \A k \in 0..3 : \A v \in G.V : Cdlp(G, k)[v] \in WccClass(G, v)
\* PageRank: with dangling redistribution the scores sum to one after every iteration
PRConfigs == {[dn |-> 1, dd |-> 2, iters |-> i, tolD |-> 0, dang |-> ~NoRedistribution] : i \in 0..2}
             \cup {[dn |-> 3, dd |-> 4, iters |-> 2, tolD |-> 10, dang |-> ~NoRedistribution]}
PRSumsToOne == Done => \A c \in PRConfigs : \A st \in PageRank(G, c) : SumF(st.num, G.V) = st.D
\* LEMMA used by the replicated (parallel-path) runs: on k disjoint copies PageRank gives score/k to every copy
\* of a node (also with dangling redistribution and with a tolerance: base term, dangling share and L1 change
\* all scale by 1/k resp. stay equal), and CDLP labels copy c with the copy's own labels.  Checked here for k = 2, 3.
UnionLemma == Done => \A k \in {2, 3} :
                  LET n == Cardinality(G.V)
                      H == Copies(G, k)
                      Canon(x, y) == LET q == GCD(x, y) IN <<x \div q, y \div q>>
                  IN /\ \A c \in PRConfigs \cup {[dn |-> 1, dd |-> 2, iters |-> 2, tolD |-> 0, dang |-> FALSE]} :
                            \A st \in PageRank(G, c), sh \in PageRank(H, c) : \A v \in G.V, j \in 0..(k - 1) :
                                Canon(st.num[v], st.D * k) = Canon(sh.num[j * n + v], sh.D)
                     /\ \A it \in 0..3 : \A v \in G.V, j \in 0..(k - 1) : Cdlp(H, it)[j * n + v] = j * n + Cdlp(G, it)[v]

View == <<nn, lab, edges, N>>
=============================================================================
