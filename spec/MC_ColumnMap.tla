---------------------------- MODULE MC_ColumnMap ----------------------------
(* Model-checking wrapper of ColumnMap.                                       *)
(* Rows are ROW CLASSES (MRows, a subset of 1..6): the harness instantiates them, per          *)
(* scenario, around a pre-built column of key "a" (e.g. 1 = base-1, 2 = base, *)
(* 3 = mid, 4 = top, 5 = top+1, 6 = far; or the break-even rows of            *)
(* dense_is_smaller).  The first step of every script is "Load": the harness  *)
(* installs the scenario's pre-built store; in the model it is the bulk load  *)
(* of rows LoadLo..LoadLo+LoadN-1 of key "a".                                 *)
(* Design-level property (checked on every reachable state): the state-based  *)
(* map agrees with the HISTORY-based statement of C30 -- the read of (r, k)   *)
(* is the value of the last operation that touched it.                        *)
(* EmitLeaf without a VIEW enumerates every operation sequence of length      *)
(* MaxHist (the implementation's representation is history dependent, so      *)
(* sequences, not abstract states, are the right thing to cover).             *)
EXTENDS ColumnMap, Json

CONSTANTS MRows, MKeys, MVals, LoadLo, LoadN, MaxHist, Legacy

VARIABLE hist
vars == <<m, wr, fills, cols, hist>>

Rows == MRows        \* a subset of the six row classes 1..6
LoadRec == [op |-> "Load", key |-> "a", lo |-> LoadLo, n |-> LoadN, step |-> 1, kind |-> "int"]

Init == /\ m = <<>> /\ wr = {}
        /\ fills = <<[key |-> "a", lo |-> LoadLo, n |-> LoadN, step |-> 1, kind |-> "int"]>>
        /\ cols = {"a"}
        /\ hist = <<LoadRec>>

H(rec) == hist' = Append(hist, rec)

Next ==
  /\ Len(hist) <= MaxHist        \* leaves are not expanded
  /\
    \/ \E r \in Rows, k \in MKeys, v \in MVals : Set(r, k, v) /\ H([op |-> "Set", row |-> r, key |-> k, val |-> v])
    \/ \E r \in Rows, k \in MKeys :
          /\ IF Legacy THEN LegacyRemove(r, k) ELSE Remove(r, k)
          /\ H([op |-> "Remove", row |-> r, key |-> k])
    \/ \E r \in Rows : ClearRow(r) /\ H([op |-> "ClearRow", row |-> r])

Spec == Init /\ [][Next]_vars

\* ---- C30, stated over the history ----
Touches(h, r, k) ==
    \/ h.op \in {"Set", "Remove"} /\ h.row = r /\ h.key = k
    \/ h.op = "ClearRow" /\ h.row = r
    \/ h.op = "Load" /\ h.key = k /\ r \in h.lo..(h.lo + h.n - 1)
Last(r, k) == LET I == {i \in DOMAIN hist : Touches(hist[i], r, k)}
              IN  IF I = {} THEN [op |-> "none"] ELSE hist[MaxOf(I)]
Expected(r, k) == LET h == Last(r, k) IN
    CASE h.op = "Set" -> h.val
      [] h.op = "Load" -> Val(h.kind, r)
      [] OTHER -> NULL

LastWriteWins == \A r \in Rows, k \in MKeys : Get(r, k) = Expected(r, k)
\* the key listing is determined except for cells holding an explicit null
KeysExact == \A r \in Rows :
    LET must == {k \in MKeys : Expected(r, k) # NULL}
        may == {k \in MKeys : Last(r, k).op \in {"Set", "Load"}}
    IN  /\ \A k \in must : Holds(r, k)
        /\ \A k \in MKeys : Written(r, k) => k \in may

View == <<m, fills, cols>>
Bound == Len(hist) <= MaxHist + 1
EmitLeaf == Len(hist') = MaxHist + 1 => PrintT(<<"SCRIPT", ToJson(hist')>>)
EmitAll == PrintT(<<"SCRIPT", ToJson(hist')>>)
SimEmit == Len(hist) = MaxHist + 1 => PrintT(<<"SCRIPT", ToJson(hist)>>)
=============================================================================
