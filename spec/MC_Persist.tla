----------------------------- MODULE MC_Persist -----------------------------
(* Model-checking wrapper of Persist.                                        *)
(*  Mode "seq"  (C16, C32): one caller; operation sequences with a process    *)
(*     crash possible at every step boundary of every call, clean restarts    *)
(*     and recoveries.  hist records the calls, the crash (with the program   *)
(*     counter it happened at), restarts and recoveries; one script per       *)
(*     Recover transition (EmitRec): with VIEW ViewSeq one per transition of  *)
(*     the state graph, without a VIEW one per operation history.             *)
(*  Mode "conc" (C18): every thread of Procs performs one creation against a  *)
(*     small quota; every interleaving of the atomic steps, then recovery on  *)
(*     the same manager.  hist records which thread takes each step.          *)
EXTENDS Persist, TLC, Json

CONSTANTS Mode, MaxOps, MaxHist,
          NodeIds, EdgeIds, LabelSeqs, Ends, CreateVals, UpdateVals,   \* "seq" alphabet
          ConcQuotas, ConcKinds,                                       \* "conc": quota values, kinds of creation
          Main,                                                        \* the tenant the generated calls are for; the others
                                                                       \* of Tenants are neighbours holding a little data
          OpTenants,                                                   \* "seq": tenants the generated calls are for (Main, and
                                                                       \* possibly neighbours: one request stream, several tenants)
          SeedMain,                                                    \* Main starts with nodes 1 and 2 (relationship-only alphabets)
          CrashOn,                                                     \* "seq": crashes inside calls are explored
          Race                                                         \* KF_C18_CheckThenActRace is part of Next

\* alphabets a .cfg cannot write (substituted with  LabelSeqs <- LS2  etc.)
LS1 == {<<"A">>}
LS2 == {<<>>, <<"A", "B">>}
LS3 == {<<>>, <<"A">>, <<"A", "B">>}
Ends1 == {<<1, 2>>}
Ends2 == {<<1, 2>>, <<2, 2>>}

VARIABLE hist
vars == <<wal, kv, usage, quota, pc, call, res, G, pend, stale, hist>>

P1 == CHOOSE p \in Procs : TRUE
H(r) == hist' = Append(hist, r)

Ops ==
    UNION {
      {[op |-> "CreateNode", t |-> t, id |-> i, labels |-> ls, p |-> v] : i \in NodeIds, ls \in LabelSeqs, v \in CreateVals}
      \cup {[op |-> "CreateEdge", t |-> t, id |-> i, src |-> sd[1], dst |-> sd[2], ty |-> "T", p |-> v] : i \in EdgeIds, sd \in Ends, v \in CreateVals}
      \cup {[op |-> "DeleteNode", t |-> t, id |-> i] : i \in NodeIds}
      \cup {[op |-> "DeleteEdge", t |-> t, id |-> i] : i \in EdgeIds}
      \cup {[op |-> "UpdateNode", t |-> t, id |-> i, p |-> v] : i \in NodeIds, v \in UpdateVals}
      \cup {[op |-> "UpdateEdge", t |-> t, id |-> i, p |-> v] : i \in EdgeIds, v \in UpdateVals}
      : t \in OpTenants}

\* Calls whose effect the properties leave open are not generated: creating an id that exists
\* (replace or refuse?) and deleting a node that still has relationships (cascade or not?).
Unambiguous(o) ==
    CASE o.op = "CreateNode" -> o.id \notin DOMAIN G[o.t].n
      [] o.op = "CreateEdge" -> o.id \notin DOMAIN G[o.t].e
      [] o.op = "DeleteNode" -> \A e \in DOMAIN G[o.t].e : G[o.t].e[e].src # o.id /\ G[o.t].e[e].dst # o.id
      [] OTHER -> TRUE

\* neighbours (ids that sort next to Main's in the key space) each hold one node and one relationship
RECURSIVE SetSeq(_)
SetSeq(S) == IF S = {} THEN <<>> ELSE LET x == CHOOSE y \in S : TRUE IN <<x>> \o SetSeq(S \ {x})
Nbrs == SetSeq(Tenants \ {Main})
RECURSIVE SeedFor(_)
SeedFor(ts) == IF ts = <<>> THEN <<>>
               ELSE << [op |-> "CreateNode", t |-> Head(ts), id |-> 1, labels |-> <<"A">>, p |-> 1],
                       [op |-> "CreateEdge", t |-> Head(ts), id |-> 1, src |-> 1, dst |-> 2, ty |-> "T", p |-> 0] >> \o SeedFor(Tail(ts))
MainSeed == IF SeedMain THEN << [op |-> "CreateNode", t |-> Main, id |-> 1, labels |-> <<"A">>, p |-> 0],
                                [op |-> "CreateNode", t |-> Main, id |-> 2, labels |-> <<"A">>, p |-> 0] >>
            ELSE <<>>
SeedOps == MainSeed \o SeedFor(Nbrs)
\* the script's first record: quotas (the same for every tenant), the tenants to register (Main first), the seed calls
OpenRec(qn, qe) == [op |-> "Open", qn |-> qn, qe |-> qe, ts |-> <<Main>> \o Nbrs, seed |-> SeedOps]

IsCallRec(r) == r.op \notin {"Open", "Crash", "Restart", "Recover", "Step", "Begin"}
NumCalls == Len(SelectSeq(hist, IsCallRec))

NumRecovers == Len(SelectSeq(hist, LAMBDA r : r.op = "Recover"))

NoLimit == [t \in Tenants |-> [n |-> Unlimited, e |-> Unlimited]]

StepOf(p) ==
    \/ ChkAdmit(p)
    \/ ChkRefuseCode(p)
    \/ (Race /\ KF_C18_CheckThenActRace(p))
    \/ WalAppend(p) \/ Store(p) \/ Count(p) \/ Ret(p)

\* ------------------------------------------------------------------ "seq"
SeqInit == PInitC(NoLimit, [p \in Procs |-> NoCall], SeedOps) /\ hist = <<OpenRec(Unlimited, Unlimited)>>

SeqNext ==
    \/ \E o \in Ops : NumCalls < MaxOps /\ Unambiguous(o) /\ Begin(P1, o) /\ H(o)
    \/ StepOf(P1) /\ UNCHANGED hist
    \/ CrashOn /\ ~AllIdle /\ Crash /\ H([op |-> "Crash", at |-> pc[P1]])
    \/ CrashOn /\ AllIdle /\ Main \notin stale /\ Crash /\ H([op |-> "Crash", at |-> "idle"])
    \/ AllIdle /\ Main \notin stale /\ Crash /\ H([op |-> "Restart"])
    \* (the harness recovers the neighbours right after Main; they take no part in the generated behaviour)
    \/ AllIdle /\ Main \in stale /\ Recover(Main) /\ H([op |-> "Recover", t |-> Main])

\* ------------------------------------------------------------------ "conc"
ConcCall(p, k) ==
    IF k = "n" THEN [op |-> "CreateNode", t |-> Main, id |-> p, labels |-> <<"A">>, p |-> 0]
    ELSE [op |-> "CreateEdge", t |-> Main, id |-> p, src |-> 1, dst |-> 2, ty |-> "T", p |-> 0]

RECURSIVE Begins(_, _)
Begins(c, S) == IF S = {} THEN <<>>
                ELSE LET p == CHOOSE x \in S : \A y \in S : x <= y
                     IN <<[op |-> "Begin", p |-> p, call |-> c[p]]>> \o Begins(c, S \ {p})

ConcInit ==
    \E qn \in ConcQuotas, qe \in ConcQuotas, ks \in [Procs -> ConcKinds] :
        LET c == [p \in Procs |-> ConcCall(p, ks[p])]
            least == CHOOSE q \in ConcQuotas : \A r \in ConcQuotas : q <= r IN
        \* the quota of a kind nobody creates is irrelevant: fixed to the smallest value
        /\ (\A p \in Procs : ks[p] # "n") => qn = least
        /\ (\A p \in Procs : ks[p] # "e") => qe = least
        /\ PInitC([t \in Tenants |-> [n |-> qn, e |-> qe]], c, SeedOps)
        /\ hist = <<OpenRec(qn, qe)>> \o Begins(c, Procs)

ConcNext ==
    \/ \E p \in Procs : StepOf(p) /\ H([op |-> "Step", p |-> p, k |-> pc[p]])
    \/ AllIdle /\ NumRecovers < 2 /\ Recover(Main) /\ H([op |-> "Recover", t |-> Main])

\* ------------------------------------------------------------------
Init == IF Mode = "seq" THEN SeqInit ELSE ConcInit
Next == IF Mode = "seq" THEN SeqNext ELSE ConcNext
Spec == Init /\ [][Next]_vars

\* liveness (conc): with every thread scheduled fairly every call returns
LiveNext == \E p \in Procs : StepOf(p) /\ UNCHANGED hist
LiveSpec == ConcInit /\ [][LiveNext]_vars /\ \A p \in Procs : WF_vars(StepOf(p) /\ UNCHANGED hist)
EveryCallReturns == <>[]AllIdle

View == <<wal, kv, usage, quota, pc, call, res, G, pend, stale>>
ViewSeq == <<kv, usage, quota, pc, call, res, G, pend, stale>>    \* the log is write-only in this model: not part of state identity
Bound == Len(hist) <= MaxHist

Last(h) == h[Len(h)]
Emit == PrintT(<<"SCRIPT", ToJson(hist')>>)
\* seq: a script is useful once it ends in an observation
EmitRec == (hist' # hist /\ Last(hist').op = "Recover") => PrintT(<<"SCRIPT", ToJson(hist')>>)
\* conc: one script per complete interleaving (no VIEW) ...
EmitQuiet == (~AllIdle /\ AllIdle') => PrintT(<<"SCRIPT", ToJson(hist')>>)
\* ... or one per step transition (with VIEW; the harness drains the remaining threads)
EmitStep == (hist' # hist /\ Last(hist').op = "Step") => PrintT(<<"SCRIPT", ToJson(hist')>>)
SimEmit == Len(hist) = MaxHist => PrintT(<<"SCRIPT", ToJson(hist)>>)
SimEmitQuiet == (Mode = "conc" /\ AllIdle) => PrintT(<<"SCRIPT", ToJson(hist)>>)
=============================================================================
