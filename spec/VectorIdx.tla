------------------------------ MODULE VectorIdx ------------------------------
(***************************************************************************)
(* Vector search of samyama-graph (src/vector/index.rs VectorIndex,         *)
(* src/vector/manager.rs VectorIndexManager, the index maintenance in       *)
(* src/graph/store.rs: create_node_with_properties / set_node_property /    *)
(* add_label_to_node -> handle_index_event -> add_vector, create_vector_    *)
(* index, rebuild_vector_index, vector_search; VectorSearchOperator).       *)
(*                                                                          *)
(* Logical state (what property C29 talks about)                            *)
(*   node  live nodes: id -> [labels, vec : property -> 2-D integer vector  *)
(*         (properties without a vector are absent)]                        *)
(*   idx   declared indexes: <<label, property>> -> metric                  *)
(* Implementation-shaped state                                              *)
(*   ent   <<label, property>> -> set of entries [id, v, at, st]: every     *)
(*         add_vector call since the index was registered / rebuilt         *)
(*         (VectorIndex::stored_vectors; `at` = logical time of the call,   *)
(*         which keeps repeated additions apart).  st says what the entry   *)
(*         is worth NOW: "cur" = the current vector of a node that carries  *)
(*         label and property, "stale" = superseded / label or vector gone  *)
(*         / added twice, of a node that still exists, "dead" = of a        *)
(*         deleted node (whose id may meanwhile name another node).         *)
(*   clk   logical time, one tick per mutator call                          *)
(* An ideal index holds exactly the "cur" entries.  The ideal search does   *)
(* not look at `ent` except for its size (the exact-search threshold); the  *)
(* deviations do: they say WHICH of the entries that should be gone the     *)
(* pinned tree still searches.                                              *)
(*                                                                          *)
(* Distances are compared exactly in integer arithmetic: L2 by squared      *)
(* distance, inner product by the product, cosine by cross-multiplication   *)
(* of dot(q,v)/|v| with sign analysis.  Exact ties form one ranking CLASS;  *)
(* any order inside a class is accepted (the implementation computes in     *)
(* f32).  The zero vector has no cosine distance and is not in the          *)
(* alphabet.                                                                *)
(***************************************************************************)
EXTENDS Integers, Sequences, FiniteSets, TLC

CONSTANT ExactMax       \* VectorIndex::search: EXACT_SEARCH_MAX = 128 stored vectors

VARIABLES node, idx, ent, clk
vvars == <<node, idx, ent, clk>>

Metrics == {"cosine", "l2", "dot"}
Live == DOMAIN node

Dot(a, b) == a[1] * b[1] + a[2] * b[2]
Sq(a) == Dot(a, a)
L2(a, b) == (a[1] - b[1]) * (a[1] - b[1]) + (a[2] - b[2]) * (a[2] - b[2])

\* a is STRICTLY closer to q than b under the metric
CosLess(q, a, b) ==
    LET da == Dot(q, a)  db == Dot(q, b) IN
    \* cos(q,a) > cos(q,b)  <=>  da/|a| > db/|b|   (|q| > 0 is a common factor)
    IF da >= 0 /\ db < 0 THEN TRUE
    ELSE IF da < 0 /\ db >= 0 THEN FALSE
    ELSE IF da >= 0 THEN da * da * Sq(b) > db * db * Sq(a)
    ELSE da * da * Sq(b) < db * db * Sq(a)
Less(metric, q, a, b) ==
    CASE metric = "cosine" -> CosLess(q, a, b)
      [] metric = "l2"     -> L2(q, a) < L2(q, b)
      [] metric = "dot"    -> Dot(q, a) > Dot(q, b)       \* InnerProductDistance = 1 - dot

\* nodes that currently exist, carry the label and a vector at the property
Eligible(key) == {n \in Live : key[1] \in node[n].labels /\ key[2] \in DOMAIN node[n].vec}

VInit == node = <<>> /\ idx = <<>> /\ ent = <<>> /\ clk = 0

Entry(n, v, t, st) == [id |-> n, v |-> v, at |-> t, st |-> st]

Restrict(f, S) == [x \in S |-> f[x]]
Put(f, x, y) == [z \in DOMAIN f \cup {x} |-> IF z = x THEN y ELSE f[z]]

\* entries of node n that stop being current in the indexes selected by Hit(key)
Retire(en, n, Hit(_), st) ==
    [key \in DOMAIN en |->
        IF Hit(key)
        THEN {IF e.id = n /\ e.st = "cur" THEN [e EXCEPT !.st = st] ELSE e : e \in en[key]}
        ELSE en[key]]

\* add_vector(label, prop, id, v) for every label in Ls and every property in DOMAIN vs;
\* silently dropped when no such index is registered (manager.rs add_vector)
Added(en, Ls, n, vs, t) ==
    [key \in DOMAIN en |->
        IF key[1] \in Ls /\ key[2] \in DOMAIN vs
        THEN en[key] \cup {Entry(n, vs[key[2]], t, "cur")}
        ELSE en[key]]

\* ---- GraphStore::create_node_with_properties (labels, {prop: Vector}) ----
CreateNode(n, Ls, vs) ==
    /\ n \notin Live
    /\ clk' = clk + 1
    /\ node' = Put(node, n, [labels |-> Ls, vec |-> vs])
    /\ ent' = Added(ent, Ls, n, vs, clk + 1)
    /\ UNCHANGED idx

\* ---- set_node_property(n, p, Vector v): create or UPDATE the vector ----
SetVector(n, p, v) ==
    /\ n \in Live
    /\ clk' = clk + 1
    /\ node' = [node EXCEPT ![n].vec = Put(@, p, v)]
    /\ LET Hit(key) == key[2] = p
       IN  ent' = Added(Retire(ent, n, Hit, "stale"), node[n].labels, n, (p :> v), clk + 1)
    /\ UNCHANGED idx

\* ---- set_node_property(n, p, <not a vector>) / remove_node_property(n, p):
\* ---- the node no longer carries a vector at p
DropVector(n, p) ==
    /\ n \in Live
    /\ clk' = clk + 1
    /\ node' = [node EXCEPT ![n].vec = Restrict(@, DOMAIN @ \ {p})]
    /\ LET Hit(key) == key[2] = p IN ent' = Retire(ent, n, Hit, "stale")
    /\ UNCHANGED idx

\* ---- add_label_to_node: LabelAdded carries every property of the node (also when the
\* ---- node already had the label: the same vector is then added a second time) ----
AddLabel(n, lab) ==
    /\ n \in Live
    /\ clk' = clk + 1
    /\ node' = [node EXCEPT ![n].labels = @ \cup {lab}]
    /\ LET Hit(key) == key[1] = lab
       IN  ent' = Added(Retire(ent, n, Hit, "stale"), {lab}, n, node[n].vec, clk + 1)
    /\ UNCHANGED idx

\* ---- remove_label_from_node ----
RemoveLabel(n, lab) ==
    /\ n \in Live
    /\ clk' = clk + 1
    /\ node' = [node EXCEPT ![n].labels = @ \ {lab}]
    /\ LET Hit(key) == key[1] = lab IN ent' = Retire(ent, n, Hit, "stale")
    /\ UNCHANGED idx

\* ---- delete_node: every entry of the node (current or already stale) is now of a dead node ----
DeleteNode(n) ==
    /\ n \in Live
    /\ clk' = clk + 1
    /\ node' = Restrict(node, Live \ {n})
    /\ ent' = [key \in DOMAIN ent |->
                 {IF e.id = n /\ e.st # "dead" THEN [e EXCEPT !.st = "dead"] ELSE e : e \in ent[key]}]
    /\ UNCHANGED idx

\* entries a (re)build from the current graph produces: one per eligible node
Built(key, t) == {Entry(n, node[n].vec[key[2]], t, "cur") : n \in Eligible(key)}

\* ---- create_vector_index: registers a FRESH EMPTY index (replacing one of the same key).
\* ---- Callers that declare an index over data that already exists follow it with
\* ---- rebuild_vector_index (CreateVectorIndexOperator); `backfill` says whether they did.
CreateIndex(key, metric, backfill) ==
    /\ metric \in Metrics
    /\ backfill \/ Eligible(key) = {}
    /\ clk' = clk + 1
    /\ idx' = Put(idx, key, metric)
    /\ ent' = IF backfill
              THEN [k \in DOMAIN idx \cup {key} |-> Built(k, clk + 1)]    \* rebuild_vector_index rebuilds every index
              ELSE Put(ent, key, {})
    /\ UNCHANGED node

\* ---- rebuild_vector_index: every index is rebuilt from the nodes' current properties ----
Rebuild ==
    /\ clk' = clk + 1
    /\ ent' = [k \in DOMAIN idx |-> Built(k, clk + 1)]
    /\ UNCHANGED <<node, idx>>

\* ---------------------------------------------------------------------------
\* Search.  `items` is a set of records with fields id and v; Id is the node an
\* item stands for.  Rank(e) = number of items strictly closer than e; items of
\* equal rank form a class occupying result positions Rank+1 .. Rank+|class|.
\* res (a sequence of node ids) is a correct exact k-nearest answer over items
\* iff it has min(k, |items|) elements and, class by class, the ids found at
\* the class's positions are a sub-bag of the class's ids (the whole bag when
\* the class fits).  For items with pairwise distinct ids this is exactly:
\* distinct, subset, non-decreasing class, every omitted item ranks >= the last.
\* ---------------------------------------------------------------------------
Min2(a, b) == IF a < b THEN a ELSE b

\* (\E x \in {e} : P(x) is LET x == e IN P(x) with e evaluated once: TLC re-evaluates a LET
\* definition at every use)
TopK(items, metric, q, k, res) ==
    \* T: every item paired with its rank
    \E T \in {{<<Cardinality({f \in items : Less(metric, q, f.v, e.v)}), e>> : e \in items}} :
    LET K == Min2(k, Cardinality(items))
        ranks == {t[1] : t \in T}
        size(r) == Cardinality({t \in T : t[1] = r})
        \* number of items of node x in the class of rank r
        supply(x, r) == Cardinality({t \in T : t[1] = r /\ t[2].id = x})
    IN  /\ Len(res) = K
        /\ \A r \in ranks :
             LET pos == {p \in 1..K : r < p /\ p <= r + size(r)} IN
             \A x \in {res[p] : p \in pos} :
                 Cardinality({p \in pos : res[p] = x}) <= supply(x, r)

\* weaker clauses for an index too large to be searched exactly (HNSW): live holders only,
\* no node more often than it has items, at most k results, ranked (non-decreasing class)
Sound(items, metric, q, k, res) ==
    /\ Len(res) <= k
    /\ \A x \in {res[p] : p \in DOMAIN res} :
          Cardinality({p \in DOMAIN res : res[p] = x}) <= Cardinality({f \in items : f.id = x})
    /\ \A i, j \in DOMAIN res : i < j =>
          \E e \in items, f \in items : e.id = res[i] /\ f.id = res[j] /\ ~Less(metric, q, f.v, e.v)

\* what an ideal index holds: the current vector of every eligible node
IdealItems(key) == {Entry(n, node[n].vec[key[2]], 0, "cur") : n \in Eligible(key)}

\* physically kept entries that no longer describe the graph
StaleOf(key) == {e \in ent[key] : e.st = "stale"}   \* superseded / label or vector gone / duplicate
DeadOf(key) == {e \in ent[key] : e.st = "dead"}     \* of a deleted node (its id may have been reused)

Items(key, seeStale, seeDead) ==
    IdealItems(key) \cup (IF seeStale THEN StaleOf(key) ELSE {}) \cup (IF seeDead THEN DeadOf(key) ELSE {})

\* what the maintenance actions guarantee about the "cur" entries (checked on the design): they are
\* exactly the ideal items - one per eligible node, holding its current vector
CurMatchesGraph ==
    \A key \in DOMAIN idx :
        LET cur == {e \in ent[key] : e.st = "cur"} IN
        /\ {<<e.id, e.v>> : e \in cur} = {<<e.id, e.v>> : e \in IdealItems(key)}
        /\ Cardinality(cur) = Cardinality(Eligible(key))
        /\ \A e \in ent[key] : e.st = "stale" => e.id \in Live

IsExact(key) == Cardinality(ent[key]) <= ExactMax

\* the answer `res` of vector_search(label, prop, q, k), judged under an implementation that
\* additionally searches stale / dead entries and/or ranks by cosine whatever was declared
SearchOKWith(key, q, k, res, seeStale, seeDead, cosineOnly) ==
    LET metric == IF cosineOnly THEN "cosine" ELSE idx[key] IN
    \E items \in {Items(key, seeStale, seeDead)} :
        IF IsExact(key) THEN TopK(items, metric, q, k, res) ELSE Sound(items, metric, q, k, res)

\* ---- C29 ----
SearchOK(key, q, k, res) == SearchOKWith(key, q, k, res, FALSE, FALSE, FALSE)

\* ---- known deviations of the pinned tree (physical causes) ----
\* KF_C29_AppendOnlyEntries: VectorIndex::add only ever pushes; nothing removes or replaces an
\*   entry when the node's vector is updated / dropped or its label removed (or the same
\*   (node, vector) is added again by add_label_to_node) -> searches also range over StaleOf.
\* KF_C29_DeletedStillIndexed: delete_node (NodeDeleted) does not touch the vector index ->
\*   searches also range over DeadOf (the id may meanwhile name a new node).
\* KF_C29_MetricIgnored: the HNSW and the exact scan are instantiated with CosineDistance
\*   whatever metric was declared.
KFNames == {"KF_C29_AppendOnlyEntries", "KF_C29_DeletedStillIndexed", "KF_C29_MetricIgnored"}
SearchOKUnder(S, key, q, k, res) ==
    SearchOKWith(key, q, k, res, "KF_C29_AppendOnlyEntries" \in S, "KF_C29_DeletedStillIndexed" \in S,
                 "KF_C29_MetricIgnored" \in S)

\* under S, some correct physical answer names a node that does not exist (the Cypher procedure
\* then fails to materialise the row): a dead entry of a non-live id can reach the first k places
MayNameMissingNode(S, key, q, k) ==
    LET items == Items(key, "KF_C29_AppendOnlyEntries" \in S, "KF_C29_DeletedStillIndexed" \in S)
        metric == IF "KF_C29_MetricIgnored" \in S THEN "cosine" ELSE idx[key]
    IN  \E e \in items : /\ e.id \notin Live
                          /\ Cardinality({f \in items : Less(metric, q, f.v, e.v)}) < Min2(k, Cardinality(items))

TypeOK ==
    /\ DOMAIN ent = DOMAIN idx
    /\ \A key \in DOMAIN idx : idx[key] \in Metrics
    /\ \A key \in DOMAIN ent : \A e \in ent[key] : e.st \in {"cur", "stale", "dead"} /\ e.at <= clk
=============================================================================
