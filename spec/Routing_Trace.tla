---------------------------- MODULE Routing_Trace ----------------------------
(* C24 trace specification.  One event per model response given to the real    *)
(* pipeline (NLQPipeline::text_to_cypher directly, or POST /api/nlq on the real *)
(* router, both with a local HTTP server playing the language model).          *)
(*  - the response text is exactly the rendering of the structure the script   *)
(*    named (binding),                                                         *)
(*  - the pipeline either rejects or hands back a statement (no panic, no       *)
(*    other outcome),                                                          *)
(*  - a statement that was handed back, executed by the engine on a copy of    *)
(*    the fixed graph, left nodes, relationships, indexes and constraints      *)
(*    unchanged (the property, judged by execution).                           *)
(* What the pipeline extracts from the response and which harmless statements  *)
(* it refuses are left open.                                                   *)
EXTENDS Routing, TraceBase

tvars == <<out, l, sid, used, failed>>

TInit == RInit /\ TBInit
T_Reset == ResetBook /\ out' = [res |-> "none", cl |-> <<>>]
T_Fail == FailBook /\ out' = [res |-> "none", cl |-> <<>>]
T_Nlq ==
    /\ IsEv("Nlq")
    /\ WellFormedStmt(Ev.stmt)
    /\ Ev.q = StmtText(Ev.stmt)
    /\ Ev.text = RespText(Ev.stmt, Ev.wrap)
    /\ Ev.w = IsWrite(Ev.stmt)
    /\ Ev.res \in {"ok", "rejected"}
    /\ Ev.res = "ok" => ~Ev.obs.mutated
    /\ out' = [res |-> Ev.res, cl |-> <<>>]
    /\ Same

TNext == T_Fail \/ T_Reset \/ T_Nlq
TSpec == TInit /\ [][TNext]_tvars
=============================================================================
