SPECIFICATION Spec
CONSTANTS MaxIndex = 4
          MaxTerm = 2
          MaxRun = 2
          MaxHist = 5
          Legacy = FALSE
VIEW View
CONSTRAINT Bound
ACTION_CONSTRAINT Emit
INVARIANTS TypeOK OneEntryPerIndex SortedContiguous LastIsNewest
PROPERTY SnapshotKeepsTail
CHECK_DEADLOCK FALSE
