-------------------------------- MODULE Mvcc --------------------------------
(***************************************************************************)
(* Versioned reads of samyama-graph's GraphStore (src/graph/store.rs):     *)
(* node version chains (copy-on-write in set_node_property), the           *)
(* relationship version log (set_edge_property), the global version that   *)
(* only a committing transaction advances, and version garbage collection  *)
(* (gc_versions / gc_watermark / gc_auto).                                 *)
(*                                                                         *)
(* Two states are carried side by side:                                    *)
(*   IDEAL   hist[n][v], ehist[e][v]: the state of node n / relationship e *)
(*           as of version v - what properties C07 and C08 define.         *)
(*           "free" marks reads that garbage collection released.          *)
(*   IMPL    chain[n], elog[e], eprop[e], eends[e]: the structures of the  *)
(*           pinned implementation, updated exactly as its code does.      *)
(* The read views of both are defined below.  C07/C08 say: what the store  *)
(* returns equals the IDEAL view.  The trace specification accepts an      *)
(* observation that equals the IDEAL view, or - recording a known finding  *)
(* - one that equals the IMPL view where the two differ; anything else is  *)
(* a violation.  MC_Mvcc checks ImplRefinesIdeal on the design and finds   *)
(* the counterexamples that are the witnesses of the open findings.        *)
(***************************************************************************)
EXTENDS Naturals, Sequences, FiniteSets, FiniteSetsExt

CONSTANTS MaxN, MaxE, MaxV,     \* node ids 1..MaxN, relationship ids 1..MaxE, versions 1..MaxV
          Labels, Vals

NodeIds == 1..MaxN
EdgeIds == 1..MaxE
None == "none"
Absent == [live |-> FALSE, labels |-> {}, p |-> None]
EAbsent == [live |-> FALSE, p |-> None]
Free == [live |-> FALSE, labels |-> {}, p |-> "free"]
EFree == [live |-> FALSE, p |-> "free"]

VARIABLES curVer,
          hist,    \* IDEAL [NodeIds -> [1..MaxV -> NodeState \cup {Free}]]   (entries above curVer are Absent)
          ehist,   \* IDEAL [EdgeIds -> [1..MaxV -> EdgeState \cup {Free}]]
          chain,   \* IMPL  [NodeIds -> Seq([ver, labels, p])]
          eends,   \* IMPL  [EdgeIds -> BOOLEAN]   relationship slot occupied
          eprop,   \* IMPL  [EdgeIds -> Vals \cup {None}]  current properties
          elog,    \* IMPL  [EdgeIds -> Seq([ver, p])]     version log (post-images)
          starts   \* start versions of the transactions that are still active (a bag as a sequence)

mvars == <<curVer, hist, ehist, chain, eends, eprop, elog, starts>>

MInit ==
    /\ curVer = 1
    /\ hist = [n \in NodeIds |-> [v \in 1..MaxV |-> Absent]]
    /\ ehist = [e \in EdgeIds |-> [v \in 1..MaxV |-> EAbsent]]
    /\ chain = [n \in NodeIds |-> <<>>]
    /\ eends = [e \in EdgeIds |-> FALSE]
    /\ eprop = [e \in EdgeIds |-> None]
    /\ elog = [e \in EdgeIds |-> <<>>]
    /\ starts = <<>>

\* ------------------------------------------------------------------ views
\* IDEAL
I_NodeAt(n, v) == hist[n][v]
I_EdgeAt(e, v) == ehist[e][v]
I_Live(n) == hist[n][curVer].live
I_ELive(e) == ehist[e][curVer].live
I_NodeCount == Cardinality({n \in NodeIds : I_Live(n)})
I_AllNodes == [n \in NodeIds |-> IF I_Live(n) THEN 1 ELSE 0]     \* a bag: each live node exactly once

\* IMPL: newest chain entry whose version is <= v
LastLE(s, v) == LET idx == {k \in DOMAIN s : s[k].ver <= v} IN
                IF idx = {} THEN 0 ELSE Max(idx)
M_NodeAt(n, v) == LET k == LastLE(chain[n], v) IN
                  IF k = 0 THEN Absent ELSE [live |-> TRUE, labels |-> chain[n][k].labels, p |-> chain[n][k].p]
M_NodeCount == FoldSet(LAMBDA n, acc : acc + Len(chain[n]), 0, NodeIds)     \* node_count(): every version
M_AllNodes == [n \in NodeIds |-> Len(chain[n])]                              \* all_nodes(): every version
\* get_edge_at_version
M_EdgeAt(e, v) ==
    IF ~eends[e] THEN EAbsent
    ELSE LET k == LastLE(elog[e], v) IN
         IF k = 0 THEN [live |-> TRUE, p |-> eprop[e]]
         ELSE IF (\E j \in DOMAIN elog[e] : elog[e][j].ver > v) \/ v < curVer
              THEN [live |-> TRUE, p |-> elog[e][k].p]
              ELSE [live |-> TRUE, p |-> eprop[e]]

\* ------------------------------------------------------------------ helpers on the ideal history
SetNow(h, st) == [h EXCEPT ![curVer] = st]
LiveNow(n) == I_Live(n)
\* implementation: is there a version the code would write to / read at the current version?
M_Readable(n) == LastLE(chain[n], curVer) # 0
M_HasAny(n) == chain[n] # <<>>

\* ------------------------------------------------------------------ actions
\* Every action updates the IDEAL state by the definition of the operation and the IMPL state by what the
\* code does.  res_i / res_m are the outcomes (TRUE = Ok) the two would report.

CreateNode(n, ls) ==
    /\ ~LiveNow(n)
    /\ hist' = [hist EXCEPT ![n] = SetNow(@, [live |-> TRUE, labels |-> ls, p |-> None])]
    \* IMPL pushes onto whatever the slot still holds (a delete pops only the newest version)
    /\ chain' = [chain EXCEPT ![n] = Append(@, [ver |-> curVer, labels |-> ls, p |-> None])]
    /\ UNCHANGED <<curVer, ehist, eends, eprop, elog, starts>>

\* KF_C07_NodeHistory, consequence: a node deleted while it has an older version stays readable, can be
\* deleted again, and its id then sits on the free list twice - the allocator hands an id out while a live
\* node holds it.  The newcomer's version is pushed on the same chain and replaces the occupant.
KF_CreateNode_OnOccupiedId(n, ls) ==
    /\ LiveNow(n)
    /\ hist' = [hist EXCEPT ![n] = SetNow(@, [live |-> TRUE, labels |-> ls, p |-> None])]
    /\ chain' = [chain EXCEPT ![n] = Append(@, [ver |-> curVer, labels |-> ls, p |-> None])]
    /\ UNCHANGED <<curVer, ehist, eends, eprop, elog, starts>>

SetNodeProp(n, val) ==
    /\ hist' = IF LiveNow(n) THEN [hist EXCEPT ![n] = SetNow(@, [@[curVer] EXCEPT !.p = val])] ELSE hist
    /\ chain' = IF ~M_HasAny(n) THEN chain
                ELSE LET s == chain[n] lst == s[Len(s)] IN
                     IF lst.ver < curVer
                     THEN [chain EXCEPT ![n] = Append(s, [lst EXCEPT !.ver = curVer, !.p = val])]      \* copy on write
                     ELSE [chain EXCEPT ![n] = [s EXCEPT ![Len(s)].p = val]]
    /\ UNCHANGED <<curVer, ehist, eends, eprop, elog, starts>>
SetNodeProp_ResI(n) == LiveNow(n)
SetNodeProp_ResM(n) == M_HasAny(n)

\* remove_node_property, add_label_to_node, remove_label_from_node mutate the NEWEST chain entry in place,
\* whatever its version (no copy on write)
InPlace(n, f(_)) == IF ~M_HasAny(n) THEN chain
                    ELSE [chain EXCEPT ![n] = [@ EXCEPT ![Len(@)] = f(@)]]
RemoveNodeProp(n) ==
    /\ hist' = IF LiveNow(n) THEN [hist EXCEPT ![n] = SetNow(@, [@[curVer] EXCEPT !.p = None])] ELSE hist
    /\ chain' = InPlace(n, LAMBDA r : [r EXCEPT !.p = None])
    /\ UNCHANGED <<curVer, ehist, eends, eprop, elog, starts>>
AddLabel(n, lb) ==
    /\ hist' = IF LiveNow(n) THEN [hist EXCEPT ![n] = SetNow(@, [@[curVer] EXCEPT !.labels = @ \cup {lb}])] ELSE hist
    /\ chain' = InPlace(n, LAMBDA r : [r EXCEPT !.labels = @ \cup {lb}])
    /\ UNCHANGED <<curVer, ehist, eends, eprop, elog, starts>>
RemoveLabel(n, lb) ==
    /\ hist' = IF LiveNow(n) THEN [hist EXCEPT ![n] = SetNow(@, [@[curVer] EXCEPT !.labels = @ \ {lb}])] ELSE hist
    /\ chain' = InPlace(n, LAMBDA r : [r EXCEPT !.labels = @ \ {lb}])
    /\ UNCHANGED <<curVer, ehist, eends, eprop, elog, starts>>
Label_ResI(n) == LiveNow(n)
Label_ResM(n) == M_HasAny(n)

\* delete_node: IDEAL = absent from now on, history kept; IMPL = pops the newest version only
DeleteNode(n) ==
    /\ hist' = IF LiveNow(n) THEN [hist EXCEPT ![n] = SetNow(@, Absent)] ELSE hist
    /\ chain' = IF M_Readable(n) THEN [chain EXCEPT ![n] = SubSeq(@, 1, Len(@) - 1)] ELSE chain
    \* relationships of the node are deleted with it (both models; none is created on dead nodes)
    /\ UNCHANGED <<curVer, ehist, eends, eprop, elog, starts>>
DeleteNode_ResI(n) == LiveNow(n)
DeleteNode_ResM(n) == M_Readable(n)

CreateEdge(e, p0) ==
    /\ ~I_ELive(e) /\ ~eends[e]
    /\ ehist' = [ehist EXCEPT ![e] = SetNow(@, [live |-> TRUE, p |-> p0])]
    /\ eends' = [eends EXCEPT ![e] = TRUE]
    /\ eprop' = [eprop EXCEPT ![e] = p0]
    /\ elog' = [elog EXCEPT ![e] = <<>>]
    /\ UNCHANGED <<curVer, hist, chain, starts>>

SetEdgeProp(e, val) ==
    /\ ehist' = IF I_ELive(e) THEN [ehist EXCEPT ![e] = SetNow(@, [live |-> TRUE, p |-> val])] ELSE ehist
    /\ IF eends[e]
       THEN /\ eprop' = [eprop EXCEPT ![e] = val]
            /\ elog' = LET s == elog[e] IN
                       IF s # <<>> /\ s[Len(s)].ver = curVer
                       THEN [elog EXCEPT ![e] = [s EXCEPT ![Len(s)].p = val]]
                       ELSE [elog EXCEPT ![e] = Append(s, [ver |-> curVer, p |-> val])]
       ELSE UNCHANGED <<eprop, elog>>
    /\ UNCHANGED <<curVer, hist, chain, eends, starts>>
SetEdgeProp_ResI(e) == I_ELive(e)
SetEdgeProp_ResM(e) == eends[e]

DeleteEdge(e) ==
    /\ ehist' = IF I_ELive(e) THEN [ehist EXCEPT ![e] = SetNow(@, EAbsent)] ELSE ehist
    /\ IF eends[e]
       THEN eends' = [eends EXCEPT ![e] = FALSE] /\ eprop' = [eprop EXCEPT ![e] = None] /\ elog' = [elog EXCEPT ![e] = <<>>]
       ELSE UNCHANGED <<eends, eprop, elog>>
    /\ UNCHANGED <<curVer, hist, chain, starts>>
DeleteEdge_ResI(e) == I_ELive(e)
DeleteEdge_ResM(e) == eends[e]

\* a transaction commits: the only way the global version advances.  Every entity keeps its state.
Bump ==
    /\ curVer < MaxV
    /\ curVer' = curVer + 1
    /\ hist' = [n \in NodeIds |-> [hist[n] EXCEPT ![curVer + 1] = hist[n][curVer]]]
    /\ ehist' = [e \in EdgeIds |-> [ehist[e] EXCEPT ![curVer + 1] = ehist[e][curVer]]]
    /\ UNCHANGED <<chain, eends, eprop, elog, starts>>

BeginTxn == starts' = Append(starts, curVer) /\ UNCHANGED <<curVer, hist, ehist, chain, eends, eprop, elog>>
EndTxn(k) == /\ k \in DOMAIN starts
             /\ starts' = [j \in 1..Len(starts) - 1 |-> IF j < k THEN starts[j] ELSE starts[j + 1]]
             /\ UNCHANGED <<curVer, hist, ehist, chain, eends, eprop, elog>>

\* gc_versions(w): IDEAL releases the reads below w and nothing else; IMPL drains chain / log prefixes
Release(h, w, fr) == [v \in 1..MaxV |-> IF v < w /\ v < curVer THEN fr ELSE h[v]]
GcChain(s, w) == IF Len(s) <= 1 THEN s
                 ELSE LET k == LastLE(s, w) IN IF k > 1 THEN SubSeq(s, k, Len(s)) ELSE s
Gc(w) ==
    /\ w \in 0..MaxV + 1
    /\ hist' = [n \in NodeIds |-> Release(hist[n], w, Free)]
    /\ ehist' = [e \in EdgeIds |-> Release(ehist[e], w, EFree)]
    /\ chain' = [n \in NodeIds |-> GcChain(chain[n], w)]
    /\ elog' = [e \in EdgeIds |-> GcChain(elog[e], w)]
    /\ UNCHANGED <<curVer, eends, eprop, starts>>
Watermark == IF starts = <<>> THEN curVer ELSE Min({starts[k] : k \in DOMAIN starts})
GcAuto == Gc(Watermark)

\* ------------------------------------------------------------------ C07 / C08 on the design: does IMPL refine IDEAL?
Agrees(i, m) == i = Free \/ i = EFree \/ i = m
ReadsAgree ==
    /\ \A n \in NodeIds, v \in 1..curVer : Agrees(I_NodeAt(n, v), M_NodeAt(n, v))
    /\ \A e \in EdgeIds, v \in 1..curVer : Agrees(I_EdgeAt(e, v), M_EdgeAt(e, v))
CountsAgree == M_NodeCount = I_NodeCount /\ M_AllNodes = I_AllNodes
ImplRefinesIdeal == ReadsAgree /\ CountsAgree

\* C07 (ii): a read at a version older than the current one never changes afterwards (unless GC released it)
HistoryStable ==
    [][\A n \in NodeIds, v \in 1..MaxV : (v < curVer /\ hist'[n][v] # Free) => hist'[n][v] = hist[n][v]]_mvars
\* C08: GC leaves every read at or above the watermark unchanged
GcPreserves(w) == \A n \in NodeIds, v \in 1..MaxV : v >= w => hist'[n][v] = hist[n][v]

TypeOK == /\ curVer \in 1..MaxV
          /\ \A n \in NodeIds : \A k \in DOMAIN chain[n] : chain[n][k].ver \in 1..MaxV
=============================================================================
