---------------------------- MODULE RaftLog_Trace ----------------------------
(* Trace specification for C31: every recorded call on the real RaftStorage  *)
(* must be explained by the corresponding RaftLog action, and the values the *)
(* real getters returned afterwards must equal the read views of the model.  *)
EXTENDS RaftLog, TraceBase

tvars == <<log, snap, l, sid, used, failed>>

Pairs(lg) == {<<lg[k].i, lg[k].t>> : k \in DOMAIN lg}
ToSet(s) == {s[k] : k \in DOMAIN s}

ObsOK ==
    LET o == Rec[l].obs IN
    /\ Len(o.entries) = Len(log')
    /\ ToSet(o.entries) = Pairs(log')
    /\ o.snap = <<snap'.i, snap'.t>>
    /\ o.last = LET lst == LastOf(log', snap') IN <<lst.i, lst.t>>
    /\ \A i \in 1..Len(o.get) :
          o.get[i] = LET hits == SelectSeq(log', LAMBDA e : e.i = i)
                     IN IF hits = <<>> THEN 0 ELSE hits[1].t

TInit == RInit /\ TBInit

T_Reset == ResetBook /\ log' = <<>> /\ snap' = NoSnap
T_Fail == FailBook /\ log' = <<>> /\ snap' = NoSnap
T_Append == IsEv("Append") /\ AppendEntries(Ev.first, Ev.terms) /\ ObsOK /\ Same
T_Delete == IsEv("DeleteFrom") /\ DeleteFrom(Ev.i) /\ ObsOK /\ Same
T_Snapshot == IsEv("Snapshot") /\ Snapshot(Ev.i, Ev.t) /\ ObsOK /\ Same

TNext == T_Fail \/ T_Reset \/ T_Append \/ T_Delete \/ T_Snapshot
TSpec == TInit /\ [][TNext]_tvars
=============================================================================
