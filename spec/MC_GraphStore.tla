--------------------------- MODULE MC_GraphStore ---------------------------
(* Model-checking wrapper of GraphStore: allocates ids the way the             *)
(* implementation does (LIFO free lists, else next id), names entities by      *)
(* handles in creation order for the scripts, carries the history.             *)
EXTENDS GraphStore, TLC, Json

CONSTANTS MaxHist, Full, UseKF     \* UseKF: also take the KF_ deviation actions (self-test / witness search)

VARIABLES freeN, freeE, nextN, nextE,   \* allocation state (implementation-shaped)
          hN, hE,                       \* handle -> id, in creation order (history)
          hist
vars == <<node, col, ends, etype, ep, buf, frozen, labelIdx, typeIdx, bulk, freeN, freeE, nextN, nextE, hN, hE, hist>>

Init == GInit /\ freeN = <<>> /\ freeE = <<>> /\ nextN = 1 /\ nextE = 1 /\ hN = <<>> /\ hE = <<>> /\ hist = <<>>

H(r) == hist' = Append(hist, r)
AllocN == IF freeN # <<>> THEN freeN[Len(freeN)] ELSE nextN
AllocE == IF freeE # <<>> THEN freeE[Len(freeE)] ELSE nextE
TakeN == IF freeN # <<>> THEN freeN' = SubSeq(freeN, 1, Len(freeN) - 1) /\ nextN' = nextN
         ELSE freeN' = freeN /\ nextN' = nextN + 1
TakeE == IF freeE # <<>> THEN freeE' = SubSeq(freeE, 1, Len(freeE) - 1) /\ nextE' = nextE
         ELSE freeE' = freeE /\ nextE' = nextE + 1
\* the newest handle that names id i
HandleN(i) == CHOOSE h \in DOMAIN hN : hN[h] = i /\ \A g \in DOMAIN hN : hN[g] = i => g <= h
HandleE(i) == CHOOSE h \in DOMAIN hE : hE[h] = i /\ \A g \in DOMAIN hE : hE[g] = i => g <= h
KnownN == {hN[h] : h \in DOMAIN hN}
KnownE == {hE[h] : h \in DOMAIN hE}
NoAlloc == UNCHANGED <<freeN, freeE, nextN, nextE, hN, hE>>
\* ids freed by this step are pushed on the free lists (order among several: ascending)
RECURSIVE PushAll(_, _)
PushAll(s, S) == IF S = {} THEN s ELSE LET m == CHOOSE m \in S : \A k \in S : m <= k IN PushAll(Append(s, m), S \ {m})
FreedE == {e \in EdgeIds : LiveE(e) /\ ends'[e] = NoEnds}

DoCreateNode ==
    \E ls \in SUBSET Labels :
        /\ AllocN <= MaxN
        /\ CreateNode(AllocN, ls) /\ TakeN /\ hN' = Append(hN, AllocN)
        /\ UNCHANGED <<freeE, nextE, hE>>
        /\ H([op |-> "CreateNode", labels |-> ls])
DoCreateEdge ==
    \E s \in KnownN, d \in KnownN, t \in Types :
        LET ok == LiveN(s) /\ LiveN(d) IN
        /\ ok => AllocE <= MaxE
        /\ CreateEdge(AllocE, s, d, t, ok)
        /\ IF ok THEN TakeE /\ hE' = Append(hE, AllocE) ELSE UNCHANGED <<freeE, nextE, hE>>
        /\ UNCHANGED <<freeN, nextN, hN>>
        /\ H([op |-> "CreateEdge", s |-> HandleN(s), d |-> HandleN(d), t |-> t])
DoCreateEdgeStub ==
    \E s \in KnownN, d \in KnownN, t \in Types :
        /\ AllocE <= MaxE
        /\ CreateEdgeStub(AllocE, s, d, t) /\ TakeE /\ hE' = Append(hE, AllocE)
        /\ UNCHANGED <<freeN, nextN, hN>>
        /\ H([op |-> "CreateEdgeStub", s |-> HandleN(s), d |-> HandleN(d), t |-> t])
DoCreateEdgeP ==
    \E s \in KnownN, d \in KnownN, t \in Types, v \in Vals :
        LET ok == LiveN(s) /\ LiveN(d) IN
        /\ ok => AllocE <= MaxE
        /\ CreateEdgeP(AllocE, s, d, t, v, ok)
        /\ IF ok THEN TakeE /\ hE' = Append(hE, AllocE) ELSE UNCHANGED <<freeE, nextE, hE>>
        /\ UNCHANGED <<freeN, nextN, hN>>
        /\ H([op |-> "CreateEdgeP", s |-> HandleN(s), d |-> HandleN(d), t |-> t, v |-> v])
DoCreateNodeStub ==
    \E lb \in Labels :
        /\ AllocN <= MaxN
        /\ CreateNodeStub(AllocN, lb) /\ TakeN /\ hN' = Append(hN, AllocN)
        /\ UNCHANGED <<freeE, nextE, hE>>
        /\ H([op |-> "CreateNodeStub", label |-> lb])
DoSetColumnProp ==
    \E n \in KnownN, v \in Vals :
        LiveN(n) /\ SetColumnProp(n, v) /\ NoAlloc /\ H([op |-> "SetColumnProp", n |-> HandleN(n), v |-> v])
DoRemoveEdgeProp ==
    \E e \in KnownE : RemoveEdgeProp(e) /\ NoAlloc /\ H([op |-> "RemoveEdgeProp", e |-> HandleE(e)])
DoClear ==
    /\ Clear /\ freeN' = <<>> /\ freeE' = <<>> /\ nextN' = 1 /\ nextE' = 1 /\ UNCHANGED <<hN, hE>>
    /\ H([op |-> "Clear"])
DoDeleteEdge ==
    \E e \in KnownE :
        /\ \/ DeleteEdge(e, LiveE(e))
           \/ UseKF /\ KF_DeleteEdge_FrozenKept(e, LiveE(e))
        /\ freeE' = IF LiveE(e) THEN Append(freeE, e) ELSE freeE
        /\ UNCHANGED <<freeN, nextN, nextE, hN, hE>>
        /\ H([op |-> "DeleteEdge", e |-> HandleE(e)])
DoDeleteNode ==
    \E n \in KnownN :
        /\ \/ DeleteNode(n, LiveN(n))
           \/ UseKF /\ KF_DeleteNode_FrozenKept(n, LiveN(n))
        /\ freeN' = IF LiveN(n) THEN Append(freeN, n) ELSE freeN
        /\ freeE' = PushAll(freeE, FreedE)
        /\ UNCHANGED <<nextN, nextE, hN, hE>>
        /\ H([op |-> "DeleteNode", n |-> HandleN(n)])
DoCompact == Compact /\ NoAlloc /\ H([op |-> "Compact"])
DoFinish == FinishBulkLoad /\ NoAlloc /\ H([op |-> "FinishBulkLoad"])
DoSetNodeProp ==
    \E n \in KnownN, v \in Vals :
        SetNodeProp(n, v, LiveN(n)) /\ NoAlloc /\ H([op |-> "SetNodeProp", n |-> HandleN(n), v |-> v])
DoRemoveNodeProp ==
    \E n \in KnownN : RemoveNodeProp(n) /\ NoAlloc /\ H([op |-> "RemoveNodeProp", n |-> HandleN(n)])
DoAddLabel ==
    \E n \in KnownN, lb \in Labels :
        AddLabel(n, lb, LiveN(n)) /\ NoAlloc /\ H([op |-> "AddLabel", n |-> HandleN(n), label |-> lb])
DoRemoveLabel ==
    \E n \in KnownN, lb \in Labels :
        RemoveLabel(n, lb, LiveN(n)) /\ NoAlloc /\ H([op |-> "RemoveLabel", n |-> HandleN(n), label |-> lb])
DoSetEdgeProp ==
    \E e \in KnownE, v \in Vals :
        SetEdgeProp(e, v, LiveE(e)) /\ NoAlloc /\ H([op |-> "SetEdgeProp", e |-> HandleE(e), v |-> v])

Next == \/ DoCreateNode \/ DoCreateEdge \/ DoCreateEdgeStub \/ DoDeleteEdge \/ DoDeleteNode
        \/ DoCreateEdgeP \/ DoCreateNodeStub \/ DoSetColumnProp \/ DoRemoveEdgeProp \/ (Full /\ DoClear)
        \/ DoCompact \/ DoFinish \/ DoSetNodeProp \/ DoRemoveNodeProp \/ DoAddLabel \/ DoRemoveLabel \/ DoSetEdgeProp
Spec == Init /\ [][Next]_vars

\* Hub families (sequence-exhaustive, no VIEW): MaxN unlabelled nodes, then relationships between the first node and the others
\* only -- all outgoing (HubOut) or all incoming (HubIn), parallel ones included, in every order -- and, once the hub has three,
\* deletions of any of them, in every interleaving up to MaxHist steps.  Adjacency lists that are kept sorted and searched by
\* bisection only show a lost order from three entries on; the observation after every step compares every view.
DoCreateEdgeHub(out) ==
    \E x \in KnownN \ {hN[1]}, t \in Types :
        LET s == IF out THEN hN[1] ELSE x
            d == IF out THEN x ELSE hN[1] IN
        /\ LiveN(s) /\ LiveN(d) /\ AllocE <= MaxE
        /\ CreateEdge(AllocE, s, d, t, TRUE) /\ TakeE /\ hE' = Append(hE, AllocE)
        /\ UNCHANGED <<freeN, nextN, hN>>
        /\ H([op |-> "CreateEdge", s |-> HandleN(s), d |-> HandleN(d), t |-> t])
HubNext(out) ==
    \/ Len(hist) < MaxN /\ DoCreateNode
    \/ Len(hist) >= MaxN /\ DoCreateEdgeHub(out)
    \/ Len(hist) >= MaxN + 3 /\ DoDeleteEdge
SpecHubOut == Init /\ [][HubNext(TRUE)]_vars
SpecHubIn == Init /\ [][HubNext(FALSE)]_vars

View == <<node, col, ends, etype, ep, buf, frozen, labelIdx, typeIdx, bulk, freeN, freeE, nextN, nextE>>
Bound == Len(hist) <= MaxHist
Emit == PrintT(<<"SCRIPT", ToJson(hist')>>)
EmitLeaf == Len(hist') = MaxHist => PrintT(<<"SCRIPT", ToJson(hist')>>)
SimEmit == Len(hist) = MaxHist => PrintT(<<"SCRIPT", ToJson(hist)>>)
=============================================================================
