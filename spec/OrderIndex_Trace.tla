-------------------------- MODULE OrderIndex_Trace --------------------------
EXTENDS OrderIndex, TraceBase
tvars == <<ins, l, sid, used, failed>>
ToSet(s) == {s[k] : k \in DOMAIN s}
\* obs.get[v] = nodes returned by get(value v) for every value of the universe; obs.all = range(..)
ObsOK == /\ \A v \in Vals : Len(Ev.obs.get[v]) = Cardinality(Get(v)') /\ ToSet(Ev.obs.get[v]) = Get(v)'
         /\ Len(Ev.obs.all) = Cardinality(ins') /\ ToSet(Ev.obs.all) = All'
TInit == OInit /\ TBInit
T_Reset == ResetBook /\ ins' = {}
T_Fail == FailBook /\ ins' = {}
T_Insert == IsEv("Insert") /\ Insert(Ev.v, Ev.n) /\ ObsOK /\ Same
T_Remove == IsEv("Remove") /\ Remove(Ev.v, Ev.n) /\ ObsOK /\ Same
TNext == T_Fail \/ T_Reset \/ T_Insert \/ T_Remove
TSpec == TInit /\ [][TNext]_tvars
=============================================================================
