------------------------------ MODULE TraceBase ------------------------------
(* Shared plumbing of every trace specification (impl -> spec direction).    *)
(*   Rec    the recorded ndjson trace (env TRACE), one record per event       *)
(*   l      index of the next event to explain                                *)
(*   sid    id of the script (behaviour) the current events belong to         *)
(*   used   names of known-deviation actions needed so far in this script     *)
(* Acceptance: every step consumes exactly one event, so the BFS depth of a   *)
(* state is l; the POSTCONDITION prints the diameter reached and the          *)
(* orchestrator compares it with Len(Rec)+1 and reads the first unexplained   *)
(* event from it.  At each "reset" event the deviations used by the script    *)
(* just finished are printed (the orchestrator keeps the smallest set).       *)
EXTENDS Naturals, Sequences, TLC, Json, IOUtils

CONSTANT OpenKF      \* set of names of deviation actions that are open known findings

VARIABLES l, sid, used
tbvars == <<l, sid, used>>

Rec == ndJsonDeserialize(IOEnv.TRACE)

Ev == Rec[l]
IsEv(name) == l <= Len(Rec) /\ Rec[l].ev = name /\ l' = l + 1
Same == sid' = sid /\ used' = used
KF(name) == name \in OpenKF /\ sid' = sid /\ used' = used \cup {name}

TBInit == l = 1 /\ sid = "" /\ used = {}
\* a "reset" event starts the next script; it reports what the finished one needed
ResetBook == /\ IsEv("reset")
             /\ PrintT(<<"USED", sid, used>>)
             /\ sid' = Rec[l].sid
             /\ used' = {}

Post == PrintT(<<"TRACE_RESULT", TLCGet("stats").diameter, Len(Rec)>>)
=============================================================================
