------------------------------ MODULE TraceBase ------------------------------
(* Shared plumbing of every trace specification (impl -> spec direction).    *)
(*   Rec     the recorded ndjson trace (env TRACE), one record per event      *)
(*   l       index of the next event to explain                               *)
(*   sid     id of the script (behaviour) the current events belong to        *)
(*   used    names of known-deviation actions needed so far in this script    *)
(*   failed  TRUE once an event of the current script could not be explained  *)
(*           (only if the trace spec includes a T_Fail action, see below)     *)
(* Every step consumes exactly one event, so the BFS depth of a state is l.   *)
(* At each "reset" event the deviations used by the script just finished are  *)
(* printed from every non-failed state (the orchestrator keeps the smallest   *)
(* set): a script is ACCEPTED iff such a USED line exists for it.             *)
(* A trace spec may add   T_Fail == FailBook /\ <model variables reset>       *)
(* to its next-state relation: it consumes any non-reset event, remembers the *)
(* failure and skips to the next reset, so that one TLC run judges every      *)
(* script of a batch even when some are rejected (failed states of one event  *)
(* index coincide, so the search stays linear).  The furthest FAILED line of  *)
(* a script without USED line names its first unexplained event.  Without     *)
(* T_Fail, TLC stops at the first unexplained event and the POSTCONDITION     *)
(* prints the depth reached.                                                  *)
EXTENDS Naturals, Sequences, TLC, Json, IOUtils

CONSTANT OpenKF      \* set of names of deviation actions that are open known findings

VARIABLES l, sid, used, failed
tbvars == <<l, sid, used, failed>>

Rec == ndJsonDeserialize(IOEnv.TRACE)

Ev == Rec[l]
IsEv(name) == ~failed /\ l <= Len(Rec) /\ Rec[l].ev = name /\ l' = l + 1
Same == sid' = sid /\ used' = used /\ failed' = FALSE
KF(name) == name \in OpenKF /\ sid' = sid /\ used' = used \cup {name} /\ failed' = FALSE

\* several deviations (possibly none) needed by one step
KFs(S) == S \subseteq OpenKF /\ sid' = sid /\ used' = used \cup S /\ failed' = FALSE

TBInit == l = 1 /\ sid = "" /\ used = {} /\ failed = FALSE
\* a "reset" event starts the next script; it reports what the finished one needed
ResetBook == /\ l <= Len(Rec) /\ Rec[l].ev = "reset" /\ l' = l + 1
             /\ IF failed THEN TRUE ELSE PrintT(<<"USED", sid, used>>)
             /\ sid' = Rec[l].sid
             /\ used' = {}
             /\ failed' = FALSE
FailBook == /\ l <= Len(Rec) /\ Rec[l].ev # "reset" /\ l' = l + 1
            /\ IF failed THEN TRUE ELSE PrintT(<<"FAILED", sid, l>>)
            /\ failed' = TRUE /\ sid' = sid /\ used' = {}

Post == PrintT(<<"TRACE_RESULT", TLCGet("stats").diameter, Len(Rec)>>)
=============================================================================
