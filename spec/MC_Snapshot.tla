----------------------------- MODULE MC_Snapshot -----------------------------
(* C13 model-checking wrapper.  TLC enumerates every pre-existing store (<= MaxPre nodes out of   *)
(* PreU, optional relationship), every snapshot (1..MaxSnap node records out of SnapU, every set   *)
(* of relationships among them), with / without the dedup key, and every failure point (kn node    *)
(* records and kr relationship records applied before the error).  The import is run              *)
(* operationally (Snapshot!Apply, record by record, as import_tenant_inner does) and the           *)
(* post-conditions used by the trace specification are checked against it:                         *)
(*   OkMeetsPost        a complete run satisfies ImportOK                                          *)
(*   FailUnchanged      a failed import leaves the dump unchanged  (the property; the transactional*)
(*                      rollback satisfies it, the pinned tree's RollbackCreated -- Legacy = TRUE  *)
(*                      -- does not: TLC must find the counterexample)                             *)
(*   LegacyExplained    whatever RollbackCreated leaves behind is exactly characterised by         *)
(*                      KF_C13_MergedNodesKeepAdditions                                            *)
EXTENDS Snapshot, TLC, Json

CONSTANTS MaxPre, MaxSnap, Legacy, MaxHist,
          Cuts      \* FALSE: enumerate complete imports only (scenario emission for larger snapshots)
VARIABLES store, prev, last, hist
vars == <<store, prev, last, hist>>

P(ls, nm, v) == [labels |-> ls, props |-> (IF nm = "" THEN <<>> ELSE [name |-> nm]) @@ (IF v = "" THEN <<>> ELSE [v |-> v])]
PreU == {P(<<"A">>, "s:x", ""), P(<<"A">>, "s:y", "i:1"), P(<<"B">>, "s:x", "i:2")}
SnapU == {P(<<"A">>, "s:x", ""), P(<<"A">>, "s:x", "i:3"), P(<<"A", "B">>, "s:x", "i:3"), P(<<"A">>, "s:z", "i:1"), P(<<"B">>, "s:y", "")}
KeysU == {<<>>, <<"name">>}

SeqsUpTo(U, n) == UNION {[1..k -> U] : k \in 0..n}
R(a, b) == [src |-> a, dst |-> b, type |-> "R", props |-> <<>>]
\* relationship lists tried per snapshot size: none, one, a parallel pair, a loop + a back edge
RelFams(n) == IF n = 1 THEN {<<>>, <<R(1, 1)>>}
              ELSE {<<>>, <<R(1, 2)>>, <<R(1, 2), R(1, 2)>>, <<R(2, 1), R(1, 1)>>} \cup (IF n >= 3 THEN {<<R(1, 3), R(3, 2)>>} ELSE {})
\* script-level graphs: relationships refer to node positions
PreGraphs == UNION {{[nodes |-> ns, rels |-> rs] :
                       rs \in {<<>>} \cup (IF Len(ns) >= 2 THEN {<<[src |-> 1, dst |-> 2, type |-> "R", props |-> <<>>]>>} ELSE {})} :
                    ns \in SeqsUpTo(PreU, MaxPre)}
SnapGraphs == UNION {{[nodes |-> ns, rels |-> rs] : rs \in RelFams(Len(ns))} :
                     ns \in (SeqsUpTo(SnapU, MaxSnap) \ {<<>>})}

\* the store a Load leaves: ids = positions
Loaded(g) == [nodes |-> [i \in DOMAIN g.nodes |-> [id |-> i, labels |-> g.nodes[i].labels, props |-> g.nodes[i].props]],
              rels |-> [i \in DOMAIN g.rels |-> [id |-> i, src |-> g.rels[i].src, dst |-> g.rels[i].dst,
                                                 type |-> g.rels[i].type, props |-> g.rels[i].props]]]

Init == store = EmptyGraph /\ prev = EmptyGraph /\ last = [op |-> "none"] /\ hist = <<>>
H(r) == hist' = Append(hist, r)

Load(g) == /\ hist = <<>>
           /\ store' = Loaded(g) /\ prev' = store /\ last' = [op |-> "Load"]
           /\ H([op |-> "Load", nodes |-> g.nodes, rels |-> g.rels, via |-> "api"])

ImportAll(snap, keys) ==
    /\ hist # <<>>
    /\ store' = Denorm(Apply(store, snap, keys, Len(snap.nodes), Len(snap.rels)))
    /\ prev' = store /\ last' = [op |-> "ok", snap |-> snap, keys |-> keys]
    /\ H([op |-> "Import", snap |-> snap, keys |-> keys])

ImportCut(snap, keys, kn, kr) ==
    /\ hist # <<>>
    /\ kr > 0 => kn = Len(snap.nodes)
    /\ store' = IF Legacy THEN Denorm(RollbackCreated(Apply(store, snap, keys, kn, kr))) ELSE store
    /\ prev' = store /\ last' = [op |-> "err", snap |-> snap, keys |-> keys]
    /\ H([op |-> "Import", snap |-> snap, keys |-> keys])

Next ==
  /\ Len(hist) < MaxHist
  /\
    \/ \E g \in PreGraphs : Load(g)
    \/ \E s \in SnapGraphs, k \in KeysU : ImportAll(s, k)
    \/ \E s \in SnapGraphs, k \in KeysU, kn \in 0..MaxSnap, kr \in 0..2 :
          Cuts /\ kn <= Len(s.nodes) /\ kr <= Len(s.rels) /\ ~(kn = Len(s.nodes) /\ kr = Len(s.rels)) /\ ImportCut(s, k, kn, kr)

Spec == Init /\ [][Next]_vars
View == <<store, prev, last>>
Bound == Len(hist) <= MaxHist

OkMeetsPost == last.op = "ok" => ImportOK(prev, last.snap, last.keys, store)
FailUnchanged == last.op = "err" => ImportFail(prev, store)
LegacyExplained == (last.op = "err" /\ ~ImportFail(prev, store)) => KF_C13_MergedNodesKeepAdditions(prev, last.snap, last.keys, store)

\* one script per (pre-store, snapshot, keys): emitted on the complete-import transition
Emit == (last'.op = "ok" /\ Len(hist') = 2) => PrintT(<<"SCRIPT", ToJson(hist')>>)
=============================================================================
