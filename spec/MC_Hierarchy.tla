---------------------------- MODULE MC_Hierarchy ----------------------------
(* Model-checking wrapper of Hierarchy.                                       *)
(* Init enumerates EVERY acyclic relation over Nodes (all labelled DAGs, the  *)
(* covering relations and their non-reduced supersets) x a set of initial     *)
(* measure assignments; Next draws index builds (one per encoding the harness *)
(* can force), measure updates, covering-edge writes and rebuilds.  The       *)
(* history starts with the "Graph" record describing the initial graph.       *)
(* Queries are not in the scripts: after every step the harness asks the      *)
(* index EVERYTHING (all pairs subsumes / LCA, all descendant sets, all       *)
(* roll-ups) and the trace specification compares with IxSub .. IxRollup.     *)
EXTENDS Hierarchy, Json

CONSTANTS MVals,       \* measure values (halves) an update may write, NoM included
          Inits,       \* initial measure assignments: set of sequences over Nodes = 1..N
          Encs,        \* "auto", "nested-set", "near-tree", "chain"
          MaxUpd,      \* measure updates per script
          MaxEdge,     \* covering-edge writes per script (0 at the OehIndex level)
          Legacy,      \* self-test: remove does not reach the index
          Ordered      \* TRUE: only the DAGs whose edges go from a larger to a smaller number (every DAG up to
                       \* renaming of its nodes, 2^(n(n-1)/2) of them) instead of every labelled DAG

VARIABLES hist, nupd, nedge
vars == <<cover, meas, mlab, ixs, ixc, ixm, ixn, hist, nupd, nedge>>

\* initial measure assignments a .cfg cannot spell (halves; NoM = no measure)
Inits2 == {<<2, 6>>}
Inits3 == {<<2, NoM, 6>>, <<NoM, 3, 2>>}
Inits3a == {<<2, NoM, 6>>}
Inits4 == {<<2, NoM, 6, 3>>}
Inits5 == {<<2, NoM, 6, 3, -4>>}
MV3 == {NoM, 4, 5}
MV2 == {NoM, 5}
MV4 == {NoM, 4, 5, -2}

N == Cardinality(Nodes)
Pairs == {e \in Nodes \X Nodes : e[1] # e[2]}
DAGs == IF Ordered THEN SUBSET {e \in Pairs : e[1] > e[2]} ELSE {c \in SUBSET Pairs : Acyclic(c)}
IsTree(c) == \A n \in Nodes : Cardinality({e \in c : e[1] = n}) <= 1

RECURSIVE SetSeq(_)
SetSeq(S) == IF S = {} THEN <<>> ELSE LET x == CHOOSE x \in S : TRUE IN <<x>> \o SetSeq(S \ {x})
EdgeList(c) == LET s == SetSeq(c) IN [i \in DOMAIN s |-> <<s[i][1], s[i][2]>>]

Init ==
    /\ \E c \in DAGs, m \in Inits :
         /\ HInit(c, m)
         /\ hist = <<[op |-> "Graph", n |-> N, cover |-> EdgeList(c), meas |-> m]>>
    /\ nupd = 0 /\ nedge = 0

H(r) == hist' = Append(hist, r)

Next ==
    \/ /\ ixs = "none"
       /\ \E enc \in Encs :
            /\ enc = "nested-set" => IsTree(cover)
            /\ Build(IF MaxEdge = 0 THEN Nodes ELSE InPoset(cover))
            /\ H([op |-> "Build", enc |-> enc])
       /\ UNCHANGED <<nupd, nedge>>
    \/ /\ ixs # "none" /\ nupd < MaxUpd
       /\ \E n \in Nodes, v \in MVals :
            /\ IF Legacy /\ v = NoM /\ ixs = "fresh"
               THEN LegacyRemoveNotPropagated(n)
               ELSE UpdateMeasure(n, v, n \in ixn)
            /\ H([op |-> "UpdateMeasure", node |-> n, v |-> v])
       /\ nupd' = nupd + 1 /\ UNCHANGED nedge
    \/ /\ ixs # "none" /\ nedge < MaxEdge
       /\ \E e \in Pairs, add \in BOOLEAN :
            /\ add => e \notin cover /\ Acyclic(cover \cup {e})
            /\ ~add => e \in cover
            /\ WriteCoverEdge(add, e)
            /\ H([op |-> IF add THEN "AddEdge" ELSE "DelEdge", c |-> e[1], p |-> e[2]])
       /\ nedge' = nedge + 1 /\ UNCHANGED nupd
    \/ /\ ixs = "stale"
       /\ Build(InPoset(cover)) /\ H([op |-> "Rebuild"])
       /\ UNCHANGED <<nupd, nedge>>

Spec == Init /\ [][Next]_vars

\* the design-level statement of C28: a usable index answers for the graph as it is NOW
AnswersMatchGraph ==
    Usable => LET cl == Closure(cover) IN
              /\ \A x, y \in ixn : IxSub(x, y) = Sub(cl, x, y)
              /\ \A y \in ixn : IxDesc(y) = Desc(cl, y)
              /\ \A x, y \in ixn : IxLCA(x, y) = LCA(cl, x, y)
              /\ \A y \in ixn, op \in Ops : IxRollup(y, op) = Rollup(cl, Eff(meas, mlab), y, op)

\* no VIEW: every operation sequence is emitted (the recipe keeps the maximal ones: a script's
\* prefixes are replayed anyway)
Emit == PrintT(<<"SCRIPT", ToJson(hist')>>)
=============================================================================
