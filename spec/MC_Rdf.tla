------------------------------- MODULE MC_Rdf -------------------------------
(* Bounded universes of RDF graphs for C36 and script emission.               *)
(* A case is a SEQUENCE of distinct triples (the order a caller hands them to *)
(* the serializer matters to the Turtle / RDF/XML formatters, which group     *)
(* consecutive statements by subject) and a format.  TLC enumerates every     *)
(* case of the configured universe, runs the reference design on it           *)
(* (Build -> Serialize -> Parse, every blank node relabelling the reader may  *)
(* choose) and checks RefMeetsContract; every case is emitted as a script.    *)
EXTENDS Rdf, TLC, Json

CONSTANTS Universe,     \* "lit" | "iri" | "pair"
          LitClasses, LitMaxLen, LitQuals,     \* literal strings / qualifiers
          IriClasses, IriMaxLen,               \* IRI strings (universe "iri")
          Fmts,
          Legacy        \* "" | "ser" | "merge" | "ws"  (self-test: which Legacy step replaces the reference one)
VARIABLE hist
vars == <<stage, graph, fmt, doc, res, out, hist>>

Strs(C, n) == UNION {[1..k -> C] : k \in 0..n}
A == <<"pl">>

\* universe "lit": one statement, every literal over the class alphabet in object position
LitCases == {<<Tr(Iri(A), Iri(A), Lit(v, q))>> : v \in Strs(LitClasses, LitMaxLen), q \in LitQuals}

\* universe "iri": one statement; IRI strings of <= 1 class in all three positions at once (blank subject too), and
\* every IRI string of <= IriMaxLen classes in each single position (the other positions plain)
IriStrs(n) == Strs(IriClasses, n)
IriShort == IF IriMaxLen < 1 THEN IriStrs(IriMaxLen) ELSE IriStrs(1)
IriCases == {<<Tr(s, Iri(p), Iri(o))>> : s \in {Iri(v) : v \in IriShort} \cup {Bn("b1")}, p \in IriShort, o \in IriShort}
            \cup {<<Tr(Iri(v), Iri(A), Iri(A))>> : v \in IriStrs(IriMaxLen)}
            \cup {<<Tr(Iri(A), Iri(v), Iri(A))>> : v \in IriStrs(IriMaxLen)}
            \cup {<<Tr(Iri(A), Iri(A), Iri(v))>> : v \in IriStrs(IriMaxLen)}

\* universe "pair": the empty graph, and every sequence of 1 or 2 distinct statements over a small term universe that
\* exercises blank node structure (shared / distinct / subject+object), statement grouping and mixed literal kinds
PairS == {Iri(A), Iri(<<"as">>), Bn("b1"), Bn("b2")}
PairP == {Iri(<<"pl">>)} \cup {Iri(<<c, "pl">>) : c \in IriClasses}
PairO == {Iri(A), Bn("b1"), Bn("b2")} \cup {Lit(v, q) : v \in Strs(LitClasses, 1), q \in LitQuals}
PairTriples == {Tr(s, p, o) : s \in PairS, p \in PairP, o \in PairO}
PairCases == {<<>>} \cup {<<t>> : t \in PairTriples}
             \cup {<<pr[1], pr[2]>> : pr \in {x \in PairTriples \X PairTriples : x[1] # x[2]}}

Cases == CASE Universe = "lit" -> LitCases [] Universe = "iri" -> IriCases [] Universe = "pair" -> PairCases

Init == RInit /\ hist = <<>>
Next ==
    \/ \E ts \in Cases, f \in Fmts : Build(ToSet(ts), f) /\ hist' = <<[op |-> "RoundTrip", fmt |-> f, ts |-> ts]>>
    \/ (IF Legacy = "ser" THEN LegacySerialize ELSE Serialize) /\ UNCHANGED hist
    \/ (IF Legacy \in {"merge", "ws"} THEN LegacyParse(Legacy) ELSE Parse) /\ UNCHANGED hist
Spec == Init /\ [][Next]_vars

\* one script per case
Emit == stage = "new" => PrintT(<<"SCRIPT", ToJson(hist')>>)
NCases == PrintT(<<"NCASES", Cardinality(Cases) * Cardinality(Fmts)>>)
=============================================================================
