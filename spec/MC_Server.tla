------------------------------ MODULE MC_Server ------------------------------
(* Model-checking wrapper of Server for C19: every sequence of write kinds x   *)
(* front end (up to MaxHist steps, at most MaxRestarts restarts); a script is  *)
(* printed whenever a behaviour reaches a Restart.  Node and relationship ids  *)
(* are allocated like GraphStore does (one past the highest live id here; the  *)
(* specification allows any free id and the trace binds the real one).         *)
EXTENDS Server, Json

CONSTANTS MaxHist, MaxRestarts,
          Legacy,          \* TRUE: the pinned tree's persistence (self-test); FALSE: ideal
          Rets             \* which RETURN variants to draw

VARIABLE hist
vars == <<nodes, rels, dnodes, drels, hist>>

Max(S) == IF S = {} THEN 0 ELSE CHOOSE x \in S : \A y \in S : y <= x
NextN == Max(DOMAIN nodes \cup DOMAIN dnodes) + 1
NextE == Max(DOMAIN rels \cup DOMAIN drels) + 1

P == IF Legacy THEN "legacy" ELSE "ideal"

\* script discipline: a key is created at most once per script, so a statement never addresses two nodes
\* (on the pinned tree a deleted node can come back at a restart next to its re-created namesake)
UsedK == {hist[i].k : i \in {j \in DOMAIN hist : hist[j].op = "CreateNode"}}
Restarts == Cardinality({i \in DOMAIN hist : hist[i].op = "Restart"})
Log(rec) == hist' = Append(hist, rec)

Init == SInit /\ hist = <<>>

Write(r) ==
    \/ \E k \in Keys, ret \in Rets :
         /\ k \notin UsedK
         /\ CreateNode(r, k, NextN, ret, P)
         /\ Log([op |-> "CreateNode", r |-> r, k |-> k, ret |-> ret, q |-> QCreateNode(k, ret)])
    \/ \E k \in Keys, v \in Vals, ret \in Rets :
         /\ Match(k) # {} /\ SetProp(r, k, v, ret, P)
         /\ Log([op |-> "SetProp", r |-> r, k |-> k, v |-> v, ret |-> ret, q |-> QSetProp(k, v, ret)])
    \/ \E k \in Keys, ret \in Rets :
         /\ Match(k) # {} /\ RemoveProp(r, k, ret, P)
         /\ Log([op |-> "RemoveProp", r |-> r, k |-> k, ret |-> ret, q |-> QRemoveProp(k, ret)])
    \/ \E k \in Keys, ret \in Rets :
         /\ Match(k) # {} /\ AddLabel(r, k, ret, P)
         /\ Log([op |-> "AddLabel", r |-> r, k |-> k, ret |-> ret, q |-> QAddLabel(k, ret)])
    \/ \E k \in Keys, ret \in Rets :
         /\ Match(k) # {} /\ RemoveLabel(r, k, ret, P)
         /\ Log([op |-> "RemoveLabel", r |-> r, k |-> k, ret |-> ret, q |-> QRemoveLabel(k, ret)])
    \/ \E k \in Keys :
         /\ Match(k) # {}
         /\ \/ DeleteNode(r, k, P)
            \/ RelsOf(Match(k)) # {} /\ Refused
         /\ Log([op |-> "DeleteNode", r |-> r, k |-> k, q |-> QDeleteNode(k)])
    \/ \E k \in Keys :
         /\ Match(k) # {} /\ DetachDelete(r, k, P)
         /\ Log([op |-> "DetachDelete", r |-> r, k |-> k, q |-> QDetachDelete(k)])
    \/ \E a \in Keys, b \in Keys, ret \in Rets :
         /\ a # b /\ RelsBetween(a, b) = {} /\ CreateRel(r, a, b, NextE, ret, P)
         /\ Log([op |-> "CreateRel", r |-> r, a |-> a, b |-> b, ret |-> ret, q |-> QCreateRel(a, b, ret)])
    \/ \E a \in Keys, b \in Keys :
         /\ a # b /\ RelsBetween(a, b) = {} /\ CreateRelAll(r, a, b, NextE, P)
         /\ Log([op |-> "CreateRelAll", r |-> r, a |-> a, b |-> b, q |-> QCreateRelAll(a, b)])
    \/ \E a \in Keys, b \in Keys, v \in Vals, ret \in Rets :
         /\ RelsBetween(a, b) # {} /\ SetRelProp(r, a, b, v, ret, P)
         /\ Log([op |-> "SetRelProp", r |-> r, a |-> a, b |-> b, v |-> v, ret |-> ret, q |-> QSetRelProp(a, b, v, ret)])
    \/ \E a \in Keys, b \in Keys :
         /\ RelsBetween(a, b) # {} /\ DeleteRel(r, a, b, P)
         /\ Log([op |-> "DeleteRel", r |-> r, a |-> a, b |-> b, q |-> QDeleteRel(a, b)])

Next ==
    \/ \E r \in Route : Write(r)
    \/ /\ hist # <<>> /\ hist[Len(hist)].op # "Restart" /\ Restarts < MaxRestarts
       /\ Restart /\ Log([op |-> "Restart"])

Spec == Init /\ [][Next]_vars
\* one script per (state, last step): the last step is the write the Restart puts to the test
View == <<nodes, rels, dnodes, drels, IF hist = <<>> THEN <<>> ELSE hist[Len(hist)], Restarts>>
Bound == Len(hist) <= MaxHist
AtRestart == hist' # hist /\ hist'[Len(hist')].op = "Restart"
Emit == AtRestart => PrintT(<<"SCRIPT", ToJson(hist')>>)
SimEmit == Len(hist) = MaxHist => PrintT(<<"SCRIPT", ToJson(hist)>>)
=============================================================================
