------------------------- MODULE CypherWrite_Trace -------------------------
(* C04 / C05 / C11 trace specification.  One event per statement executed by    *)
(* the real engine (QueryEngine::execute_mut):                                   *)
(*   st    the statement AST the harness rendered to Cypher text                 *)
(*   res   "ok" | "err" | "panic"          rows  the returned rows (sorted)       *)
(*   obs   the FULL graph dumped through the GraphStore API after the statement  *)
(*         (every live node: labels, typed properties read from the row map and  *)
(*         from the column store, adjacency lists; every live relationship:      *)
(*         endpoints, type, properties), the constraint registry, and - when the *)
(*         recipe asks for them - index probes through the engine                *)
(* The event must be a step of CypherWrite!Stmt / CreateConstraint with the      *)
(* dumped graph as the resulting graph (up to the ids of the entities the        *)
(* statement created), the reported outcome as the specified outcome and the     *)
(* returned rows as the specified bag of rows.                                   *)
EXTENDS CypherWrite, TraceBase

CONSTANT CheckProbes     \* TRUE: obs.probes is present and must agree with the model graph

tvars == <<G, l, sid, used, failed>>

\* ------------------------------------------------------------------ the dumped graph
NodeAt(o, i) == o.nodes[CHOOSE j \in DOMAIN o.nodes : o.nodes[j].id = i]
RelAt(o, e) == o.rels[CHOOSE j \in DOMAIN o.rels : o.rels[j].id = e]
PropsOf(rec) == [key \in Keys |-> rec[key]]
GraphOf(o) ==
    [nodes |-> [i \in NodeIds |->
                  IF \E j \in DOMAIN o.nodes : o.nodes[j].id = i
                  THEN [live |-> TRUE, labels |-> ToSet(NodeAt(o, i).labels), props |-> PropsOf(NodeAt(o, i).props)]
                  ELSE DeadNode],
     rels |-> [e \in EdgeIds |->
                  IF \E j \in DOMAIN o.rels : o.rels[j].id = e
                  THEN LET x == RelAt(o, e) IN
                       [live |-> TRUE, src |-> x.s, dst |-> x.d, type |-> x.t, props |-> PropsOf(x.props)]
                  ELSE DeadRel],
     cons |-> ToSet(o.constraints)]

IsSetSeq(s, S) == Len(s) = Cardinality(S) /\ ToSet(s) = S

\* the dump itself is coherent: ids inside the modelled universe and distinct, the two property stores agree,
\* no property outside the modelled keys, adjacency lists = the relationships' endpoints
DumpSane(o) ==
    LET g == GraphOf(o) IN
    /\ \A j \in DOMAIN o.nodes : o.nodes[j].id \in NodeIds
    /\ \A j, k \in DOMAIN o.nodes : j # k => o.nodes[j].id # o.nodes[k].id
    /\ \A j \in DOMAIN o.rels : o.rels[j].id \in EdgeIds
    /\ \A j, k \in DOMAIN o.rels : j # k => o.rels[j].id # o.rels[k].id
    /\ \A j \in DOMAIN o.nodes :
          LET x == o.nodes[j] IN
          /\ x.has
          /\ PropsOf(x.full) = PropsOf(x.props)
          /\ x.extra = <<>>
          /\ ToSet(x.labels) \subseteq Labels
          /\ IsSetSeq(x.out, {e \in LiveE(g) : g.rels[e].src = x.id})
          /\ IsSetSeq(x["in"], {e \in LiveE(g) : g.rels[e].dst = x.id})

\* probes = what the model graph says.  label:L the label index API, scan:L MATCH (n:L) through the engine,
\* eq:L:v / where:L:v property lookups through the engine (index-backed once an index or constraint on (L,k)
\* exists), cons:L:v the node registered in the unique-constraint index as the holder of v (present only for
\* constrained labels).  The recipe decides which groups the harness records.
IdRows(S) == {<<Tok(i)>> : i \in S}
Has(o, name) == name \in DOMAIN o.probes
ProbesOK(o, g) ==
    \A lb \in Labels :
        LET members == {i \in LiveN(g) : lb \in g.nodes[i].labels} IN
        /\ IsSetSeq(o.probes["label:" \o lb], members)
        /\ IsSetSeq(o.probes["scan:" \o lb], IdRows(members))
        /\ ConsName(lb, "k") \in g.cons => \A v \in ToSet(o.universe) : Has(o, "cons:" \o lb \o ":" \o v)
        /\ \A v \in ToSet(o.universe) :
              LET holders == {i \in members : g.nodes[i].props["k"] = v} IN
              /\ Has(o, "eq:" \o lb \o ":" \o v) => IsSetSeq(o.probes["eq:" \o lb \o ":" \o v], IdRows(holders))
              /\ Has(o, "where:" \o lb \o ":" \o v) => IsSetSeq(o.probes["where:" \o lb \o ":" \o v], IdRows(holders))
              /\ Has(o, "cons:" \o lb \o ":" \o v) => IsSetSeq(o.probes["cons:" \o lb \o ":" \o v], holders)

\* returned rows, as bags
Count(s, x) == Cardinality({j \in DOMAIN s : s[j] = x})
BagEq(s, t) == Len(s) = Len(t) /\ \A j \in DOMAIN s : Count(s, s[j]) = Count(t, s[j])

Refused == Ev.res = "err"
Answered == Ev.res \in {"ok", "err"}

T_Stmt ==
    /\ IsEv("Stmt")
    /\ Answered
    /\ DumpSane(Ev.obs)
    /\ LET st == Ev.st
           Gn == GraphOf(Ev.obs)
       IN /\ IF st.kind = "constraint"
             THEN CreateConstraint(st, Refused, Gn) /\ Same
             ELSE \E rows \in RowTables(G, st.src) :
                     LET r == Exec(G, st, rows) IN
                     \/ /\ StmtR(r, Refused, Gn)
                        /\ ~Refused => BagEq(r.rows, Ev.rows)
                        /\ Same
                     \/ /\ KF_C05_RowByRowApplyR(r, Refused, Gn)
                        /\ KF("KF_C05_RowByRowApply")
                     \/ /\ KF_C05_SetItemsAppliedR(r, Refused, Gn)
                        /\ KFs({"KF_C05_SetItemsApplied"} \cup (IF r.at > 1 THEN {"KF_C05_RowByRowApply"} ELSE {}))
          /\ CheckProbes => ProbesOK(Ev.obs, Gn)

TInit == GInit /\ TBInit
T_Reset == ResetBook /\ G' = EmptyGraph
T_Fail == FailBook /\ G' = EmptyGraph

TNext == T_Fail \/ T_Reset \/ T_Stmt
TSpec == TInit /\ [][TNext]_tvars

\* the properties themselves, on every state of every trace that needed no deviation
IdealHolds == used = {} => NoDuplicate(G) /\ NoDangling(G)
=============================================================================
