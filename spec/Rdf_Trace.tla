------------------------------ MODULE Rdf_Trace ------------------------------
(* C36 trace specification.  One event = one real round trip                  *)
(*   RdfParser::parse(RdfSerializer::serialize(triples, f), f)                *)
(* on a case TLC generated.  The event carries the case (ts, fmt), the stage  *)
(* that ended the round trip (res) and the parsed graph abstracted back to    *)
(* character classes (out).  The event is explained iff the Contract holds    *)
(* (ideal), or the outcome is exactly what a set D of OPEN known deviations   *)
(* predicts for this case (Explained); the orchestrator keeps the smallest D. *)
EXTENDS Rdf, TraceBase

tvars == <<stage, graph, fmt, doc, res, out, l, sid, used, failed>>

Reset == stage' = "new" /\ graph' = {} /\ fmt' = "nt" /\ doc' = {} /\ res' = "" /\ out' = {}
TInit == RInit /\ TBInit
T_Reset == ResetBook /\ Reset
T_Fail == FailBook /\ Reset

\* the whole pipeline Build -> Serialize -> Parse happened inside the harness step: bind its observable result
T_RoundTrip ==
    /\ IsEv("RoundTrip")
    /\ stage' = "done" /\ graph' = ToSet(Ev.ts) /\ fmt' = Ev.fmt /\ doc' = {}
    /\ res' = Ev.res /\ out' = ToSet(Ev.out)
    /\ \E D \in SUBSET OpenKF :
          /\ Explained(ToSet(Ev.ts), Ev.fmt, Ev.res, ToSet(Ev.out), D)
          /\ KFs(D)

TNext == T_Fail \/ T_Reset \/ T_RoundTrip
TSpec == TInit /\ [][TNext]_tvars
=============================================================================
