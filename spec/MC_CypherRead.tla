--------------------------- MODULE MC_CypherRead ---------------------------
(* GEN for C01 / C35 / C02: TLC enumerates (graph history, query) pairs.       *)
(* Graph-building actions (AddNode / AddRel, and for C02 histories the         *)
(* mutators and the physical steps) are followed by one Ask(q) with q drawn    *)
(* from the query family selected by the constant Family; every Ask transition *)
(* prints the script  <<graph steps..., [op |-> "Query", q |-> AST]>>.         *)
(* Design-level invariants (laws of the reference semantics itself) are        *)
(* checked on every (G, q) reached.                                            *)
EXTENDS CypherRead, Json

CONSTANTS MaxNodes, MaxRels,
          LabelSets,        \* the label sets a node may carry, e.g. {{}, {"A"}, {"A","B"}}
          PSet, QSet, RSet, \* names of the value sets of node p, node q, relationship p (see ValSet)
          Types,            \* relationship types
          Family,           \* name of the query family
          Canon,            \* TRUE: nodes / relationships are added in non-decreasing order (symmetry cut)
          Hist,             \* TRUE: C02 histories (mutators + physical steps)
          MaxHist,
          AskAt,            \* the query is asked once the history has at least this many steps
          Tier,             \* "single": bounds / family from the constants above; "quick" / "thorough": the tables below
          Sim,              \* TRUE for -simulate: one random query of the family per walk, script printed by the End step
          Dev               \* deviations enabled in the design-level laws (self-test)

VARIABLES G, q, hist, fc          \* fc: the family configuration this behaviour explores (fixed at Init)
vars == <<G, q, hist, fc>>
NoQ == [parts |-> <<>>, all |-> FALSE]

ValSet(name) ==
    CASE name = "none" -> {VNull}
      [] name = "one" -> {VNull, VInt(1)}
      [] name = "two" -> {VInt(1), VInt(2)}
      [] name = "num" -> {VNull, VInt(1), VInt(2), VFlt(4)}
      [] name = "mixed" -> {VNull, VInt(1), VInt(2), VFlt(4), VStr("a"), VBool(TRUE)}
      [] name = "bool" -> {VNull, VBool(TRUE), VBool(FALSE), VInt(1)}
      [] name = "c02" -> {VNull, VInt(1), VInt(2), VFlt(4), VStr("a")}
      [] name = "c02b" -> {VNull, VInt(2), VFlt(4), VBool(TRUE)}
      [] name = "num2" -> {VInt(2), VFlt(4)}
LabelOrder == <<"A", "B">>
LabSeq(S) == SelectSeq(LabelOrder, LAMBDA x : x \in S)

\* ------------------------------------------------------------------ AST constructors
NoX == [e |-> "none"]
Lit(v) == [e |-> "lit", v |-> v]
Prop(x, key) == [e |-> "prop", x |-> x, key |-> key]
Var(x) == [e |-> "var", x |-> x]
Cmp(op, a, b) == [e |-> "cmp", op |-> op, a |-> a, b |-> b]
And(a, b) == [e |-> "and", a |-> a, b |-> b]
Or(a, b) == [e |-> "or", a |-> a, b |-> b]
Xor(a, b) == [e |-> "xor", a |-> a, b |-> b]
Not(a) == [e |-> "not", a |-> a]
IsNullX(a) == [e |-> "isnull", a |-> a]
NotNullX(a) == [e |-> "notnull", a |-> a]
InX(a, b) == [e |-> "in", a |-> a, b |-> b]
ListX(items) == [e |-> "list", items |-> items]
CStar == [e |-> "cstar"]
Agg(f, a, d) == [e |-> "agg", f |-> f, a |-> a, d |-> d]
KV(key, v) == [key |-> key, v |-> Lit(v)]
NP(x, labels, props) == [x |-> x, labels |-> labels, props |-> props]
RP(x, types, dir, props) == [x |-> x, types |-> types, dir |-> dir, props |-> props, vl |-> FALSE, lo |-> 1, hi |-> 1]
VL(x, types, dir, lo, hi) == [x |-> x, types |-> types, dir |-> dir, props |-> <<>>, vl |-> TRUE, lo |-> lo, hi |-> hi]
Path0(n) == [sp |-> "none", pv |-> "", start |-> n, segs |-> <<>>]
Path1(a, r, b) == [sp |-> "none", pv |-> "", start |-> a, segs |-> <<[rel |-> r, node |-> b]>>]
Path2(a, r, b, r2, c) == [sp |-> "none", pv |-> "", start |-> a, segs |-> <<[rel |-> r, node |-> b], [rel |-> r2, node |-> c]>>]
Match(paths, w) == [c |-> "match", opt |-> FALSE, paths |-> paths, where |-> w]
OptMatch(paths, w) == [c |-> "match", opt |-> TRUE, paths |-> paths, where |-> w]
Unwind(list, as) == [c |-> "unwind", list |-> list, as |-> as]
Item(e, as) == [e |-> e, as |-> as]
Ret(items) == [c |-> "return", distinct |-> FALSE, items |-> items, where |-> NoX, order |-> <<>>, skip |-> -1, limit |-> -1]
With(items, w) == [c |-> "with", distinct |-> FALSE, items |-> items, where |-> w, order |-> <<>>, skip |-> -1, limit |-> -1]
Ord(e, asc) == [e |-> e, asc |-> asc]
Q1(clauses) == [parts |-> <<[clauses |-> clauses]>>, all |-> FALSE]
QU(c1, c2, all) == [parts |-> <<[clauses |-> c1], [clauses |-> c2]>>, all |-> all]

\* ------------------------------------------------------------------ query families
AllLabelSeqs == {<<>>, <<"A">>, <<"B">>, <<"A", "B">>}
Lits == {VInt(1), VInt(2), VFlt(4), VStr("a"), VBool(TRUE), VNull}
np == Prop("n", "p")
nq == Prop("n", "q")
RetN == Ret(<<Item(Var("n"), "")>>)
RetNP == Ret(<<Item(Var("n"), ""), Item(np, "")>>)

\* stage 1: single node scan: labels, inline properties, WHERE (three-valued logic), RETURN
Preds1 ==
    {Cmp("=", np, Lit(v)) : v \in Lits}
    \cup {Cmp(op, np, Lit(VInt(2))) : op \in {"<>", "<", "<=", ">", ">="}}
    \cup {Cmp("<", np, Lit(VStr("a"))), Cmp(">", Lit(VFlt(4)), np), Cmp("<=", Lit(VBool(TRUE)), np)}
    \cup {IsNullX(np), NotNullX(np), Not(Cmp("=", np, Lit(VInt(2)))), Not(Cmp("<", np, Lit(VInt(2)))), Not(IsNullX(np))}
    \cup {np, Not(np),
          InX(np, ListX(<<Lit(VInt(1)), Lit(VFlt(4))>>)), InX(np, ListX(<<Lit(VInt(1)), Lit(VNull)>>)), InX(np, ListX(<<>>)),
          Not(InX(np, ListX(<<Lit(VInt(2)), Lit(VStr("a"))>>))),
          Lit(VBool(TRUE)), Lit(VBool(FALSE)), Lit(VNull), Cmp("=", Lit(VInt(2)), Lit(VFlt(4))),
          Or(Cmp("=", np, Lit(VInt(1))), Cmp("=", np, Lit(VStr("a")))), And(Cmp(">=", np, Lit(VInt(1))), Cmp("<", np, Lit(VFlt(4)))),
          And(Cmp("<", np, Lit(VInt(2))), Lit(VNull)), Or(Cmp("<", np, Lit(VInt(2))), Lit(VNull)),
          \* a literal (parameter slot) as the LEFT operand of a connective, also under NOT where null and false differ
          And(Lit(VNull), Cmp("<", np, Lit(VInt(2)))), Not(And(Lit(VNull), Cmp("<", np, Lit(VInt(2))))),
          Not(Or(Lit(VNull), Cmp("<", np, Lit(VInt(2))))), Not(And(Lit(VBool(TRUE)), Cmp("<", np, Lit(VInt(2))))),
          Or(Lit(VBool(FALSE)), Cmp("=", np, Lit(VInt(1))))}
Preds2 ==
    {Cmp("=", np, nq), Cmp("<", np, nq), Cmp("<>", np, nq),
     And(Cmp("=", np, Lit(VInt(2))), Cmp("=", nq, Lit(VInt(1)))), Or(Cmp("=", np, Lit(VInt(2))), Cmp("=", nq, Lit(VInt(1)))),
     Or(Cmp("<", np, Lit(VInt(2))), IsNullX(nq)), And(Not(Cmp("=", np, Lit(VInt(1)))), NotNullX(nq)),
     Xor(Cmp("=", np, Lit(VInt(2))), Cmp("=", nq, Lit(VInt(1)))), Not(Or(Cmp("=", np, nq), IsNullX(nq))),
     And(Cmp("=", np, Lit(VInt(2))), Cmp("<", nq, Lit(VStr("a")))), Or(IsNullX(np), Cmp(">", nq, np))}
FamScanL ==
    {Q1(<<Match(<<Path0(NP("n", ls, <<>>))>>, NoX), RetN>>) : ls \in AllLabelSeqs}
    \cup {Q1(<<Match(<<Path0(NP("n", ls, <<KV("p", VInt(1))>>))>>, NoX), RetN>>) : ls \in AllLabelSeqs}
    \cup {Q1(<<Match(<<Path0(NP("n", ls, <<>>))>>, Cmp("=", np, Lit(VInt(1)))), RetNP>>) : ls \in AllLabelSeqs}
    \cup {Q1(<<Match(<<Path0(NP("n", ls, <<>>))>>, NoX), Ret(<<Item(Agg("count", Var("n"), FALSE), "c")>>)>>) : ls \in AllLabelSeqs}
    \cup {Q1(<<Match(<<Path0(NP("n", ls, <<>>))>>, NoX), Ret(<<Item(CStar, "c")>>)>>) : ls \in AllLabelSeqs}
FamScanW1 == {Q1(<<Match(<<Path0(NP("n", <<"A">>, <<>>))>>, w), RetNP>>) : w \in Preds1}
FamScanW2 == {Q1(<<Match(<<Path0(NP("n", <<>>, <<>>))>>, w), Ret(<<Item(Var("n"), ""), Item(np, ""), Item(nq, "")>>)>>) : w \in Preds2}
FamScanI ==
    {Q1(<<Match(<<Path0(NP("n", ls, <<KV("p", v)>>))>>, NoX), RetNP>>) : ls \in {<<>>, <<"A">>}, v \in Lits}
    \cup {Q1(<<Match(<<Path0(NP("n", <<>>, <<KV("p", VInt(2)), KV("q", VInt(1))>>))>>, NoX), RetNP>>)}
    \cup {Q1(<<Match(<<Path0(NP("n", <<>>, <<>>))>>, NoX), Ret(its)>>) :
             its \in {<<Item(np, "")>>, <<Item(np, "a")>>, <<Item(np, "a"), Item(nq, "b")>>, <<Item(Var("n"), "x"), Item(nq, "")>>,
                      <<Item(Cmp("=", np, Lit(VInt(2))), "t")>>, <<Item(IsNullX(np), "t")>>, <<Item(Cmp("<", np, nq), "t")>>,
                      <<Item(Lit(VInt(1)), "one"), Item(np, "")>>, <<Item(Or(IsNullX(np), Cmp("=", nq, Lit(VInt(1)))), "t")>>,
                      <<Item(And(Lit(VNull), Cmp("=", np, Lit(VInt(2)))), "t"), Item(np, "")>>,
                      <<Item(Or(Lit(VNull), Cmp("=", np, Lit(VInt(2)))), "t"), Item(np, "")>>,
                      <<Item(And(Lit(VBool(TRUE)), IsNullX(np)), "t")>>}}

\* stage 2: one-hop and two-hop patterns: directions, types, relationship variables, self-loops, multi-edges,
\* relationship isomorphism, repeated variables, several paths
a0 == NP("a", <<>>, <<>>)
b0 == NP("b", <<>>, <<>>)
c0 == NP("c", <<>>, <<>>)
an == NP("", <<>>, <<>>)
RetAB == Ret(<<Item(Var("a"), ""), Item(Var("b"), "")>>)
RetARB == Ret(<<Item(Var("a"), ""), Item(Var("r"), ""), Item(Var("b"), "")>>)
Dirs == {"out", "in", "both"}
TypeSeqs == {<<>>, <<"T">>, <<"T", "U">>}
FamHopD ==
    {Q1(<<Match(<<Path1(a0, RP("r", ts, d, <<>>), b0)>>, NoX), RetARB>>) : ts \in TypeSeqs, d \in Dirs}
    \cup {Q1(<<Match(<<Path1(a0, RP("", ts, d, <<>>), b0)>>, NoX), RetAB>>) : ts \in {<<>>, <<"U">>}, d \in Dirs}
    \cup {Q1(<<Match(<<Path1(a0, RP("r", <<>>, d, <<>>), a0)>>, NoX), Ret(<<Item(Var("a"), ""), Item(Var("r"), "")>>)>>) : d \in Dirs}
    \cup {Q1(<<Match(<<Path1(an, RP("r", <<>>, d, <<>>), an)>>, NoX), Ret(<<Item(Var("r"), "")>>)>>) : d \in {"out", "both"}}
    \cup {Q1(<<Match(<<Path2(a0, RP("r", <<>>, d1, <<>>), b0, RP("s", <<>>, d2, <<>>), c0)>>, NoX),
                Ret(<<Item(Var("a"), ""), Item(Var("r"), ""), Item(Var("b"), ""), Item(Var("s"), ""), Item(Var("c"), "")>>)>>) :
             d1 \in Dirs, d2 \in Dirs}
    \cup {Q1(<<Match(<<Path2(a0, RP("", <<"T">>, "out", <<>>), b0, RP("", <<>>, "in", <<>>), a0)>>, NoX), RetAB>>)}
    \cup {Q1(<<Match(<<Path1(a0, RP("r", <<>>, d1, <<>>), b0), Path1(a0, RP("s", <<>>, d2, <<>>), c0)>>, NoX),
                Ret(<<Item(Var("a"), ""), Item(Var("r"), ""), Item(Var("s"), "")>>)>>) : d1 \in {"out", "both"}, d2 \in {"out", "in"}}
    \cup {Q1(<<Match(<<Path0(a0), Path0(b0)>>, NoX), RetAB>>),
          Q1(<<Match(<<Path0(a0)>>, NoX), Match(<<Path1(a0, RP("r", <<>>, "out", <<>>), b0)>>, NoX), RetARB>>),
          Q1(<<Match(<<Path1(a0, RP("r", <<>>, "out", <<>>), b0)>>, NoX), Match(<<Path1(b0, RP("s", <<>>, "out", <<>>), c0)>>, NoX),
               Ret(<<Item(Var("r"), ""), Item(Var("s"), "")>>)>>),
          Q1(<<Match(<<Path1(a0, RP("r", <<>>, "both", <<>>), b0)>>, NoX), Ret(<<Item(CStar, "c")>>)>>),
          Q1(<<Match(<<Path1(a0, RP("r", <<"T">>, "out", <<>>), b0)>>, NoX), Ret(<<Item(Agg("count", Var("r"), FALSE), "c")>>)>>),
          Q1(<<Match(<<Path1(a0, RP("", <<>>, "out", <<>>), b0)>>, NoX), Ret(<<Item(Var("a"), ""), Item(Agg("count", Var("b"), FALSE), "c")>>)>>)}
\* two-hop paths whose MIDDLE node carries the rarer label: a cost-based planner anchors the path there and walks
\* both ways, and relationship isomorphism must still hold across the anchor (one relationship cannot serve both hops)
FamHop2L ==
    {Q1(<<Match(<<Path2(NP("a", <<"A">>, <<>>), RP("", <<>>, d1, <<>>), NP("h", lh, <<>>), RP("", <<>>, d2, <<>>), NP("c", <<"A">>, <<>>))>>, NoX),
          Ret(<<Item(Var("a"), ""), Item(Var("h"), ""), Item(Var("c"), "")>>)>>) : lh \in {<<"B">>, <<>>}, d1 \in Dirs, d2 \in Dirs}
aA == NP("a", <<"A">>, <<>>)
bA == NP("b", <<"A">>, <<>>)
ap == Prop("a", "p")
bp == Prop("b", "p")
rp == Prop("r", "p")
FamHopP ==
    {Q1(<<Match(<<Path1(x, RP("r", <<>>, d, <<>>), y)>>, NoX), RetARB>>) : x \in {a0, aA}, y \in {b0, bA}, d \in {"out", "both"}}
    \cup {Q1(<<Match(<<Path1(a0, RP("r", <<>>, d, <<KV("p", VInt(1))>>), b0)>>, NoX), RetARB>>) : d \in Dirs}
    \cup {Q1(<<Match(<<Path1(NP("a", <<>>, <<KV("p", VInt(1))>>), RP("r", <<>>, "out", <<>>), NP("b", <<"A">>, <<KV("p", VInt(1))>>))>>, NoX), RetARB>>)}
    \cup {Q1(<<Match(<<Path1(a0, RP("r", <<>>, "out", <<>>), b0)>>, w), Ret(<<Item(ap, ""), Item(rp, ""), Item(bp, "")>>)>>) :
             w \in {Cmp("=", ap, bp), Cmp("<>", ap, bp), Cmp("=", rp, Lit(VInt(1))), IsNullX(rp), And(Cmp("=", ap, Lit(VInt(1))), NotNullX(bp)),
                    Cmp("=", Var("a"), Var("b")), Cmp("<>", Var("a"), Var("b")), Or(Cmp("=", rp, ap), IsNullX(bp))}}

\* stage 3: DISTINCT and aggregation with grouping keys
n0 == NP("n", <<>>, <<>>)
nA == NP("n", <<"A">>, <<>>)
MN == Match(<<Path0(n0)>>, NoX)
RetD(items) == [Ret(items) EXCEPT !.distinct = TRUE]
AggFs == {"count", "min", "max", "collect"}
FamAgg ==
    {Q1(<<MN, Ret(<<Item(Agg(f, np, d), "v")>>)>>) : f \in AggFs, d \in {FALSE, TRUE}}
    \cup {Q1(<<MN, Ret(<<Item(nq, "k"), Item(Agg(f, np, FALSE), "v")>>)>>) : f \in AggFs}
    \cup {Q1(<<MN, Ret(<<Item(np, "k"), Item(CStar, "c")>>)>>), Q1(<<MN, Ret(<<Item(CStar, "c"), Item(np, "k")>>)>>),
          Q1(<<MN, Ret(<<Item(np, "k"), Item(nq, "j"), Item(Agg("count", Var("n"), FALSE), "c")>>)>>),
          Q1(<<MN, Ret(<<Item(CStar, "c"), Item(Agg("count", np, FALSE), "d"), Item(Agg("min", np, FALSE), "e")>>)>>),
          Q1(<<Match(<<Path0(nA)>>, Cmp("=", nq, Lit(VInt(1)))), Ret(<<Item(Agg("count", np, FALSE), "c"), Item(Agg("collect", np, FALSE), "l")>>)>>),
          Q1(<<Match(<<Path0(nA)>>, NoX), Ret(<<Item(nq, "k"), Item(Agg("count", np, TRUE), "c")>>)>>),
          Q1(<<MN, RetD(<<Item(np, "a")>>)>>), Q1(<<MN, RetD(<<Item(np, "a"), Item(nq, "b")>>)>>), Q1(<<MN, RetD(<<Item(nq, "")>>)>>),
          Q1(<<MN, RetD(<<Item(IsNullX(np), "t")>>)>>), Q1(<<MN, RetD(<<Item(Var("n"), "")>>)>>),
          Q1(<<MN, Ret(<<Item(IsNullX(np), "t"), Item(CStar, "c")>>)>>)}
FamSum ==
    {Q1(<<MN, Ret(<<Item(Agg("sum", np, d), "v")>>)>>) : d \in {FALSE, TRUE}}
    \cup {Q1(<<MN, Ret(<<Item(nq, "k"), Item(Agg("sum", np, FALSE), "v")>>)>>),
          Q1(<<MN, Ret(<<Item(Agg("sum", np, FALSE), "v"), Item(Agg("max", np, FALSE), "m"), Item(Agg("min", np, FALSE), "l")>>)>>),
          Q1(<<Match(<<Path0(nA)>>, NoX), Ret(<<Item(Agg("sum", np, FALSE), "v"), Item(CStar, "c")>>)>>)}
FamAggHop ==
    {Q1(<<Match(<<Path1(a0, RP("r", <<>>, d, <<>>), b0)>>, NoX), Ret(its)>>) : d \in {"out", "both"},
        its \in {<<Item(Var("a"), ""), Item(Agg("count", Var("r"), FALSE), "c")>>, <<Item(Var("a"), ""), Item(Agg("count", Var("b"), TRUE), "c")>>,
                 <<Item(Agg("count", Var("b"), TRUE), "c")>>, <<Item(Var("b"), ""), Item(Agg("collect", Var("a"), FALSE), "l")>>,
                 <<Item(Prop("r", "p"), "k"), Item(CStar, "c")>>, <<Item(Agg("count", Var("r"), TRUE), "c"), Item(Agg("count", Var("a"), TRUE), "d")>>,
                 <<Item(Var("a"), ""), Item(Agg("collect", Var("b"), TRUE), "l")>>, <<Item(Agg("collect", Var("r"), TRUE), "l")>>}}
    \cup {Q1(<<Match(<<Path1(a0, RP("r", <<>>, "out", <<>>), b0)>>, NoX), RetD(<<Item(Var("a"), "")>>)>>),
          Q1(<<Match(<<Path1(a0, RP("r", <<>>, "both", <<>>), b0)>>, NoX), RetD(<<Item(Var("a"), ""), Item(Var("b"), "")>>)>>),
          Q1(<<Match(<<Path1(a0, RP("", <<"T">>, "out", <<>>), b0)>>, NoX), Ret(<<Item(CStar, "c")>>)>>),
          Q1(<<Match(<<Path1(aA, RP("", <<"T">>, "out", <<>>), b0)>>, NoX), Ret(<<Item(Agg("count", Var("b"), FALSE), "c")>>)>>),
          Q1(<<Match(<<Path1(a0, RP("", <<"T">>, "out", <<>>), bA)>>, NoX), Ret(<<Item(Var("a"), ""), Item(CStar, "c")>>)>>)}

\* stage 4: OPTIONAL MATCH
MA == Match(<<Path0(a0)>>, NoX)
FamOpt ==
    {Q1(<<MA, OptMatch(<<Path1(a0, RP("r", ts, d, <<>>), y)>>, NoX), RetARB>>) : ts \in {<<>>, <<"T">>}, d \in Dirs, y \in {b0, bA}}
    \cup {Q1(<<MA, OptMatch(<<Path1(a0, RP("r", <<>>, "out", <<>>), b0)>>, w), Ret(<<Item(Var("a"), ""), Item(bp, ""), Item(rp, "")>>)>>) :
              w \in {Cmp("=", bp, Lit(VInt(1))), IsNullX(bp), Cmp("=", rp, ap), Cmp("<>", Var("a"), Var("b"))}}
    \cup {Q1(<<MA, OptMatch(<<Path1(a0, RP("r", <<>>, "out", <<>>), b0)>>, NoX), Ret(its)>>) :
              its \in {<<Item(Var("a"), ""), Item(Agg("count", Var("r"), FALSE), "c")>>, <<Item(Var("a"), ""), Item(Agg("count", bp, FALSE), "c"), Item(CStar, "d")>>,
                       <<Item(Var("a"), ""), Item(IsNullX(Var("b")), "t"), Item(Cmp("=", bp, Lit(VInt(1))), "u")>>,
                       <<Item(Agg("collect", Var("b"), FALSE), "l")>>}}
    \cup {Q1(<<OptMatch(<<Path0(NP("n", ls, <<>>))>>, NoX), RetNP>>) : ls \in {<<>>, <<"A">>}}
    \cup {Q1(<<OptMatch(<<Path0(nA)>>, Cmp("=", np, Lit(VInt(1)))), Ret(<<Item(Var("n"), ""), Item(CStar, "c")>>)>>),
          Q1(<<MA, OptMatch(<<Path1(a0, RP("", <<>>, "out", <<>>), b0)>>, NoX), OptMatch(<<Path1(b0, RP("", <<>>, "out", <<>>), c0)>>, NoX),
               Ret(<<Item(Var("a"), ""), Item(Var("b"), ""), Item(Var("c"), "")>>)>>),
          Q1(<<MA, OptMatch(<<Path1(a0, RP("r", <<>>, "out", <<>>), b0)>>, NoX), With(<<Item(Var("a"), "a"), Item(Var("b"), "b")>>, IsNullX(Var("b"))),
               Ret(<<Item(Var("a"), "")>>)>>),
          Q1(<<MA, OptMatch(<<Path1(a0, RP("r", <<>>, "out", <<>>), b0)>>, NoX), Match(<<Path1(b0, RP("s", <<>>, "out", <<>>), c0)>>, NoX),
               Ret(<<Item(Var("a"), ""), Item(Var("c"), "")>>)>>),
          Q1(<<Match(<<Path1(a0, RP("r", <<>>, "out", <<>>), b0)>>, NoX), OptMatch(<<Path1(b0, RP("s", <<>>, "out", <<>>), a0)>>, NoX),
               Ret(<<Item(Var("r"), ""), Item(Var("s"), "")>>)>>),
          \* a label / inline property on an already bound variable inside OPTIONAL MATCH must not filter the row
          Q1(<<Match(<<Path1(a0, RP("r", <<>>, "out", <<>>), b0)>>, NoX), OptMatch(<<Path1(b0, RP("s", <<>>, "both", <<>>), aA)>>, NoX),
               Ret(<<Item(Var("a"), ""), Item(Var("b"), ""), Item(Var("s"), "")>>)>>),
          Q1(<<MA, OptMatch(<<Path1(NP("a", <<>>, <<KV("p", VInt(1))>>), RP("s", <<>>, "out", <<>>), b0)>>, NoX),
               Ret(<<Item(Var("a"), ""), Item(Var("b"), "")>>)>>),
          Q1(<<MA, OptMatch(<<Path0(aA)>>, NoX), Ret(<<Item(Var("a"), "")>>)>>)}

\* stage 5: ORDER BY / SKIP / LIMIT
RetO(items, order, skip, limit) == [Ret(items) EXCEPT !.order = order, !.skip = skip, !.limit = limit]
va == Var("a")
vb == Var("b")
Windows5 == {<<-1, -1>>, <<-1, 1>>, <<1, -1>>, <<1, 1>>, <<-1, 2>>, <<-1, 0>>, <<2, 1>>}
FamOrd ==
    {Q1(<<MN, RetO(<<Item(np, "a")>>, <<Ord(va, asc)>>, w[1], w[2])>>) : asc \in BOOLEAN, w \in Windows5}
    \cup {Q1(<<MN, RetO(<<Item(Var("n"), ""), Item(np, "a")>>, <<Ord(va, asc)>>, w[1], w[2])>>) : asc \in BOOLEAN, w \in {<<-1, -1>>, <<-1, 1>>, <<1, 1>>}}
    \cup {Q1(<<MN, RetO(<<Item(np, "")>>, <<Ord(np, asc)>>, -1, w)>>) : asc \in BOOLEAN, w \in {-1, 2}}
    \cup {Q1(<<MN, RetO(<<Item(np, "a")>>, <<>>, w[1], w[2])>>) : w \in Windows5 \ {<<-1, -1>>}}
    \cup {Q1(<<MN, [RetO(<<Item(np, "a")>>, <<Ord(va, asc)>>, -1, w) EXCEPT !.distinct = TRUE]>>) : asc \in BOOLEAN, w \in {-1, 1, 2}}
    \cup {Q1(<<MN, RetO(<<Item(np, "k"), Item(CStar, "c")>>, o, -1, w)>>) :
              o \in {<<Ord(Var("c"), FALSE), Ord(Var("k"), TRUE)>>, <<Ord(Var("k"), FALSE)>>, <<Ord(Var("c"), TRUE)>>}, w \in {-1, 1}}
FamOrd2 ==
    {Q1(<<MN, RetO(<<Item(np, "a"), Item(nq, "b")>>, o, w[1], w[2])>>) :
        o \in {<<Ord(va, TRUE), Ord(vb, TRUE)>>, <<Ord(va, FALSE), Ord(vb, TRUE)>>, <<Ord(vb, TRUE), Ord(va, FALSE)>>, <<Ord(vb, FALSE)>>},
        w \in {<<-1, -1>>, <<-1, 2>>, <<1, 1>>}}
    \cup {Q1(<<Match(<<Path1(a0, RP("r", <<>>, "out", <<>>), b0)>>, NoX),
                RetO(<<Item(ap, "x"), Item(bp, "y")>>, <<Ord(Var("x"), TRUE), Ord(Var("y"), FALSE)>>, -1, w)>>) : w \in {-1, 1}}

\* stage 6: WITH pipelines, UNWIND, UNION
WithO(items, w, order, skip, limit) == [With(items, w) EXCEPT !.order = order, !.skip = skip, !.limit = limit]
LitList(vs) == ListX([i \in DOMAIN vs |-> Lit(vs[i])])
\* order keys that are expressions holding a literal (identical to a projected item, which is how OrdIdx finds their
\* column): the literal is a parameter slot of the ORDER BY position (C35) -- in the closing RETURN, in a WITH stage, and in
\* the closing RETURN of a query whose WITH stage has an ORDER BY of its own
eqp1 == Cmp("=", np, Lit(VInt(1)))
eqa1 == Cmp("=", va, Lit(VInt(1)))
FamOrdX ==
    {Q1(<<MN, RetO(<<Item(eqp1, "b")>>, <<Ord(eqp1, asc)>>, -1, w)>>) : asc \in BOOLEAN, w \in {-1, 1}}
    \cup {Q1(<<MN, WithO(<<Item(Var("n"), "n"), Item(eqp1, "b")>>, NoX, <<Ord(eqp1, asc)>>, -1, w), Ret(<<Item(Var("n"), ""), Item(vb, "")>>)>>) :
              asc \in BOOLEAN, w \in {1, 2}}
    \cup {Q1(<<MN, WithO(<<Item(Var("n"), "n"), Item(np, "a")>>, NoX, <<Ord(va, TRUE)>>, -1, 2),
                RetO(<<Item(eqa1, "b")>>, <<Ord(eqa1, asc)>>, -1, -1)>>) : asc \in BOOLEAN}
    \* list literals that mix a per-row element with a constant (a parameter slot of the list-element position)
    \cup {Q1(<<MN, Ret(<<Item(ListX(<<np, Lit(VInt(1))>>), "l")>>)>>),
          Q1(<<MN, Ret(<<Item(Var("n"), ""), Item(ListX(<<Lit(VInt(2)), np, Lit(VStr("a"))>>), "l")>>)>>),
          Q1(<<Match(<<Path0(n0)>>, InX(Lit(VInt(1)), ListX(<<np, Lit(VInt(2))>>))), RetNP>>)}
vx == Var("x")
FamWith ==
    {Q1(<<MN, With(<<Item(Var("n"), "n")>>, w), RetNP>>) : w \in {Cmp("=", np, Lit(VInt(1))), IsNullX(np), NoX}}
    \cup {Q1(<<MN, With(<<Item(np, "a")>>, w), Ret(<<Item(va, "")>>)>>) : w \in {NoX, Cmp("<", va, Lit(VInt(2))), NotNullX(va)}}
    \cup {Q1(<<MN, [With(<<Item(np, "a")>>, NoX) EXCEPT !.distinct = TRUE], Ret(<<Item(va, "")>>)>>),
          Q1(<<MN, With(<<Item(np, "a"), Item(CStar, "c")>>, NoX), Ret(<<Item(va, ""), Item(Var("c"), "")>>)>>),
          Q1(<<MN, With(<<Item(np, "a"), Item(CStar, "c")>>, Cmp(">", Var("c"), Lit(VInt(1)))), Ret(<<Item(va, ""), Item(Var("c"), "")>>)>>),
          Q1(<<MN, With(<<Item(CStar, "c")>>, NoX), Ret(<<Item(Var("c"), "")>>)>>),
          Q1(<<MN, With(<<Item(Agg("collect", np, FALSE), "l")>>, NoX), Ret(<<Item(Var("l"), "")>>)>>),
          Q1(<<MN, With(<<Item(np, "a")>>, NoX), Ret(<<Item(Agg("count", va, TRUE), "c")>>)>>),
          Q1(<<MN, With(<<Item(Var("n"), "m")>>, NoX), Ret(<<Item(Prop("m", "p"), "")>>)>>)}
    \cup {Q1(<<MN, WithO(<<Item(Var("n"), "n"), Item(np, "a")>>, NoX, <<Ord(va, asc)>>, w[1], w[2]), Ret(<<Item(Var("n"), ""), Item(va, "")>>)>>) :
              asc \in BOOLEAN, w \in {<<-1, 1>>, <<1, -1>>, <<1, 1>>}}
    \cup {Q1(<<MN, WithO(<<Item(np, "a")>>, NoX, <<>>, -1, 1), Ret(<<Item(CStar, "c")>>)>>)}
FamWithHop ==
    {Q1(<<MA, With(<<Item(va, "a")>>, w), Match(<<Path1(a0, RP("r", <<>>, d, <<>>), b0)>>, NoX), RetARB>>) :
        w \in {NoX, Cmp("=", ap, Lit(VInt(1)))}, d \in {"out", "both"}}
    \cup {Q1(<<Match(<<Path1(a0, RP("r", <<>>, "out", <<>>), b0)>>, NoX), With(<<Item(va, "a"), Item(Agg("count", Var("r"), FALSE), "c")>>, w),
                Ret(<<Item(va, ""), Item(Var("c"), "")>>)>>) : w \in {NoX, Cmp(">", Var("c"), Lit(VInt(1)))}}
    \cup {Q1(<<Match(<<Path1(a0, RP("r", <<>>, "out", <<>>), b0)>>, NoX), With(<<Item(vb, "b")>>, NoX),
                Match(<<Path1(b0, RP("s", <<>>, "out", <<>>), c0)>>, NoX), Ret(<<Item(vb, ""), Item(Var("s"), ""), Item(Var("c"), "")>>)>>),
          Q1(<<Match(<<Path1(a0, RP("r", <<>>, "out", <<>>), b0)>>, NoX), [With(<<Item(vb, "b")>>, NoX) EXCEPT !.distinct = TRUE],
               OptMatch(<<Path1(b0, RP("s", <<>>, "out", <<>>), c0)>>, NoX), Ret(<<Item(vb, ""), Item(Var("c"), "")>>)>>)}
UnwLists == {<<VInt(1), VInt(2), VInt(2)>>, <<VInt(1), VNull, VStr("a")>>, <<>>, <<VInt(2), VFlt(4)>>, <<VBool(TRUE), VInt(1)>>}
FamUnwind ==
    {Q1(<<Unwind(LitList(l), "x"), r>>) : l \in UnwLists,
        r \in {Ret(<<Item(vx, "")>>), Ret(<<Item(vx, "v"), Item(IsNullX(vx), "t")>>), RetD(<<Item(vx, "v")>>),
               Ret(<<Item(CStar, "c"), Item(Agg("count", vx, FALSE), "d"), Item(Agg("collect", vx, FALSE), "l")>>),
               Ret(<<Item(vx, "k"), Item(CStar, "c")>>), RetO(<<Item(vx, "v")>>, <<Ord(Var("v"), FALSE)>>, -1, 2),
               Ret(<<Item(Cmp("=", vx, Lit(VInt(2))), "t")>>)}}
    \cup {Q1(<<Unwind(LitList(l), "x"), Match(<<Path0(n0)>>, Cmp("=", np, vx)), Ret(<<Item(vx, ""), Item(Var("n"), "")>>)>>) : l \in UnwLists}
    \cup {Q1(<<MN, Unwind(LitList(l), "x"), Ret(<<Item(Var("n"), ""), Item(vx, "")>>)>>) : l \in {<<VInt(1), VInt(2)>>, <<>>}}
    \cup {Q1(<<Unwind(LitList(l), "x"), Match(<<Path0(NP("n", <<>>, <<[key |-> "p", v |-> vx]>>))>>, NoX), Ret(<<Item(vx, ""), Item(Var("n"), "")>>)>>) :
              l \in {<<VInt(1), VInt(2)>>, <<VFlt(4), VNull>>}}
    \cup {Q1(<<Unwind(LitList(l), "x"), With(<<Item(vx, "x")>>, Cmp(">", vx, Lit(VInt(1)))), Ret(<<Item(vx, "")>>)>>) : l \in UnwLists}
    \cup {Q1(<<MN, Ret(<<Item(InX(np, LitList(l)), "t"), Item(np, "")>>)>>) : l \in UnwLists}
    \cup {Q1(<<Unwind(LitList(<<VInt(1), VInt(2)>>), "x"), Unwind(LitList(<<VInt(1), VInt(2)>>), "y"),
                Ret(<<Item(vx, ""), Item(Var("y"), ""), Item(Cmp("<", vx, Var("y")), "t")>>)>>)}
RA(ls, w) == <<Match(<<Path0(NP("n", ls, <<>>))>>, w), Ret(<<Item(np, "a")>>)>>
FamUnion ==
    {QU(RA(<<"A">>, NoX), RA(<<>>, w), all) : w \in {NoX, Cmp("=", np, Lit(VInt(2))), IsNullX(np)}, all \in BOOLEAN}
    \cup {QU(RA(<<>>, NoX), RA(<<"A">>, NoX), all) : all \in BOOLEAN}
    \cup {QU(<<Ret(<<Item(Lit(v1), "a")>>)>>, <<Ret(<<Item(Lit(v2), "a")>>)>>, all) :
              v1 \in {VInt(2), VNull}, v2 \in {VInt(2), VFlt(4), VNull, VStr("a")}, all \in BOOLEAN}
    \cup {QU(<<MN, Ret(<<Item(np, "a"), Item(nq, "b")>>)>>, <<MN, Ret(<<Item(nq, "a"), Item(np, "b")>>)>>, all) : all \in BOOLEAN}
    \cup {QU(<<MN, Ret(<<Item(CStar, "a")>>)>>, <<Match(<<Path0(nA)>>, NoX), Ret(<<Item(Agg("count", np, FALSE), "a")>>)>>, all) : all \in BOOLEAN}
    \cup {QU(<<Unwind(LitList(<<VInt(1), VInt(1)>>), "x"), Ret(<<Item(vx, "a")>>)>>, <<Unwind(LitList(<<VInt(1), VInt(2)>>), "x"), Ret(<<Item(vx, "a")>>)>>, all) : all \in BOOLEAN}

\* stage 7: variable-length patterns and shortestPath
SP(kind, a, r, b) == [sp |-> kind, pv |-> "", start |-> a, segs |-> <<[rel |-> r, node |-> b]>>]
Ranges == {<<1, 2>>, <<0, 1>>, <<2, 2>>, <<1, 3>>, <<1, 1>>, <<0, 0>>, <<2, 3>>}
FamVar ==
    {Q1(<<Match(<<Path1(a0, VL("", <<>>, d, lh[1], lh[2]), b0)>>, NoX), RetAB>>) : d \in Dirs, lh \in Ranges}
    \cup {Q1(<<Match(<<Path1(a0, VL("", <<"T">>, "out", 1, 2), b0)>>, NoX), RetAB>>),
          Q1(<<Match(<<Path1(a0, VL("", <<>>, "out", 1, 2), a0)>>, NoX), Ret(<<Item(va, "")>>)>>),
          Q1(<<Match(<<Path2(a0, RP("r", <<>>, "out", <<>>), b0, VL("", <<>>, "out", 1, 2), c0)>>, NoX), Ret(<<Item(va, ""), Item(Var("r"), ""), Item(Var("c"), "")>>)>>),
          Q1(<<Match(<<Path1(a0, VL("", <<>>, "out", 1, 2), b0)>>, NoX), Ret(<<Item(va, ""), Item(Agg("count", vb, FALSE), "c"), Item(Agg("count", vb, TRUE), "d")>>)>>),
          Q1(<<Match(<<Path1(a0, VL("", <<>>, "out", 1, 2), b0)>>, NoX), RetD(<<Item(va, ""), Item(vb, "")>>)>>),
          Q1(<<MA, OptMatch(<<Path1(a0, VL("", <<>>, "out", 2, 2), b0)>>, NoX), RetAB>>),
          Q1(<<Match(<<Path0(a0), Path0(b0)>>, NoX), Match(<<Path1(a0, VL("", <<>>, "out", 1, 2), b0)>>, NoX), RetAB>>),
          Q1(<<MA, OptMatch(<<Path1(a0, RP("", <<>>, "out", <<>>), b0)>>, NoX), Match(<<Path1(a0, VL("", <<>>, "both", 1, 2), b0)>>, NoX), RetAB>>)}
FamShort ==
    {Q1(<<Match(<<SP(k, a0, VL("", <<>>, d, lh[1], lh[2]), b0)>>, w), RetAB>>) :
        k \in {"shortest"}, d \in Dirs, lh \in {<<1, 2>>, <<1, 3>>}, w \in {Cmp("<>", va, vb)}}
    \cup {Q1(<<Match(<<Path0(a0), Path0(b0)>>, Cmp("<>", va, vb)), Match(<<SP("shortest", a0, VL("", <<>>, "out", 1, 3), b0)>>, NoX), RetAB>>)}
    \cup {Q1(<<Match(<<SP("all", a0, VL("", <<>>, d, 1, 3), b0)>>, Cmp("<>", va, vb)), RetAB>>) : d \in {"out", "both"}}

\* stage 8: composed queries for the random walks: first clause x second clause x final clause (all bind a, b)
MixFirst ==
    {Match(<<Path1(x, RP("r", ts, d, <<>>), y)>>, w) :
        x \in {a0, aA, NP("a", <<>>, <<KV("p", VInt(1))>>)}, y \in {b0, bA}, ts \in {<<>>, <<"T">>}, d \in Dirs,
        w \in {NoX, Cmp("=", ap, bp), Cmp("<", ap, Lit(VInt(2))), IsNullX(bp), Cmp("<>", va, vb)}}
    \cup {Match(<<Path0(x), Path0(y)>>, w) : x \in {a0, aA}, y \in {b0, bA}, w \in {NoX, Cmp("=", ap, bp), Cmp("<>", va, vb), Cmp("<", ap, bp)}}
    \cup {Match(<<Path2(a0, RP("", <<>>, d1, <<>>), NP("m", <<>>, <<>>), RP("", <<>>, d2, <<>>), b0)>>, w) : d1 \in Dirs, d2 \in Dirs, w \in {NoX, Cmp("<>", va, vb)}}
    \cup {Match(<<Path1(a0, VL("", ts, d, lh[1], lh[2]), b0)>>, NoX) : ts \in {<<>>, <<"T">>}, d \in Dirs, lh \in {<<1, 2>>, <<0, 1>>, <<2, 3>>}}
MixSecond ==
    {<<>>,
     <<OptMatch(<<Path1(b0, RP("", <<>>, "out", <<>>), c0)>>, NoX)>>,
     <<OptMatch(<<Path1(b0, RP("", <<"T">>, "both", <<>>), NP("c", <<"A">>, <<>>))>>, Cmp("<>", Var("c"), va))>>,
     <<OptMatch(<<Path1(b0, RP("", <<"T">>, "out", <<>>), a0)>>, NoX), With(<<Item(va, "a"), Item(vb, "b"), Item(vb, "c")>>, NoX)>>,
     <<With(<<Item(va, "a"), Item(vb, "b")>>, NotNullX(bp)), Match(<<Path0(c0)>>, Cmp("=", Prop("c", "p"), ap))>>,
     <<Unwind(LitList(<<VInt(1), VInt(2)>>), "c")>>,
     <<Match(<<Path1(b0, RP("", <<>>, "out", <<>>), c0)>>, NoX)>>}
cp == Prop("c", "p")
MixLast(hasc) ==
    {Ret(<<Item(va, ""), Item(vb, "")>>), RetD(<<Item(ap, "x"), Item(bp, "y")>>),
     Ret(<<Item(ap, "k"), Item(CStar, "n")>>), Ret(<<Item(va, ""), Item(Agg("count", vb, TRUE), "n"), Item(Agg("min", bp, FALSE), "m")>>),
     Ret(<<Item(Agg("collect", bp, FALSE), "l"), Item(Agg("sum", ap, FALSE), "s")>>),
     RetO(<<Item(ap, "x"), Item(bp, "y")>>, <<Ord(Var("x"), TRUE), Ord(Var("y"), FALSE)>>, -1, 2),
     RetO(<<Item(va, ""), Item(bp, "y")>>, <<Ord(Var("y"), FALSE)>>, 1, 1),
     RetO(<<Item(ap, "k"), Item(CStar, "n")>>, <<Ord(Var("n"), FALSE), Ord(Var("k"), TRUE)>>, -1, 1),
     Ret(<<Item(Cmp("=", ap, bp), "t"), Item(IsNullX(bp), "u")>>)}
    \cup (IF hasc THEN {Ret(<<Item(va, ""), Item(vb, ""), Item(Var("c"), "")>>), Ret(<<Item(va, ""), Item(Agg("count", Var("c"), FALSE), "n")>>),
                        RetD(<<Item(Var("c"), "")>>)} ELSE {})
FamMix == {Q1(<<m>> \o s2 \o <<r>>) : m \in MixFirst, s2 \in MixSecond, r \in MixLast(FALSE)}
          \cup {Q1(<<m>> \o s2 \o <<r>>) : m \in MixFirst, s2 \in MixSecond \ {<<>>}, r \in MixLast(TRUE) \ MixLast(FALSE)}
FamAll == FamScanL \cup FamScanW1 \cup FamScanW2 \cup FamScanI \cup FamHopD \cup FamHopP \cup FamAgg \cup FamAggHop \cup FamOpt
          \cup FamOrd \cup FamOrd2 \cup FamOrdX \cup FamWith \cup FamWithHop \cup FamUnwind \cup FamUnion \cup FamVar \cup FamShort

\* C02: templates whose plan depends on indexes (label + property predicate on the scan anchor), on the storage tier
\* (relationship expansion, relationship / degree counts from statistics) or on the filter path (predicates that can fail)
nA1 == NP("n", <<"A">>, <<>>)
MNA(w) == Match(<<Path0(nA1)>>, w)
FamC02 ==
    {Q1(<<MNA(Cmp("=", np, Lit(v))), RetNP>>) : v \in {VInt(1), VInt(2), VFlt(4), VStr("a")}}
    \cup {Q1(<<MNA(Cmp(op, np, Lit(v))), RetNP>>) : op \in {"<", "<=", ">", ">="}, v \in {VInt(2), VFlt(4)}}
    \cup {Q1(<<MNA(Cmp("=", Lit(VInt(2)), np)), RetNP>>),
          Q1(<<Match(<<Path0(NP("n", <<"A">>, <<KV("p", VInt(2))>>))>>, NoX), RetNP>>),
          Q1(<<Match(<<Path0(NP("n", <<"B">>, <<>>))>>, Cmp("=", np, Lit(VInt(2)))), RetNP>>),
          Q1(<<Match(<<Path0(n0)>>, Cmp("=", np, Lit(VInt(2)))), RetNP>>),
          Q1(<<MNA(And(Cmp("=", np, Lit(VInt(2))), NotNullX(np))), RetNP>>),
          Q1(<<MNA(NotNullX(np)), RetNP>>), Q1(<<MNA(IsNullX(np)), RetNP>>),
          Q1(<<MNA(InX(np, LitList(<<VInt(2), VStr("a")>>))), RetNP>>),
          Q1(<<MNA(np), RetNP>>), Q1(<<MNA(Not(np)), RetNP>>),
          Q1(<<MNA(NoX), Ret(<<Item(Agg("count", Var("n"), FALSE), "c")>>)>>),
          Q1(<<MNA(Cmp("=", np, Lit(VInt(2)))), Ret(<<Item(CStar, "c")>>)>>),
          Q1(<<Match(<<Path1(nA1, RP("r", <<>>, "out", <<>>), NP("m", <<>>, <<>>))>>, Cmp("=", np, Lit(VInt(2)))),
               Ret(<<Item(Var("n"), ""), Item(Var("r"), ""), Item(Var("m"), "")>>)>>),
          Q1(<<Match(<<Path1(NP("m", <<>>, <<>>), RP("r", <<>>, "out", <<>>), NP("n", <<"A">>, <<KV("p", VInt(2))>>))>>, NoX),
               Ret(<<Item(Var("m"), ""), Item(Var("r"), ""), Item(Var("n"), "")>>)>>)}
    \cup {Q1(<<Match(<<Path1(a0, RP("r", ts, d, <<>>), b0)>>, NoX), RetARB>>) : ts \in {<<>>, <<"T">>}, d \in Dirs}
    \cup {Q1(<<Match(<<Path1(a0, RP("r", ts, "out", <<>>), b0)>>, NoX), Ret(<<Item(x, "c")>>)>>) : ts \in {<<>>, <<"T">>}, x \in {CStar, Agg("count", Var("r"), FALSE)}}
    \cup {Q1(<<Match(<<Path1(an, RP("r", <<"T">>, "out", <<>>), an)>>, NoX), Ret(<<Item(Agg("count", Var("r"), FALSE), "c")>>)>>),
          Q1(<<Match(<<Path1(a0, RP("", <<"T">>, "out", <<>>), b0)>>, NoX), Ret(<<Item(va, ""), Item(Agg("count", vb, FALSE), "c")>>)>>),
          Q1(<<Match(<<Path1(a0, RP("", <<>>, "in", <<>>), b0)>>, NoX), Ret(<<Item(va, ""), Item(Agg("count", vb, FALSE), "c")>>)>>),
          Q1(<<Match(<<Path1(a0, RP("r", <<>>, "out", <<>>), b0)>>, Cmp("=", rp, Lit(VInt(1)))), RetARB>>),
          Q1(<<Match(<<Path1(a0, RP("r", <<>>, "out", <<KV("p", VInt(1))>>), b0)>>, NoX), RetARB>>),
          Q1(<<Match(<<Path2(a0, RP("", <<>>, "out", <<>>), b0, RP("", <<>>, "out", <<>>), c0)>>, NoX),
               Ret(<<Item(va, ""), Item(vb, ""), Item(Var("c"), "")>>)>>),
          Q1(<<Match(<<Path1(a0, VL("", <<>>, "out", 1, 2), b0)>>, NoX), RetAB>>),
          Q1(<<MA, OptMatch(<<Path1(a0, RP("r", <<>>, "out", <<>>), b0)>>, NoX), RetARB>>),
          Q1(<<Match(<<Path1(aA, RP("r", <<>>, "both", <<>>), b0)>>, Cmp("=", ap, Lit(VInt(2)))), RetARB>>),
          Q1(<<MN, RetNP>>), Q1(<<MN, Ret(<<Item(CStar, "c")>>)>>)}

FamOf(fm) ==
    CASE fm = "scanL" -> FamScanL
      [] fm = "scanW1" -> FamScanW1
      [] fm = "scanW2" -> FamScanW2
      [] fm = "scanI" -> FamScanI
      [] fm = "hopD" -> FamHopD
      [] fm = "hopP" -> FamHopP
      [] fm = "agg" -> FamAgg
      [] fm = "sum" -> FamSum
      [] fm = "aggHop" -> FamAggHop
      [] fm = "opt" -> FamOpt
      [] fm = "ord" -> FamOrd
      [] fm = "ord2" -> FamOrd2
      [] fm = "ordx" -> FamOrdX
      [] fm = "hop2L" -> FamHop2L
      [] fm = "with" -> FamWith
      [] fm = "withHop" -> FamWithHop
      [] fm = "unwind" -> FamUnwind
      [] fm = "union" -> FamUnion
      [] fm = "var" -> FamVar
      [] fm = "short" -> FamShort
      [] fm = "c02" -> FamC02
      [] fm = "mix" -> FamMix
      [] fm = "all" -> FamAll

\* ------------------------------------------------------------------ family tables (one TLC run enumerates all of them)
L0 == {{}}
LA == {{}, {"A"}}
LOA == {{"A"}}
L4 == {{}, {"A"}, {"B"}, {"A", "B"}}
LAB1 == {{"A"}, {"B"}}
FC(name, fam, maxn, maxr, labels, p, qq, r, types) ==
    [name |-> name, fam |-> fam, maxn |-> maxn, maxr |-> maxr, labels |-> labels, p |-> p, q |-> qq, r |-> r, types |-> types]
\* quick: every graph with <= 2 nodes / <= 2 relationships over the value sets named, per clause family
QuickTable ==
    {FC("scanL", "scanL", 2, 0, L4, "none", "none", "none", {"T"}),
     FC("scanW1", "scanW1", 2, 0, LOA, "mixed", "none", "none", {"T"}),
     FC("scanW2", "scanW2", 2, 0, L0, "num", "one", "none", {"T"}),
     FC("scanI", "scanI", 2, 0, LOA, "mixed", "none", "none", {"T"}),
     FC("hopD", "hopD", 2, 2, L0, "none", "none", "none", {"T"}),
     FC("hopD2", "hopD", 2, 1, L0, "none", "none", "none", {"T", "U"}),
     FC("hopP", "hopP", 2, 1, LA, "one", "none", "one", {"T"}),
     FC("hop2L", "hop2L", 3, 2, LAB1, "none", "none", "none", {"T"}),
     FC("agg", "agg", 2, 0, L0, "num", "one", "none", {"T"}),
     FC("aggM", "agg", 2, 0, L0, "mixed", "none", "none", {"T"}),
     FC("sum", "sum", 2, 0, LA, "num", "one", "none", {"T"}),
     FC("aggHop", "aggHop", 2, 2, L0, "none", "none", "none", {"T"}),
     FC("opt", "opt", 2, 1, LA, "one", "none", "none", {"T"}),
     FC("ord", "ord", 2, 0, L0, "mixed", "none", "none", {"T"}),
     FC("ord2", "ord2", 2, 1, L0, "two", "one", "none", {"T"}),
     FC("ordx", "ordx", 2, 0, L0, "mixed", "none", "none", {"T"}),
     FC("with", "with", 2, 0, LA, "num", "none", "none", {"T"}),
     FC("withHop", "withHop", 2, 1, LA, "one", "none", "none", {"T"}),
     FC("unwind", "unwind", 1, 0, LA, "num", "none", "none", {"T"}),
     FC("union", "union", 2, 0, LA, "num", "none", "none", {"T"}),
     FC("var", "var", 2, 2, L0, "none", "none", "none", {"T"}),
     FC("short", "short", 2, 2, L0, "none", "none", "none", {"T"})}
\* thorough: the value sets / multi-edges the quick tier trims, and three-node graphs for the pattern families
ThoroughTable ==
    {FC("scanL", "scanL", 2, 0, L4, "one", "none", "none", {"T"}),
     FC("scanW1", "scanW1", 2, 0, LA, "mixed", "none", "none", {"T"}),
     FC("scanW2", "scanW2", 2, 0, L0, "mixed", "one", "none", {"T"}),
     FC("scanI", "scanI", 2, 0, LA, "mixed", "none", "none", {"T"}),
     FC("hopD", "hopD", 2, 2, L0, "none", "none", "none", {"T", "U"}),
     FC("hopD3", "hopD", 3, 2, L0, "none", "none", "none", {"T"}),
     FC("hopP", "hopP", 2, 2, LA, "one", "none", "one", {"T"}),
     FC("hop2L", "hop2L", 3, 3, LAB1, "none", "none", "none", {"T"}),
     FC("agg", "agg", 2, 0, L0, "mixed", "one", "none", {"T"}),
     FC("agg3", "agg", 3, 0, L0, "num", "none", "none", {"T"}),
     FC("sum", "sum", 2, 0, LA, "num", "one", "none", {"T"}),
     FC("aggHop", "aggHop", 2, 2, L0, "none", "none", "one", {"T"}),
     FC("opt", "opt", 2, 2, LA, "one", "none", "one", {"T"}),
     FC("ord", "ord", 2, 0, LA, "mixed", "none", "none", {"T"}),
     FC("ord3", "ord", 3, 0, L0, "num", "none", "none", {"T"}),
     FC("ord2", "ord2", 2, 1, L0, "num", "one", "none", {"T"}),
     FC("ordx", "ordx", 2, 0, LA, "mixed", "none", "none", {"T"}),
     FC("ordx3", "ordx", 3, 0, L0, "num", "none", "none", {"T"}),
     FC("with", "with", 2, 0, LA, "mixed", "none", "none", {"T"}),
     FC("withHop", "withHop", 2, 2, LA, "one", "none", "none", {"T"}),
     FC("unwind", "unwind", 1, 0, LA, "mixed", "none", "none", {"T"}),
     FC("union", "union", 2, 0, LA, "num", "one", "none", {"T"}),
     FC("var", "var", 2, 2, LA, "none", "none", "none", {"T"}),
     FC("var3", "var", 3, 3, L0, "none", "none", "none", {"T"}),
     FC("short", "short", 3, 3, L0, "none", "none", "none", {"T"})}
SingleCfg == FC(Family, Family, MaxNodes, MaxRels, LabelSets, PSet, QSet, RSet, Types)
Table == IF Tier = "quick" THEN QuickTable ELSE IF Tier = "thorough" THEN ThoroughTable ELSE {SingleCfg}
Fam == FamOf(Family)        \* single mode (zero-arity: evaluated once, which matters for the random walks)

\* ------------------------------------------------------------------ graph building
Init == G = EmptyGraph /\ q = NoQ /\ hist = <<>> /\ fc \in Table
H(r) == hist' = Append(hist, r)
Asked == q # NoQ
\* symmetry cut: a total preorder on step records by their JSON text is not available; compare descriptors
NodeDesc(n) == <<Cardinality(n.labels), IF "A" \in n.labels THEN 1 ELSE 0, KindRank(n.props.p), Num2(n.props.p) , KindRank(n.props.q), Num2(n.props.q)>>
RECURSIVE LexLe(_, _)
LexLe(a, b) == IF a = <<>> THEN TRUE ELSE IF Head(a) # Head(b) THEN Head(a) < Head(b) ELSE LexLe(Tail(a), Tail(b))
RelDesc(r) == <<r.s, r.d, IF r.t = "T" THEN 0 ELSE 1, KindRank(r.props.p), Num2(r.props.p)>>
DoAddNode ==
    /\ ~Asked /\ Len(G.nodes) < fc.maxn /\ G.rels = <<>>
    /\ \E ls \in fc.labels, p \in ValSet(fc.p), qq \in ValSet(fc.q) :
          /\ Canon /\ G.nodes # <<>> => LexLe(NodeDesc(G.nodes[Len(G.nodes)]), NodeDesc(NodeRec(ls, p, qq)))
          /\ G' = AddNode(G, ls, p, qq)
          /\ H([op |-> "CreateNode", labels |-> LabSeq(ls), p |-> p, q |-> qq])
    /\ UNCHANGED <<q, fc>>
DoAddRel ==
    /\ ~Asked /\ Len(G.rels) < fc.maxr
    /\ \E s \in DOMAIN G.nodes, d \in DOMAIN G.nodes, t \in fc.types, p \in ValSet(fc.r) :
          /\ Canon /\ G.rels # <<>> => LexLe(RelDesc(G.rels[Len(G.rels)]), RelDesc(RelRec(s, d, t, p, 0)))
          /\ G' = AddRel(G, s, d, t, p)
          /\ H([op |-> "CreateRel", s |-> s, d |-> d, t |-> t, p |-> p])
    /\ UNCHANGED <<q, fc>>
\* ---- C02 histories: mutators of the logical graph and physical steps, in any order
HistOn == Hist /\ ~Asked
DoDelNode == HistOn /\ \E h \in LiveN(G) : G' = DelNode(G, h) /\ H([op |-> "DeleteNode", n |-> h]) /\ UNCHANGED <<q, fc>>
DoDelRel == HistOn /\ \E r \in LiveR(G) : G' = DelRel(G, r) /\ H([op |-> "DeleteRel", r |-> r]) /\ UNCHANGED <<q, fc>>
DoSetNodeProp ==
    HistOn /\ \E h \in LiveN(G), v \in ValSet(fc.p) \ {VNull} :
        \* (also a write of the value the node already holds: logically a no-op, physically an index update)
        /\ G' = [G EXCEPT !.nodes[h].props.p = v] /\ H([op |-> "SetNodeProp", n |-> h, key |-> "p", v |-> v]) /\ UNCHANGED <<q, fc>>
DoRemoveNodeProp ==
    HistOn /\ \E h \in LiveN(G) :
        /\ G.nodes[h].props.p # VNull
        /\ G' = [G EXCEPT !.nodes[h].props.p = VNull] /\ H([op |-> "RemoveNodeProp", n |-> h, key |-> "p"]) /\ UNCHANGED <<q, fc>>
DoSetRelProp ==
    HistOn /\ \E r \in LiveR(G), v \in ValSet(fc.r) \ {VNull} :
        /\ G.rels[r].props.p # v
        /\ G' = [G EXCEPT !.rels[r].props.p = v] /\ H([op |-> "SetRelProp", r |-> r, v |-> v]) /\ UNCHANGED <<q, fc>>
DoAddLabel ==
    HistOn /\ \E h \in LiveN(G), lb \in {"A", "B"} :
        /\ lb \notin G.nodes[h].labels /\ (G.nodes[h].labels \cup {lb}) \in fc.labels
        /\ G' = [G EXCEPT !.nodes[h].labels = @ \cup {lb}] /\ H([op |-> "AddLabel", n |-> h, label |-> lb]) /\ UNCHANGED <<q, fc>>
DoRemoveLabel ==
    HistOn /\ \E h \in LiveN(G), lb \in {"A", "B"} :
        /\ lb \in G.nodes[h].labels /\ (G.nodes[h].labels \ {lb}) \in fc.labels
        /\ G' = [G EXCEPT !.nodes[h].labels = @ \ {lb}] /\ H([op |-> "RemoveLabel", n |-> h, label |-> lb]) /\ UNCHANGED <<q, fc>>
\* physical steps (no logical effect; at most two of each per history, never twice in a row)
Count(op) == Cardinality({i \in DOMAIN hist : hist[i].op = op})
LastOp == IF hist = <<>> THEN "" ELSE hist[Len(hist)].op
DoCompact == HistOn /\ Count("Compact") < 2 /\ LastOp # "Compact" /\ H([op |-> "Compact"]) /\ UNCHANGED <<G, q, fc>>
DoCreateIndex == HistOn /\ Count("CreateIndex") < 1 /\ H([op |-> "CreateIndex"]) /\ UNCHANGED <<G, q, fc>>
\* histories add nodes / relationships in any order (no symmetry cut, relationships before further nodes allowed)
DoAddNodeH ==
    /\ HistOn /\ Len(G.nodes) < fc.maxn
    /\ \E ls \in fc.labels, p \in ValSet(fc.p), qq \in ValSet(fc.q) :
          G' = AddNode(G, ls, p, qq) /\ H([op |-> "CreateNode", labels |-> LabSeq(ls), p |-> p, q |-> qq])
    /\ UNCHANGED <<q, fc>>
DoAddRelH ==
    /\ HistOn /\ Len(G.rels) < fc.maxr
    /\ \E s \in LiveN(G), d \in LiveN(G), t \in fc.types, p \in ValSet(fc.r) :
          G' = AddRel(G, s, d, t, p) /\ H([op |-> "CreateRel", s |-> s, d |-> d, t |-> t, p |-> p])
    /\ UNCHANGED <<q, fc>>

\* one connected MATCH, plain RETURN: the answer on k disjoint copies of the graph is k times the answer on one
Linear(x) ==
    /\ Len(x.parts) = 1
    /\ LET cs == x.parts[1].clauses IN
       /\ Len(cs) = 2 /\ cs[1].c = "match" /\ ~cs[1].opt /\ Len(cs[1].paths) = 1 /\ cs[1].paths[1].sp = "none"
       /\ cs[2].c = "return" /\ ~cs[2].distinct /\ ~HasWindow(cs[2]) /\ cs[2].order = <<>>
       /\ \A i \in DOMAIN cs[2].items : ~IsAgg(cs[2].items[i].e)
Ask ==
    /\ ~Asked /\ G.nodes # <<>> /\ Len(hist) >= AskAt
    /\ \E x \in (IF Sim THEN {RandomElement(Fam)} ELSE FamOf(fc.fam)) :
          q' = x /\ H(IF Hist THEN [op |-> "Query", q |-> x, lin |-> Linear(x), fam |-> fc.name] ELSE [op |-> "Query", q |-> x, fam |-> fc.name])
    /\ UNCHANGED <<G, fc>>
\* simulation only: TLC evaluates invariants on every candidate successor, so the script is printed one step later,
\* from the successor of the state the walk really chose
End == Sim /\ Asked /\ hist[Len(hist)].op = "Query" /\ H([op |-> "End"]) /\ UNCHANGED <<G, q, fc>>
Next == \/ (~Hist /\ (DoAddNode \/ DoAddRel)) \/ Ask \/ End
        \/ DoAddNodeH \/ DoAddRelH \/ DoDelNode \/ DoDelRel \/ DoSetNodeProp \/ DoRemoveNodeProp \/ DoSetRelProp
        \/ DoAddLabel \/ DoRemoveLabel \/ DoCompact \/ DoCreateIndex
Spec == Init /\ [][Next]_vars

View == <<G, q, fc.name, IF Hist THEN [i \in DOMAIN hist |-> hist[i].op \in {"Compact", "CreateIndex", "DeleteNode", "DeleteRel"}] ELSE <<>>>>
Bound == Len(hist) <= MaxHist
EmitAsk == (q' # NoQ) => PrintT(<<"SCRIPT", ToJson(hist')>>)
SimEmit == (hist # <<>> /\ hist[Len(hist)].op = "End") => PrintT(<<"SCRIPT", ToJson(SubSeq(hist, 1, Len(hist) - 1))>>)

\* ------------------------------------------------------------------ design-level laws of the reference semantics
NoLaw == TRUE     \* enumeration-only runs
Results == Poss(G, q, Dev)
\* the semantics is total and its tables are well formed
WellFormed ==
    Asked => /\ Results # {}
             /\ \A T \in Results : ~T.err => \A o \in DOMAIN T.bag : T.bag[o] > 0 /\ Len(o) = Len(LastClause(q.parts[1]).items)
\* a node pattern with several labels binds only nodes that carry ALL of them (first MATCH of every part)
AllLabelsLaw ==
    Asked =>
      \A pi \in DOMAIN q.parts :
        LET c == q.parts[pi].clauses[1] IN
        c.c = "match" =>
          \A us \in UnionChoices(c, Dev) : \A m \in DOMAIN MatchExt(G, c, [x \in {} |-> VNull], us, Dev) :
            \A i \in DOMAIN c.paths : \A j \in 1..(Len(c.paths[i].segs) + 1) :
               LET pat == NodePatAt(c.paths[i], j) IN
               pat.x # "" => \A k \in DOMAIN pat.labels : pat.labels[k] \in G.nodes[m[pat.x].n].labels
\* C02 on the design: the answer is a function of the logical graph; a planner deviation (Dev) changes it (self-test)
DevAgrees == Asked => Poss(G, q, {}) = Poss(G, q, Dev)
\* count(*) over the rows of a query = the size of its bag
CountLaw ==
    (Asked /\ Len(q.parts) = 1) =>
      LET cs == q.parts[1].clauses
          lc == cs[Len(cs)]
          q2 == Q1(SubSeq(cs, 1, Len(cs) - 1) \o <<Ret(<<Item(CStar, "c")>>)>>)
      IN (~lc.distinct /\ ~HasWindow(lc) /\ \A i \in DOMAIN lc.items : ~IsAgg(lc.items[i].e) /\ lc.items[i].e.e \in {"var", "prop"}) =>
           \A T \in Results : ~T.err =>
              \E T2 \in Poss(G, q2, Dev) : ~T2.err /\ T2.bag = [o \in {<<VInt(BagSize(T.bag))>>} |-> 1]
=============================================================================
