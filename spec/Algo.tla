-------------------------------- MODULE Algo --------------------------------
(***************************************************************************)
(* C26 / C27: the graph algorithms of crates/samyama-graph-algorithms and   *)
(* the CALL algo.* procedures, each DEFINED BY BRUTE FORCE.                  *)
(*                                                                           *)
(* State (what the store holds; one action per public mutator used):         *)
(*    nn      number of nodes created so far; nodes are 1..nn                *)
(*    lab     node -> set of labels                                          *)
(*    edges   SEQUENCE of relationships [s, d, w, t]: a directed MULTIgraph, *)
(*            parallel relationships and self-loops allowed, w = value of    *)
(*            the integer property "w" (the float property "w2" holds 4-w),  *)
(*            t = relationship type                                          *)
(* The algorithms are READ VIEWS.  They are defined on a projection          *)
(*    g = [V |-> set of nodes, E |-> sequence of [s, d, w]]                  *)
(* (see Proj) and nothing below is an algorithm: WCC/SCC are equivalence     *)
(* classes of (mutual) reachability, reachability is existence of a simple   *)
(* path, the optimal path cost is the minimum over ALL simple paths, the     *)
(* max-flow value is the minimum over ALL s-t cuts, the MST weight is the    *)
(* minimum over ALL spanning edge subsets, triangles / clustering            *)
(* coefficients are counted from their definitions, CDLP and PageRank are    *)
(* the LDBC Graphalytics recurrences (PageRank in exact rational arithmetic).*)
(***************************************************************************)
EXTENDS Naturals, Integers, Sequences, FiniteSets, TLC

VARIABLES nn, lab, edges
gvars == <<nn, lab, edges>>

GInit == nn = 0 /\ lab = <<>> /\ edges = <<>>

\* GraphStore::create_node_with_labels
AddNode(ls) == /\ nn' = nn + 1
               /\ lab' = Append(lab, ls)
               /\ UNCHANGED edges
\* GraphStore::create_edge_with_properties(s, d, t, {w: w, w2: 4.0 - w})
AddEdge(s, d, w, t) == /\ s \in 1..nn /\ d \in 1..nn
                       /\ edges' = Append(edges, [s |-> s, d |-> d, w |-> w, t |-> t])
                       /\ UNCHANGED <<nn, lab>>

-----------------------------------------------------------------------------
(* generic helpers *)
Range(f) == {f[i] : i \in DOMAIN f}
Min(S) == CHOOSE x \in S : \A y \in S : x <= y
Max(S) == CHOOSE x \in S : \A y \in S : x >= y
Abs(x) == IF x < 0 THEN -x ELSE x
\* TLC evaluates a function constructor lazily, once per APPLICATION; these two materialise the value (no meaning change)
Force(f) == f @@ <<>>
AsSeq(f) == <<>> \o f
RECURSIVE SumF(_, _)            \* sum of f[x] over x in S
SumF(f, S) == IF S = {} THEN 0 ELSE LET x == CHOOSE y \in S : TRUE IN f[x] + SumF(f, S \ {x})
RECURSIVE GCD(_, _)
GCD(a, b) == IF b = 0 THEN a ELSE GCD(b, a % b)
LCM(a, b) == (a * b) \div GCD(a, b)
RECURSIVE GcdSet(_)
GcdSet(S) == IF S = {} THEN 0 ELSE LET x == CHOOSE y \in S : TRUE IN GCD(x, GcdSet(S \ {x}))
RECURSIVE LcmSet(_)
LcmSet(S) == IF S = {} THEN 1 ELSE LET x == CHOOSE y \in S : TRUE IN LCM(x, LcmSet(S \ {x}))

-----------------------------------------------------------------------------
(* projections: what build_view(store, label, type, weight property) must   *)
(* present to an algorithm.  "" = no filter / no weight property (every      *)
(* weight 1); weight property "w" = the integer property, "w2" = the float   *)
(* property 4 - w.                                                           *)
WeightOf(e, wp) == IF wp = "w" THEN e.w ELSE IF wp = "w2" THEN 4 - e.w ELSE 1
Proj(label, type, wp) ==
    LET V == IF label = "" THEN 1..nn ELSE {v \in 1..nn : label \in lab[v]}
        keep == SelectSeq(edges, LAMBDA e : (type = "" \/ e.t = type) /\ e.s \in V /\ e.d \in V)
    IN [V |-> V, E |-> AsSeq([i \in DOMAIN keep |-> [s |-> keep[i].s, d |-> keep[i].d, w |-> WeightOf(keep[i], wp)]])]

\* the undirected multigraph: every relationship usable in both directions
Sym(g) == [V |-> g.V,
           E |-> g.E \o [i \in DOMAIN g.E |-> [s |-> g.E[i].d, d |-> g.E[i].s, w |-> g.E[i].w]]]
\* k disjoint copies: copy c (0-based) of node v is c*n + v  (only for V = 1..n)
Copies(g, k) ==
    LET n == Cardinality(g.V)
        m == Len(g.E)
    IN [V |-> 1..(k * n),
        E |-> AsSeq([i \in 1..(k * m) |-> LET c == (i - 1) \div m
                                              e == g.E[((i - 1) % m) + 1]
                                          IN [s |-> c * n + e.s, d |-> c * n + e.d, w |-> e.w]])]

Arc(g, u, v) == \E i \in DOMAIN g.E : g.E[i].s = u /\ g.E[i].d = v
Adj(g, u, v) == Arc(g, u, v) \/ Arc(g, v, u)
Succs(g, u) == {g.E[i].d : i \in {j \in DOMAIN g.E : g.E[j].s = u}}
OutIdx(g, u) == {i \in DOMAIN g.E : g.E[i].s = u}
InIdx(g, u) == {i \in DOMAIN g.E : g.E[i].d = u}

-----------------------------------------------------------------------------
(* paths: ALL simple directed paths, by exhaustive extension                 *)
RECURSIVE PathsExt(_, _)
PathsExt(g, p) == {p} \cup UNION {PathsExt(g, Append(p, v)) : v \in Succs(g, p[Len(p)]) \ Range(p)}
PathsFrom(g, s) == PathsExt(g, <<s>>)
Paths(g, s, t) == {p \in PathsFrom(g, s) : p[Len(p)] = t}
Reach(g, s) == {p[Len(p)] : p \in PathsFrom(g, s)}

\* a walk of the graph (what a returned path must be; it need not be simple)
IsWalk(g, p) == /\ Len(p) >= 1
                /\ \A i \in DOMAIN p : p[i] \in g.V
                /\ \A i \in 1..(Len(p) - 1) : Arc(g, p[i], p[i + 1])
HopCost(p) == Len(p) - 1
CheapestArc(g, u, v) == Min({g.E[i].w : i \in {j \in DOMAIN g.E : g.E[j].s = u /\ g.E[j].d = v}})
\* cost of a walk when every hop uses the cheapest parallel relationship
WalkCost(g, p) == SumF([i \in 1..(Len(p) - 1) |-> CheapestArc(g, p[i], p[i + 1])], 1..(Len(p) - 1))
Cost(g, metric, p) == IF metric = "hops" THEN HopCost(p) ELSE WalkCost(g, p)
OptCost(g, metric, s, t) == Min({Cost(g, metric, p) : p \in Paths(g, s, t)})

\* C26 "BFS and Dijkstra return a real path of optimal cost (or none when unreachable)"
\* P = Paths(g, s, t), passed in so that a caller can enumerate the simple paths of a source once
PathResultOKIn(g, P, metric, s, t, found, cost, path) ==
    IF P = {} THEN ~found
    ELSE /\ found
         /\ IsWalk(g, path) /\ path[1] = s /\ path[Len(path)] = t
         /\ Cost(g, metric, path) = cost
         /\ cost = Min({Cost(g, metric, p) : p \in P})
PathResultOK(g, metric, s, t, found, cost, path) == PathResultOKIn(g, Paths(g, s, t), metric, s, t, found, cost, path)
\* bfs_all_shortest_paths: exactly the minimum-hop paths (as a set)
AllShortest(g, s, t) == LET P == Paths(g, s, t) IN
                        IF P = {} THEN {} ELSE {p \in P : HopCost(p) = Min({HopCost(q) : q \in P})}

-----------------------------------------------------------------------------
(* components: equivalence classes of (mutual) reachability                  *)
SccClass(g, u) == {v \in Reach(g, u) : u \in Reach(g, v)}
WccClass(g, u) == Reach(Sym(g), u)
\* a labelling (nodes[i] has component id comp[i]) is the true partition
PartitionOK(g, nodes, comp, kind) ==
    LET cls == Force([u \in g.V |-> IF kind = "scc" THEN SccClass(g, u) ELSE WccClass(g, u)]) IN
    /\ Len(nodes) = Cardinality(g.V) /\ Range(nodes) = g.V /\ Len(comp) = Len(nodes)
    /\ \A i, j \in DOMAIN nodes : (comp[i] = comp[j]) <=> (nodes[j] \in cls[nodes[i]])
\* the component-id -> members map lists exactly the classes
GroupsOK(g, groups, kind) ==
    {Range(groups[i]) : i \in DOMAIN groups} =
        {IF kind = "scc" THEN SccClass(g, u) ELSE WccClass(g, u) : u \in g.V}
    /\ SumF([i \in DOMAIN groups |-> Len(groups[i])], DOMAIN groups) = Cardinality(g.V)

-----------------------------------------------------------------------------
(* max-flow = min cut (capacities of parallel relationships add up)          *)
CutCap(g, S) == LET X == {i \in DOMAIN g.E : g.E[i].s \in S /\ g.E[i].d \notin S}
                IN SumF([i \in X |-> g.E[i].w], X)
MinCut(g, s, t) == Min({CutCap(g, S \cup {s}) : S \in SUBSET (g.V \ {s, t})})

-----------------------------------------------------------------------------
(* minimum spanning tree of the start node's component of the UNDIRECTED     *)
(* multigraph: minimum over ALL spanning edge subsets                        *)
\* F (a set of edge indices) connects C
Connects(g, C, F) ==
    LET r == CHOOSE x \in C : TRUE
        RECURSIVE Grow(_)
        Grow(S) == LET T == S \cup {g.E[i].d : i \in {j \in F : g.E[j].s \in S}}
                                \cup {g.E[i].s : i \in {j \in F : g.E[j].d \in S}}
                   IN IF T = S THEN S ELSE Grow(T)
    IN Grow({r}) = C
MstWeight(g, start) ==
    LET C == WccClass(g, start)
        U == {i \in DOMAIN g.E : g.E[i].s \in C /\ g.E[i].s # g.E[i].d}
        Trees == {F \in SUBSET U : Cardinality(F) = Cardinality(C) - 1 /\ Connects(g, C, F)}
    IN Min({SumF([i \in F |-> g.E[i].w], F) : F \in Trees})
\* the returned tree: res = sequence of [u, v, w]
MstResultOK(g, start, total, res) ==
    LET C == WccClass(g, start)
        pair(r) == {r.u, r.v}
    IN /\ start \in g.V
       /\ Len(res) = Cardinality(C) - 1
       /\ \A k \in DOMAIN res :
             /\ res[k].u # res[k].v
             /\ \E i \in DOMAIN g.E : {g.E[i].s, g.E[i].d} = pair(res[k]) /\ g.E[i].w = res[k].w   \* a real relationship
       /\ \A a, b \in DOMAIN res : a # b => pair(res[a]) # pair(res[b])
       \* the chosen pairs connect the component (|C|-1 connecting edges = a spanning tree)
       /\ LET tg == [V |-> C, E |-> AsSeq([k \in DOMAIN res |-> [s |-> res[k].u, d |-> res[k].v, w |-> res[k].w]])]
          IN (\A k \in DOMAIN res : pair(res[k]) \subseteq C) /\ Reach(Sym(tg), start) = C
       /\ SumF([k \in DOMAIN res |-> res[k].w], DOMAIN res) = total
       /\ total = MstWeight(g, start)

\* Kruskal, used only as a second definition in the design check (MC_Algo)
RECURSIVE KruskalRun(_, _, _, _)
KruskalRun(g, todo, comp, acc) ==
    IF todo = {} THEN acc
    ELSE LET i == CHOOSE x \in todo : \A y \in todo : g.E[x].w <= g.E[y].w
             a == comp[g.E[i].s]
             b == comp[g.E[i].d]
         IN IF a = b THEN KruskalRun(g, todo \ {i}, comp, acc)
            ELSE KruskalRun(g, todo \ {i}, Force([v \in DOMAIN comp |-> IF comp[v] = b THEN a ELSE comp[v]]), acc + g.E[i].w)
Kruskal(g, start) == LET C == WccClass(g, start)
                     IN KruskalRun(g, {i \in DOMAIN g.E : g.E[i].s \in C}, [v \in g.V |-> v], 0)

-----------------------------------------------------------------------------
(* triangles and local clustering coefficients                               *)
\* topology.rs: direction and multiplicity ignored, each triangle once
Triangles(g) == Cardinality({T \in SUBSET g.V : Cardinality(T) = 3 /\ \A a, b \in T : a # b => Adj(g, a, b)})
\* leapfrog.rs count_triangles_leapfrog: "Triangle: (a)->(b)->(c)->(a).  For each edge (a,b), count |N_out(b) /\ N_in(a)|":
\* every relationship a->b contributes the number of nodes c with b->c and c->a (a directed 3-cycle is seen from each
\* of its relationships; N_out / N_in are sets of nodes)
LeapTriangles(g) == SumF([i \in DOMAIN g.E |-> Cardinality({c \in g.V : Arc(g, g.E[i].d, c) /\ Arc(g, c, g.E[i].s)})], DOMAIN g.E)
\* lcc.rs, undirected: N(v) = distinct neighbours in either direction except v;
\* LCC(v) = 2 * |{{a,b} subset of N(v) : a adjacent b}| / (d (d-1)), 0 when d < 2.   Returns <<numerator, denominator>>.
Nbrs(g, v) == {u \in g.V \ {v} : Adj(g, u, v)}
LccUndirected(g, v) ==
    LET N == Nbrs(g, v)
        d == Cardinality(N)
        links == Cardinality({P \in SUBSET N : Cardinality(P) = 2 /\ \A a, b \in P : a # b => Adj(g, a, b)})
    IN IF d < 2 THEN <<0, 1>> ELSE <<2 * links, d * (d - 1)>>
\* lcc.rs, directed = Fagiolo (2007) on the simple digraph A (self-loops and multiplicities dropped):
\*    LCC(i) = (A + A^T)^3_ii / (2 (d_tot (d_tot - 1) - 2 d_bi)),  d_tot = sum_j (a_ij + a_ji),  d_bi = sum_j a_ij a_ji
LccDirected(g, i) ==
    LET a(u, v) == IF u # v /\ Arc(g, u, v) THEN 1 ELSE 0
        b(u, v) == a(u, v) + a(v, u)
        VV == g.V \X g.V
        T == SumF([p \in VV |-> b(i, p[1]) * b(p[1], p[2]) * b(p[2], i)], VV)
        dtot == SumF([j \in g.V |-> b(i, j)], g.V)
        dbi == SumF([j \in g.V |-> a(i, j) * a(j, i)], g.V)
        den == 2 * (dtot * (dtot - 1) - 2 * dbi)
    IN IF T = 0 \/ den <= 0 THEN <<0, 1>> ELSE <<T, den>>
Lcc(g, directed, v) == IF directed THEN LccDirected(g, v) ELSE LccUndirected(g, v)

\* obs = round(x * 10^6) for the rational x = q[1] / q[2]   (small denominators only)
Mega == 1000000
RatOK(obs, q) == Abs(obs * q[2] - q[1] * Mega) <= q[2]

-----------------------------------------------------------------------------
(* CDLP (LDBC Graphalytics, synchronous): L0(v) = v;                         *)
(* L_{k+1}(v) = the smallest among the most frequent labels of v's           *)
(* neighbours, where every relationship end votes (an in- and an out-        *)
(* relationship to the same neighbour are two votes, as LDBC prescribes for  *)
(* directed graphs; parallel relationships and self-loops vote per end);     *)
(* a node without relationships keeps its label.                             *)
CdlpStep(g, L) ==
    Force([v \in g.V |->
        LET votes == [i \in OutIdx(g, v) |-> L[g.E[i].d]]
            votesIn == [i \in InIdx(g, v) |-> L[g.E[i].s]]
            ls == Range(votes) \cup Range(votesIn)
            cnt(x) == Cardinality({i \in OutIdx(g, v) : votes[i] = x}) + Cardinality({i \in InIdx(g, v) : votesIn[i] = x})
        IN IF ls = {} THEN L[v]
           ELSE LET mx == Max({cnt(x) : x \in ls}) IN Min({x \in ls : cnt(x) = mx})])
RECURSIVE CdlpIter(_, _, _)
CdlpIter(g, L, k) == IF k = 0 THEN L ELSE CdlpIter(g, CdlpStep(g, L), k - 1)
\* <<L0, L1, ..., Lk>>
RECURSIVE CdlpTraceFrom(_, _, _)
CdlpTraceFrom(g, tr, k) == IF k = 0 THEN tr ELSE CdlpTraceFrom(g, Append(tr, CdlpStep(g, tr[Len(tr)])), k - 1)
CdlpTrace(g, k) == CdlpTraceFrom(g, <<Force([v \in g.V |-> v])>>, k)
Cdlp(g, k) == CdlpIter(g, Force([v \in g.V |-> v]), k)

-----------------------------------------------------------------------------
(* PageRank (LDBC Graphalytics): PR_0(v) = 1/n,                              *)
(*   PR_{t+1}(v) = (1-d)/n + d * ( sum_{(u,v) in E} PR_t(u)/outdeg(u)        *)
(*                                 + [dangling] sum_{outdeg(u)=0} PR_t(u)/n )*)
(* for at most `iters` iterations, stopping early after the first iteration  *)
(* whose L1 change is < tolerance.  Exact rationals: a state is              *)
(* [num |-> [V -> Nat], D |-> Nat] meaning PR(v) = num[v]/D.                 *)
(* cfg = [dn, dd (damping = dn/dd), iters, tolD (tolerance = 1/tolD, 0 = no  *)
(* tolerance), dang].  TLC integers are 32-bit: callers keep n, the out-     *)
(* degrees and the iteration count small (overflow is a TLC error, never a   *)
(* silent wrong answer).                                                     *)
OutDeg(g, u) == Cardinality(OutIdx(g, u))
PRInit(g) == [num |-> Force([v \in g.V |-> 1]), D |-> Cardinality(g.V)]
PRReduce(st) == LET c == GcdSet(Range(st.num) \cup {st.D})
                IN IF c <= 1 THEN st ELSE [num |-> Force([v \in DOMAIN st.num |-> st.num[v] \div c]), D |-> st.D \div c]
\* unreduced successor: denominator dd * n * L * D
PRStepRaw(g, c, st) ==
    LET n == Cardinality(g.V)
        L == LcmSet({OutDeg(g, u) : u \in g.V} \ {0})
        dangSet == {u \in g.V : OutDeg(g, u) = 0}
        dang == IF c.dang THEN SumF(st.num, dangSet) ELSE 0
    IN [num |-> Force([v \in g.V |->
                    (c.dd - c.dn) * L * st.D
                    + c.dn * (SumF([i \in InIdx(g, v) |-> st.num[g.E[i].s] * n * (L \div OutDeg(g, g.E[i].s))], InIdx(g, v))
                              + dang * L)]),
        D |-> c.dd * n * L * st.D,
        k |-> c.dd * n * L]
RECURSIVE PRRun(_, _, _, _)
\* the SET of admissible final states (more than one only if an L1 change equals the tolerance exactly)
PRRun(g, c, st, left) ==
    IF left = 0 THEN {st}
    ELSE LET raw == PRStepRaw(g, c, st)
             nx == PRReduce([num |-> raw.num, D |-> raw.D])
             diff == SumF([v \in g.V |-> Abs(raw.num[v] - st.num[v] * raw.k)], g.V)     \* L1 change * raw.D
             q == IF c.tolD = 0 THEN 0 ELSE raw.D \div c.tolD
             r == IF c.tolD = 0 THEN 0 ELSE raw.D % c.tolD
             below == c.tolD # 0 /\ (diff < q \/ (diff = q /\ r > 0))                     \* diff/raw.D < 1/tolD
             exact == c.tolD # 0 /\ diff = q /\ r = 0
         IN IF below THEN {nx}
            ELSE IF exact THEN {nx} \cup PRRun(g, c, nx, left - 1)
            ELSE PRRun(g, c, nx, left - 1)
PageRank(g, c) == PRRun(g, c, PRInit(g), c.iters)

\* floor(num * 10^6 / D) without overflowing 32 bits (needs 10 * D < 2^31)
RECURSIVE LongDiv(_, _, _, _)
LongDiv(q, r, D, digits) == IF digits = 0 THEN q ELSE LongDiv(q * 10 + (r * 10) \div D, (r * 10) % D, D, digits - 1)
ScaledFloor(num, D) == LongDiv(num \div D, num % D, D, 6)
\* obs = round(score * 10^6) for the exact score num/D
ScoreOK(obs, num, D) == LET f == ScaledFloor(num, D) IN obs = f \/ obs = f + 1
\* nodes[i] scored val[i]
PageRankOK(g, c, nodes, val) ==
    /\ Len(nodes) = Cardinality(g.V) /\ Range(nodes) = g.V /\ Len(val) = Len(nodes)
    /\ \E st \in PageRank(g, c) : \A i \in DOMAIN nodes : ScoreOK(val[i], st.num[nodes[i]], st.D)
    \* "summing to one when dangling mass is redistributed" (each value is rounded to 10^-6)
    /\ (c.dang /\ g.V # {}) => Abs(SumF(val, DOMAIN val) - Mega) <= Len(val)
=============================================================================
