------------------------------- MODULE Quorum -------------------------------
(***************************************************************************)
(* Cluster membership and health of samyama-graph (src/raft/cluster.rs,    *)
(* ClusterConfig / ClusterManager).                                        *)
(*                                                                         *)
(* Abstract state (what the property talks about):                         *)
(*   member  id -> "voter" | "learner" for current members (last add wins) *)
(*   active  ids whose last heartbeat mark was "active" (not since marked  *)
(*           inactive or removed)                                          *)
(*   leader  members whose last recorded role is Leader                    *)
(* One action per public mutator: ClusterConfig::add_node (before the      *)
(* manager is built), add_node, remove_node, mark_active, mark_inactive,   *)
(* update_node_role.                                                       *)
(*                                                                         *)
(* Property C33: health_status().healthy => a leader is known /\ a strict  *)
(* majority of the DISTINCT voting members is active.  QuorumsIntersect is *)
(* the reason it matters; it is model-checked here and proved for all      *)
(* sizes in proofs/QuorumProof.tla (TLAPS).                                *)
(*                                                                         *)
(* `cfg` additionally mirrors the implementation's Vec<NodeConfig> as the  *)
(* pinned tree maintained it (push, never replace) so that the legacy      *)
(* health formula can be evaluated: LegacyHealthy is used by the self-test *)
(* configuration only (TLC must find the duplicate-id counterexample).     *)
(***************************************************************************)
EXTENDS Naturals, Sequences, FiniteSets

CONSTANT Ids

VARIABLES member, active, leader, cfg, up
qvars == <<member, active, leader, cfg, up>>

Members == DOMAIN member
Voters == {i \in Members : member[i] = "voter"}
Kind(v) == IF v THEN "voter" ELSE "learner"

QInit == member = <<>> /\ active = {} /\ leader = {} /\ cfg = <<>> /\ up = FALSE

Put(f, i, k) == [j \in DOMAIN f \cup {i} |-> IF j = i THEN k ELSE f[j]]
Drop(f, i) == [j \in DOMAIN f \ {i} |-> f[j]]

\* ClusterConfig::add_node, applied while building the initial configuration
CfgAdd(i, v) ==
    /\ ~up
    /\ member' = Put(member, i, Kind(v))
    /\ cfg' = Append(cfg, <<i, v>>)
    /\ UNCHANGED <<active, leader, up>>

\* ClusterManager::new: refused unless the configuration has a voter (replication factor 1)
Start(ok) ==
    /\ ~up
    /\ ok => Voters # {}
    /\ up' = ok
    /\ UNCHANGED <<member, active, leader, cfg>>

AddNode(i, v) ==
    /\ up
    /\ member' = Put(member, i, Kind(v))
    /\ leader' = leader \ {i}            \* metadata is re-initialised
    /\ cfg' = Append(cfg, <<i, v>>)
    /\ UNCHANGED <<active, up>>

RemoveNode(i) ==
    /\ up
    /\ member' = Drop(member, i)
    /\ active' = active \ {i}
    /\ leader' = leader \ {i}
    /\ cfg' = SelectSeq(cfg, LAMBDA e : e[1] # i)
    /\ UNCHANGED up

MarkActive(i) == up /\ active' = active \cup {i} /\ UNCHANGED <<member, leader, cfg, up>>
MarkInactive(i) == up /\ active' = active \ {i} /\ UNCHANGED <<member, leader, cfg, up>>

\* update_node_role for a current member (roles of non-members are not defined by the property)
SetRole(i, isLeader) ==
    /\ up /\ i \in Members
    /\ leader' = IF isLeader THEN leader \cup {i} ELSE leader \ {i}
    /\ UNCHANGED <<member, active, cfg, up>>

\* ---- the property ----
Majority(Q, V) == 2 * Cardinality(Q) > Cardinality(V)
HealthyAllowed == leader # {} /\ Majority(active \cap Voters, Voters)

\* what the pinned tree computed: counts configuration ENTRIES, not distinct ids
LegacyHealthy ==
    LET vs == SelectSeq(cfg, LAMBDA e : e[2])
        av == SelectSeq(vs, LAMBDA e : e[1] \in active)
    IN  Len(av) >= (Len(vs) \div 2) + 1 /\ leader # {}

LegacySound == LegacyHealthy => HealthyAllowed

\* any two active sets the health rule accepts share a voter
QuorumsIntersect ==
    \A Q1, Q2 \in SUBSET Voters : Majority(Q1, Voters) /\ Majority(Q2, Voters) => Q1 \cap Q2 # {}

TypeOK == /\ DOMAIN member \subseteq Ids
          /\ \A i \in DOMAIN member : member[i] \in {"voter", "learner"}
          /\ active \subseteq Ids /\ leader \subseteq Members
=============================================================================
