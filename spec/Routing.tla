------------------------------- MODULE Routing -------------------------------
(***************************************************************************)
(* Statements as the front ends of samyama-graph see them, and the         *)
(* natural-language pipeline (src/nlq/mod.rs: NLQPipeline::text_to_cypher  *)
(* = extract_cypher + is_safe_query, served by POST /api/nlq,              *)
(* src/http/handler.rs nlq_handler).                                       *)
(*                                                                         *)
(* PART 1 (shared by every front-end property, C23 and C24): a statement   *)
(* is a STRUCTURE                                                          *)
(*    ex    optional EXPLAIN / PROFILE                                     *)
(*    pre   leading read clauses (MATCH, OPTIONAL MATCH, UNWIND, WITH,     *)
(*          CALL, RETURN), any order                                       *)
(*    w     at most one write or DDL clause                                *)
(*    ret   a closing RETURN                                               *)
(*    kc    keyword letter case, sep: the blank between clauses            *)
(* rendered to its exact text with string concatenation.  IsWrite is       *)
(* decided by the structure, never by the text.                            *)
(*                                                                         *)
(* PART 2 (C24): a language-model response wraps a statement in markdown   *)
(* fences and prose.  Respond(r) is the pipeline: what it hands back is    *)
(* either a rejection or a statement.  Property C24: a statement that is   *)
(* handed back contains no write or DDL clause, whatever the response.     *)
(* NlqMode = "legacy" models the pinned tree exactly (line filter of       *)
(* extract_cypher, first-keyword test of is_safe_query) and is used for    *)
(* the self-test only; "parsed" decides on the structure of the extracted  *)
(* statement (the repaired tree).                                          *)
(***************************************************************************)
EXTENDS Naturals, Sequences, FiniteSets, TLC

CONSTANT NlqMode       \* "legacy" | "parsed"

VARIABLE out           \* what the last Respond handed back
rvars == <<out>>

\* ------------------------------------------------------------ PART 1: statements
ReadKinds == {"MATCH", "OPTMATCH", "UNWIND", "WITH", "CALL", "RETURN"}
\* SETW / CREATEW: a write FOLLOWED BY A PROJECTION (`SET n.p = 1 WITH n`, `CREATE (:Zed) WITH 1 AS w`): the write is not
\* the last clause before the closing RETURN, the shape only the clause-pipeline grammar accepts
ProjectedWrites == {"SETW", "CREATEW"}
DataWrites == {"CREATE", "MERGE", "SET", "SETLBL", "REMOVE", "DELETE", "DETACH", "FOREACH"} \cup ProjectedWrites
DdlWrites == {"CRINDEX", "CRCONS", "DRINDEX", "CRVEC", "CRHIER", "DRHIER"}
WriteKinds == DataWrites \cup DdlWrites
ExKinds == {"", "EXPLAIN", "PROFILE"}
SepKinds == {"sp", "tab", "nl"}
CaseKinds == {"upper", "lower"}

SepText(s) == CASE s = "sp" -> " " [] s = "tab" -> "\t" [] OTHER -> "\n"

\* clause texts over the fixed graph of the harness (Person{name,age}, City{name},
\* KNOWS, index :Person(name), unique constraint City.name, hierarchy index hx).
\* `bound`: a clause binding n precedes (MATCH, or the first OPTIONAL MATCH), so a
\* WITH can carry n along and SET / REMOVE / DELETE have something to work on.
ClauseText(k, kc, bound) ==
    LET U == kc = "upper" IN
    CASE k = "MATCH"    -> IF U THEN "MATCH (n:Person)" ELSE "match (n:Person)"
      [] k = "OPTMATCH" -> IF bound THEN (IF U THEN "OPTIONAL MATCH (m:City)" ELSE "optional match (m:City)")
                                     ELSE (IF U THEN "OPTIONAL MATCH (n:Person)" ELSE "optional match (n:Person)")
      [] k = "UNWIND"   -> IF U THEN "UNWIND [1] AS u" ELSE "unwind [1] as u"
      [] k = "WITH"     -> IF bound THEN (IF U THEN "WITH n" ELSE "with n")
                                    ELSE (IF U THEN "WITH 1 AS w" ELSE "with 1 as w")
      [] k = "CALL"     -> IF U THEN "CALL db.labels() YIELD label" ELSE "call db.labels() yield label"
      [] k = "RETURN"   -> IF U THEN "RETURN 1 AS r" ELSE "return 1 as r"
      [] k = "TAIL"     -> IF U THEN "RETURN 1 AS z" ELSE "return 1 as z"
      [] k = "EXPLAIN"  -> IF U THEN "EXPLAIN" ELSE "explain"
      [] k = "PROFILE"  -> IF U THEN "PROFILE" ELSE "profile"
      [] k = "CREATE"   -> IF U THEN "CREATE (:Zed)" ELSE "create (:Zed)"
      [] k = "MERGE"    -> IF U THEN "MERGE (:Zed)" ELSE "merge (:Zed)"
      [] k = "SET"      -> IF U THEN "SET n.p = 1" ELSE "set n.p = 1"
      [] k = "SETW"     -> IF U THEN "SET n.p = 1 WITH n" ELSE "set n.p = 1 with n"
      [] k = "CREATEW"  -> IF U THEN "CREATE (:Zed) WITH 1 AS w" ELSE "create (:Zed) with 1 as w"
      [] k = "SETLBL"   -> IF U THEN "SET n:Extra" ELSE "set n:Extra"
      [] k = "REMOVE"   -> IF U THEN "REMOVE n.age" ELSE "remove n.age"
      [] k = "DELETE"   -> IF U THEN "DELETE n" ELSE "delete n"
      [] k = "DETACH"   -> IF U THEN "DETACH DELETE n" ELSE "detach delete n"
      [] k = "FOREACH"  -> IF U THEN "FOREACH (i IN [1] | CREATE (:Zed))" ELSE "foreach (i in [1] | create (:Zed))"
      [] k = "CRINDEX"  -> IF U THEN "CREATE INDEX ON :Person(age)" ELSE "create index on :Person(age)"
      [] k = "CRCONS"   -> IF U THEN "CREATE CONSTRAINT ON (p:Person) ASSERT p.name IS UNIQUE"
                                ELSE "create constraint on (p:Person) assert p.name is unique"
      [] k = "DRINDEX"  -> IF U THEN "DROP INDEX ON :Person(name)" ELSE "drop index on :Person(name)"
      [] k = "CRVEC"    -> IF U THEN "CREATE VECTOR INDEX vi FOR (v:Person) ON (v.emb) OPTIONS {dimensions: 2, similarity: 'cosine'}"
                                ELSE "create vector index vi for (v:Person) on (v.emb) options {dimensions: 2, similarity: 'cosine'}"
      [] k = "CRHIER"   -> IF U THEN "CREATE HIERARCHY INDEX hy ON ()-[:KNOWS]->()" ELSE "create hierarchy index hy on ()-[:KNOWS]->()"
      [] k = "DRHIER"   -> IF U THEN "DROP HIERARCHY INDEX hx" ELSE "drop hierarchy index hx"

\* the clause kinds of a statement, in order
Clauses(st) ==
    (IF st.ex = "" THEN <<>> ELSE <<st.ex>>) \o st.pre
        \o (IF st.w = "none" THEN <<>> ELSE <<st.w>>) \o (IF st.ret THEN <<"TAIL">> ELSE <<>>)

WellFormedStmt(st) ==
    /\ st.ex \in ExKinds /\ st.pre \in Seq(ReadKinds) /\ st.w \in WriteKinds \cup {"none"}
    /\ st.ret \in BOOLEAN /\ st.kc \in CaseKinds /\ st.sep \in SepKinds
    /\ st.pre # <<>> \/ st.w # "none" \/ st.ret
    /\ st.w \in ProjectedWrites => st.ret             \* a projection must be followed by something

\* is n bound before clause i of cl ?
BoundBefore(cl, i) == \E j \in 1..i - 1 : cl[j] \in {"MATCH", "OPTMATCH"}

StmtText(st) ==
    LET cl == Clauses(st)
        t[i \in 0..Len(cl)] ==
            IF i = 0 THEN ""
            ELSE t[i - 1] \o (IF i = 1 THEN "" ELSE SepText(st.sep)) \o ClauseText(cl[i], st.kc, BoundBefore(cl, i))
    IN  t[Len(cl)]

\* by structure: the statement changes the graph, an index or a constraint
IsWrite(st) == st.w # "none"
NoWriteIn(cl) == \A i \in DOMAIN cl : cl[i] \notin WriteKinds

\* ------------------------------------------------------------ PART 2: NLQ responses
WrapKinds == {"plain", "padded", "fence", "fence0", "prosefence", "proselines", "openfence", "inline"}
Fenced == {"fence", "fence0", "prosefence"}

RespText(st, wrap) ==
    LET q == StmtText(st) IN
    CASE wrap = "plain"      -> q
      [] wrap = "padded"     -> "  \n" \o q \o "  \n"
      [] wrap = "fence"      -> "```cypher\n" \o q \o "\n```"
      [] wrap = "fence0"     -> "```\n" \o q \o "\n```"
      [] wrap = "prosefence" -> "Here is the query:\n```cypher\n" \o q \o "\n```\nHope this helps!"
      [] wrap = "proselines" -> "To answer the question, use this:\n" \o q \o "\nThis returns the result."
      [] wrap = "openfence"  -> "```cypher\n" \o q
      [] wrap = "inline"     -> "Sure: " \o q

\* --- the pinned tree, clause by clause -------------------------------------
\* extract_cypher keeps, outside a closed fence, only the LINES that start with
\* MATCH RETURN WITH UNWIND CALL OPTIONAL (WHERE ORDER LIMIT); if no line is
\* kept it falls back to the whole response.  The result is described by the
\* clause kinds that survive; junk = prose is part of what is handed on.
LineKept(k) == k \in ReadKinds \cup {"TAIL"}
LegacyExtract(st, wrap) ==
    LET cl == Clauses(st)
        whole == [cl |-> cl, junk |-> wrap \in {"proselines", "inline"}]
    IN  IF wrap \in Fenced THEN [cl |-> cl, junk |-> FALSE]
        ELSE IF st.sep = "nl"
             THEN LET lines == IF wrap = "inline" THEN Tail(cl) ELSE cl     \* "Sure: <first clause>" is one prose line
                      kept == SelectSeq(lines, LineKept)
                  IN  IF kept # <<>> THEN [cl |-> kept, junk |-> FALSE] ELSE whole
             ELSE IF wrap # "inline" /\ LineKept(cl[1]) THEN [cl |-> cl, junk |-> FALSE] ELSE whole
\* is_safe_query: the first keyword is MATCH, RETURN, UNWIND, CALL or WITH
LegacySafe(x) == ~x.junk /\ x.cl # <<>> /\ x.cl[1] \in {"MATCH", "RETURN", "TAIL", "UNWIND", "CALL", "WITH"}

\* --- the repaired tree: safety is decided on the structure of the extracted statement
ParsedSafe(x) == ~x.junk /\ x.cl # <<>> /\ NoWriteIn(x.cl)

Pipeline(st, wrap) ==
    LET x == LegacyExtract(st, wrap)
        safe == IF NlqMode = "legacy" THEN LegacySafe(x) ELSE ParsedSafe(x)
    IN  IF safe THEN [res |-> "ok", cl |-> x.cl] ELSE [res |-> "rejected", cl |-> <<>>]

RInit == out = [res |-> "none", cl |-> <<>>]

\* NLQPipeline::text_to_cypher when the model answered RespText(st, wrap)
Respond(st, wrap) == out' = Pipeline(st, wrap)

\* ---- C24 ----
NeverHandsBackAWrite == out.res = "ok" => NoWriteIn(out.cl)
TypeOK == out.res \in {"none", "ok", "rejected"}
=============================================================================
