------------------------------ MODULE ColumnMap ------------------------------
(***************************************************************************)
(* Column store of samyama-graph (src/graph/storage/columnar.rs,            *)
(* ColumnStore / Column / ColumnData).                                      *)
(*                                                                          *)
(* The implementation keeps one column per property key and switches each   *)
(* column between representations: Sparse hash map, Dense {base, values,    *)
(* presence bitmap, count} (promotion when the entry count crosses a power  *)
(* of two >= 1024 and dense_is_smaller(span, entries, elem) holds; growth    *)
(* upward, rebase downward, demotion to sparse when a write lands outside   *)
(* the span and the wider span no longer pays), and the untyped `Other` map *)
(* (type spill: a value the typed column cannot hold moves the whole column *)
(* there).  Property C30 says none of this is observable: the store is the  *)
(* map  (row, key) -> value.                                                *)
(*                                                                          *)
(* Abstract state = that map, written `Cell(r, k)`.  It is represented by   *)
(*   fills  the bulk loads performed so far, in order.  A bulk load is a    *)
(*          loop of `set_property` calls over rows lo, lo+step, ... (n of   *)
(*          them) writing the row-dependent value Val(kind, row); its       *)
(*          effect is kept symbolically so that a 1024-row column does not  *)
(*          make every TLC state 1024 entries big;                          *)
(*   m      the cells written individually since ( <<row, key>> -> token ), *)
(*          with the token ABSENT for a removed/cleared cell that a bulk    *)
(*          load would otherwise still cover.                               *)
(*   wr     = DOMAIN m, kept as a set of its own only because TLC tests      *)
(*          membership in a set much faster than in the domain of a function *)
(*   cols   the property keys that have a column (ColumnStore::names: a      *)
(*          column is created by the first write of its key and never        *)
(*          dropped; clear_row and get_property_keys range over it).         *)
(* m never holds ABSENT for a cell no bulk load covers (normal form, so     *)
(* that equal maps are equal states).                                       *)
(*                                                                          *)
(* Values are opaque tokens ("i:5", "s:x", "f:2.5", "b:true", "o:..." for   *)
(* the variants without a typed column, "null" for PropertyValue::Null).    *)
(*                                                                          *)
(* One action per public mutator of ColumnStore: set_property, remove_      *)
(* property, clear_row (+ the bulk loader).  Read views: get_property and   *)
(* get_property_keys.                                                       *)
(*                                                                          *)
(* Set(r, k, "null"): the property says a read returns "the last value set  *)
(* (null if removed or cleared)", so the read after an explicit null write  *)
(* is defined (null) and is checked.  Whether the key of such a cell is     *)
(* "a key that holds a value" is NOT defined by the property (the code      *)
(* lists it, its doc comment says it would not); KeysOK leaves exactly that *)
(* membership open and nothing else.                                        *)
(***************************************************************************)
EXTENDS Naturals, Sequences, FiniteSets, TLC

VARIABLES m, wr, fills, cols
cvars == <<m, wr, fills, cols>>

ABSENT == "ABSENT"
NULL == "null"

\* the value a bulk load writes at row r
Val(kind, r) ==
    CASE kind = "int"   -> "i:" \o ToString(r)
      [] kind = "str"   -> "s:" \o ToString(r)
      [] kind = "float" -> "f:" \o ToString(r) \o ".5"
      [] kind = "bool"  -> IF r % 2 = 0 THEN "b:true" ELSE "b:false"
Kinds == {"int", "str", "float", "bool"}

FillRows(f) == {f.lo + j * f.step : j \in 0..(f.n - 1)}
Covers(f, r, k) == /\ f.key = k
                   /\ r >= f.lo
                   /\ r <= f.lo + (f.n - 1) * f.step
                   /\ (r - f.lo) % f.step = 0
CoveredBy(fs, r, k) == {i \in DOMAIN fs : Covers(fs[i], r, k)}
MaxOf(S) == CHOOSE x \in S : \A y \in S : y <= x

\* the map
CellOf(mm, ww, fs, r, k) ==
    IF <<r, k>> \in ww THEN mm[<<r, k>>]
    ELSE LET hits == CoveredBy(fs, r, k)
         IN  IF hits = {} THEN ABSENT ELSE Val(fs[MaxOf(hits)].kind, r)
Cell(r, k) == CellOf(m, wr, fills, r, k)

KnownKeys == cols

CInit == m = <<>> /\ wr = {} /\ fills = <<>> /\ cols = {}

\* m with cell p set to token v (ABSENT = erase), kept in normal form
Erases(fs, p, v) == v = ABSENT /\ CoveredBy(fs, p[1], p[2]) = {}
Write(mm, ww, fs, p, v) ==
    IF Erases(fs, p, v)
    THEN (IF p \in ww THEN [q \in ww \ {p} |-> mm[q]] ELSE mm)
    ELSE IF p \in ww THEN [mm EXCEPT ![p] = v] ELSE (p :> v) @@ mm
WriteDom(ww, fs, p, v) == IF Erases(fs, p, v) THEN ww \ {p} ELSE ww \cup {p}

\* ---- ColumnStore::set_property(row, key, value) ----
Set(r, k, v) ==
    /\ v # ABSENT
    /\ m' = Write(m, wr, fills, <<r, k>>, v)
    /\ wr' = WriteDom(wr, fills, <<r, k>>, v)
    /\ cols' = cols \cup {k}
    /\ UNCHANGED fills

\* ---- ColumnStore::remove_property(row, key) ----
Remove(r, k) ==
    /\ m' = Write(m, wr, fills, <<r, k>>, ABSENT)
    /\ wr' = WriteDom(wr, fills, <<r, k>>, ABSENT)
    /\ UNCHANGED <<fills, cols>>

\* ---- ColumnStore::clear_row(row): every key of the row ----
ClearRow(r) ==
    /\ LET covered == {k \in KnownKeys : CoveredBy(fills, r, k) # {}}
           dom == {p \in wr : p[1] # r} \cup {<<r, k>> : k \in covered}
       IN  m' = [p \in dom |-> IF p[1] = r THEN ABSENT ELSE m[p]] /\ wr' = dom
    /\ UNCHANGED <<fills, cols>>

\* ---- the loader: for j in 0..n-1: set_property(lo + j*step, key, Val(kind, row)) ----
Fill(k, lo, n, step, kind) ==
    /\ n >= 1 /\ step >= 1 /\ kind \in Kinds
    /\ LET f == [key |-> k, lo |-> lo, n |-> n, step |-> step, kind |-> kind]
       IN  /\ fills' = Append(fills, f)
           /\ cols' = cols \cup {k}
           /\ wr' = {q \in wr : ~Covers(f, q[1], q[2])}
           /\ m' = [p \in wr' |-> m[p]]

\* ---- what the pinned history of this file did before #594 (self-test only):
\* ---- remove_property did not exist, the column kept its copy
LegacyRemove(r, k) == UNCHANGED <<m, wr, fills, cols>>

\* ---- read views (explicit-state versions are used by the trace specification on the
\* ---- successor state) ----
\* get_property: the last value set, null if never set / removed / cleared
GetOf(mm, ww, fs, r, k) == LET c == CellOf(mm, ww, fs, r, k) IN IF c = ABSENT THEN NULL ELSE c
Get(r, k) == GetOf(m, wr, fills, r, k)

HoldsOf(mm, ww, fs, r, k) == CellOf(mm, ww, fs, r, k) \notin {ABSENT, NULL}  \* certainly "holds a value"
WrittenOf(mm, ww, fs, r, k) == CellOf(mm, ww, fs, r, k) # ABSENT             \* a value or an explicit null
Holds(r, k) == HoldsOf(m, wr, fills, r, k)
Written(r, k) == WrittenOf(m, wr, fills, r, k)
ToSet(s) == {s[i] : i \in DOMAIN s}

\* get_property_keys(row) returned the sequence ks
KeysOKOf(mm, ww, fs, cs, r, ks) ==
    /\ Cardinality(ToSet(ks)) = Len(ks)                                        \* each key once
    /\ \A k \in ToSet(ks) : WrittenOf(mm, ww, fs, r, k)                            \* not removed / cleared / never set
    /\ \A k \in cs : HoldsOf(mm, ww, fs, r, k) => k \in ToSet(ks)  \* every key holding a value
KeysOK(r, ks) == KeysOKOf(m, wr, fills, cols, r, ks)

TypeOK ==
    /\ wr = DOMAIN m
    /\ \A p \in wr : m[p] = ABSENT => CoveredBy(fills, p[1], p[2]) # {}
=============================================================================
