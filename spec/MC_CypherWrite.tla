--------------------------- MODULE MC_CypherWrite ---------------------------
(* Model-checking wrapper of CypherWrite: statement generators for the three    *)
(* properties (Mode), history, the action-level design properties.              *)
(*   Mode "C11"  histories of single-node statements over <= 3 tagged nodes      *)
(*               (p = tag, so that MATCH (n {p: tag}) addresses one node without *)
(*               touching any index), values {1,2} for the constrained key k,    *)
(*               constraint :A(k) created at any point of the history            *)
(*   Mode "C05"  a set-up prefix (constraint first, then <= 3 CREATEs) followed  *)
(*               by ONE multi-row statement in which any row may fail: zero      *)
(*               divisor, bad operand type, duplicate constrained value          *)
(*   Mode "C05DEL" (C05) EVERY sequence of: (:A)-[:T]->(:B), up to two further    *)
(*               relationships on either end (other type, other direction, same  *)
(*               type to another node), then ONE plain DELETE naming a node and  *)
(*               some, all or none of its relationships, the names in any order  *)
(*   Mode "TYPED" (C04) EVERY sequence CREATE (:A {k: v0}) ; <write k = v1> ;       *)
(*               <write k = v2> with v over Integer 1, 2 and Float 1.0, 2.0 and    *)
(*               the write one of SET n.k = v, SET n += {k: v}, MERGE (n:A) ON    *)
(*               MATCH SET n.k = v, MERGE (n:B) ON CREATE SET / ON MATCH SET:     *)
(*               a stored value is observed WITH its type (tokens "i2" / "f2")    *)
(*   Mode "C04"  sequences over the whole write fragment, no constraints         *)
(*   Mode "HUB"  (C04) EVERY sequence of: a hub :A, 3..5 targets :B, one           *)
(*               relationship hub->target per target in varying orders, the      *)
(*               deletion of one (two) of them by DELETE r or by DETACH DELETE   *)
(*               of the target, then MERGE (hub)-[:T]->(target) towards every    *)
(*               target still linked, in every order                            *)
EXTENDS CypherWrite, Json

CONSTANTS Mode, MaxHist,
          UseKF,        \* deviation actions also taken by Next (self-test / witness search)
          ListLen,      \* C05: UNWIND lists of length 1..ListLen
          Rich,         \* C04/C05: larger alphabets (thorough tier)
          Sim,          \* TRUE under -simulate: a walk that reached MaxHist statements prints itself
          HubSizes,     \* HUB: numbers of targets, e.g. {3, 4}
          HubDels,      \* HUB: deletions before the MERGEs (1 or 2)
          HubAllOrders  \* HUB: TRUE every order of creating the relationships, FALSE ascending and descending only

VARIABLES hist, last, phase
vars == <<G, hist, last, phase>>

\* ------------------------------------------------------------------ AST constructors
None == [e |-> "none"]
Lit(v) == [e |-> "lit", v |-> v]
X == [e |-> "x"]
DivX(v) == [e |-> "div", v |-> v]
Props(k, p) == [k |-> k, p |-> p]
NP(ls, k, p) == [labels |-> ls, props |-> Props(k, p)]
NoSrc == [kind |-> "none"]
Match(np) == [kind |-> "match", n |-> np]
MatchWith(np) == [kind |-> "matchwith", n |-> np]
Match2(a, b) == [kind |-> "match2", n |-> a, m |-> b]
MatchRel(a, t, b) == [kind |-> "matchrel", n |-> a, m |-> b, t |-> t]
Unwind(l) == [kind |-> "unwind", list |-> l]
W(src, w, ret) == [kind |-> "write", src |-> src, w |-> w, ret |-> ret]
Create(np) == [kind |-> "create", n |-> np]
Var(v) == [kind |-> "var", var |-> v]
New(np) == [kind |-> "new", n |-> np]
CreateRel(s, t, pr, d) == [kind |-> "createrel", src |-> s, dst |-> d, t |-> t, props |-> pr]
MergeRel(t) == [kind |-> "mergerel", t |-> t]
Merge(np, oc, om) == [kind |-> "merge", n |-> np, oncreate |-> oc, onmatch |-> om]
SetP(key, e) == [kind |-> "prop", key |-> key, val |-> e]
SetM(k, p) == [kind |-> "map", props |-> Props(k, p)]
SetL(l) == [kind |-> "label", label |-> l]
Set(items) == [kind |-> "set", items |-> items]
RemP(key) == [kind |-> "prop", key |-> key]
RemL(l) == [kind |-> "label", label |-> l]
Rem(items) == [kind |-> "remove", items |-> items]
DeleteMany(vs) == [kind |-> "deletemany", vars |-> vs, detach |-> FALSE]
Delete(v, detach) == [kind |-> "delete", var |-> v, detach |-> detach]
RetProp(v, key) == [e |-> "vprop", var |-> v, key |-> key]
Constraint(l, key) == [kind |-> "constraint", label |-> l, key |-> key]

\* ------------------------------------------------------------------ C11 alphabet
Tags == {"i1", "i2", "i3"}
UsedTags == {G.nodes[i].props["p"] : i \in LiveN(G)}
FreeTag == CHOOSE t \in Tags \ UsedTags : \A u \in Tags \ UsedTags : IntOf(t) <= IntOf(u)
ByTag(t) == Match(NP(<<>>, None, Lit(t)))
C11Stmts ==
    {Constraint("A", "k")}
    \cup (IF Tags \ UsedTags = {} THEN {}
          ELSE {W(NoSrc, Create(NP(<<l>>, kv, Lit(FreeTag))), <<>>) : l \in {"A", "B"}, kv \in {None, Lit("i1"), Lit("i2")}})
    \cup UNION {{W(ByTag(t), Set(<<SetP("k", Lit("i1"))>>), <<>>),
                 W(ByTag(t), Set(<<SetP("k", Lit("i2"))>>), <<>>),
                 W(ByTag(t), Rem(<<RemP("k")>>), <<>>),
                 W(ByTag(t), Set(<<SetP("k", Lit("null"))>>), <<>>),      \* SET n.k = null releases the value like REMOVE
                 W(ByTag(t), Delete("n", FALSE), <<>>),
                 W(ByTag(t), Set(<<SetL("A")>>), <<>>),
                 W(ByTag(t), Rem(<<RemL("A")>>), <<>>)} : t \in UsedTags}

\* ------------------------------------------------------------------ C05 alphabet
\* set-up: the constraint first, then nodes whose p feeds the divisions and whose k can collide
C05Setup ==
    IF hist = <<>> THEN {Constraint("A", "k")}
    ELSE IF Cardinality(LiveN(G)) >= 3 THEN {}
    ELSE {W(NoSrc, Create(NP(<<"A">>, None, Lit(pv))), <<>>) : pv \in {"i1", "i2", "i0", "sa"} \cup (IF Rich THEN {"i5"} ELSE {})}
         \cup {W(NoSrc, Create(NP(<<"A">>, Lit("i10"), None)), <<>>)}
         \cup {W(NoSrc, Create(NP(<<"B">>, Lit(kv), None)), <<>>) : kv \in {"i10", "i5"}}
ListVals == {"i1", "i2", "i0", "sa"} \cup (IF Rich THEN {"i5"} ELSE {})
Lists == UNION {[1..n -> ListVals] : n \in 1..ListLen}
\* the multi-row statements: row i fails when 10/x (10/n.p) has a zero or non-numeric divisor or yields a value
\* another :A node already holds
C05Faulty ==
    (IF Cardinality(LiveN(G)) <= 1
     THEN {W(Unwind(l), Create(NP(<<"A">>, DivX("i10"), None)), <<>>) : l \in Lists}
          \cup {W(Unwind(l), Merge(NP(<<"A">>, DivX("i10"), None), <<>>, <<>>), <<>>) : l \in Lists}
     ELSE {})
    \cup {W(Match(NP(<<"A">>, None, None)), Set(<<SetP("k", [e |-> "divprop", v |-> "i10", key |-> "p"])>>), <<>>),
          \* several SET items in one row: all right-hand sides are evaluated against the pre-SET row, so a failing
          \* later item must leave the earlier items of the same row unapplied (SET n.p = 2, n.k = 10 / n.p)
          W(Match(NP(<<"A">>, None, None)), Set(<<SetP("p", Lit("i2")), SetP("k", [e |-> "divprop", v |-> "i10", key |-> "p"])>>), <<>>),
          W(Match(NP(<<"B">>, None, None)), Set(<<SetL("A")>>), <<>>),
          W(Match(NP(<<"A">>, None, None)), Create(NP(<<"A">>, [e |-> "divprop", v |-> "i10", key |-> "p"], None)), <<>>)}

\* ------------------------------------------------------------------ C05DEL family
NA0 == NP(<<"A">>, None, None)
NB0 == NP(<<"B">>, None, None)
A1 == NP(<<"A">>, Lit("i1"), None)
B1 == NP(<<"B">>, Lit("i1"), None)
NoP == Props(None, None)
DelBase == W(NoSrc, CreateRel(New(A1), "T", NoP, New(B1)), <<>>)
\* a further relationship that the DELETE below may or may not name
DelExtras ==
    {W(Match2(A1, B1), CreateRel(Var("n"), "U", NoP, Var("m")), <<>>),                                   \* other type, same pair
     W(Match2(A1, B1), CreateRel(Var("m"), "T", NoP, Var("n")), <<>>),                                   \* other direction
     W(Match2(A1, B1), CreateRel(Var("n"), "T", NoP, Var("m")), <<>>),                                   \* parallel, same type
     W(Match(A1), CreateRel(Var("n"), "T", NoP, New(NP(<<"B">>, Lit("i2"), None))), <<>>),               \* same type, other node
     W(Match(A1), CreateRel(New(NP(<<"B">>, Lit("i2"), None)), "U", NoP, Var("n")), <<>>),               \* incoming, other node
     W(Match(B1), CreateRel(Var("n"), "T", NoP, New(NP(<<"A">>, Lit("i2"), None))), <<>>),               \* the far end keeps one
     W(Match(B1), CreateRel(New(NP(<<"A">>, Lit("i2"), None)), "T", NoP, Var("n")), <<>>)}
DelVars == {<<"n", "r">>, <<"r", "n">>, <<"n", "r", "m">>, <<"m", "r", "n">>, <<"r", "m">>, <<"n", "m">>}
DelFaulty ==
    {W(MatchRel(A1, "T", B1), DeleteMany(vs), <<>>) : vs \in DelVars}
    \cup {W(MatchRel(NA0, "T", NB0), DeleteMany(vs), <<>>) : vs \in DelVars}
DelStmts == IF hist = <<>> THEN {DelBase}
            ELSE IF phase # 0 THEN {}
            ELSE DelFaulty \cup (IF Len(hist) < 3 THEN DelExtras ELSE {})

\* ------------------------------------------------------------------ C04 alphabet
V2 == {"i1", "i2"}
NA == NP(<<"A">>, None, None)
NB == NP(<<"B">>, None, None)
C04Stmts ==
    \* CREATE of nodes and paths, with and without RETURN
    {W(NoSrc, Create(NP(<<l>>, Lit(v), None)), <<>>) : l \in {"A", "B"}, v \in V2}
    \cup {W(NoSrc, Create(NP(<<"A">>, Lit("i1"), Lit("i2"))), <<RetProp("c", "k"), RetProp("c", "p")>>),
          W(NoSrc, Create(NP(<<>>, Lit("i1"), None)), <<>>),
          W(NoSrc, Create(NP(<<"A", "B">>, Lit("i2"), None)), <<>>),
          W(NoSrc, CreateRel(New(NP(<<"A">>, Lit("i1"), None)), "T", Props(None, Lit("i1")), New(NP(<<"B">>, Lit("i2"), None))), <<>>),
          W(Match2(NA, NB), CreateRel(Var("n"), "T", Props(None, None), Var("m")), <<>>),
          W(Match(NA), CreateRel(Var("n"), "T", Props(None, None), New(NP(<<"B">>, [e |-> "prop", key |-> "k"], None))), <<>>),
          W(Unwind(<<"i1", "i2">>), Create(NP(<<"A">>, X, None)), <<[e |-> "x"]>>)}
    \* MERGE
    \cup {W(NoSrc, Merge(NP(<<"A">>, Lit(v), None), <<SetP("p", Lit("i1"))>>, <<SetP("p", Lit("i2"))>>), <<RetProp("n", "p")>>) : v \in V2}
    \cup {W(NoSrc, Merge(NP(<<>>, Lit("i1"), None), <<>>, <<>>), <<>>),
          W(NoSrc, Merge(NP(<<"B">>, None, None), <<>>, <<SetP("k", Lit("i2"))>>), <<>>),
          W(Unwind(<<"i1", "i1", "i2">>), Merge(NP(<<"B">>, X, None), <<>>, <<>>), <<>>),
          W(Match2(NA, NB), MergeRel("T"), <<>>)}
    \* SET
    \cup {W(Match(NA), Set(<<SetP("k", Lit(v))>>), <<RetProp("n", "k")>>) : v \in V2}
    \cup {W(Match(NA), Set(<<SetP("p", [e |-> "prop", key |-> "k"])>>), <<>>),
          W(Match(NA), Set(<<SetP("k", [e |-> "propadd", key |-> "k", v |-> "i1"])>>), <<>>),
          W(Match(NB), Set(<<SetP("k", [e |-> "prop", key |-> "p"]), SetP("p", [e |-> "prop", key |-> "k"])>>), <<>>),
          W(Match(NA), Set(<<SetM(Lit("i2"), Lit("i1"))>>), <<>>),
          W(Match(NB), Set(<<SetM(None, Lit("i2"))>>), <<>>),
          W(Match(NB), Set(<<SetL("A")>>), <<>>),
          W(Match(NA), Set(<<SetP("k", Lit("null"))>>), <<>>),
          W(Match(NA), Set(<<SetP("p", [e |-> "divlit", v |-> "i1", w |-> "i0"])>>), <<>>),
          W(Match(NP(<<"A">>, Lit("i1"), None)), Set(<<SetP("k", Lit("i2"))>>), <<>>)}
    \* REMOVE
    \cup {W(Match(NA), Rem(<<RemP("k")>>), <<RetProp("n", "k")>>),
          W(Match(NB), Rem(<<RemP("p"), RemL("B")>>), <<>>),
          W(Match(NA), Rem(<<RemL("A")>>), <<>>)}
    \* DELETE
    \cup {W(Match(NA), Delete("n", FALSE), <<>>),
          W(Match(NB), Delete("n", FALSE), <<>>),
          W(Match(NA), Delete("n", TRUE), <<>>),
          W(Match(NP(<<>>, Lit("i1"), None)), Delete("n", TRUE), <<>>),
          W(MatchRel(NA, "T", NB), Delete("r", FALSE), <<>>)}
    \cup (IF Rich
          THEN {W(NoSrc, CreateRel(New(NP(<<"B">>, Lit("i1"), None)), "T", Props(Lit("i2"), None), New(NP(<<"B">>, Lit("i1"), None))), <<>>),
                W(Match2(NB, NB), CreateRel(Var("n"), "T", Props(None, Lit("i1")), Var("m")), <<>>),
                W(MatchRel(NA, "T", NB), Delete("m", FALSE), <<>>),
                W(MatchRel(NA, "T", NB), Delete("n", TRUE), <<>>),
                W(Match(NB), Set(<<SetP("k", [e |-> "propadd", key |-> "p", v |-> "i1"])>>), <<RetProp("n", "k")>>),
                W(Unwind(<<"i2", "i1">>), Merge(NP(<<"A">>, X, None), <<SetP("p", X)>>, <<SetL("B")>>), <<RetProp("n", "p")>>),
                \* the same writes behind a WITH (planned as a clause pipeline)
                W(MatchWith(NA), Set(<<SetP("k", Lit("i2"))>>), <<RetProp("n", "k")>>),
                W(MatchWith(NB), Rem(<<RemP("k"), RemL("B")>>), <<>>),
                W(MatchWith(NA), Delete("n", FALSE), <<>>),
                W(MatchWith(NB), Delete("n", TRUE), <<>>),
                W(MatchWith(NA), Set(<<SetL("B")>>), <<>>)}
          ELSE {})

\* ------------------------------------------------------------------ TYPED family (C04)
\* "f1" / "f2" are the Floats 1.0 / 2.0: numerically equal to "i1" / "i2", different values of a different type
TypedVals == {"i1", "f1", "i2", "f2"}
TypedStmts ==
    IF hist = <<>> THEN {W(NoSrc, Create(NP(<<"A">>, Lit(v), None)), <<>>) : v \in TypedVals}
    ELSE UNION {{W(Match(NA), Set(<<SetP("k", Lit(v))>>), <<RetProp("n", "k")>>),
                 W(Match(NA), Set(<<SetM(Lit(v), None)>>), <<>>),
                 W(NoSrc, Merge(NA, <<>>, <<SetP("k", Lit(v))>>), <<RetProp("n", "k")>>),
                 W(NoSrc, Merge(NB, <<SetP("k", Lit(v))>>, <<SetP("k", Lit(v))>>), <<>>)} : v \in TypedVals}

\* ------------------------------------------------------------------ HUB family (C04)
\* the state of a script is read off the graph and the history; phase = 0 until the first deletion, then 1 + deletions
HubT(x) == NP(<<"B">>, Lit(x), None)
HubTargets(g) == {g.nodes[i].props["k"] : i \in {j \in LiveN(g) : "B" \in g.nodes[j].labels}}
HubLinked(g, x) == \E e \in LiveE(g) : "B" \in g.nodes[g.rels[e].dst].labels /\ g.nodes[g.rels[e].dst].props["k"] = x
HubMerged(h) == {h[j].st.src.m.props.k.v : j \in {i \in DOMAIN h : h[i].st.kind = "write" /\ h[i].st.w.kind = "mergerel"}}
IsDeletion(st) == st.kind = "write" /\ st.w.kind = "delete"
Least(S) == CHOOSE x \in S : \A y \in S : IntOf(x) <= IntOf(y)
Greatest(S) == CHOOSE x \in S : \A y \in S : IntOf(x) >= IntOf(y)
HubLink(x) == W(Match2(NA, HubT(x)), CreateRel(Var("n"), "T", Props(None, None), Var("m")), <<>>)
HubDeletions(S) == {W(MatchRel(NA, "T", HubT(x)), Delete("r", FALSE), <<>>) : x \in S}
                   \cup {W(Match(HubT(x)), Delete("n", TRUE), <<>>) : x \in S}
\* with and without RETURN: towards even targets the statement returns m.k
HubMerge(x) == W(Match2(NA, HubT(x)), MergeRel("T"), IF IntOf(x) % 2 = 0 THEN <<RetProp("m", "k")>> ELSE <<>>)
HubStmts ==
    LET all == HubTargets(G)
        linked == {x \in all : HubLinked(G, x)}
        unlinked == all \ linked
    IN IF hist = <<>> THEN {W(NoSrc, Create(NA), <<>>)}
       ELSE IF Len(hist) = 1 THEN {W(Unwind([j \in 1..n |-> IntTokF[j]]), Create(NP(<<"B">>, X, None)), <<>>) : n \in HubSizes}
       ELSE IF phase = 0
            THEN IF unlinked # {}
                 THEN {HubLink(x) : x \in IF HubAllOrders THEN unlinked
                                          ELSE IF linked = {} THEN {Least(unlinked), Greatest(unlinked)}
                                          ELSE IF Least(all) \in linked THEN {Least(unlinked)} ELSE {Greatest(unlinked)}}
                 ELSE HubDeletions(linked)
       ELSE IF phase < 1 + HubDels THEN HubDeletions(linked)
       ELSE {HubMerge(x) : x \in linked \ HubMerged(hist)}
\* the script is complete: every target that is still linked has been merged towards
HubDone(g, h, ph) == ph = 1 + HubDels /\ {x \in HubTargets(g) : HubLinked(g, x)} \subseteq HubMerged(h)

\* ------------------------------------------------------------------ next-state relation
Init == G = EmptyGraph /\ hist = <<>> /\ last = [err |-> FALSE, st |-> [kind |-> "none"]] /\ phase = 0

Candidates ==
    CASE Mode = "C11" -> C11Stmts
      [] Mode = "C05" -> IF phase = 0 THEN C05Setup \cup (IF hist = <<>> THEN {} ELSE C05Faulty) ELSE {}
      [] Mode = "C04" -> C04Stmts
      [] Mode = "HUB" -> HubStmts
      [] Mode = "TYPED" -> TypedStmts
      [] Mode = "C05DEL" -> DelStmts
IsFaulty(st) == \/ Mode = "C05" /\ st.kind = "write" /\ st.src.kind # "none"     \* (= st \in C05Faulty, without building the set)
                \/ Mode = "C05DEL" /\ st.w.kind = "deletemany"

\* would the evaluator run out of ids? (the bounded universes are a model artefact, not behaviour)
NewNodesPerRow(w) == CASE w.kind = "create" -> 1
                       [] w.kind = "merge" -> 1
                       [] w.kind = "createrel" -> (IF w.src.kind = "new" THEN 1 ELSE 0) + (IF w.dst.kind = "new" THEN 1 ELSE 0)
                       [] OTHER -> 0
Fits(st, rows) == /\ Cardinality(LiveN(G)) + NewNodesPerRow(st.w) * Len(rows) <= MaxN
                  /\ Cardinality(LiveE(G)) + (IF st.w.kind \in {"createrel", "mergerel"} THEN Len(rows) ELSE 0) <= MaxE

\* every order of the matched rows while there are few of them; beyond that one order (the row orders multiply the
\* successors without reaching new graphs; the trace specification still accepts every order)
GenTables(src) == IF Cardinality(RowSet(G, src)) <= 3 THEN RowTables(G, src) ELSE {SetToSortSeq(RowSet(G, src), RowLess)}

DoStmt ==
    /\ Len(hist) < MaxHist             \* (a guard rather than a CONSTRAINT: nothing is computed beyond the bound)
    /\ \E st \in Candidates :
        /\ hist' = Append(hist, [op |-> "Stmt", st |-> st])
        /\ phase' = IF IsFaulty(st) THEN 1
                    ELSE IF Mode = "HUB" /\ IsDeletion(st) THEN (IF phase = 0 THEN 2 ELSE phase + 1)
                    ELSE phase
        /\ IF st.kind = "constraint"
           THEN LET err == HasDuplicate(G, st.label, st.key) IN
                /\ CreateConstraint(st, err, IF err THEN G ELSE [G EXCEPT !.cons = @ \cup {ConsName(st.label, st.key)}])
                /\ last' = [err |-> err, st |-> st]
           ELSE \E rows \in GenTables(st.src) :
                    /\ Fits(st, rows)
                    /\ LET r == Exec(G, st, rows) IN
                       \/ StmtR(r, r.err, IF r.err THEN G ELSE r.g) /\ last' = [err |-> r.err, st |-> st]
                       \/ /\ "KF_C05_RowByRowApply" \in UseKF
                          /\ KF_C05_RowByRowApplyR(r, TRUE, r.g) /\ last' = [err |-> TRUE, st |-> st]

\* -simulate evaluates invariants on EVERY candidate successor, so an emitting invariant prints mostly states that are
\* not on the walk; this step is taken from the state the walk really reached and prints its history exactly once
\* (run with -depth MaxHist + 2)
DoFinishWalk ==
    /\ Sim /\ Len(hist) = MaxHist /\ phase # 9
    /\ PrintT(<<"SCRIPT", ToJson(hist)>>)
    /\ phase' = 9
    /\ UNCHANGED <<G, hist, last>>

Next == DoStmt \/ DoFinishWalk
Spec == Init /\ [][Next]_vars

View == <<G, phase>>
Bound == Len(hist) <= MaxHist
Emit == PrintT(<<"SCRIPT", ToJson(hist')>>)
\* C05: only histories that end with the multi-row statement are worth replaying
EmitFaulty == phase' = 1 => PrintT(<<"SCRIPT", ToJson(hist')>>)
EmitLeaf == Len(hist') = MaxHist => PrintT(<<"SCRIPT", ToJson(hist')>>)
\* HUB: complete scripts only (run without VIEW: every sequence of choices is a behaviour of its own)
EmitHub == HubDone(G', hist', phase') => PrintT(<<"SCRIPT", ToJson(hist')>>)

\* ------------------------------------------------------------------ design-level action properties
\* C05: a statement that reports an error changes nothing
C05_ErrorChangesNothing == [][last'.err => G' = G]_vars
\* C04: DELETE without DETACH never removes a relationship (it is refused on a connected node)
PlainNodeDelete(st) == st.kind = "write" /\ st.w.kind = "delete" /\ st.w.var # "r" /\ ~st.w.detach
C04_ConnectedDeleteRefused == [][PlainNodeDelete(last'.st) => LiveE(G') = LiveE(G)]_vars
\* C04: MERGE never creates a second match: right after a successful MERGE statement the same statement creates nothing
\* (node patterns and relationships between bound endpoints alike)
IsMerge(st) == st.kind = "write" /\ st.w.kind \in {"merge", "mergerel"}
C04_MergeIdempotent ==
    [][(IsMerge(last'.st) /\ ~last'.err) =>
          \A rows \in RowTables(G', last'.st.src) :
              LET r == Exec(G', last'.st, rows) IN ~r.err => LiveN(r.g) = LiveN(G') /\ LiveE(r.g) = LiveE(G')]_vars
\* C11: Outcome = Refused <=> WouldDuplicate (Mode C11, whose statements have no other reason to fail): the statement
\* is refused exactly when applying it with the registry switched off would leave two live nodes of a constrained
\* label with equal values
C11_RefusedIffWouldDuplicate ==
    [][(last'.st.kind = "write") =>
          \A rows \in RowTables(G, last'.st.src) :
              LET u == Exec([G EXCEPT !.cons = {}], last'.st, rows) IN
              last'.err = ~NoDuplicate([u.g EXCEPT !.cons = G.cons])]_vars
=============================================================================
