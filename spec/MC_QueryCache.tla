--------------------------- MODULE MC_QueryCache ---------------------------
(* Model-checking wrapper of QueryCache: the near-duplicate generator, the    *)
(* history variable and the script emitters.                                  *)
(*   Bases    the base queries used                                           *)
(*   Edits    "single" = one edit per variant, "double" = one spelling edit   *)
(*            and one separator edit and leading blanks together,             *)
(*            "strings" = only the edits that touch quoted text, blanks and   *)
(*            comments (the family in which the pinned tree's keys collide)   *)
(*   Caps     capacities tried by Open                                        *)
EXTENDS QueryCache, Json

CONSTANTS Bases, Edits, Caps, MaxHist

VARIABLE hist
vars == <<cap, cache, out, hist>>

Touchy(v) ==
    /\ v.p > 0 => Len(Base[v.b].toks[v.p]) > 3      \* a string literal
    /\ v.g > 0 => v.s \in {"sp2", "nl", "lc", "lcx", "bcw"}
Fam ==
    UNION { {v \in VariantsOf(b) :
                CASE Edits = "single" -> Single(v)
                  [] Edits = "strings" -> Single(v) /\ Touchy(v)
                  [] OTHER -> TRUE} : b \in Bases }

\* the model's guess of what the real parser accepts (only steers which entries
\* the design-level model caches; the harness asks the real parser)
ModelParses(v) == \A i \in 1..NTok(v.b) : AltAt(v, i).ok

Init == QCInit /\ hist = <<>>

Next ==
    /\ Len(hist) < MaxHist
    /\ \/ \E c \in Caps : Open(c) /\ hist' = Append(hist, [op |-> "Open", cap |-> c])
       \/ \E v \in Fam :
            /\ Exec(v, ModelParses(v))
            /\ hist' = Append(hist, [op |-> "Exec", v |-> v, text |-> Text(v),
                                     path |-> IF (Len(hist) + v.b) % 2 = 0 THEN "read" ELSE "mut"])

Spec == Init /\ [][Next]_vars

\* state identity for the transition cover: the cache as the code sees it
View == <<cap, [i \in DOMAIN cache |-> cache[i].key], [i \in DOMAIN cache |-> Mng(cache[i].src)]>>
Bound == Len(hist) <= MaxHist
Emit == PrintT(<<"SCRIPT", ToJson(hist')>>)
EmitLeaf == Len(hist') = MaxHist => PrintT(<<"SCRIPT", ToJson(hist')>>)
SimEmit == Len(hist) = MaxHist => PrintT(<<"SCRIPT", ToJson(hist)>>)

\* (state-level on purpose: TLC reports a violated constant-level invariant differently)
KeyOK == cap >= 0 /\ KeyRespectsMeaning(Fam)
=============================================================================
