------------------------------ MODULE Txn_Trace ------------------------------
(* C09 trace specification: every recorded transaction call on the real      *)
(* GraphStore is explained by the Txn action; the outcome the caller was     *)
(* told, the version handed out, the statuses visible in the transaction     *)
(* table and the version each active transaction reads at must be the        *)
(* model's.                                                                  *)
EXTENDS Txn, TraceBase

tvars == <<curVer, txns, lastCommit, commits, l, sid, used, failed>>

ObsOK ==
    LET o == Ev.obs IN
    /\ o.cur = curVer'
    /\ Len(o.status) = Len(txns')
    /\ \A t \in 1..Len(txns') :
          /\ \/ o.status[t] = txns'[t].status
             \/ (o.status[t] = "gone" /\ txns'[t].status # "active")   \* forgotten by GC: allowed once finished
          /\ txns'[t].status = "active" =>
                o.reads[t] = (IF txns'[t].iso = "RC" THEN curVer' ELSE txns'[t].start)

TInit == XInit /\ TBInit
T_Reset == ResetBook /\ curVer' = 1 /\ txns' = <<>> /\ lastCommit' = [x \in Entities |-> 0] /\ commits' = <<>>
T_Fail == FailBook /\ curVer' = 1 /\ txns' = <<>> /\ lastCommit' = [x \in Entities |-> 0] /\ commits' = <<>>
T_Begin == IsEv("Begin") /\ Begin(Ev.iso) /\ Ev.fresh /\ ObsOK /\ Same
T_Write == IsEv("Write") /\ Write(Ev.t, Ev.x) /\ ObsOK /\ Same
T_Commit == IsEv("Commit") /\ Commit(Ev.t, Ev.res = "ok") /\ (Ev.res = "ok" => Ev.ver = curVer') /\ ObsOK /\ Same
T_Abort == IsEv("Abort") /\ Abort(Ev.t, Ev.res = "ok") /\ ObsOK /\ Same
T_Gc == IsEv("Gc") /\ Gc /\ ObsOK /\ Same

TNext == T_Fail \/ T_Reset \/ T_Begin \/ T_Write \/ T_Commit \/ T_Abort \/ T_Gc
TSpec == TInit /\ [][TNext]_tvars
=============================================================================
