------------------------------ MODULE Snapshot ------------------------------
(***************************************************************************)
(* .sgsnap export / import of samyama-graph (src/snapshot/mod.rs).         *)
(*                                                                         *)
(* A graph (store dump, snapshot content, logical graph) is a record       *)
(*   [nodes : Seq([id, labels, props]), rels : Seq([id, src, dst, type,    *)
(*    props])]      labels: sequence of strings (the order matters only in *)
(*                  a snapshot record: the first label creates the stub),  *)
(*                  props: key -> value token (a string such as "i:5",     *)
(*                  "s:abc"; tokens are opaque here, see ValueTable below) *)
(* Ids in a store dump are the real NodeId / EdgeId; ids in a snapshot are *)
(* the ids written into the file (remapped by the import); ids in a        *)
(* logical graph are script handles.                                       *)
(*                                                                         *)
(* Part 1 (C13)  import into a non-empty store with optional dedup keys:   *)
(*   ImportOK     the post-condition of a successful import: the dump is   *)
(*                the old dump plus the snapshot's nodes and relationships,*)
(*                nodes matching on a dedup key merged into the existing   *)
(*                node                                                     *)
(*   ImportFail   a failed import leaves the dump exactly as it was        *)
(*   KF_C13_MergedNodesKeepAdditions(kn, kr)   what the pinned tree does   *)
(*                instead: the first kn node records and kr relationship   *)
(*                records were applied, the rollback deletes only the      *)
(*                nodes this import CREATED (and their relationships), so  *)
(*                labels / properties added to dedup-matched nodes and     *)
(*                relationships between two such nodes stay                *)
(*   Apply / Rollback*   the same import as the code runs it, record by    *)
(*                record (used by MC_Snapshot to cross-check the           *)
(*                post-conditions against the operational reading)         *)
(* Part 2 (C12)  export then import into an empty store: Iso               *)
(***************************************************************************)
EXTENDS Naturals, Sequences, FiniteSets

Range(s) == {s[i] : i \in DOMAIN s}
SeqSet(s) == {s[i] : i \in DOMAIN s}

\* ------------------------------------------------------------------ normal form of a dump
NodeIds(d) == {d.nodes[i].id : i \in DOMAIN d.nodes}
RelIds(d) == {d.rels[i].id : i \in DOMAIN d.rels}
NodeOf(d, id) == LET i == CHOOSE j \in DOMAIN d.nodes : d.nodes[j].id = id IN d.nodes[i]
Labels(n) == SeqSet(n.labels)
Keys(p) == DOMAIN p
\* well-formed dump: one entry per node id / relationship id, relationships end at listed nodes
WellFormed(d) ==
    /\ \A i, j \in DOMAIN d.nodes : d.nodes[i].id = d.nodes[j].id => i = j
    /\ \A i, j \in DOMAIN d.rels : d.rels[i].id = d.rels[j].id => i = j
    /\ \A i \in DOMAIN d.rels : d.rels[i].src \in NodeIds(d) /\ d.rels[i].dst \in NodeIds(d)
\* two dumps show the same store (entries may be listed in any order)
SameDump(a, b) ==
    /\ Len(a.nodes) = Len(b.nodes) /\ Len(a.rels) = Len(b.rels)
    /\ \A i \in DOMAIN a.nodes : \E j \in DOMAIN b.nodes :
          /\ a.nodes[i].id = b.nodes[j].id /\ Labels(a.nodes[i]) = Labels(b.nodes[j])
          /\ a.nodes[i].props = b.nodes[j].props
    /\ \A i \in DOMAIN a.rels : \E j \in DOMAIN b.rels :
          /\ a.rels[i].id = b.rels[j].id /\ a.rels[i].src = b.rels[j].src /\ a.rels[i].dst = b.rels[j].dst
          /\ a.rels[i].type = b.rels[j].type /\ a.rels[i].props = b.rels[j].props
EmptyGraph == [nodes |-> <<>>, rels |-> <<>>]

\* ------------------------------------------------------------------ C13: dedup matching
\* a snapshot node matches a basis entry when they share a label and agree on one of the dedup keys
\* (basis = attributes of store nodes when the import started + the records already created by it)
Matches(keys, n, m) ==
    /\ Labels(n) \cap m.labels # {}
    /\ \E k \in SeqSet(keys) : k \in Keys(n.props) /\ k \in Keys(m.props) /\ n.props[k] = m.props[k]

\* property map of a node into which the records ns were merged, given what it had (base): keys only on
\* one side are kept / added, a key present on several sides holds one of the offered values (the
\* statement of the property does not say which)
MergedPropsOK(p, base, ns) ==
    /\ Keys(p) = Keys(base) \cup UNION {Keys(n.props) : n \in ns}
    /\ \A k \in Keys(p) :
          \/ k \in Keys(base) /\ p[k] = base[k]
          \/ \E n \in ns : k \in Keys(n.props) /\ p[k] = n.props[k]
    /\ \A k \in Keys(base) : (\A n \in ns : k \notin Keys(n.props)) => p[k] = base[k]

\* bag of relationships without their ids
RelSig(r) == <<r.src, r.dst, r.type, r.props>>
CountSig(rs, s) == Cardinality({i \in DOMAIN rs : RelSig(rs[i]) = s})

(* The state reached when the first kn node records and kr relationship records of `snap` were applied   *)
(* to store S under `assign` (snapshot node position -> node id): positions mapped to an id of S are     *)
(* merges, the others are creations with a fresh id each.  `keepNew` says whether the created nodes and  *)
(* the relationships touching them are (still) there.                                                    *)
AssignOK(S, snap, keys, kn, assign) ==
    LET P == 1..kn
        old == NodeIds(S)
        created == {p \in P : assign[p] \notin old /\ \A q \in 1..(p - 1) : assign[q] # assign[p]}
        basisOf(p) == {[id |-> m.id, labels |-> Labels(m), props |-> m.props] : m \in Range(S.nodes)}
                        \cup {[id |-> assign[q], labels |-> Labels(snap.nodes[q]), props |-> snap.nodes[q].props] :
                                 q \in {c \in created : c < p}}
    IN \A p \in P :
          LET cands == {m \in basisOf(p) : keys # <<>> /\ Matches(keys, snap.nodes[p], m)}
          IN IF cands = {} THEN p \in created
             ELSE \E m \in cands : assign[p] = m.id

AfterOK(S, snap, keys, kn, kr, assign, keepNew, after) ==
    LET P == 1..kn
        old == NodeIds(S)
        newIds == {assign[p] : p \in P} \ old
        into(id) == {snap.nodes[p] : p \in {q \in P : assign[q] = id}}
        wantRels == {i \in 1..kr : keepNew \/ (assign[snap.rels[i].src] \in old /\ assign[snap.rels[i].dst] \in old)}
        sig(i) == <<assign[snap.rels[i].src], assign[snap.rels[i].dst], snap.rels[i].type, snap.rels[i].props>>
        newRels == {i \in DOMAIN after.rels : after.rels[i].id \notin RelIds(S)}
    IN /\ WellFormed(after)
       /\ NodeIds(after) = old \cup (IF keepNew THEN newIds ELSE {})
       /\ \A id \in old :
             LET a == NodeOf(after, id)
                 b == NodeOf(S, id)
             IN /\ Labels(a) = Labels(b) \cup UNION {Labels(n) : n \in into(id)}
                /\ MergedPropsOK(a.props, b.props, into(id))
       /\ keepNew => \A id \in newIds :
             LET a == NodeOf(after, id)
             IN /\ Labels(a) = UNION {Labels(n) : n \in into(id)}
                /\ MergedPropsOK(a.props, <<>>, into(id))
       \* every relationship of S is still there, unchanged
       /\ \A i \in DOMAIN S.rels : \E j \in DOMAIN after.rels :
             after.rels[j].id = S.rels[i].id /\ RelSig(after.rels[j]) = RelSig(S.rels[i])
       \* the new ones are exactly the wanted snapshot relationships (as a bag)
       /\ Cardinality(newRels) = Cardinality(wantRels)
       /\ \A i \in wantRels :
             Cardinality({j \in newRels : RelSig(after.rels[j]) = sig(i)}) = Cardinality({k \in wantRels : sig(k) = sig(i)})

\* candidate assignments: every snapshot node goes to a node of `after` or (rolled back) to a placeholder
Assigns(snap, ids) == [1..Len(snap.nodes) -> ids]

\* ---- the three outcomes (after = dump after the call, S = dump before it)
ImportOK(S, snap, keys, after) ==
    \E assign \in Assigns(snap, NodeIds(after)) :
       /\ AssignOK(S, snap, keys, Len(snap.nodes), assign)
       /\ AfterOK(S, snap, keys, Len(snap.nodes), Len(snap.rels), assign, TRUE, after)

ImportFail(S, after) == SameDump(S, after)

\* placeholders for the ids of created-and-deleted nodes: they are gone from `after`
Ghosts(snap) == {1000000 + p : p \in 1..Len(snap.nodes)}
KF_C13_MergedNodesKeepAdditions(S, snap, keys, after) ==
    /\ ~SameDump(S, after)
    /\ keys # <<>>
    /\ \E kn \in 0..Len(snap.nodes), kr \in 0..Len(snap.rels) :
          /\ kr > 0 => kn = Len(snap.nodes)
          /\ \E assign \in Assigns(snap, NodeIds(S) \cup Ghosts(snap)) :
                /\ AssignOK(S, snap, keys, kn, assign)
                /\ AfterOK(S, snap, keys, kn, kr, assign, FALSE, after)

\* The same deviation when the records that were applied are not known (a flipped byte changed the text of
\* the file, the altered records were applied, and only the final checksum failed): nothing the import
\* created survives, nothing that existed was removed or changed, but pre-existing nodes gained labels /
\* properties and relationships between pre-existing nodes were added
KF_C13_MergedNodesKeepAdditions_Unknown(S, keys, after) ==
    /\ ~SameDump(S, after)
    /\ keys # <<>>
    /\ WellFormed(after)
    /\ NodeIds(after) = NodeIds(S)
    /\ \A id \in NodeIds(S) :
          LET a == NodeOf(after, id)
              b == NodeOf(S, id)
          IN /\ Labels(b) \subseteq Labels(a)
             /\ Keys(b.props) \subseteq Keys(a.props)
             /\ \A k \in Keys(b.props) : a.props[k] = b.props[k]
    /\ \A i \in DOMAIN S.rels : \E j \in DOMAIN after.rels :
          after.rels[j].id = S.rels[i].id /\ RelSig(after.rels[j]) = RelSig(S.rels[i])

\* ------------------------------------------------------------------ C13: the import as the code runs it
\* (normal form used by the operational model: nodes = set of [id, labels(set), props], rels = set of
\*  [id, src, dst, type, props]; created = ids created by this import; remap = position -> id)
Norm(d) == [nodes |-> {[id |-> n.id, labels |-> Labels(n), props |-> n.props] : n \in Range(d.nodes)},
            rels |-> Range(d.rels)]
MaxId(ids) == IF ids = {} THEN 0 ELSE CHOOSE x \in ids : \A y \in ids : y <= x
AddMissing(mp, np) == [k \in Keys(mp) \cup Keys(np) |-> IF k \in Keys(mp) THEN mp[k] ELSE np[k]]

RECURSIVE ApplyNodes(_, _, _, _)
\* st = [nodes, rels, basis, created, remap]
ApplyNodes(st, snap, keys, p) ==
    IF p > Len(snap.nodes) \/ p > st.kn THEN st
    ELSE LET n == snap.nodes[p]
             cands == {m \in st.basis : keys # <<>> /\ Matches(keys, n, m)}
         IN IF cands # {}
            THEN LET t == (CHOOSE m \in cands : \A o \in cands : m.id <= o.id).id
                     m0 == CHOOSE m \in st.nodes : m.id = t
                     m1 == [id |-> t, labels |-> m0.labels \cup Labels(n), props |-> AddMissing(m0.props, n.props)]
                 IN ApplyNodes([st EXCEPT !.nodes = (st.nodes \ {m0}) \cup {m1}, !.remap = Append(st.remap, t)], snap, keys, p + 1)
            ELSE LET id == MaxId({m.id : m \in st.nodes}) + 1
                     c == [id |-> id, labels |-> Labels(n), props |-> n.props]
                 IN ApplyNodes([st EXCEPT !.nodes = st.nodes \cup {c}, !.basis = st.basis \cup {c},
                                          !.created = st.created \cup {id}, !.remap = Append(st.remap, id)], snap, keys, p + 1)
ApplyRels(st, snap, kr) ==
    LET base == MaxId({r.id : r \in st.rels})
    IN [st EXCEPT !.rels = st.rels \cup {[id |-> base + i, src |-> st.remap[snap.rels[i].src], dst |-> st.remap[snap.rels[i].dst],
                                          type |-> snap.rels[i].type, props |-> snap.rels[i].props] : i \in 1..kr}]
\* the first kn node records and kr relationship records applied
Apply(S, snap, keys, kn, kr) ==
    LET s0 == [nodes |-> Norm(S).nodes, rels |-> Norm(S).rels, basis |-> Norm(S).nodes, created |-> {}, remap |-> <<>>, kn |-> kn]
    IN ApplyRels(ApplyNodes(s0, snap, keys, 1), snap, kr)
\* rollback of the pinned tree: delete_node for every created node (takes its relationships along)
RollbackCreated(st) ==
    [nodes |-> {m \in st.nodes : m.id \notin st.created},
     rels |-> {r \in st.rels : r.src \notin st.created /\ r.dst \notin st.created}]
\* a dump (sequences) of a normal-form state, for comparing with the post-conditions
RECURSIVE SetSeq(_)
SetSeq(T) == IF T = {} THEN <<>> ELSE LET x == CHOOSE y \in T : TRUE IN <<x>> \o SetSeq(T \ {x})
RECURSIVE LabelSeq(_)
LabelSeq(T) == IF T = {} THEN <<>> ELSE LET x == CHOOSE y \in T : \A z \in T : y <= z IN <<x>> \o LabelSeq(T \ {x})
Denorm(st) == [nodes |-> SetSeq({[id |-> m.id, labels |-> SetSeq(m.labels), props |-> m.props] : m \in st.nodes}),
               rels |-> SetSeq(st.rels)]

\* ------------------------------------------------------------------ C12: isomorphism of two graphs
\* a and b are the same graph up to a renaming of node ids (relationship ids are ignored, multiplicity is not)
IsoVia(a, b, f) ==
    /\ \A i \in DOMAIN a.nodes :
          LET m == NodeOf(b, f[a.nodes[i].id])
          IN Labels(a.nodes[i]) = Labels(m) /\ a.nodes[i].props = m.props
    /\ Len(a.rels) = Len(b.rels)
    /\ LET img(r) == <<f[r.src], f[r.dst], r.type, r.props>>
       IN \A i \in DOMAIN a.rels :
             Cardinality({j \in DOMAIN a.rels : img(a.rels[j]) = img(a.rels[i])})
               = Cardinality({j \in DOMAIN b.rels : RelSig(b.rels[j]) = img(a.rels[i])})
Bijections(A, B) == {f \in [A -> B] : \A x, y \in A : f[x] = f[y] => x = y}
Iso(a, b) ==
    /\ Len(a.nodes) = Len(b.nodes)
    /\ WellFormed(a) /\ WellFormed(b)
    /\ \E f \in Bijections(NodeIds(a), NodeIds(b)) : IsoVia(a, b, f)
=============================================================================
