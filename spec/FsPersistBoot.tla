--------------------------- MODULE FsPersistBoot ---------------------------
(***************************************************************************)
(* C14, whole-server view: the boot sequence of src/main.rs.               *)
(* A data directory holds two durable things: the RocksDB store (every     *)
(* write that came in through RESP, per tenant) and the committed snapshot *)
(* of FsPersist.tla (imports that came in through HTTP).  At boot main.rs  *)
(* recovers the RocksDB tenants and then restores the snapshot -- in the   *)
(* pinned tree only `if !recovered`, i.e. only when RocksDB held no tenant *)
(* at all.                                                                 *)
(*   mem    live graph (set of elements: import k carries node k, the RESP *)
(*          write creates node 0)                                          *)
(*   rocks  elements durable in RocksDB,  file  elements held by the       *)
(*          committed snapshot file                                        *)
(* The process is only ever KILLED here (no power loss: FsPersist covers   *)
(* that), and only while no request is in flight, so everything            *)
(* acknowledged is on disk and the restart must give back exactly mem.     *)
(***************************************************************************)
EXTENDS Naturals, FiniteSets

VARIABLES mem, rocks, file, up, allowed, fresh
bvars == <<mem, rocks, file, up, allowed, fresh>>

BInit == mem = {} /\ rocks = {} /\ file = {} /\ up = TRUE /\ allowed = {{}} /\ fresh = FALSE

\* POST /api/snapshot/import, acknowledged: the live store holds k, the committed file holds fileG
\* (the whole graph that is not in RocksDB would be the design; what it really holds is observed)
SrvImport(k, fileG) ==
    /\ up /\ mem' = mem \cup {k} /\ file' = fileG /\ fresh' = FALSE
    /\ UNCHANGED <<rocks, up, allowed>>
\* GRAPH.QUERY default "CREATE (:W {k:0})", acknowledged: persisted through PersistenceManager
SrvWrite ==
    /\ up /\ mem' = mem \cup {0} /\ rocks' = rocks \cup {0} /\ fresh' = FALSE
    /\ UNCHANGED <<file, up, allowed>>
SrvKill ==
    /\ up /\ up' = FALSE /\ allowed' = {mem} /\ mem' = {} /\ fresh' = FALSE
    /\ UNCHANGED <<rocks, file>>
SrvRestart(r) ==
    /\ ~up /\ up' = TRUE /\ mem' = r /\ fresh' = TRUE
    /\ UNCHANGED <<rocks, file, allowed>>

\* DEVIATION (open finding): RocksDB recovered at least one tenant, so the snapshot restore was skipped:
\* exactly the RocksDB part is back, and the committed snapshot would have supplied (part of) the rest
KF_C14_RocksRecoverySkipsRestore(r) ==
    /\ rocks # {} /\ file # {} /\ r = rocks /\ r \notin allowed
    /\ \E a \in allowed : rocks \cup file \subseteq a /\ ~(file \subseteq rocks)
    /\ SrvRestart(r)

DesignBoot == rocks \cup file
LegacyBoot == IF rocks # {} THEN rocks ELSE file
BootOK == fresh => mem \in allowed
=============================================================================
