------------------------------- MODULE Solver -------------------------------
(***************************************************************************)
(* C34: every solver of crates/samyama-optimization returns a best         *)
(* solution inside the variable bounds whose fitness is the reported best  *)
(* fitness, a best-fitness history that never gets worse, the same result  *)
(* for the same seed regardless of thread count, and (multi-objective) a   *)
(* front in which no member dominates another.                             *)
(*                                                                         *)
(* The crate MINIMISES (common.rs: "objective function to minimize",       *)
(* acceptance is `new_fitness < fitness`), so "never gets worse" is        *)
(* "never increases".                                                      *)
(*                                                                         *)
(* A run is   Start(bounds) -> Iter(best)* -> Done(result).   A script is  *)
(* a PAIR of runs of one solver on one problem with one seed: run 1 inside *)
(* a rayon pool of 1 thread, run 2 inside a pool of 8 threads.             *)
(*                                                                         *)
(* Numbers: TLA+ has no floats and needs none here.  Every f64 of a script *)
(* (bounds, history, variables, fitness values, objective vectors) is      *)
(* replaced by its DENSE RANK among all f64 of the script: an order        *)
(* isomorphism, exact for every comparison the property makes (<=, =).     *)
(* NaN is the token -1: it is below no bound, above no bound, equal to     *)
(* nothing, and never "not worse".                                         *)
(*                                                                         *)
(* The solvers give no callback per iteration: Iter events are the entries *)
(* of the returned `history`, in order.                                    *)
(***************************************************************************)
EXTENDS Naturals, Integers, Sequences, FiniteSets

NaN == -1
NoBest == -2
IsNum(x) == x >= 0
Le(a, b) == IsNum(a) /\ IsNum(b) /\ a <= b
Lt(a, b) == IsNum(a) /\ IsNum(b) /\ a < b

VARIABLES phase,   \* "idle" | "running" | "done"
          run,     \* 0 before the first run, then 1, 2
          kind,    \* "so" single objective | "mo" multi objective
          lo, hi,  \* the box (sequences of ranks)
          zero,    \* rank of 0.0 (feasibility threshold of constraint violations)
          best,    \* the last best-fitness reported by the current run (NoBest before the first Iter)
          cur,     \* what the current run has shown so far (sequence of event payloads)
          ref      \* what run 1 showed (compared event for event with run 2)
svars == <<phase, run, kind, lo, hi, zero, best, cur, ref>>

SInit == /\ phase = "idle" /\ run = 0 /\ kind = "so" /\ lo = <<>> /\ hi = <<>> /\ zero = 0
         /\ best = NoBest /\ cur = <<>> /\ ref = <<>>

\* ---- the clauses of the property -------------------------------------------------------
BoxOK(l, h) == Len(l) = Len(h) /\ \A i \in DOMAIN l : Le(l[i], h[i])
InBounds(vars) == Len(vars) = Len(lo) /\ \A i \in DOMAIN vars : Le(lo[i], vars[i]) /\ Le(vars[i], hi[i])
\* history never gets worse
NotWorse(b) == best = NoBest \/ Le(b, best)
\* reported best fitness is the fitness of the returned variables (recomputed by the caller)
Consistent(reported, recomputed) == IsNum(reported) /\ reported = recomputed
\* the returned best is the end of the history: not worse than the last history entry
FinalNotWorse(reported) == best = NoBest \/ Le(reported, best)

\* Deb's constrained dominance over a member's objective vector f and total constraint violation v
\* (the definition the crate documents: moo.rs constrained_dominates)
Pareto(f, g) == /\ Len(f) = Len(g)
                /\ \A i \in DOMAIN f : Le(f[i], g[i])
                /\ \E i \in DOMAIN f : Lt(f[i], g[i])
Feasible(m) == m.viol = zero
Dominates(a, b) ==
    IF Feasible(a) /\ ~Feasible(b) THEN TRUE
    ELSE IF ~Feasible(a) /\ Feasible(b) THEN FALSE
    ELSE IF ~Feasible(a) /\ ~Feasible(b) THEN Lt(a.viol, b.viol)
    ELSE Pareto(a.refit, b.refit)
MemberOK(m) == InBounds(m.vars) /\ Len(m.fit) = Len(m.refit) /\ \A i \in DOMAIN m.fit : Consistent(m.fit[i], m.refit[i])
FrontOK(front) ==
    /\ \A i \in DOMAIN front : MemberOK(front[i])
    /\ \A i, j \in DOMAIN front : i # j => ~Dominates(front[i], front[j])

\* run 2 must show exactly what run 1 showed, event for event
SameAsRun1(c) == run = 2 => Len(c) <= Len(ref) /\ c[Len(c)] = ref[Len(c)]
SameLength(c) == run = 2 => Len(c) = Len(ref)

\* ---- actions ---------------------------------------------------------------------------
Start(r, k, l, h, z) ==
    /\ r = run + 1 /\ r \in {1, 2}
    /\ phase = (IF r = 1 THEN "idle" ELSE "done")
    /\ BoxOK(l, h)
    /\ phase' = "running" /\ run' = r /\ kind' = k /\ lo' = l /\ hi' = h /\ zero' = z
    /\ best' = NoBest
    /\ ref' = (IF r = 1 THEN <<>> ELSE cur)
    /\ cur' = <<<<"Start", k, l, h>>>>
    /\ (r = 2 => cur'[1] = cur[1])         \* the harness hands both runs the same problem

\* mono = FALSE is LegacyIter (self-test): a history entry that ignores the previous ones
IterWith(b, mono) ==
    /\ phase = "running"
    /\ (mono /\ kind = "so") => NotWorse(b)
    /\ best' = b
    /\ cur' = Append(cur, <<"Iter", b>>)
    /\ SameAsRun1(cur')
    /\ UNCHANGED <<phase, run, kind, lo, hi, zero, ref>>
Iter(b) == IterWith(b, TRUE)
LegacyIter(b) == IterWith(b, FALSE)

\* a single-objective result
DoneSO(reported, recomputed, vars) ==
    /\ phase = "running" /\ kind = "so"
    /\ InBounds(vars)
    /\ Consistent(reported, recomputed)
    /\ FinalNotWorse(reported)
    /\ phase' = "done"
    /\ cur' = Append(cur, <<"Done", reported, vars>>)
    /\ SameAsRun1(cur') /\ SameLength(cur')
    /\ UNCHANGED <<run, kind, lo, hi, zero, best, ref>>

\* a multi-objective result (the `history` of these solvers is an indicator whose direction the crate leaves open:
\* "e.g., hypervolume or min of first objective"; it is compared across the pair but not required to be monotone)
DoneMO(front) ==
    /\ phase = "running" /\ kind = "mo"
    /\ FrontOK(front)
    /\ phase' = "done"
    /\ cur' = Append(cur, <<"Done", [i \in DOMAIN front |-> <<front[i].vars, front[i].fit>>]>>)
    /\ SameAsRun1(cur') /\ SameLength(cur')
    /\ UNCHANGED <<run, kind, lo, hi, zero, best, ref>>

\* ---- design-level invariants (MC_Solver) -----------------------------------------------
Iters(c) == SelectSeq(c, LAMBDA e : e[1] = "Iter")
HistoryMonotone == kind = "so" => \A i, j \in DOMAIN Iters(cur) : i < j => Le(Iters(cur)[j][2], Iters(cur)[i][2])
ResultInBox == (phase = "done" /\ kind = "so") => InBounds(cur[Len(cur)][3])
PairIdentical == (phase = "done" /\ run = 2) => cur = ref
=============================================================================
