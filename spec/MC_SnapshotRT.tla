---------------------------- MODULE MC_SnapshotRT ----------------------------
(* C12 model-checking wrapper: graphs of <= MaxNodes nodes and <= MaxRels relationships built  *)
(* through the store API (row / stub nodes, full / stub relationships, property rewrites after  *)
(* a version bump, deletion before and after compaction, hierarchy declarations), with at most  *)
(* one boundary value token per graph (Tokens), every other value the plain "i:7".              *)
(* Invariant RoundTripIdeal: the records the design exports, imported record by record          *)
(* (Snapshot!Apply), give a graph isomorphic to the one that was built.  With Dev # {} the      *)
(* model exports / imports as the pinned tree does and TLC must find a counterexample.          *)
EXTENDS SnapshotRT, Json

CONSTANTS MaxNodes, MaxRels, Tokens, Dev, MaxHist, Extras,
          FamKinds, FamSizes   \* scaled families: TLC chooses (kind, n), the harness builds the graph
VARIABLES hist, used
vars == <<G, hist, used>>

Plain == "i:7"
Init == GInit /\ hist = <<>> /\ used = FALSE
H(r) == hist' = Append(hist, r)
Done == hist # <<>> /\ hist[Len(hist)].op \in {"RoundTrip", "FamilyRT"}

\* a property map: none, the plain value, or (once per graph) a boundary token
\* "hierfocus" \in Extras: plain :A nodes with p = 7, plain relationships -- the hierarchy declaration is what varies
Focus == "hierfocus" \in Extras
PropChoices(key) == IF Focus THEN (IF key = "p" THEN {[x \in {key} |-> Plain]} ELSE {<<>>})
                    ELSE {<<>>, [x \in {key} |-> Plain]} \cup (IF used THEN {} ELSE {[x \in {key} |-> t] : t \in Tokens})
Uses(p) == \E k \in DOMAIN p : p[k] # Plain
LabelChoices == IF Focus THEN {<<"A">>} ELSE {<<>>, <<"A">>, <<"A", "B">>}
StubChoices == IF Focus THEN {FALSE} ELSE BOOLEAN
\* a declaration may name a type without any relationship (yet), or two types of which one is empty
HierTypeChoices == {<<"R">>, <<"S">>, <<"R", "S">>}
NextNode == Cardinality(Handles(G.nodes)) + 1
RelCount == Len(SelectSeq(hist, LAMBDA r : r.op = "Rel"))

Build ==
     \/ /\ NextNode <= MaxNodes
        /\ \E ls \in LabelChoices, p \in PropChoices("p"), stub \in StubChoices :
              /\ (stub => ls # <<>>)
              /\ AddNode(NextNode, ls, p, stub) /\ used' = (used \/ Uses(p))
              /\ H([op |-> "Node", h |-> NextNode, labels |-> ls, props |-> p, via |-> IF stub THEN "stub" ELSE "api"])
     \/ /\ RelCount < MaxRels
        /\ \E s, d \in Handles(G.nodes), ty \in {"R", "S"}, p \in PropChoices("w"), stub \in StubChoices :
              /\ (stub => p = <<>>)
              /\ AddRel(RelCount + 1, s, d, ty, p) /\ used' = (used \/ Uses(p))
              /\ H([op |-> "Rel", h |-> RelCount + 1, src |-> s, dst |-> d, type |-> ty, props |-> p, via |-> IF stub THEN "stub" ELSE "api"])
     \/ /\ "versions" \in Extras /\ G.ver < 3 /\ Handles(G.nodes) # {}
        /\ Bump /\ UNCHANGED used /\ H([op |-> "Bump"])
     \/ /\ "versions" \in Extras
        /\ \E h \in Handles(G.nodes), k \in {"p", "q"}, t \in {Plain, "i:8", "null"} \cup (IF used THEN {} ELSE Tokens) :
              /\ SetProp(h, k, t) /\ used' = (used \/ t \notin {Plain, "i:8", "null"})
              /\ H([op |-> "SetProp", h |-> h, key |-> k, tok |-> t])
     \/ /\ "compact" \in Extras /\ \E h \in Handles(G.rels) : ~G.rels[h].frozen
        /\ Compact /\ UNCHANGED used /\ H([op |-> "Compact"])
     \/ /\ "compact" \in Extras
        /\ \E h \in Handles(G.rels) : DelRel(h) /\ UNCHANGED used /\ H([op |-> "DelRel", h |-> h])
     \* at any time: before the data is loaded, on an empty graph, over types with or without relationships
     \/ /\ "hier" \in Extras /\ G.hier = {}
        /\ \E m \in {"", "p"}, ts \in HierTypeChoices :
              /\ DeclareHier("hx", {ts[i] : i \in DOMAIN ts}, m, IF m = "" THEN {} ELSE {"sum", "max"}) /\ UNCHANGED used
              /\ H([op |-> "Hier", name |-> "hx", types |-> ts, measure |-> m, ops |-> IF m = "" THEN <<>> ELSE <<"sum", "max">>])

\* a history ends with RoundTrip, at the latest as step MaxHist
Next ==
  /\ ~Done
  /\ \/ Len(hist) < MaxHist - 1 /\ Build
     \/ (Handles(G.nodes) # {} \/ G.hier # {}) /\ UNCHANGED <<G, used>> /\ H([op |-> "RoundTrip"])
     \/ /\ hist = <<>>
        /\ \E kind \in FamKinds, n \in FamSizes : H([op |-> "FamilyRT", kind |-> kind, n |-> n])
        /\ UNCHANGED <<G, used>>

Spec == Init /\ [][Next]_vars
View == <<G, used, Done>>
RoundTripIdeal == Done => Iso(Imported(G, Dev), Logical(G))
Emit == (hist'[Len(hist')].op \in {"RoundTrip", "FamilyRT"}) => PrintT(<<"SCRIPT", ToJson(hist')>>)
SimEmit == Done => PrintT(<<"SCRIPT", ToJson(hist)>>)
=============================================================================
