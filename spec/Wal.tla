-------------------------------- MODULE Wal --------------------------------
(***************************************************************************)
(* Write-ahead log of samyama-graph (src/persistence/wal.rs, struct Wal).  *)
(*                                                                         *)
(* State mirrors the implementation and the disk:                          *)
(*   files  the segment files of the directory in name order.  A file is   *)
(*          named by the sequence number of the first record written to    *)
(*          it and holds complete records followed by `torn` bytes of an   *)
(*          incomplete one (what a crash left behind).                     *)
(*   buf    records appended but still in the BufWriter (lost by a crash)  *)
(*   cur    name of the file the writer has open, 0 = none                 *)
(*   seq    the writer's sequence counter (current_sequence())             *)
(*   sync   set_sync_mode: every append is flushed before it returns       *)
(* A record is [len(4) | seq(8) | entry | sum(4)] on disk; it is modelled   *)
(* at field granularity (seq, payload token, which field a byte flip hit   *)
(* and the value the field then reads as) and with its exact byte length,  *)
(* so that "every truncation offset" and "every byte" are meaningful.      *)
(*                                                                         *)
(* One action per public mutator (append, flush, checkpoint), Reopen =     *)
(* drop + Wal::new on the same directory, and two fault actions: Truncate  *)
(* (crash: the BufWriter content is lost, the newest file is cut at byte   *)
(* b, the log is opened again) and Flip (one byte of a record on disk is   *)
(* XORed with a mask).                                                     *)
(*                                                                         *)
(* Property C15 is the read view ReplayOK: replay(from) delivers every     *)
(* complete record with sequence >= from, in append order; an incomplete   *)
(* tail ends that file silently; a corrupted record is reported (or ends   *)
(* the file when the corruption is indistinguishable from a torn tail)     *)
(* and is never delivered altered; sequences are strictly increasing over  *)
(* the whole log, also across Reopen/crash (StrictlyIncreasing).           *)
(*                                                                         *)
(* Legacy* = what the pinned tree did (self-test only).  KF_* = open       *)
(* structural finding (the checksum does not cover the sequence field).    *)
(***************************************************************************)
EXTENDS Naturals, Sequences, FiniteSets

CONSTANTS Cap     \* stands for every field value >= 2^30 (the harness logs min(value, Cap))

VARIABLES files, buf, cur, seq, sync
wvars == <<files, buf, cur, seq, sync>>

\* ---- record layout (bincode, fixed-width integers) ----
\* CreateNode{tenant:"t", node_id, labels:[], properties:[tok;tok]}: 4 tag + (8+1) + 8 + 8 + (8+tok)
\* Checkpoint{sequence, timestamp}: 4 tag + 8 + 8
EntryLen(r) == IF r.kind = "node" THEN 37 + r.tok ELSE 20
BodyLen(r) == 8 + EntryLen(r) + 4          \* what the length prefix says
RecBytes(r) == 4 + BodyLen(r)
Tok(r) == IF r.kind = "node" THEN r.tok ELSE 1000 + r.tok   \* payload token the harness reports

MkRec(s, kind, tok) == [seq |-> s, kind |-> kind, tok |-> tok, bad |-> "none", v |-> 0]

RECURSIVE SumBytes(_)
SumBytes(rs) == IF rs = <<>> THEN 0 ELSE RecBytes(rs[1]) + SumBytes(Tail(rs))
FileSize(f) == SumBytes(f.recs) + f.torn
Start(f, j) == SumBytes(SubSeq(f.recs, 1, j - 1))      \* byte offset of record j of file f

RECURSIVE Flatten(_)
Flatten(fs) == IF fs = <<>> THEN <<>> ELSE fs[1].recs \o Flatten(Tail(fs))

Names(fs) == {fs[i].name : i \in DOMAIN fs}
FileIdx(fs, n) == CHOOSE i \in DOMAIN fs : fs[i].name = n
Max(S) == CHOOSE x \in S : \A y \in S : y <= x
MaxDurable(fs) == LET F == Flatten(fs) IN IF F = <<>> THEN 0 ELSE Max({F[i].seq : i \in DOMAIN F})
Sites(fs) == UNION {{<<i, j>> : j \in DOMAIN fs[i].recs} : i \in DOMAIN fs}
BadSites(fs) == {p \in Sites(fs) : fs[p[1]].recs[p[2]].bad # "none"}
Clean == BadSites(files) = {}

\* insert an empty file named n keeping name order
WithFile(fs, n) ==
    IF n \in Names(fs) THEN fs
    ELSE LET lo == SelectSeq(fs, LAMBDA f : f.name < n)
             hi == SelectSeq(fs, LAMBDA f : f.name > n)
         IN  lo \o <<[name |-> n, recs |-> <<>>, torn |-> 0]>> \o hi

\* the BufWriter content reaches the open file (O_APPEND)
Flushed(fs, b, c) ==
    IF c = 0 \/ b = <<>> THEN fs
    ELSE [fs EXCEPT ![FileIdx(fs, c)].recs = @ \o b]

WInit == files = <<>> /\ buf = <<>> /\ cur = 0 /\ seq = 0 /\ sync = FALSE

\* ---- Wal::append: the record gets a sequence number greater than every earlier one (the code: +1);
\* without an open file a file named by that number is opened (created, or appended to if it exists:
\* appending behind an incomplete record is not modelled - no correct writer does it)
AppendRec(r) ==
    /\ r.seq > seq
    /\ seq' = r.seq
    /\ cur = 0 /\ r.seq \in Names(files) => files[FileIdx(files, r.seq)].torn = 0
    /\ LET c == IF cur = 0 THEN r.seq ELSE cur
           fs == IF cur = 0 THEN WithFile(files, r.seq) ELSE files
           b == Append(buf, r)          \* buf is empty while no file is open
       IN  /\ cur' = c
           /\ IF sync THEN files' = Flushed(fs, b, c) /\ buf' = <<>>
                      ELSE files' = fs /\ buf' = b
    /\ UNCHANGED sync

AppendNode(tok, s) == AppendRec(MkRec(s, "node", tok))

Flush ==
    /\ files' = Flushed(files, buf, cur)
    /\ buf' = <<>>
    /\ UNCHANGED <<cur, seq, sync>>

\* Wal::set_sync_mode
SetSync(on) == sync' = on /\ UNCHANGED <<files, buf, cur, seq>>

\* Wal::checkpoint(current_sequence()): append a marker, flush, close the file
Checkpoint(s) ==
    /\ s > seq
    /\ seq' = s
    /\ LET r == MkRec(s, "ckpt", seq)
           c == IF cur = 0 THEN s ELSE cur
           fs == IF cur = 0 THEN WithFile(files, s) ELSE files
       IN  /\ cur = 0 /\ s \in Names(files) => files[FileIdx(files, s)].torn = 0
           /\ files' = Flushed(fs, Append(buf, r), c)
    /\ buf' = <<>>
    /\ cur' = 0
    /\ UNCHANGED sync

\* what Wal::new may do to the directory: remove the incomplete tail of the newest file, or leave it
Trimmed(fs, trim) ==
    IF trim /\ fs # <<>> THEN [fs EXCEPT ![Len(fs)].torn = 0] ELSE fs

\* drop (the BufWriter flushes) + Wal::new.  C15: numbering continues above everything durable.
Reopen(s, trim) ==
    /\ Clean
    /\ LET fs == Flushed(files, buf, cur) IN
       /\ s >= MaxDurable(fs)
       /\ files' = Trimmed(fs, trim)
    /\ seq' = s
    /\ buf' = <<>> /\ cur' = 0 /\ sync' = FALSE     \* Wal::new starts in async mode

\* the newest file cut at byte b: complete records below b stay, the rest of the bytes is an incomplete tail
CutAt(f, b) ==
    LET k == Max({j \in 0..Len(f.recs) : SumBytes(SubSeq(f.recs, 1, j)) <= b})
    IN  [f EXCEPT !.recs = SubSeq(f.recs, 1, k), !.torn = b - SumBytes(SubSeq(f.recs, 1, k))]

\* a crash: what the BufWriter holds is lost; fs is what the disk then holds; the log is opened again
Crashed(fs, s, trim) ==
    /\ Clean
    /\ s >= MaxDurable(fs)
    /\ files' = Trimmed(fs, trim)
    /\ seq' = s
    /\ buf' = <<>> /\ cur' = 0 /\ sync' = FALSE

\* crash without damage to the files
Crash(s, trim) == Crashed(files, s, trim)

\* crash that tore the newest file at byte b
Truncate(b, s, trim) ==
    /\ files # <<>>
    /\ b <= FileSize(files[Len(files)])
    /\ Crashed([files EXCEPT ![Len(files)] = CutAt(@, b)], s, trim)

\* ---- Flip: byte b of file fi is XORed with m; b lies inside a complete record ----
Bit(x, k) == (x \div (2 ^ k)) % 2
Xor8(x, m) == LET d(k) == (IF Bit(x, k) # Bit(m, k) THEN 2 ^ k ELSE 0)
              IN  d(0) + d(1) + d(2) + d(3) + d(4) + d(5) + d(6) + d(7)
\* little-endian field holding x < 256: the value it reads as after byte j is XORed with m
FlipVal(x, j, m) ==
    IF j = 0 THEN Xor8(x, m)
    ELSE IF j >= 4 \/ (j = 3 /\ m >= 64) THEN Cap
    ELSE x + m * (256 ^ j)

RecAt(f, b) == CHOOSE j \in DOMAIN f.recs : Start(f, j) <= b /\ b < Start(f, j) + RecBytes(f.recs[j])
Field(r, o) == IF o < 4 THEN "len" ELSE IF o < 12 THEN "seq" ELSE IF o < 12 + EntryLen(r) THEN "entry" ELSE "sum"

Flip(fi, b, m) ==
    /\ Clean
    /\ fi \in DOMAIN files
    /\ m \in 1..255
    /\ b < SumBytes(files[fi].recs)
    /\ LET f == files[fi]
           j == RecAt(f, b)
           r == f.recs[j]
           o == b - Start(f, j)
           fld == Field(r, o)
           v == IF fld = "len" THEN FlipVal(BodyLen(r), o, m)
                ELSE IF fld = "seq" THEN FlipVal(r.seq, o - 4, m) ELSE 0
       IN  files' = [files EXCEPT ![fi].recs[j] = [r EXCEPT !.bad = fld, !.v = v]]
    /\ UNCHANGED <<buf, cur, seq, sync>>

\* ---- what the pinned tree did (self-test only): numbering restarts at the name of the newest file ----
LegacyReopen ==
    /\ files' = Flushed(files, buf, cur)
    /\ seq' = IF files = <<>> THEN 0 ELSE files[Len(files)].name
    /\ buf' = <<>> /\ cur' = 0 /\ sync' = FALSE

\* ---- read view: which results of replay(from) the property allows ----
From(rs, from) == SelectSeq(rs, LAMBDA r : r.seq >= from)
Toks(rs) == [i \in DOMAIN rs |-> Tok(rs[i])]
IsPrefix(a, b) == Len(a) <= Len(b) /\ SubSeq(b, 1, Len(a)) = a
RECURSIVE IsSubseq(_, _)
IsSubseq(a, b) == IF a = <<>> THEN TRUE
                  ELSE IF b = <<>> THEN FALSE
                  ELSE IF a[1] = b[1] THEN IsSubseq(Tail(a), Tail(b)) ELSE IsSubseq(a, Tail(b))
ErrClasses == {"io", "ser", "corrupt", "invalid"}

\* o = [res, last, toks]; a successful replay that delivered something returns the last delivered sequence
Delivered(o, rs) == /\ o.res = "ok"
                    /\ o.toks = Toks(rs)
                    /\ rs # <<>> => o.last = rs[Len(rs)].seq

ReplayOK(fs, from, o) ==
    IF BadSites(fs) = {}
    THEN Delivered(o, From(Flatten(fs), from))
    ELSE LET p == CHOOSE q \in BadSites(fs) : TRUE
             f == fs[p[1]]
             r == f.recs[p[2]]
             pre == Flatten(SubSeq(fs, 1, p[1] - 1)) \o SubSeq(f.recs, 1, p[2] - 1)
             rest == SubSeq(f.recs, p[2] + 1, Len(f.recs))
             later == Flatten(SubSeq(fs, p[1] + 1, Len(fs)))
             \* only the length prefix is damaged: the content of the record is intact
             self == IF r.bad = "len" THEN <<r>> ELSE <<>>
             \* a length that points beyond the end of the file reads exactly like a record torn by a crash
             tornLike == r.bad = "len" /\ Start(f, p[2]) + 4 + r.v > FileSize(f)
         IN  \/ /\ o.res \in ErrClasses
                /\ IsPrefix(Toks(From(pre, from)), o.toks)
                /\ IsSubseq(o.toks, Toks(From(pre \o self \o rest \o later, from)))
             \/ /\ tornLike
                /\ Delivered(o, From(pre \o later, from))

\* KF_C15_SequenceNotChecksummed: the checksum covers the entry only, so a record whose sequence field
\* was altered passes verification and is delivered under the altered number
KF_C15_SequenceNotChecksummed(fs, from, o) ==
    /\ BadSites(fs) # {}
    /\ LET p == CHOOSE q \in BadSites(fs) : TRUE
           r == fs[p[1]].recs[p[2]]
           fs2 == [fs EXCEPT ![p[1]].recs[p[2]] = [r EXCEPT !.seq = r.v, !.bad = "none"]]
       IN  r.bad = "seq" /\ Delivered(o, From(Flatten(fs2), from))

\* ---- C15 as state invariants (design level) ----
AllRecs == Flatten(Flushed(files, buf, cur))
StrictlyIncreasing == \A i, j \in DOMAIN AllRecs : i < j => AllRecs[i].seq < AllRecs[j].seq
NamesSorted == \A i, j \in DOMAIN files : i < j => files[i].name < files[j].name
NameIsFirstSeq == \A i \in DOMAIN files : files[i].recs # <<>> => files[i].recs[1].seq = files[i].name
WriterOK == /\ (cur = 0 => buf = <<>>)
            /\ (cur # 0 => cur \in Names(files))
            /\ seq >= MaxDurable(Flushed(files, buf, cur))
TypeOK == /\ seq \in Nat /\ cur \in Nat
          /\ \A i \in DOMAIN files : files[i].torn \in Nat /\ files[i].name \in Nat
=============================================================================
