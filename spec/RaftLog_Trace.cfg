SPECIFICATION TSpec
CONSTANTS MaxIndex = 1000
          MaxTerm = 1000
          OpenKF = {}
INVARIANTS OneEntryPerIndex SortedContiguous LastIsNewest
POSTCONDITION Post
CHECK_DEADLOCK FALSE
