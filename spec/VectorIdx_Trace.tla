--------------------------- MODULE VectorIdx_Trace ---------------------------
(* C29 trace specification.  Mutator events (CreateNode, SetVector,            *)
(* DropVector, AddLabel, RemoveLabel, DeleteNode, CreateIndex, Rebuild) carry  *)
(* the real arguments (real node ids) and obs.nodes = the labels and vector    *)
(* properties the real store reports for every live node afterwards.  A       *)
(* "Searches" event carries the answers of vector_search /                     *)
(* CALL db.index.vector.queryNodes for every (index, query, k) in the state    *)
(* just reached: s = << [label, prop, q, k, ok, res] >> with res a sequence   *)
(* of node ids and ok = FALSE when the call / query failed.  Each answer must  *)
(* be correct for the model state                                              *)
(* (SearchOK = C29); when that fails the answers may be explained by the open  *)
(* known deviations, all answers of one event under ONE set of deviations,     *)
(* never under fewer than an earlier event of the script already needed, and   *)
(* with as few additional ones as possible.                                    *)
EXTENDS VectorIdx, TraceBase

tvars == <<node, idx, ent, clk, l, sid, used, failed>>

ToSet(s) == {s[i] : i \in DOMAIN s}
SameFn(a, b) == DOMAIN a = DOMAIN b /\ \A p \in DOMAIN a : a[p] = b[p]
FnOf(o) == [p \in DOMAIN o |-> o[p]]

NodesOK ==
    LET o == Ev.obs.nodes IN
    /\ {o[i][1] : i \in DOMAIN o} = DOMAIN node'
    /\ Len(o) = Cardinality(DOMAIN node')
    /\ \A i \in DOMAIN o : /\ ToSet(o[i][2]) = node'[o[i][1]].labels
                           /\ SameFn(o[i][3], node'[o[i][1]].vec)

TInit == VInit /\ TBInit
T_Reset == ResetBook /\ node' = <<>> /\ idx' = <<>> /\ ent' = <<>> /\ clk' = 0
T_Fail == FailBook /\ node' = <<>> /\ idx' = <<>> /\ ent' = <<>> /\ clk' = 0

Ok == Ev.res = "ok"
T_CreateNode == IsEv("CreateNode") /\ Ok /\ CreateNode(Ev.id, ToSet(Ev.labels), FnOf(Ev.vecs)) /\ NodesOK /\ Same
T_SetVector == IsEv("SetVector") /\ Ok /\ SetVector(Ev.id, Ev.prop, Ev.v) /\ NodesOK /\ Same
T_DropVector == IsEv("DropVector") /\ Ok /\ DropVector(Ev.id, Ev.prop) /\ NodesOK /\ Same
T_AddLabel == IsEv("AddLabel") /\ Ok /\ AddLabel(Ev.id, Ev.label) /\ NodesOK /\ Same
T_RemoveLabel == IsEv("RemoveLabel") /\ Ok /\ RemoveLabel(Ev.id, Ev.label) /\ NodesOK /\ Same
T_DeleteNode == IsEv("DeleteNode") /\ Ok /\ DeleteNode(Ev.id) /\ NodesOK /\ Same
T_CreateIndex == IsEv("CreateIndex") /\ Ok /\ CreateIndex(<<Ev.label, Ev.prop>>, Ev.metric, Ev.backfill) /\ NodesOK /\ Same
T_Rebuild == IsEv("Rebuild") /\ Ok /\ Rebuild /\ NodesOK /\ Same

\* one answer under the deviation set S.  A failing Cypher query ("err") is never a correct
\* answer; the pinned tree fails when the rows name a node that no longer exists, i.e. when
\* the physical answer necessarily contains a dead entry's id that is not live.
AnswerOK(S, a) ==
    LET key == <<a.label, a.prop>> IN
    /\ key \in DOMAIN idx
    /\ IF ~a.ok
       THEN /\ "KF_C29_DeletedStillIndexed" \in S
            /\ a.via = "cypher"
            /\ IsExact(key) /\ MayNameMissingNode(S, key, a.q, a.k)
       ELSE SearchOKUnder(S, key, a.q, a.k, a.res)

\* the deviation sets of j more deviations than the script already needed that explain every answer
AllOK(S) == \A i \in DOMAIN Ev.s : AnswerOK(S, Ev.s[i])
Lvl(j) == LET base == used \cap KFNames IN
          {S \in SUBSET (OpenKF \cap KFNames) : base \subseteq S /\ Cardinality(S \ base) = j /\ AllOK(S)}
\* explained with as few further deviations as possible (a larger set now is never needed later:
\* later events may add deviations)
T_Searches ==
    /\ IsEv("Searches")
    /\ UNCHANGED vvars
    /\ \E Z0 \in {Lvl(0)} :
         IF Z0 # {} THEN \E S \in Z0 : KFs(S)
         ELSE \E Z1 \in {Lvl(1)} :
              IF Z1 # {} THEN \E S \in Z1 : KFs(S)
              ELSE \E Z2 \in {Lvl(2)} :
                   IF Z2 # {} THEN \E S \in Z2 : KFs(S)
                   ELSE \E S \in Lvl(3) : KFs(S)

TNext == T_Fail \/ T_Reset \/ T_CreateNode \/ T_SetVector \/ T_DropVector \/ T_AddLabel \/ T_RemoveLabel
         \/ T_DeleteNode \/ T_CreateIndex \/ T_Rebuild \/ T_Searches
TSpec == TInit /\ [][TNext]_tvars
=============================================================================
