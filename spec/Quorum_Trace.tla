---------------------------- MODULE Quorum_Trace ----------------------------
(* C33 trace specification: the real ClusterConfig/ClusterManager calls are   *)
(* explained by the Quorum actions; whenever the real health_status() said    *)
(* healthy, the model state must allow it (leader known and strict majority   *)
(* of distinct voters active).  The property is an implication, so an         *)
(* implementation that says "unhealthy" more often is not rejected.           *)
EXTENDS Quorum, TraceBase

tvars == <<member, active, leader, cfg, up, l, sid, used, failed>>

ObsOK == Ev.obs.healthy => HealthyAllowed'

TInit == QInit /\ TBInit
T_Reset == ResetBook /\ member' = <<>> /\ active' = {} /\ leader' = {} /\ cfg' = <<>> /\ up' = FALSE
T_Fail == FailBook /\ member' = <<>> /\ active' = {} /\ leader' = {} /\ cfg' = <<>> /\ up' = FALSE
T_CfgAdd == IsEv("CfgAdd") /\ CfgAdd(Ev.id, Ev.voter) /\ Same
T_Start == IsEv("Start") /\ Start(Ev.res = "ok") /\ (Ev.res = "ok" => ObsOK) /\ Same
T_AddNode == IsEv("AddNode") /\ AddNode(Ev.id, Ev.voter) /\ ObsOK /\ Same
T_RemoveNode == IsEv("RemoveNode") /\ RemoveNode(Ev.id) /\ ObsOK /\ Same
T_MarkActive == IsEv("MarkActive") /\ MarkActive(Ev.id) /\ ObsOK /\ Same
T_MarkInactive == IsEv("MarkInactive") /\ MarkInactive(Ev.id) /\ ObsOK /\ Same
T_SetRole == IsEv("SetRole") /\ SetRole(Ev.id, Ev.leader) /\ ObsOK /\ Same

TNext == T_Fail \/ T_Reset \/ T_CfgAdd \/ T_Start \/ T_AddNode \/ T_RemoveNode \/ T_MarkActive \/ T_MarkInactive \/ T_SetRole
TSpec == TInit /\ [][TNext]_tvars
=============================================================================
