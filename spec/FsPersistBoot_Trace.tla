------------------------ MODULE FsPersistBoot_Trace ------------------------
(* The harness starts the REAL server binary (src/main.rs) on a fresh data directory, sends the snapshot to *)
(* the real HTTP route and the CREATE to the real RESP port, kills the process (SIGKILL), starts it again   *)
(* and asks it for MATCH (n) RETURN n.k.  The restart is judged by the property: the graph that comes back  *)
(* is the graph that had been acknowledged.                                                                *)
EXTENDS FsPersistBoot, TraceBase
tvars == <<mem, rocks, file, up, allowed, fresh, l, sid, used, failed>>
SeqToSet(s) == {s[i] : i \in DOMAIN s}
BReset == mem' = {} /\ rocks' = {} /\ file' = {} /\ up' = TRUE /\ allowed' = {{}} /\ fresh' = FALSE
TInit == BInit /\ TBInit
T_Reset == ResetBook /\ BReset
T_Fail == FailBook /\ BReset
\* what the committed snapshot file holds is read from the directory (snapshot AND marker present)
FileG == IF Ev.obs.dir.snap.st = "full" /\ Ev.obs.dir.mark.st # "absent" THEN SeqToSet(Ev.obs.dir.snap.g) ELSE {}
T_Import == IsEv("BootImport") /\ Ev.status = 200 /\ SrvImport(Ev.k, FileG) /\ SeqToSet(Ev.obs.g) = mem' /\ Same
T_Write == IsEv("BootWrite") /\ Ev.res = "ok" /\ SrvWrite /\ SeqToSet(Ev.obs.g) = mem' /\ Same
T_Kill == IsEv("BootKill") /\ SrvKill /\ Same
T_Restart ==
    /\ IsEv("BootRestart") /\ Ev.res = "up"
    /\ \/ SeqToSet(Ev.obs.g) \in allowed /\ SrvRestart(SeqToSet(Ev.obs.g)) /\ Same
       \/ KF_C14_RocksRecoverySkipsRestore(SeqToSet(Ev.obs.g)) /\ KF("KF_C14_RocksRecoverySkipsRestore")
TNext == T_Fail \/ T_Reset \/ T_Import \/ T_Write \/ T_Kill \/ T_Restart
TSpec == TInit /\ [][TNext]_tvars
=============================================================================
