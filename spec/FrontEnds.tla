------------------------------ MODULE FrontEnds ------------------------------
(***************************************************************************)
(* C23 -- RESP GRAPH.QUERY and the HTTP query endpoint run every statement *)
(* like the engine does.                                                   *)
(*                                                                         *)
(* src/protocol/command.rs  CommandHandler::handle_graph_query             *)
(* src/http/handler.rs      query_handler                                  *)
(* src/query/mod.rs         QueryEngine::execute / execute_mut             *)
(*                                                                         *)
(* The engine has two entry points: `execute` borrows the store shared and *)
(* REFUSES every statement whose plan is a write plan; `execute_mut`       *)
(* borrows it exclusively and runs anything.  A front end therefore has to *)
(* decide, BEFORE it takes the store lock, which of the two to call:       *)
(*                                                                         *)
(*     Classify(r)   text -> "read" | "write"                              *)
(*     Execute(r)    read  : shared lock,    QueryEngine::execute          *)
(*                   write : exclusive lock, QueryEngine::execute_mut      *)
(*                                                                         *)
(* Statements are the structures of Routing.tla (optional EXPLAIN/PROFILE, *)
(* leading read clauses, at most one write/DDL clause, closing RETURN,     *)
(* keyword case, separator) plus a decoration `deco` that puts write       *)
(* keywords where they are NOT clauses (string literal, UNION branch).     *)
(* The text is rendered here, so the classifier of the pinned tree (a      *)
(* prefix / substring test on the upper-cased text) is modelled on the     *)
(* very characters it sees: LegacyPath.                                    *)
(*                                                                         *)
(* Every statement is run three times on identical fresh graphs: on the    *)
(* engine itself (the reference: whatever it answers is right by           *)
(* definition), through RESP and through HTTP.  The abstract result of a   *)
(* run is                                                                  *)
(*     out   "rows" | "refused"                                            *)
(*     same  the columns and rows are the engine's                         *)
(*     eff   "stmt" the graph is the one the engine's run left behind      *)
(*           "none" the graph is untouched                                 *)
(* C23: for both front ends out, rows and graph equal the engine's, and a  *)
(* run that went down the read path left the graph untouched.              *)
(***************************************************************************)
EXTENDS Naturals, Sequences, FiniteSets, TLC

CONSTANT Mode          \* "parsed": decide on the parsed statement (repaired tree); "legacy": the text heuristics

\* the statement vocabulary of Routing.tla (C24 shares it); its NLQ part is not used here
R == INSTANCE Routing WITH NlqMode <- "parsed", out <- [res |-> "none", cl |-> <<>>]

VARIABLES cur,         \* the statement being run: [active, st, text, upper, legacy]
          ref,         \* the engine's own run: [done, cls, out]
          phase,       \* front end -> "idle" | "submitted" | "classified" | "done"
          path,        \* front end -> "none" | "read" | "write"
          res          \* front end -> [out, same, eff]
fvars == <<cur, ref, phase, path, res>>

FrontEnd == {"resp", "http"}
OutKinds == {"rows", "refused", "panic"}     \* "panic": the call did not return (the reference may do that too)
NoStmt == [active |-> FALSE, st |-> "none", text |-> "", upper |-> "", legacy |-> <<>>]
NoRef == [done |-> FALSE, cls |-> "read", out |-> "none"]
NoRes == [out |-> "none", same |-> FALSE, eff |-> "none"]

\* ------------------------------------------------------------------ statements
DecoKinds == {"none", "kwlit", "kwlitnl", "union"}

\* a decoration replaces the closing RETURN (st.ret = FALSE) by a RETURN that carries write
\* keywords which are not clauses
DecoText(d, kc) ==
    LET U == kc = "upper" IN
    CASE d = "kwlit"   -> IF U THEN "RETURN ' CREATE ' AS s" ELSE "return ' create ' as s"
      [] d = "kwlitnl" -> IF U THEN "RETURN '\nSET ' AS s" ELSE "return '\nset ' as s"
      [] d = "union"   -> IF U THEN "RETURN ' a ' AS s UNION RETURN ' MERGE ' AS s" ELSE "return ' a ' as s union return ' merge ' as s"
      [] OTHER         -> ""

WellFormed(st) ==
    /\ st.deco \in DecoKinds
    /\ IF st.deco = "none" THEN R!WellFormedStmt(st)
       ELSE ~st.ret /\ R!WellFormedStmt([st EXCEPT !.ret = TRUE])      \* the decoration is the closing RETURN

Text(st) ==
    IF st.deco = "none" THEN R!StmtText(st)
    ELSE LET base == R!StmtText(st) IN
         (IF base = "" THEN "" ELSE base \o R!SepText(st.sep)) \o DecoText(st.deco, st.kc)

\* what `text.trim().to_uppercase()` is as far as keywords go: every keyword upper case
\* (identifiers and labels keep their case; none of them contains a keyword)
UpperText(st) == Text([st EXCEPT !.kc = "upper"])

\* the engine's own verdict, by structure: a write or DDL clause makes the plan a write plan,
\* except under EXPLAIN which only describes the plan
EngineWrite(st) == R!IsWrite(st) /\ st.ex # "EXPLAIN"

\* ------------------------------------------------------------------ the pinned tree's classifiers
Contains(t, sub) == \E i \in 1..(Len(t) + 1 - Len(sub)) : SubSeq(t, i, i + Len(sub) - 1) = sub
StartsWith(t, p) == Len(t) >= Len(p) /\ SubSeq(t, 1, Len(p)) = p
EndsWith(t, p) == Len(t) >= Len(p) /\ SubSeq(t, Len(t) + 1 - Len(p), Len(t)) = p

\* command.rs:144  (u = query.trim().to_uppercase())
RespLegacyWrite(u) ==
    \/ \E k \in {"CREATE", "DELETE", "SET", "MERGE"} : StartsWith(u, k)
    \/ \E k \in {" CREATE ", " DELETE ", " SET ", " MERGE "} : Contains(u, k)
\* handler.rs:93
HttpLegacyWrite(u) ==
    \/ \E k \in {"CREATE", "SET", "DELETE", "MERGE"} : StartsWith(u, k)
    \/ /\ StartsWith(u, "MATCH")
       /\ \/ \E k \in {" CREATE ", " SET ", " DELETE ", " MERGE ", " REMOVE "} : Contains(u, k)
          \/ \E k \in {" CREATE", " SET", " DELETE", " MERGE"} : EndsWith(u, k)

LegacyPath(r, u) ==
    IF (IF r = "resp" THEN RespLegacyWrite(u) ELSE HttpLegacyWrite(u)) THEN "write" ELSE "read"

\* the repaired tree asks the engine (planner verdict on the parsed statement)
ParsedPath == ref.cls

PathOf(r) == IF Mode = "legacy" THEN cur.legacy[r] ELSE ParsedPath

\* ------------------------------------------------------------------ the two engine entry points
\* what a front end gets when it calls the engine on the path p
\*   read path : the read executor refuses a write plan and cannot touch the graph
\*   write path: execute_mut does what the engine's own run did; a read statement changes nothing there
\*               either, but MutQueryExecutor has no UNION branch: it answers the first branch only
HasUnion(st) == st.deco = "union"
Exec(p) ==
    IF p = "read"
    THEN IF ref.cls = "write" THEN [out |-> "refused", same |-> TRUE, eff |-> "none"]
                              ELSE [out |-> ref.out, same |-> TRUE, eff |-> "none"]
    ELSE [out |-> ref.out,
          same |-> ~(ref.cls = "read" /\ HasUnion(cur.st)),
          eff |-> IF ref.cls = "write" THEN "stmt" ELSE "none"]

\* ------------------------------------------------------------------ actions
FInit ==
    /\ cur = NoStmt /\ ref = NoRef
    /\ phase = [r \in FrontEnd |-> "idle"]
    /\ path = [r \in FrontEnd |-> "none"]
    /\ res = [r \in FrontEnd |-> NoRes]

\* a client has the statement st (text t, upper-cased u) to run; three fresh identical graphs.
\* cur.legacy remembers what the text heuristics make of u (a function of the text alone).
Submit(st, t, u) ==
    /\ cur' = [active |-> TRUE, st |-> st, text |-> t, upper |-> u,
               legacy |-> [r \in FrontEnd |-> LegacyPath(r, u)]]
    /\ ref' = NoRef
    /\ phase' = [r \in FrontEnd |-> "submitted"]
    /\ path' = [r \in FrontEnd |-> "none"]
    /\ res' = [r \in FrontEnd |-> NoRes]

\* the engine run directly: it parses, plans, and takes `execute` or `execute_mut` by its own
\* verdict cls; whatever it answers (o) is the reference
EngineRun(cls, o) ==
    /\ cur.active /\ ~ref.done
    /\ cls \in {"read", "write"} /\ o \in OutKinds
    /\ ref' = [done |-> TRUE, cls |-> cls, out |-> o]
    /\ UNCHANGED <<cur, phase, path, res>>

\* step 1 of a front-end call: read path or write path
ClassifyAs(r, p) ==
    /\ ref.done /\ phase[r] = "submitted"
    /\ path' = [path EXCEPT ![r] = p]
    /\ phase' = [phase EXCEPT ![r] = "classified"]
    /\ UNCHANGED <<cur, ref, res>>
Classify(r) == ClassifyAs(r, PathOf(r))

\* step 2: take the lock of that path and call the engine
Execute(r) ==
    /\ phase[r] = "classified"
    /\ res' = [res EXCEPT ![r] = Exec(path[r])]
    /\ phase' = [phase EXCEPT ![r] = "done"]
    /\ UNCHANGED <<cur, ref, path>>

\* one whole front-end call = Classify(r) ; Execute(r) (nothing of the same call interleaves)
ServeAs(r, p) ==
    /\ ref.done /\ phase[r] = "submitted"
    /\ path' = [path EXCEPT ![r] = p]
    /\ res' = [res EXCEPT ![r] = Exec(p)]
    /\ phase' = [phase EXCEPT ![r] = "done"]
    /\ UNCHANGED <<cur, ref>>
Serve(r) == ServeAs(r, PathOf(r))

\* KNOWN DEVIATION (pinned tree): the front end does not ask the engine; it decides from the
\* upper-cased text with the prefix/substring tests above.  Enabled only where that verdict
\* differs from the engine's, and it predicts exactly what follows: a write sent down the read
\* path is refused and leaves the graph untouched; a read sent down the write path is run by
\* execute_mut (same rows, except that a UNION loses its later branches).
KF_C23_SubstringRouting(r) ==
    /\ cur.legacy[r] # ref.cls
    /\ ServeAs(r, cur.legacy[r])

\* ------------------------------------------------------------------ C23
Agrees(r) == /\ res[r].out = ref.out
             /\ res[r].same
             /\ res[r].eff = (IF ref.cls = "write" THEN "stmt" ELSE "none")
SameAsEngine == \A r \in FrontEnd : phase[r] = "done" => Agrees(r)
ReadPathNeverWrites == \A r \in FrontEnd : phase[r] = "done" /\ path[r] = "read" => res[r].eff = "none"

FTypeOK ==
    /\ phase \in [FrontEnd -> {"idle", "submitted", "classified", "done"}]
    /\ path \in [FrontEnd -> {"none", "read", "write"}]
    /\ \A r \in FrontEnd : res[r].out \in OutKinds \cup {"none"} /\ res[r].eff \in {"none", "stmt"}
    /\ ref.cls \in {"read", "write"} /\ ref.out \in OutKinds \cup {"none"}
=============================================================================
