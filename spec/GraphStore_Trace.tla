-------------------------- MODULE GraphStore_Trace --------------------------
(* C06 trace specification.  Each recorded call on the real GraphStore must   *)
(* be explained by the GraphStore action of the same name (ids bound from the *)
(* trace), and EVERY read view the property names, as returned by the real    *)
(* read API after the call, must equal the view computed from the model's     *)
(* physical state.  With the ideal actions that state always refines the      *)
(* logical graph (ViewsAgree is also evaluated here as an invariant whenever  *)
(* no deviation has been taken), so an accepted trace without deviations      *)
(* satisfies C06 at every step.                                               *)
EXTENDS GraphStore, TraceBase

tvars == <<node, col, ends, etype, ep, buf, frozen, labelIdx, typeIdx, bulk, l, sid, used, failed>>

ToSet(s) == {s[k] : k \in DOMAIN s}
BagOf(s, D) == [x \in D |-> Cardinality({k \in DOMAIN s : s[k] = x})]
SortedSeqOfSet(S, s) == Len(s) = Cardinality(S) /\ ToSet(s) = S

NodeOK(o) ==
    \A n \in NodeIds :
        /\ o.node[n].live = LiveN(n)' /\ o.node[n].has = LiveN(n)'
        /\ ToSet(o.node[n].labels) = node'[n].labels
        /\ o.node[n].p = node'[n].p
        /\ o.node[n].full = FullP(n)'
EdgeOK(o) ==
    \A e \in EdgeIds :
        /\ o.edge[e].live = LiveE(e)' /\ o.edge[e].has = LiveE(e)'
        /\ <<o.edge[e].s, o.edge[e].d>> = ends'[e]
        /\ o.edge[e].t = etype'[e]
        /\ o.edge[e].p = ep'[e]
AdjOK(o) ==
    \A n \in NodeIds :
        /\ BagOf(o.outE[n], EdgeIds) = OutE(n)'
        /\ BagOf(o.inE[n], EdgeIds) = InE(n)'
        /\ BagOf(o.outN[n], NodeIds \X EdgeIds) = OutN(n)'
        /\ BagOf(o.inN[n], NodeIds \X EdgeIds) = InN(n)'
        /\ \A t \in Types :
              /\ BagOf(o.outNT[n][t], NodeIds) = OutNT(n, t)'
              /\ BagOf(o.inNT[n][t], NodeIds) = InNT(n, t)'
              /\ o.degOut[n][t] = FoldSet(LAMBDA m, acc : acc + OutNT(n, t)'[m], 0, NodeIds)
              /\ o.degIn[n][t] = FoldSet(LAMBDA m, acc : acc + InNT(n, t)'[m], 0, NodeIds)
BetweenOK(o) ==
    \A s \in NodeIds, d \in NodeIds, t \in Types \cup {"any"} :
        /\ BagOf(o.between[s][d][t], EdgeIds) = Between(s, d, t)'
        /\ LET f == o.first[s][d][t] IN
           IF \A e \in EdgeIds : Between(s, d, t)'[e] = 0 THEN f = 0 ELSE f \in EdgeIds /\ Between(s, d, t)'[f] > 0
IndexOK(o) ==
    /\ \A lb \in Labels : SortedSeqOfSet(ByLabel(lb)', o.byLabel[lb])
    /\ \A t \in Types : SortedSeqOfSet(ByType(t)', o.byType[t])
CountOK(o) ==
    /\ o.nodeCount = NodeCount'
    /\ o.edgeCount = EdgeCount'
    /\ SortedSeqOfSet({n \in NodeIds : LiveN(n)'}, o.allNodes)
    /\ SortedSeqOfSet({e \in EdgeIds : LiveE(e)'}, o.allEdges)

\* during a bulk load (stubs inserted, finish_bulk_load not yet called) the type index and the sorted
\* relationships-between search are not required to be up to date: the property speaks of finished loads
ObsOK ==
    LET o == Ev.obs IN
    /\ NodeOK(o) /\ EdgeOK(o) /\ AdjOK(o) /\ CountOK(o)
    /\ \A lb \in Labels : SortedSeqOfSet(ByLabel(lb)', o.byLabel[lb])
    /\ ~bulk' => BetweenOK(o) /\ IndexOK(o)

Ok == Ev.res = "ok"

TInit == GInit /\ TBInit
ResetVars ==
    /\ node' = [n \in NodeIds |-> DeadNode] /\ col' = [n \in NodeIds |-> None]
    /\ ends' = [e \in EdgeIds |-> NoEnds] /\ etype' = [e \in EdgeIds |-> Unset] /\ ep' = [e \in EdgeIds |-> None]
    /\ buf' = {} /\ frozen' = [x \in Entry |-> 0]
    /\ labelIdx' = [lb \in Labels |-> {}] /\ typeIdx' = [t \in Types |-> {}] /\ bulk' = FALSE

T_Reset == ResetBook /\ ResetVars
T_Fail == FailBook /\ ResetVars

T_CreateNode == IsEv("CreateNode") /\ CreateNode(Ev.id, ToSet(Ev.labels)) /\ ObsOK /\ Same
T_CreateEdge == IsEv("CreateEdge") /\ CreateEdge(Ev.id, Ev.s, Ev.d, Ev.t, Ok) /\ ObsOK /\ Same
T_CreateEdgeStub == IsEv("CreateEdgeStub") /\ Ok /\ CreateEdgeStub(Ev.id, Ev.s, Ev.d, Ev.t) /\ ObsOK /\ Same
T_CreateEdgeP == IsEv("CreateEdgeP") /\ CreateEdgeP(Ev.id, Ev.s, Ev.d, Ev.t, Ev.v, Ok) /\ ObsOK /\ Same
T_CreateNodeStub == IsEv("CreateNodeStub") /\ CreateNodeStub(Ev.id, Ev.label) /\ ObsOK /\ Same
T_SetColumnProp == IsEv("SetColumnProp") /\ SetColumnProp(Ev.n, Ev.v) /\ ObsOK /\ Same
T_RemoveEdgeProp == IsEv("RemoveEdgeProp") /\ RemoveEdgeProp(Ev.e) /\ ObsOK /\ Same
T_Clear == IsEv("Clear") /\ Clear /\ ObsOK /\ Same
T_DeleteEdge ==
    /\ IsEv("DeleteEdge")
    /\ \/ DeleteEdge(Ev.e, Ok) /\ Same
       \/ KF_DeleteEdge_FrozenKept(Ev.e, Ok) /\ KF("KF_DeleteEdge_FrozenKept")
    /\ ObsOK
T_DeleteNode ==
    /\ IsEv("DeleteNode")
    /\ \/ DeleteNode(Ev.n, Ok) /\ Same
       \/ KF_DeleteNode_FrozenKept(Ev.n, Ok) /\ KF("KF_DeleteNode_FrozenKept")
    /\ ObsOK
T_Compact == IsEv("Compact") /\ Compact /\ ObsOK /\ Same
T_Finish == IsEv("FinishBulkLoad") /\ FinishBulkLoad /\ ObsOK /\ Same
T_SetNodeProp == IsEv("SetNodeProp") /\ SetNodeProp(Ev.n, Ev.v, Ok) /\ ObsOK /\ Same
T_RemoveNodeProp == IsEv("RemoveNodeProp") /\ RemoveNodeProp(Ev.n) /\ ObsOK /\ Same
T_AddLabel == IsEv("AddLabel") /\ AddLabel(Ev.n, Ev.label, Ok) /\ ObsOK /\ Same
T_RemoveLabel == IsEv("RemoveLabel") /\ RemoveLabel(Ev.n, Ev.label, Ok) /\ ObsOK /\ Same
T_SetEdgeProp == IsEv("SetEdgeProp") /\ SetEdgeProp(Ev.e, Ev.v, Ok) /\ ObsOK /\ Same

TNext == \/ T_Fail \/ T_Reset \/ T_CreateNode \/ T_CreateEdge \/ T_CreateEdgeStub \/ T_DeleteEdge \/ T_DeleteNode
         \/ T_CreateEdgeP \/ T_CreateNodeStub \/ T_SetColumnProp \/ T_RemoveEdgeProp \/ T_Clear
         \/ T_Compact \/ T_Finish \/ T_SetNodeProp \/ T_RemoveNodeProp \/ T_AddLabel \/ T_RemoveLabel \/ T_SetEdgeProp
TSpec == TInit /\ [][TNext]_tvars

\* C06 itself, evaluated at every step of every trace that needed no deviation
IdealHolds == used = {} => ViewsAgree /\ NoDangling /\ NothingInherited
=============================================================================
