---------------------------- MODULE Server_Trace ----------------------------
(* C19 trace specification.  One event per statement sent to a front end of   *)
(* one server incarnation (real PersistenceManager on a temporary directory,  *)
(* wired as main.rs wires it) and one per Restart.  Every event logs the      *)
(* served graph afterwards: the GraphStore dump with ids and three read       *)
(* queries through the RESP handler; the model's graph must equal it.  What   *)
(* the data directory holds is not observable until the next Restart: TLC     *)
(* carries every persistence behaviour that is allowed (the ideal one, and    *)
(* the deviations listed open) and the Restart event decides.                 *)
(*  - the statement text is the rendering of the step's arguments (binding)   *)
(*  - ids of created nodes / relationships are taken from the dump            *)
(*  - a statement that was not acknowledged must have changed nothing         *)
(*  - the ids shown in the reply rows are the ones the model returns          *)
EXTENDS Server, TraceBase

tvars == <<nodes, rels, dnodes, drels, l, sid, used, failed>>

Range(s) == {s[i] : i \in DOMAIN s}
ToSet(s) == {s[i] : i \in DOMAIN s}
O == Ev.obs

ObsNodes == {<<n[1], n[2], ToSet(n[3]), n[4]>> : n \in Range(O.nodes)}
ObsRels == {<<e[1], e[2], e[3], e[4]>> : e \in Range(O.rels)}
ModelNodes(ns) == {<<i, ns[i].k, ns[i].lbl, ns[i].p>> : i \in DOMAIN ns}
ModelRels(rs) == {<<e, rs[e].s, rs[e].t, rs[e].w>> : e \in DOMAIN rs}
Bag2(S) == {<<x[2], x[3]>> : x \in S}

DumpOK ==
    /\ ObsNodes = ModelNodes(nodes') /\ Len(O.nodes) = Cardinality(DOMAIN nodes')
    /\ ObsRels = ModelRels(rels') /\ Len(O.rels) = Cardinality(DOMAIN rels')
    \* the serving path sees the same graph
    /\ {<<x[1], x[2]>> : x \in Range(O.byA)} = LabelScan(nodes', "A") /\ Len(O.byA) = Cardinality(LabelScan(nodes', "A"))
    /\ {<<x[1], x[2]>> : x \in Range(O.byB)} = LabelScan(nodes', "B") /\ Len(O.byB) = Cardinality(LabelScan(nodes', "B"))
    /\ {<<x[1], x[2]>> : x \in Range(O.pairs)} = Bag2(Traversal(nodes', rels'))
    /\ Len(O.pairs) = Cardinality(DOMAIN rels')

ObsIds == {n[1] : n \in Range(O.nodes)}
ObsEids == {e[1] : e \in Range(O.rels)}

\* A(pm): the action with persistence behaviour pm (the ideal one, or a deviation listed open);
\* retn / rete: what the model returns in the rows
Body(text, A(_), retn, rete) ==
    /\ Ev.r \in Route
    /\ Ev.q = text
    /\ IF O.ack = "ok"
       THEN /\ ToSet(O.retn) = retn /\ ToSet(O.rete) = rete
            /\ \/ A("ideal") /\ DumpOK /\ Same
               \/ \E d \in {"KF_C19_OnlyReturnedEntitiesPersisted", "KF_C19_HttpNotPersisted"} : A(d) /\ DumpOK /\ KF(d)
       ELSE O.ack = "refused" /\ Refused /\ DumpOK /\ Same

Step(name, text, A(_), retn, rete) == IsEv(name) /\ Body(text, A, retn, rete)

RN(k) == IF Ev.ret THEN Match(k) ELSE {}
RE(a, b) == IF Ev.ret THEN RelsBetween(a, b) ELSE {}

T_CreateNode ==
    /\ IsEv("CreateNode")
    /\ \E id \in ObsIds \cup {0} :
        Body(QCreateNode(Ev.k, Ev.ret),
             LAMBDA pm : CreateNode(Ev.r, Ev.k, id, Ev.ret, pm), IF Ev.ret THEN {id} ELSE {}, {})
T_SetProp == Step("SetProp", QSetProp(Ev.k, Ev.v, Ev.ret), LAMBDA pm : SetProp(Ev.r, Ev.k, Ev.v, Ev.ret, pm), RN(Ev.k), {})
T_RemoveProp == Step("RemoveProp", QRemoveProp(Ev.k, Ev.ret), LAMBDA pm : RemoveProp(Ev.r, Ev.k, Ev.ret, pm), RN(Ev.k), {})
T_AddLabel == Step("AddLabel", QAddLabel(Ev.k, Ev.ret), LAMBDA pm : AddLabel(Ev.r, Ev.k, Ev.ret, pm), RN(Ev.k), {})
T_RemoveLabel == Step("RemoveLabel", QRemoveLabel(Ev.k, Ev.ret), LAMBDA pm : RemoveLabel(Ev.r, Ev.k, Ev.ret, pm), RN(Ev.k), {})
T_DeleteNode == Step("DeleteNode", QDeleteNode(Ev.k), LAMBDA pm : DeleteNode(Ev.r, Ev.k, pm), {}, {})
T_DetachDelete == Step("DetachDelete", QDetachDelete(Ev.k), LAMBDA pm : DetachDelete(Ev.r, Ev.k, pm), {}, {})
T_CreateRel ==
    /\ IsEv("CreateRel")
    /\ \E eid \in ObsEids \cup {0} :
        Body(QCreateRel(Ev.a, Ev.b, Ev.ret),
             LAMBDA pm : CreateRel(Ev.r, Ev.a, Ev.b, eid, Ev.ret, pm), {}, IF Ev.ret /\ CreatesRel(Ev.a, Ev.b) THEN {eid} ELSE {})
T_CreateRelAll ==
    /\ IsEv("CreateRelAll")
    /\ \E eid \in ObsEids \cup {0} :
        Body(QCreateRelAll(Ev.a, Ev.b),
             LAMBDA pm : CreateRelAll(Ev.r, Ev.a, Ev.b, eid, pm),
             IF CreatesRel(Ev.a, Ev.b) THEN Match(Ev.a) \cup Match(Ev.b) ELSE {}, IF CreatesRel(Ev.a, Ev.b) THEN {eid} ELSE {})
T_SetRelProp == Step("SetRelProp", QSetRelProp(Ev.a, Ev.b, Ev.v, Ev.ret),
                     LAMBDA pm : SetRelProp(Ev.r, Ev.a, Ev.b, Ev.v, Ev.ret, pm), {}, RE(Ev.a, Ev.b))
T_DeleteRel == Step("DeleteRel", QDeleteRel(Ev.a, Ev.b), LAMBDA pm : DeleteRel(Ev.r, Ev.a, Ev.b, pm), {}, {})

\* the recovery of main.rs on the same directory; persistence must have come up
T_Restart == IsEv("Restart") /\ O.persistent /\ Restart /\ DumpOK /\ Same

TInit == SInit /\ TBInit
Fresh == nodes' = Empty /\ rels' = Empty /\ dnodes' = Empty /\ drels' = Empty
T_Reset == ResetBook /\ Fresh
T_Fail == FailBook /\ Fresh

TNext == T_Fail \/ T_Reset \/ T_CreateNode \/ T_SetProp \/ T_RemoveProp \/ T_AddLabel \/ T_RemoveLabel \/ T_DeleteNode
         \/ T_DetachDelete \/ T_CreateRel \/ T_CreateRelAll \/ T_SetRelProp \/ T_DeleteRel \/ T_Restart
TSpec == TInit /\ [][TNext]_tvars
=============================================================================
