----------------------------- MODULE Wal_Trace -----------------------------
(* C15 trace specification.  Every recorded call / fault on the real Wal is   *)
(* explained by the Wal action of the same name; after every step the real    *)
(* current_sequence(), the real directory (file names and sizes) and the      *)
(* result of the real replay(from) for every from = 0..N must be what the     *)
(* model state allows (Wal!ReplayOK).  What the property leaves open is       *)
(* chosen from the observation: the sequence a (re)opened log continues with  *)
(* (any number >= the highest durable one) and whether opening removed the    *)
(* incomplete tail.                                                           *)
EXTENDS Wal, TraceBase

tvars == <<files, buf, cur, seq, sync, l, sid, used, failed>>

Layout(fs) == [i \in DOMAIN fs |-> <<fs[i].name, FileSize(fs[i])>>]

ObsState(o) == /\ o.seq = seq'
               /\ o.files = Layout(files')
ObsIdeal(o) == /\ ObsState(o)
               /\ \A k \in DOMAIN o.replays : ReplayOK(files', k - 1, o.replays[k])
\* open finding: a replay may deliver the record whose sequence field was flipped, under the flipped number
ObsSeqKF(o) == /\ ObsState(o)
               /\ \A k \in DOMAIN o.replays :
                     \/ ReplayOK(files', k - 1, o.replays[k])
                     \/ KF_C15_SequenceNotChecksummed(files', k - 1, o.replays[k])
Obs == \/ ObsIdeal(Ev.obs) /\ Same
       \/ ~ObsIdeal(Ev.obs) /\ ObsSeqKF(Ev.obs) /\ KF("KF_C15_SequenceNotChecksummed")

TInit == WInit /\ TBInit

T_Reset == ResetBook /\ files' = <<>> /\ buf' = <<>> /\ cur' = 0 /\ seq' = 0 /\ sync' = FALSE
T_Fail == FailBook /\ files' = <<>> /\ buf' = <<>> /\ cur' = 0 /\ seq' = 0 /\ sync' = FALSE
T_Append == IsEv("Append") /\ AppendNode(Ev.tok, Ev.res) /\ Obs
T_SetSync == IsEv("SetSync") /\ SetSync(Ev.on) /\ Obs
T_Flush == IsEv("Flush") /\ Ev.res = "ok" /\ Flush /\ Obs
T_Checkpoint == IsEv("Checkpoint") /\ Ev.res = "ok" /\ Checkpoint(Ev.obs.seq) /\ Obs
T_Reopen == IsEv("Reopen") /\ Ev.res = "ok" /\ (\E trim \in BOOLEAN : Reopen(Ev.obs.seq, trim) /\ Obs)
\* the byte offsets of a script are those of the model that generated it; where the real directory is laid
\* out differently (another legal choice of the next sequence number) the harness reports the fault as
\* "inapplicable": the crash then tears nothing, the flip does not happen
T_Truncate ==
    /\ IsEv("Truncate")
    /\ \/ Ev.res = "ok" /\ (\E trim \in BOOLEAN : Truncate(Ev.b, Ev.obs.seq, trim) /\ Obs)
       \/ /\ Ev.res = "inapplicable"
          /\ files = <<>> \/ Ev.b > FileSize(files[Len(files)])
          /\ \E trim \in BOOLEAN : Crash(Ev.obs.seq, trim) /\ Obs
T_Flip ==
    /\ IsEv("Flip")
    /\ \/ Ev.res = "ok" /\ Flip(Ev.f, Ev.b, Ev.m) /\ Obs
       \/ /\ Ev.res = "inapplicable"
          /\ ~(Ev.f \in DOMAIN files /\ Ev.b < FileSize(files[Ev.f]))
          /\ UNCHANGED wvars /\ Obs

TNext == T_Fail \/ T_Reset \/ T_Append \/ T_SetSync \/ T_Flush \/ T_Checkpoint \/ T_Reopen \/ T_Truncate \/ T_Flip
TSpec == TInit /\ [][TNext]_tvars
=============================================================================
