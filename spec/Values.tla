------------------------------- MODULE Values -------------------------------
(* Shared value vocabulary of the Cypher reference semantics (CypherRead,     *)
(* CypherWrite).  A value is a record with the fixed fields k (kind), n       *)
(* (integer payload) and s (string payload), so that TLC can compare any two  *)
(* values with = without a type clash, and so that the harness can log a      *)
(* value as the JSON object {"k":..,"n":..,"s":..}:                           *)
(*   Int i       [k |-> "I", n |-> i]                                         *)
(*   Float x     [k |-> "F", n |-> 2*x]   half-integers only: 2.0 is VFlt(4), *)
(*                                        2.5 is VFlt(5); no NaN / infinities *)
(*   String x    [k |-> "S", s |-> x]     x must occur in StrTable            *)
(*   Boolean b   [k |-> "B", n |-> 1/0]                                       *)
(*   Null        [k |-> "N"]              also "property absent"              *)
(*   Node h      [k |-> "V", n |-> h]     h = handle (creation order)         *)
(*   Rel h       [k |-> "E", n |-> h]                                         *)
(*   List        [k |-> "L", l |-> <<values>>]   (one extra field l)          *)
(* Truth values of the three-valued logic are the strings "T", "F", "U".      *)
EXTENDS Integers, Sequences, FiniteSets

VInt(i)  == [k |-> "I", n |-> i, s |-> ""]
VFlt(h)  == [k |-> "F", n |-> h, s |-> ""]
VStr(x)  == [k |-> "S", n |-> 0, s |-> x]
VBool(b) == [k |-> "B", n |-> IF b THEN 1 ELSE 0, s |-> ""]
VNull    == [k |-> "N", n |-> 0, s |-> ""]
VNode(h) == [k |-> "V", n |-> h, s |-> ""]
VRel(h)  == [k |-> "E", n |-> h, s |-> ""]
VList(q) == [k |-> "L", n |-> 0, s |-> "", l |-> q]

IsNull(v) == v.k = "N"
IsNum(v)  == v.k \in {"I", "F"}
\* numeric payload in half units (exact for Int and half-integer Float)
Num2(v)   == IF v.k = "I" THEN 2 * v.n ELSE v.n

\* the strings the models may use, in ascending (code point) order
StrTable == <<"", "a", "b", "c", "z">>
StrRank(x) == CHOOSE i \in 1..Len(StrTable) : StrTable[i] = x

\* ---------------------------------------------------------------- three-valued logic
Not3(a) == IF a = "U" THEN "U" ELSE IF a = "T" THEN "F" ELSE "T"
And3(a, b) == IF a = "F" \/ b = "F" THEN "F" ELSE IF a = "T" /\ b = "T" THEN "T" ELSE "U"
Or3(a, b)  == IF a = "T" \/ b = "T" THEN "T" ELSE IF a = "F" /\ b = "F" THEN "F" ELSE "U"
Xor3(a, b) == IF a = "U" \/ b = "U" THEN "U" ELSE IF a = b THEN "F" ELSE "T"
B3(b) == IF b THEN "T" ELSE "F"
\* truth of a value used as a predicate: Boolean or null; anything else is a type error ("E")
TruthOf(v) == IF v.k = "B" THEN B3(v.n = 1) ELSE IF v.k = "N" THEN "U" ELSE "E"
ValOf3(t) == IF t = "U" THEN VNull ELSE VBool(t = "T")

\* ---------------------------------------------------------------- equality (openCypher "=")
\* null on either side -> unknown; numbers compare numerically across Int/Float; values of
\* different kinds are different; lists compare element-wise (three-valued).
RECURSIVE Eq3(_, _)
Eq3(a, b) ==
    IF a.k = "N" \/ b.k = "N" THEN "U"
    ELSE IF IsNum(a) /\ IsNum(b) THEN B3(Num2(a) = Num2(b))
    ELSE IF a.k # b.k THEN "F"
    ELSE IF a.k = "L" THEN
        IF Len(a.l) # Len(b.l) THEN "F"
        ELSE LET ts == {Eq3(a.l[i], b.l[i]) : i \in 1..Len(a.l)} IN
             IF "F" \in ts THEN "F" ELSE IF "U" \in ts THEN "U" ELSE "T"
    ELSE B3(a = b)

\* ---------------------------------------------------------------- comparison (openCypher "<")
\* defined inside numbers, strings, booleans; null or incomparable kinds -> unknown
Lt3(a, b) ==
    IF a.k = "N" \/ b.k = "N" THEN "U"
    ELSE IF IsNum(a) /\ IsNum(b) THEN B3(Num2(a) < Num2(b))
    ELSE IF a.k = "S" /\ b.k = "S" THEN B3(StrRank(a.s) < StrRank(b.s))
    ELSE IF a.k = "B" /\ b.k = "B" THEN B3(a.n < b.n)
    ELSE "U"
Le3(a, b) == Or3(Lt3(a, b), IF Lt3(a, b) = "U" THEN "U" ELSE Eq3(a, b))

\* ---------------------------------------------------------------- equivalence (DISTINCT, grouping keys)
\* like equality, but null is equivalent to null
RECURSIVE Equiv(_, _)
Equiv(a, b) ==
    IF a.k = "N" \/ b.k = "N" THEN a.k = b.k
    ELSE IF IsNum(a) /\ IsNum(b) THEN Num2(a) = Num2(b)
    ELSE IF a.k # b.k THEN FALSE
    ELSE IF a.k = "L" THEN Len(a.l) = Len(b.l) /\ \A i \in 1..Len(a.l) : Equiv(a.l[i], b.l[i])
    ELSE a = b

\* ---------------------------------------------------------------- orderability (ORDER BY, min, max)
\* one total preorder over all values, ascending:
\*   Node < Relationship < List < String < Boolean < Number < null
KindRank(v) == CASE v.k = "V" -> 1 [] v.k = "E" -> 2 [] v.k = "L" -> 3 [] v.k = "S" -> 5
                 [] v.k = "B" -> 6 [] v.k \in {"I", "F"} -> 7 [] v.k = "N" -> 9
RECURSIVE OrdLe(_, _)
OrdLe(a, b) ==
    IF KindRank(a) # KindRank(b) THEN KindRank(a) < KindRank(b)
    ELSE CASE a.k = "S" -> StrRank(a.s) <= StrRank(b.s)
           [] a.k = "L" ->
                LET m == IF Len(a.l) < Len(b.l) THEN Len(a.l) ELSE Len(b.l)
                    D == {i \in 1..m : ~(OrdLe(a.l[i], b.l[i]) /\ OrdLe(b.l[i], a.l[i]))} IN
                IF D = {} THEN Len(a.l) <= Len(b.l)
                ELSE LET i == CHOOSE i \in D : \A j \in D : i <= j IN OrdLe(a.l[i], b.l[i])
           [] IsNum(a) -> Num2(a) <= Num2(b)
           [] OTHER -> a.n <= b.n
OrdLt(a, b) == OrdLe(a, b) /\ ~OrdLe(b, a)
OrdEq(a, b) == OrdLe(a, b) /\ OrdLe(b, a)

\* ---------------------------------------------------------------- numeric sum (aggregation)
\* Int if every summand is Int, else Float; S is a sequence of numeric values
RECURSIVE SumHalf(_)
SumHalf(q) == IF q = <<>> THEN 0 ELSE Num2(Head(q)) + SumHalf(Tail(q))
SumV(q) == IF \A i \in 1..Len(q) : q[i].k = "I" THEN VInt(SumHalf(q) \div 2) ELSE VFlt(SumHalf(q))
=============================================================================
