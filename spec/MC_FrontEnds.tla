---------------------------- MODULE MC_FrontEnds ----------------------------
(* Model-checking wrapper of FrontEnds for C23: the exhaustive product of      *)
(* statements; for each, every answer the engine may give (rows / refused,     *)
(* read / write verdict consistent with the structure) and every interleaving  *)
(* of the classification and execution steps of the two front ends.  One       *)
(* script per statement is printed when it is submitted; the recipe expands it *)
(* to the four calls Stmt, Engine, Serve(resp), Serve(http).                   *)
EXTENDS FrontEnds, Json

CONSTANTS MaxPre,      \* longest read prefix
          Exs, Writes, Cases, Seps, Rets, Decos

VARIABLE hist
vars == <<cur, ref, phase, path, res, hist>>

Prefixes == UNION {[1..n -> R!ReadKinds] : n \in 0..MaxPre}
Stmts == {st \in [ex : Exs, pre : Prefixes, w : Writes, ret : Rets, kc : Cases, sep : Seps, deco : Decos] : WellFormed(st)}

Init == FInit /\ hist = <<>>

\* the engine's verdict follows the structure when it can execute the statement; a statement it refuses
\* was either not accepted at all (verdict read: nothing was planned) or is a write that failed.
\* Under PROFILE the parser turns some shapes into EXPLAIN (verdict read), so the verdict is left open there.
EngineAnswers(st) ==
    {a \in [cls : {"read", "write"}, out : {"rows", "refused"}] :
        /\ a.cls = "write" => EngineWrite(st)
        /\ (a.out = "rows" /\ st.ex = "") => (a.cls = "write") = EngineWrite(st)}

Next ==
    \/ /\ ~cur.active
       /\ \E st \in Stmts :
            /\ Submit(st, Text(st), UpperText(st))
            /\ hist' = <<[op |-> "Stmt", stmt |-> st, text |-> Text(st), w |-> EngineWrite(st)]>>
    \/ /\ cur.active
       /\ \E a \in EngineAnswers(cur.st) : EngineRun(a.cls, a.out)
       /\ UNCHANGED hist
    \/ \E r \in FrontEnd : (Classify(r) \/ Execute(r)) /\ UNCHANGED hist

Spec == Init /\ [][Next]_vars
View == <<cur, ref, phase, path, res>>
Emit == (hist = <<>> /\ hist' # <<>>) => PrintT(<<"SCRIPT", ToJson(hist')>>)

\* Serve(r) is Classify(r) followed by Execute(r)
ServeIsTwoSteps ==
    \A r \in FrontEnd : phase[r] = "done" => res[r] = Exec(path[r])
=============================================================================
