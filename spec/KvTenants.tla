----------------------------- MODULE KvTenants -----------------------------
(***************************************************************************)
(* Tenant separation of the RocksDB layer of samyama-graph                 *)
(* (src/persistence/storage.rs PersistentStorage, tenant registry of       *)
(* src/persistence/tenant.rs).                                             *)
(*                                                                         *)
(* Abstract state (what C17 talks about):                                  *)
(*   created  tenant ids the registry accepted (create_tenant returned Ok) *)
(*   data     <<cf, tenant, id>> -> value token: what each tenant stored   *)
(*            ("n" = nodes column family, "e" = edges column family)       *)
(* Implementation-shaped state:                                            *)
(*   kv       per column family the ORDERED byte-string key space          *)
(*            key -> [o, id, val], keys built exactly as node_key/edge_key *)
(*            build them:  <tenant> ":" ("n"|"e") ":" <id as 16 hex digits>*)
(* Strings are sequences of ASCII codes so that byte order and prefixes    *)
(* are those of RocksDB's default comparator.                              *)
(*                                                                         *)
(* One action per mutator (create_tenant, put_node/put_edge,               *)
(* delete_node/delete_edge).  Read views over kv as the code computes      *)
(* them: point lookup, prefix scan "<tenant>:" (ScanPrefix = stops at the  *)
(* first key without the prefix; ScanLegacy = what prefix_iterator_cf does *)
(* without a prefix extractor: seek and run to the end), tenant listing    *)
(* (text before the first ':' of every node key).                          *)
(*                                                                         *)
(* C17: every read for tenant t returns only what was stored for t         *)
(* (the NoMixing invariants), for every set of ACCEPTED tenant ids.        *)
(***************************************************************************)
EXTENDS Naturals, Sequences, FiniteSets

CONSTANTS Ids       \* node / relationship ids, 0..9

VARIABLES created, data, kv
kvars == <<created, data, kv>>

Sep == 58                                  \* ':'
CFs == {"n", "e"}
Tag(cf) == IF cf = "n" THEN 110 ELSE 101   \* 'n' / 'e'
Hex16(id) == [i \in 1..16 |-> IF i = 16 THEN 48 + id ELSE 48]   \* {:016x} of an id < 10
KeyOf(cf, t, id) == t \o <<Sep, Tag(cf), Sep>> \o Hex16(id)
ScanStart(t) == t \o <<Sep>>               \* format!("{}:", tenant)

HasSep(t) == \E i \in DOMAIN t : t[i] = Sep
IsPrefix(p, k) == Len(p) <= Len(k) /\ SubSeq(k, 1, Len(p)) = p
RECURSIVE Leq(_, _)                        \* bytewise lexicographic order
Leq(a, b) == \/ a = <<>>
             \/ /\ b # <<>>
                /\ \/ a[1] < b[1]
                   \/ a[1] = b[1] /\ Leq(Tail(a), Tail(b))

KInit == created = {} /\ data = <<>> /\ kv = [cf \in CFs |-> <<>>]

Put1(f, k, v) == [x \in DOMAIN f \cup {k} |-> IF x = k THEN v ELSE f[x]]
Drop1(f, k) == [x \in DOMAIN f \ {k} |-> f[x]]

\* TenantManager::create_tenant: whether an id is accepted is the registry's decision
CreateTenant(t, ok) ==
    /\ created' = IF ok THEN created \cup {t} ELSE created
    /\ UNCHANGED <<data, kv>>

\* persist_create_node / persist_create_edge -> put_node / put_edge (only for registered tenants)
Put(t, cf, id, val) ==
    /\ t \in created
    /\ data' = Put1(data, <<cf, t, id>>, val)
    /\ kv' = [kv EXCEPT ![cf] = Put1(@, KeyOf(cf, t, id), [o |-> t, id |-> id, val |-> val])]
    /\ UNCHANGED created

Delete(t, cf, id) ==
    /\ t \in created
    /\ data' = Drop1(data, <<cf, t, id>>)
    /\ kv' = [kv EXCEPT ![cf] = Drop1(@, KeyOf(cf, t, id))]
    /\ UNCHANGED created

\* a write for an id the registry does not know is refused (check_quota: tenant not found)
Refused(t) == t \notin created /\ UNCHANGED kvars

\* ---- ideal read views (the property's meaning) ----
Item(t, id, val) == [o |-> t, id |-> id, val |-> val]
ScanIdeal(d, cf, t) == {Item(t, k[3], d[k]) : k \in {x \in DOMAIN d : x[1] = cf /\ x[2] = t}}
GetIdeal(d, cf, t, id) == IF <<cf, t, id>> \in DOMAIN d THEN {Item(t, id, d[<<cf, t, id>>])} ELSE {}
WithData(d) == {k[2] : k \in DOMAIN d}

\* ---- read views as computed over the key space ----
GetKv(s, cf, t, id) == IF KeyOf(cf, t, id) \in DOMAIN s[cf] THEN {s[cf][KeyOf(cf, t, id)]} ELSE {}
ScanPrefix(s, cf, t) == {s[cf][k] : k \in {x \in DOMAIN s[cf] : IsPrefix(ScanStart(t), x)}}
ScanLegacy(s, cf, t) == {s[cf][k] : k \in {x \in DOMAIN s[cf] : Leq(ScanStart(t), x)}}
FirstSep(k) == CHOOSE i \in DOMAIN k : k[i] = Sep /\ \A j \in 1..(i - 1) : k[j] # Sep
ListKv(s) == {SubSeq(k, 1, FirstSep(k) - 1) : k \in DOMAIN s["n"]}

\* ---- C17 over the key space (design level) ----
NoMixingGet == \A t \in created, cf \in CFs, id \in Ids : \A x \in GetKv(kv, cf, t, id) : x.o = t
NoMixingScan == \A t \in created, cf \in CFs : \A x \in ScanPrefix(kv, cf, t) : x.o = t
NoMixingScanLegacy == \A t \in created, cf \in CFs : \A x \in ScanLegacy(kv, cf, t) : x.o = t
NoMixingList == ListKv(kv) \subseteq WithData(data)
\* and the key-space views are exactly the ideal ones
ViewsExact == \A t \in created, cf \in CFs :
                 /\ ScanPrefix(kv, cf, t) = ScanIdeal(data, cf, t)
                 /\ \A id \in Ids : GetKv(kv, cf, t, id) = GetIdeal(data, cf, t, id)
KeysInjective == \A cf \in CFs : Cardinality(DOMAIN kv[cf]) = Cardinality({k \in DOMAIN data : k[1] = cf})

TypeOK == /\ \A k \in DOMAIN data : k[1] \in CFs /\ k[2] \in created /\ k[3] \in Ids
          /\ DOMAIN kv = CFs
=============================================================================
