------------------------------ MODULE Hierarchy ------------------------------
(***************************************************************************)
(* Hierarchy index of samyama-graph (src/index/hierarchy: Poset, OehIndex  *)
(* with its nested-set / near-tree / chain encodings, monoid range         *)
(* structures, HierarchyIndexManager; the planner rewrite in               *)
(* src/query/executor/hierarchy_detector.rs + hierarchy_ops.rs).           *)
(*                                                                         *)
(* Graph side (what is true)                                               *)
(*   cover   set of <<child, parent>>: the edges of the hierarchy's type   *)
(*   meas    node -> measure, an integer number of HALVES (so that 5 means *)
(*           the float 2.5 and 4 the integer 2), or NoM (-1000000)         *)
(*   mlab    the nodes that count for the index's measure: all of them, or  *)
(*           - for a measure declared as `MEASURE Label.prop` - the nodes   *)
(*           carrying that label (labels do not change in this model)      *)
(* Index side (implementation-shaped: OEH is a STATIC index built from a   *)
(* snapshot, maintained only for measure writes)                           *)
(*   ixs     "none" | "fresh" | "stale"                                    *)
(*   ixc     the covering relation the index was built from               *)
(*   ixm     the measure vector held by the index (set_measure at build,   *)
(*           update_measure afterwards)                                    *)
(*   ixn     the nodes of the index's poset (Poset::from_store: endpoints  *)
(*           of covering edges; from_edges with extra nodes: every node)   *)
(* Every answer of the index is, by definition, the brute-force answer     *)
(* over (ixc, ixm); property C28 is then                                   *)
(*   Fresh:  ixs = "fresh" => ixc = cover /\ ixm = effective measure       *)
(* plus: a stale index is unusable (answers nothing) until rebuilt.        *)
(* One action per mutator: Build / Rebuild / Drop (manager create,         *)
(* rebuild, drop_index; OehIndex::build[_forced] + set_measure),           *)
(* UpdateMeasure (set_node_property -> manager.update_measure ->           *)
(* OehIndex::update_measure), WriteCoverEdge (create_edge / delete_edge -> *)
(* mark_stale_for_edge_type).                                              *)
(***************************************************************************)
EXTENDS Integers, Sequences, FiniteSets, TLC

CONSTANT Nodes

VARIABLES cover, meas, mlab, ixs, ixc, ixm, ixn
hvars == <<cover, meas, mlab, ixs, ixc, ixm, ixn>>

NoM == -1000000        \* "no measure" / null, an integer because TLC does not compare integers with strings
Ops == {"sum", "count", "min", "max"}

\* ---- brute-force poset semantics over a covering relation c ----
RECURSIVE Grow(_, _)
Grow(R, k) == LET R2 == R \cup {<<pq[1][1], pq[2][2]>> : pq \in {z \in R \X R : z[1][2] = z[2][1]}}
              IN  IF k = 0 \/ R2 = R THEN R ELSE Grow(R2, k - 1)
\* reflexive-transitive closure restricted to Nodes
Closure(c) == Grow(c \cup {<<n, n>> : n \in Nodes}, Cardinality(Nodes))

Acyclic(c) == LET T == Grow(c, Cardinality(Nodes)) IN \A n \in Nodes : <<n, n>> \notin T

Sub(cl, x, y) == <<x, y>> \in cl                      \* x is subsumed by y (y is an ancestor of x), reflexive
Desc(cl, y) == {x \in Nodes : Sub(cl, x, y)}          \* {y} \cup descendants(y)
Ancs(cl, x) == {y \in Nodes : Sub(cl, x, y)}
LCA(cl, x, y) == LET common == Ancs(cl, x) \cap Ancs(cl, y)
                 IN  {a \in common : \A b \in common : b # a => ~Sub(cl, b, a)}

RECURSIVE SumOver(_, _)
SumOver(S, m) == IF S = {} THEN 0 ELSE LET x == CHOOSE x \in S : TRUE IN m[x] + SumOver(S \ {x}, m)
MinOf(S) == CHOOSE x \in S : \A y \in S : x <= y
MaxOf(S) == CHOOSE x \in S : \A y \in S : x >= y

\* roll-up of the measure over {y} \cup descendants(y); in halves; NoM = null
Rollup(cl, m, y, op) ==
    LET D == Desc(cl, y)
        M == {x \in D : m[x] # NoM}
        vals == {m[x] : x \in M}
    IN  CASE op = "count" -> 2 * Cardinality(D)        \* counted in halves like every other number
          [] op = "sum"   -> SumOver(M, m)
          [] op = "min"   -> IF M = {} THEN NoM ELSE MinOf(vals)
          [] op = "max"   -> IF M = {} THEN NoM ELSE MaxOf(vals)

\* nodes that take part in the hierarchy when it is built from the graph (Poset::from_store):
\* the endpoints of covering edges
InPoset(c) == {e[1] : e \in c} \cup {e[2] : e \in c}

\* the measure as the index must see it
Eff(m, lab) == [n \in Nodes |-> IF n \in lab THEN m[n] ELSE NoM]

HInit(c0, m0) == cover = c0 /\ meas = m0 /\ mlab = Nodes /\ ixs = "none" /\ ixc = {} /\ ixm = m0 /\ ixn = {}

\* ---- the graph is (re)defined while no index exists (script preamble) ----
SetGraph(c, m, lab) ==
    /\ ixs = "none"
    /\ cover' = c /\ meas' = m /\ mlab' = lab
    /\ UNCHANGED <<ixs, ixc, ixm, ixn>>

\* ---- manager.create / rebuild: Poset::from_store, OehIndex::build, read_measure + set_measure ----
\* S = the nodes of the poset: at least the endpoints of covering edges (Poset::from_store),
\* possibly isolated extra nodes as well (Poset::from_edges with extra nodes)
Build(S) ==
    /\ Acyclic(cover)
    /\ InPoset(cover) \subseteq S /\ S \subseteq Nodes
    /\ ixs' = "fresh" /\ ixc' = cover /\ ixm' = Eff(meas, mlab)
    /\ ixn' = S
    /\ UNCHANGED <<cover, meas, mlab>>

Drop == ixs' = "none" /\ UNCHANGED <<cover, meas, mlab, ixc, ixm, ixn>>

\* ---- a write to the measure of node n (v = NoM: the property is removed or no longer numeric).
\* ---- The index absorbs it in place, or - always allowed - gives up and goes stale.
UpdateMeasure(n, v, absorbed) ==
    /\ meas' = [meas EXCEPT ![n] = v]
    /\ IF ixs = "fresh" /\ absorbed
       THEN n \in ixn /\ ixm' = [ixm EXCEPT ![n] = IF n \in mlab THEN v ELSE NoM] /\ ixs' = ixs
       ELSE ixm' = ixm /\ ixs' = (IF ixs = "none" THEN "none" ELSE "stale")
    /\ UNCHANGED <<cover, mlab, ixc, ixn>>

\* ---- a write to the covering relation: the index is unusable until rebuilt ----
WriteCoverEdge(add, e) ==
    /\ cover' = IF add THEN cover \cup {e} ELSE cover \ {e}
    /\ ixs' = (IF ixs = "none" THEN "none" ELSE "stale")
    /\ UNCHANGED <<meas, mlab, ixc, ixm, ixn>>

\* ---- what the pinned tree did (self-test only; repaired by fixes/C28-remove-measure-reaches-index):
\* ---- remove_node_property did not reach the hierarchy manager: the graph loses the measure,
\* ---- the index keeps it and stays "fresh"
LegacyRemoveNotPropagated(n) ==
    /\ ixs = "fresh"
    /\ meas' = [meas EXCEPT ![n] = NoM]
    /\ UNCHANGED <<cover, mlab, ixs, ixc, ixm, ixn>>

\* ---- C28 ----
Usable == ixs = "fresh"
Fresh == Usable => /\ ixc = cover
                   /\ \A n \in ixn : ixm[n] = Eff(meas, mlab)[n]

\* the answers of a usable index (brute force over what it holds)
IxSub(x, y) == Sub(Closure(ixc), x, y)
IxDesc(y) == Desc(Closure(ixc), y)
IxLCA(x, y) == LCA(Closure(ixc), x, y)
IxRollup(y, op) == Rollup(Closure(ixc), ixm, y, op)

TypeOK == /\ ixs \in {"none", "fresh", "stale"}
          /\ cover \subseteq Nodes \X Nodes
          /\ DOMAIN meas = Nodes /\ mlab \subseteq Nodes
=============================================================================
