----------------------------- MODULE MC_RaftLog -----------------------------
(* Model-checking wrapper of RaftLog: full operation alphabet, a history     *)
(* variable (hidden from state identity by VIEW) and script emission: one    *)
(* script per *transition* of the abstract state graph (ACTION_CONSTRAINT).  *)
EXTENDS RaftLog, TLC, Json

CONSTANTS MaxRun, MaxHist, Legacy

VARIABLE hist
vars == <<log, snap, hist>>

TermSeqs == UNION {[1..n -> 1..MaxTerm] : n \in 1..MaxRun}

Init == RInit /\ hist = <<>>

DoAppend ==
    \E first \in 1..MaxIndex, terms \in TermSeqs :
        /\ IF Legacy THEN LegacyAppend(first, terms) ELSE AppendEntries(first, terms)
        /\ hist' = Append(hist, [op |-> "Append", first |-> first, terms |-> terms])
DoDelete ==
    \E i \in 1..MaxIndex + 1 :
        /\ DeleteFrom(i)
        /\ hist' = Append(hist, [op |-> "DeleteFrom", i |-> i])
DoSnapshot ==
    \E i \in 1..MaxIndex, t \in 1..MaxTerm :
        /\ IF Legacy THEN LegacySnapshot(i, t) ELSE Snapshot(i, t)
        /\ hist' = Append(hist, [op |-> "Snapshot", i |-> i, t |-> t])

Next == DoAppend \/ DoDelete \/ DoSnapshot
Spec == Init /\ [][Next]_vars

View == <<log, snap>>
Bound == Len(hist) <= MaxHist
Emit == PrintT(<<"SCRIPT", ToJson(hist')>>)
EmitLeaf == Len(hist') = MaxHist => PrintT(<<"SCRIPT", ToJson(hist')>>)
SimEmit == Len(hist) = MaxHist => PrintT(<<"SCRIPT", ToJson(hist)>>)
=============================================================================
