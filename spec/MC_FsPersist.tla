---------------------------- MODULE MC_FsPersist ----------------------------
(* Model-checking wrapper of FsPersist: persist_snapshot as a PROGRAM (a sequence of  *)
(* step names, constant Prog) run by program counter ip, every crash kind at every    *)
(* ip, histories of 1..MaxImp imports with at most MaxDown crashes / power losses.    *)
(*   ProgFixed   the repaired order (no marker removal, directory fsync at the end)   *)
(*   ProgLegacy  the pinned tree: marker removed first, no directory fsync            *)
(*   WriteAll    TRUE: the file holds the whole live graph (design);                  *)
(*               FALSE: only the import of this request (KF_C14_OnlyLastImportKept)   *)
(* The recipe also runs this module with Prog / WriteAll as OBSERVED on the real code *)
(* (probe run) so that the emitted crash scripts are behaviours of the real program.  *)
EXTENDS FsPersist, TLC, Json

CONSTANTS Prog, WriteAll, MaxDown, MaxHist,
          MaxBad,        \* refused uploads per history
          BadPersists,   \* FALSE: a refused upload never reaches persist_snapshot (design); TRUE: it does (as observed)
          O1, O2, O3, O4, O5, O6, O7, O8, O9, O10, O11, O12   \* the observed program, one step name per constant ("" = unused)
VARIABLES hist, ip, ndown, nbad
vars == <<dir, ddir, pend, vol, dur, up, busy, cur, nimp, mem, okG, bad, allowed, fresh, hist, ip, ndown, nbad>>

ProgFixed == <<"tmp_created", "tmp_written", "tmp_synced", "renamed", "marker_created", "marker_synced", "dir_synced">>
ProgLegacy == <<"marker_removed", "tmp_created", "tmp_written", "tmp_synced", "renamed", "marker_created", "marker_synced">>
ProgMarkerFirst == <<"marker_removed", "tmp_created", "tmp_written", "tmp_synced", "renamed", "marker_created", "marker_synced", "dir_synced">>
ProgNoDirSync == <<"tmp_created", "tmp_written", "tmp_synced", "renamed", "marker_created", "marker_synced">>
ProgNoDataSync == <<"tmp_created", "tmp_written", "renamed", "marker_created", "marker_synced", "dir_synced">>

\* a TLC configuration file cannot hold a sequence: the observed program comes as twelve strings
ProgObserved == SelectSeq(<<O1, O2, O3, O4, O5, O6, O7, O8, O9, O10, O11, O12>>, LAMBDA x : x # "")

Init == FPInit /\ hist = <<>> /\ ip = 0 /\ ndown = 0 /\ nbad = 0
H(r) == hist' = Append(hist, r)

Content == IF bad THEN BadContent ELSE IF WriteAll THEN IdealContent ELSE LastOnlyContent
BadKinds == {"cut", "garbage"}

Next ==
    \/ Import(nimp + 1) /\ ip' = 1 /\ UNCHANGED <<ndown, nbad>> /\ H([op |-> "Import", k |-> nimp + 1])
    \* a refused upload, after at least one acknowledged import (k = 9: its content never reaches a graph)
    \/ /\ nbad < MaxBad /\ nimp >= 1
       /\ \E kind \in BadKinds :
             /\ IF BadPersists /\ kind = "cut" THEN BadUpload(9) /\ ip' = 1 ELSE RejectDirect /\ ip' = 0
             /\ H([op |-> "Reject", k |-> 9, kind |-> kind])
       /\ nbad' = nbad + 1 /\ UNCHANGED ndown
    \/ /\ busy /\ ip <= Len(Prog)
       /\ PStep(Prog[ip], Content) /\ ip' = ip + 1 /\ UNCHANGED <<ndown, nbad>>
       /\ H([op |-> "Step", point |-> Prog[ip]])
    \/ /\ busy /\ ip = Len(Prog) + 1
       /\ (IF bad THEN Refuse ELSE Ack) /\ ip' = 0 /\ UNCHANGED <<ndown, nbad>> /\ H([op |-> "Ack"])
    \/ /\ ndown < MaxDown
       /\ Crash /\ ip' = 0 /\ ndown' = ndown + 1 /\ UNCHANGED nbad /\ H([op |-> "Crash"])
    \/ /\ ndown < MaxDown /\ up
       /\ \E K \in SUBSET (1..Len(pend)), pick \in [Names -> DataChoices] :
             /\ PowerLoss(K, pick)
             /\ H([op |-> "PowerLoss", dir |-> Listing(dir', vol')])
       /\ ip' = 0 /\ ndown' = ndown + 1 /\ UNCHANGED nbad
    \/ Restart(PhysG) /\ UNCHANGED <<ip, ndown, nbad>> /\ H([op |-> "Restart"])

Spec == Init /\ [][Next]_vars
View == <<dir, ddir, pend, vol, dur, up, busy, cur, nimp, mem, okG, bad, allowed, fresh, ip, ndown, nbad>>
Bound == Len(hist) <= MaxHist
\* one script per Restart transition (every way of going down, at every ip, restarted) and per Ack
Emit == (hist'[Len(hist')].op \in {"Restart", "Ack"}) => PrintT(<<"SCRIPT", ToJson(hist')>>)
=============================================================================
