-------------------------- MODULE CypherRead_Trace --------------------------
(* C01 / C35 / C02 trace specification.  The recorded graph steps rebuild the   *)
(* LOGICAL property graph G (handles = creation order); every recorded query    *)
(* outcome of the real engine is judged by CypherRead!Accept / Answers, i.e.    *)
(* TLC computes the reference result from the logged graph + AST itself.        *)
(* Physical steps (Compact, CreateIndex) and the execution configuration are    *)
(* unobservable in the ideal semantics: they do not change G, so every          *)
(* configuration must give the same answer (C02).                               *)
(* For the KNOWN C02 deviations the specification also carries the physical     *)
(* state they depend on, updated the way the store updates it: the content of   *)
(* the property indexes (G.idx, entries survive REMOVE / label removal / id      *)
(* reuse), the node ids (G.nid), and the frozen adjacency tier (fz) with the    *)
(* relationship table of the compacted world (crel), from which phantom         *)
(* relationships are derived.                                                   *)
EXTENDS CypherRead, TraceBase

CONSTANT ShapesFile      \* "" or the path of supported_shapes.json ({"shapes": [..]})

VARIABLES G,        \* logical graph (+ nid, idx)
          hasIdx,   \* a CreateIndex step has been replayed (only executed in the +idx configurations)
          rid,      \* relationship handle -> id the store gave it
          crel,     \* relationship table of the +cmp configurations (delete_node may delete more there)
          fz,       \* frozen tier of the +cmp configurations: entries [s, d, e (ids), r (handle that made the entry)]
          fzKF      \* names of the open C06 deviations that left stale entries in fz
pvars == <<G, hasIdx, rid, crel, fz, fzKF>>
tvars == <<G, hasIdx, rid, crel, fz, fzKF, l, sid, used, failed>>

ToSet(s) == {s[k] : k \in DOMAIN s}
Supported == IF ShapesFile = "" THEN {} ELSE ToSet(JsonDeserialize(ShapesFile).shapes)

\* ------------------------------------------------------------------ which deviations can matter for a query
AllClauses(qq) == UNION {ToSet(qq.parts[pi].clauses) : pi \in DOMAIN qq.parts}
Matches(qq) == {c \in AllClauses(qq) : c.c = "match"}
NodePats(c) == UNION {{NodePatAt(c.paths[k], j) : j \in 1..(Len(c.paths[k].segs) + 1)} : k \in DOMAIN c.paths}
RelPats(c) == UNION {{c.paths[k].segs[j].rel : j \in DOMAIN c.paths[k].segs} : k \in DOMAIN c.paths}
HasMultiLabel(qq) == \E c \in Matches(qq) : \E n \in NodePats(c) : Len(n.labels) >= 2
HasMultiPath(qq) == \E c \in Matches(qq) : Len(c.paths) >= 2
HasVarLen(qq) == \E c \in Matches(qq) : \E r \in RelPats(c) : r.vl
HasRel(qq) == \E c \in Matches(qq) : RelPats(c) # {}
HasWhere(qq) == \E c \in AllClauses(qq) : c.c \in {"match", "with"} /\ c.where.e # "none"
HasLabel(qq) == \E c \in Matches(qq) : \E n \in NodePats(c) : n.labels # <<>>
FrozenNames == {"KF_DeleteEdge_FrozenKept", "KF_DeleteNode_FrozenKept"}
IndexNames == {"KF_C02_IndexStaleEntries", "KF_C02_IndexStorageOrder"}
Applicable(qq) ==
    (IF HasMultiLabel(qq) THEN {"KF_C01_MultiLabelUnion", "KF_C01_MultiLabelCountMin"} ELSE {})
    \cup (IF HasMultiPath(qq) THEN {"KF_C01_RelIsoPerPathOnly"} ELSE {})
    \cup (IF HasDedup(qq) THEN {"KF_C01_KeysCompareStructurally"} ELSE {})
    \cup (IF HasVarLen(qq) THEN {"KF_C01_VarLengthReachability"} ELSE {})
    \cup (IF HasLabel(qq) THEN IndexNames ELSE {})
    \cup (IF HasRel(qq) THEN FrozenNames \cup {"KF_C02_NativePlannerDropsPatternDetails"} ELSE {})
    \cup (IF HasWhere(qq) THEN {"KF_C02_ParallelFilterSwallowsErrors"} ELSE {})
\* ideal first; otherwise the MINIMAL sets of open deviations that explain the outcome
\* (the guard is compared with TRUE so that TLC evaluates it as a value: evaluated as an action, every witness of the
\* existential quantifiers inside P would become a separate successor)
Judge(qq, P(_)) ==
    IF P({}) THEN KFs({})
    ELSE \E D \in SUBSET (OpenKF \cap Applicable(qq)) :
            /\ (D # {} /\ P(D) /\ (\A x \in D : ~P(D \ {x}))) = TRUE
            /\ KFs(D)

\* ------------------------------------------------------------------ graph steps
StepOK == Ev.res = <<"ok">>
EvId == IF "id" \in DOMAIN Ev THEN Ev.id ELSE 0
TInit == G = EmptyGraph /\ hasIdx = FALSE /\ rid = <<>> /\ crel = <<>> /\ fz = {} /\ fzKF = {} /\ TBInit
ResetVars == G' = EmptyGraph /\ hasIdx' = FALSE /\ rid' = <<>> /\ crel' = <<>> /\ fz' = {} /\ fzKF' = {}
T_Reset == ResetBook /\ ResetVars
T_Fail == FailBook /\ ResetVars

Keys == {"p", "q"}
\* index entries of node h under the labels ls for its current (non-null) properties
Entries(g, h, ls) == {[lb |-> lb, key |-> key, v |-> g.nodes[h].props[key], id |-> g.nid[h]] :
                         lb \in ls, key \in {k \in Keys : g.nodes[h].props[k].k # "N"}}
T_CreateNode ==
    /\ IsEv("CreateNode") /\ StepOK
    /\ LET g1 == AddNodeId(G, ToSet(Ev.labels), Ev.p, Ev.q, IF EvId = 0 THEN Len(G.nodes) + 1 ELSE EvId)
           h == Len(g1.nodes)
       IN G' = IF hasIdx THEN [g1 EXCEPT !.idx = @ \cup Entries(g1, h, g1.nodes[h].labels)] ELSE g1
    /\ UNCHANGED <<hasIdx, rid, crel, fz, fzKF>> /\ Same
T_CreateRel ==
    /\ IsEv("CreateRel") /\ StepOK
    /\ Ev.s \in LiveN(G) /\ Ev.d \in LiveN(G)
    /\ G' = AddRel(G, Ev.s, Ev.d, Ev.t, Ev.p)
    /\ crel' = Append(crel, RelRec(Ev.s, Ev.d, Ev.t, Ev.p, Len(crel) + 1))
    /\ rid' = Append(rid, IF EvId = 0 THEN Len(rid) + 1 ELSE EvId)
    /\ UNCHANGED <<hasIdx, fz, fzKF>> /\ Same
\* the live relationship of the compacted world that owns id e (0 if none)
Owner(e) == IF \E r \in DOMAIN crel : crel[r].live /\ rid[r] = e THEN CHOOSE r \in DOMAIN crel : crel[r].live /\ rid[r] = e ELSE 0
Kill(rels, S) == [r \in DOMAIN rels |-> IF r \in S THEN [rels[r] EXCEPT !.live = FALSE] ELSE rels[r]]
T_DeleteNode ==
    /\ IsEv("DeleteNode") /\ StepOK /\ Ev.n \in LiveN(G)
    /\ LET i == G.nid[Ev.n]
           g1 == DelNode(G, Ev.n)
           \* delete_node walks the frozen entries of the node's id and deletes whatever relationship owns those ids now
           stale == {Owner(x.e) : x \in {x \in fz : x.s = i \/ x.d = i}} \ {0}
           inc == {r \in DOMAIN crel : crel[r].live /\ (crel[r].s = Ev.n \/ crel[r].d = Ev.n)}
       IN /\ G' = IF hasIdx THEN [g1 EXCEPT !.idx = @ \ Entries(G, Ev.n, G.nodes[Ev.n].labels)] ELSE g1
          /\ crel' = Kill(crel, inc \cup stale)
          /\ fzKF' = IF \E x \in fz : x.r \in inc THEN fzKF \cup {"KF_DeleteNode_FrozenKept"} ELSE fzKF
    /\ UNCHANGED <<hasIdx, rid, fz>> /\ Same
\* In the +cmp configurations an earlier delete_node may already have deleted this relationship through a stale frozen
\* entry (KF_DeleteNode_FrozenKept): there the call fails, so both results are recorded.
RelRes(r) == IF crel[r].live THEN <<"ok">> ELSE <<"err", "ok">>
RelBook(r) == IF crel[r].live THEN Same ELSE KFs(fzKF)
T_DeleteRel ==
    /\ IsEv("DeleteRel") /\ Ev.r \in LiveR(G) /\ Ev.res = RelRes(Ev.r)
    /\ G' = DelRel(G, Ev.r)
    /\ crel' = Kill(crel, {Ev.r})
    /\ fzKF' = IF \E x \in fz : x.r = Ev.r THEN fzKF \cup {"KF_DeleteEdge_FrozenKept"} ELSE fzKF
    /\ UNCHANGED <<hasIdx, rid, fz>> /\ RelBook(Ev.r)
T_SetNodeProp ==
    /\ IsEv("SetNodeProp") /\ StepOK /\ Ev.n \in LiveN(G)
    /\ LET g1 == [G EXCEPT !.nodes[Ev.n].props[Ev.key] = Ev.v]
           ls == G.nodes[Ev.n].labels
           old == {[lb |-> lb, key |-> Ev.key, v |-> G.nodes[Ev.n].props[Ev.key], id |-> G.nid[Ev.n]] : lb \in ls}
           new == {[lb |-> lb, key |-> Ev.key, v |-> Ev.v, id |-> G.nid[Ev.n]] : lb \in ls}
       IN G' = IF hasIdx THEN [g1 EXCEPT !.idx = (@ \ old) \cup new] ELSE g1
    /\ UNCHANGED <<hasIdx, rid, crel, fz, fzKF>> /\ Same
\* remove_node_property does not touch the property index: the entry stays (physical state only)
T_RemoveNodeProp ==
    /\ IsEv("RemoveNodeProp") /\ StepOK /\ Ev.n \in LiveN(G)
    /\ G' = [G EXCEPT !.nodes[Ev.n].props[Ev.key] = VNull]
    /\ UNCHANGED <<hasIdx, rid, crel, fz, fzKF>> /\ Same
T_SetRelProp ==
    /\ IsEv("SetRelProp") /\ Ev.r \in LiveR(G) /\ Ev.res = RelRes(Ev.r)
    /\ G' = [G EXCEPT !.rels[Ev.r].props.p = Ev.v]
    /\ crel' = IF crel[Ev.r].live THEN [crel EXCEPT ![Ev.r].props.p = Ev.v] ELSE crel
    /\ UNCHANGED <<hasIdx, rid, fz, fzKF>> /\ RelBook(Ev.r)
T_AddLabel ==
    /\ IsEv("AddLabel") /\ StepOK /\ Ev.n \in LiveN(G)
    /\ LET g1 == [G EXCEPT !.nodes[Ev.n].labels = @ \cup {Ev.label}] IN
       G' = IF hasIdx THEN [g1 EXCEPT !.idx = @ \cup Entries(g1, Ev.n, {Ev.label})] ELSE g1
    /\ UNCHANGED <<hasIdx, rid, crel, fz, fzKF>> /\ Same
\* remove_label_from_node does not touch the property index either
T_RemoveLabel ==
    /\ IsEv("RemoveLabel") /\ StepOK /\ Ev.n \in LiveN(G)
    /\ G' = [G EXCEPT !.nodes[Ev.n].labels = @ \ {Ev.label}]
    /\ UNCHANGED <<hasIdx, rid, crel, fz, fzKF>> /\ Same
\* physical steps: no logical effect
T_Compact ==
    /\ IsEv("Compact") /\ StepOK /\ G' = G
    /\ fz' = fz \cup {[s |-> G.nid[crel[r].s], d |-> G.nid[crel[r].d], e |-> rid[r], r |-> r] : r \in {r \in DOMAIN crel : crel[r].live}}
    /\ UNCHANGED <<hasIdx, rid, crel, fzKF>> /\ Same
T_CreateIndex ==
    /\ IsEv("CreateIndex") /\ StepOK
    /\ hasIdx' = TRUE
    /\ G' = [G EXCEPT !.idx = @ \cup UNION {Entries(G, h, G.nodes[h].labels) : h \in LiveN(G)}]
    /\ UNCHANGED <<rid, crel, fz, fzKF>> /\ Same

\* ------------------------------------------------------------------ C01: one execution
T_Query ==
    /\ IsEv("Query") /\ "out" \in DOMAIN Ev /\ "pouts" \notin DOMAIN Ev
    /\ UNCHANGED pvars
    /\ LET P(D) == Accept(G, Ev.q, Ev.out, Ev.shape \in Supported, D) IN Judge(Ev.q, P)

\* ------------------------------------------------------------------ C35
\* the same query with literal slots as $parameters (one execution per position class that holds a literal).
\* A parameterised execution may be refused; if it answers, the answer must be one the reference semantics allows
\* and, when the inlined execution answered and the query has no SKIP/LIMIT freedom, the same bag.
Windowless(qq) == \A c \in AllClauses(qq) : c.c \in {"with", "return"} => ~HasWindow(c)
OutBag(qq, o) == LET R == [i \in DOMAIN o.rows |-> FinalRow(qq, o.rows[i].r)] IN
                 [x \in Range(R) |-> WSum({i \in DOMAIN R : R[i] = x}, [i \in DOMAIN R |-> o.rows[i].m])]
T_QueryP ==
    /\ IsEv("Query") /\ "pouts" \in DOMAIN Ev
    /\ UNCHANGED pvars
    /\ LET P(D) == \A i \in DOMAIN Ev.pouts :
                      LET po == Ev.pouts[i].out IN
                      \/ po.res = "err"
                      \/ /\ Answers(G, Ev.q, po, D)
                         /\ (Ev.out.res = "ok" /\ Windowless(Ev.q)) => OutBag(Ev.q, Ev.out) = OutBag(Ev.q, po)
       IN Judge(Ev.q, P)

\* ------------------------------------------------------------------ C02
\* one outcome per distinct result over the configuration matrix; cfgs = the configurations that produced it.
\* On a store holding k disjoint copies of the history a linear query returns every row k times.
Scaled(o) == IF o.res # "ok" \/ o.copies = 1 THEN o
             ELSE [o EXCEPT !.rows = [j \in DOMAIN o.rows |-> [r |-> o.rows[j].r, m |-> o.rows[j].m \div o.copies]]]
ScaleOK(o) == o.res # "ok" \/ \A j \in DOMAIN o.rows : o.rows[j].m % o.copies = 0
\* the physical graph of the +cmp configurations: its own relationship table plus one phantom per stale frozen entry
\* whose relationship id is owned by a live relationship again (reported under that relationship's handle)
NodeOf(i) == IF \E h \in LiveN(G) : G.nid[h] = i THEN CHOOSE h \in LiveN(G) : G.nid[h] = i ELSE 0
RECURSIVE SetSeq(_)
SetSeq(S) == IF S = {} THEN <<>> ELSE LET x == CHOOSE x \in S : TRUE IN <<x>> \o SetSeq(S \ {x})
Phantoms == {x \in fz : ~crel[x.r].live /\ Owner(x.e) # 0 /\ NodeOf(x.s) # 0 /\ NodeOf(x.d) # 0}
Gphys ==
    LET ph == SetSeq(Phantoms) IN
    [G EXCEPT !.rels = crel \o [k \in DOMAIN ph |->
        LET o == crel[Owner(ph[k].e)] IN
        [live |-> TRUE, s |-> NodeOf(ph[k].s), d |-> NodeOf(ph[k].d), t |-> o.t, props |-> o.props, h |-> o.h]]]
\* the deviations that are physically possible in a configuration
Possible(cfg) ==
    {"KF_C01_MultiLabelUnion", "KF_C01_MultiLabelCountMin", "KF_C01_RelIsoPerPathOnly", "KF_C01_KeysCompareStructurally",
     "KF_C01_VarLengthReachability"}
    \cup (IF cfg.idx /\ hasIdx THEN IndexNames ELSE {})
    \cup (IF cfg.nat THEN {"KF_C02_NativePlannerDropsPatternDetails"} ELSE {})
    \cup (IF cfg.par /\ cfg.k >= 256 THEN {"KF_C02_ParallelFilterSwallowsErrors"} ELSE {})
    \cup (IF cfg.cmp THEN fzKF ELSE {})
OkFor(o, cfg, D) ==
    \E D2 \in SUBSET (D \cap Possible(cfg)) :
       /\ D2 \cap FrozenNames = {} \/ fzKF \subseteq D2
       /\ LET g == IF D2 \cap FrozenNames = {} THEN G ELSE Gphys IN
          \/ o.res = "ok" /\ ScaleOK(o) /\ Answers(g, Ev.q, Scaled(o), D2)
          \/ o.res = "err" /\ MayFail(g, Ev.q, D2)
T_QueryC ==
    /\ IsEv("Query") /\ "outs" \in DOMAIN Ev
    /\ UNCHANGED pvars
    /\ LET sup == Ev.shape \in Supported
           \* configurations are distinguished only by what they make possible
           classes(i) == {[idx |-> c.idx, cmp |-> c.cmp, nat |-> c.nat, par |-> c.par, k |-> c.k] : c \in ToSet(Ev.outs[i].cfgs)}
           P(D) == \/ \A i \in DOMAIN Ev.outs : Ev.outs[i].out.res = "err" /\ (sup => MayFail(G, Ev.q, {}))
                   \/ \A i \in DOMAIN Ev.outs : \A cfg \in classes(i) : OkFor(Ev.outs[i].out, cfg, D)
       IN Judge(Ev.q, P)

TNext == \/ T_Fail \/ T_Reset \/ T_CreateNode \/ T_CreateRel \/ T_DeleteNode \/ T_DeleteRel \/ T_SetNodeProp
         \/ T_RemoveNodeProp \/ T_SetRelProp \/ T_AddLabel \/ T_RemoveLabel \/ T_Compact \/ T_CreateIndex
         \/ T_Query \/ T_QueryP \/ T_QueryC
TSpec == TInit /\ [][TNext]_tvars
=============================================================================
