-------------------------- MODULE CypherRead_Trace --------------------------
(* C01 / C35 / C02 trace specification.  The recorded graph steps rebuild the   *)
(* LOGICAL property graph G (handles = creation order); every recorded query    *)
(* outcome of the real engine is judged by CypherRead!Accept, i.e. TLC computes *)
(* the reference result from the logged graph + AST itself.  Physical steps     *)
(* (Compact, CreateIndex) and the execution configuration are unobservable:     *)
(* they do not change G, so every configuration must give the same answer.      *)
EXTENDS CypherRead, TraceBase

CONSTANT ShapesFile      \* "" or the path of supported_shapes.json ({"shapes": [..]})

VARIABLE G
tvars == <<G, l, sid, used, failed>>

ToSet(s) == {s[k] : k \in DOMAIN s}
Supported == IF ShapesFile = "" THEN {} ELSE ToSet(JsonDeserialize(ShapesFile).shapes)

MyKF == {"KF_C01_MultiLabelUnion", "KF_C01_MultiLabelCountMin", "KF_C01_RelIsoPerPathOnly",
         "KF_C01_KeysCompareStructurally", "KF_C01_VarLengthReachability"}
Cand == SUBSET (OpenKF \cap MyKF)
\* ideal first; deviations only when the ideal semantics does not explain the outcome
Judge(P(_)) == IF P({}) THEN KFs({}) ELSE \E D \in Cand \ {{}} : P(D) /\ KFs(D)

StepOK == Ev.res = <<"ok">>
TInit == G = EmptyGraph /\ TBInit
T_Reset == ResetBook /\ G' = EmptyGraph
T_Fail == FailBook /\ G' = EmptyGraph

T_CreateNode == IsEv("CreateNode") /\ StepOK /\ G' = AddNode(G, ToSet(Ev.labels), Ev.p, Ev.q) /\ Same
T_CreateRel ==
    /\ IsEv("CreateRel") /\ StepOK
    /\ Ev.s \in LiveN(G) /\ Ev.d \in LiveN(G)
    /\ G' = AddRel(G, Ev.s, Ev.d, Ev.t, Ev.p) /\ Same
T_DeleteNode == IsEv("DeleteNode") /\ StepOK /\ Ev.n \in LiveN(G) /\ G' = DelNode(G, Ev.n) /\ Same
T_DeleteRel == IsEv("DeleteRel") /\ StepOK /\ Ev.r \in LiveR(G) /\ G' = DelRel(G, Ev.r) /\ Same
T_SetNodeProp ==
    /\ IsEv("SetNodeProp") /\ StepOK /\ Ev.n \in LiveN(G)
    /\ G' = [G EXCEPT !.nodes[Ev.n].props[Ev.key] = Ev.v] /\ Same
T_RemoveNodeProp ==
    /\ IsEv("RemoveNodeProp") /\ StepOK /\ Ev.n \in LiveN(G)
    /\ G' = [G EXCEPT !.nodes[Ev.n].props[Ev.key] = VNull] /\ Same
T_SetRelProp ==
    /\ IsEv("SetRelProp") /\ StepOK /\ Ev.r \in LiveR(G)
    /\ G' = [G EXCEPT !.rels[Ev.r].props.p = Ev.v] /\ Same
T_AddLabel ==
    /\ IsEv("AddLabel") /\ StepOK /\ Ev.n \in LiveN(G)
    /\ G' = [G EXCEPT !.nodes[Ev.n].labels = @ \cup {Ev.label}] /\ Same
T_RemoveLabel ==
    /\ IsEv("RemoveLabel") /\ StepOK /\ Ev.n \in LiveN(G)
    /\ G' = [G EXCEPT !.nodes[Ev.n].labels = @ \ {Ev.label}] /\ Same
\* physical steps: no logical effect
T_Compact == IsEv("Compact") /\ StepOK /\ G' = G /\ Same
T_CreateIndex == IsEv("CreateIndex") /\ StepOK /\ G' = G /\ Same

\* C01: one execution
T_Query ==
    /\ IsEv("Query") /\ "out" \in DOMAIN Ev /\ "pouts" \notin DOMAIN Ev
    /\ G' = G
    /\ LET P(D) == Accept(G, Ev.q, Ev.out, Ev.shape \in Supported, D) IN Judge(P)

\* C35: the same query with literal slots as $parameters (one execution per position class that holds a literal).
\* A parameterised execution may be refused; if it answers, the answer must be one the reference semantics allows
\* and, when the inlined execution answered and the query has no SKIP/LIMIT freedom, the same bag.
Windowless(qq) == \A pi \in DOMAIN qq.parts : \A i \in DOMAIN qq.parts[pi].clauses :
                     LET c == qq.parts[pi].clauses[i] IN c.c \in {"with", "return"} => ~HasWindow(c)
OutBag(qq, o) == LET R == [i \in DOMAIN o.rows |-> FinalRow(qq, o.rows[i].r)] IN
                 [x \in Range(R) |-> WSum({i \in DOMAIN R : R[i] = x}, [i \in DOMAIN R |-> o.rows[i].m])]
T_QueryP ==
    /\ IsEv("Query") /\ "pouts" \in DOMAIN Ev
    /\ G' = G
    /\ LET P(D) == \A i \in DOMAIN Ev.pouts :
                      LET po == Ev.pouts[i].out IN
                      \/ po.res = "err"
                      \/ /\ Answers(G, Ev.q, po, D)
                         /\ (Ev.out.res = "ok" /\ Windowless(Ev.q)) => OutBag(Ev.q, Ev.out) = OutBag(Ev.q, po)
       IN Judge(P)

\* C02: one outcome per distinct result over the configuration matrix; cfgs = the configurations that produced it.
\* On a store holding k disjoint copies of the history a linear query returns every row k times.
Scaled(o) == IF o.res # "ok" \/ o.copies = 1 THEN o
             ELSE [o EXCEPT !.rows = [j \in DOMAIN o.rows |-> [r |-> o.rows[j].r, m |-> o.rows[j].m \div o.copies]]]
ScaleOK(o) == o.res # "ok" \/ \A j \in DOMAIN o.rows : o.rows[j].m % o.copies = 0
T_QueryC ==
    /\ IsEv("Query") /\ "outs" \in DOMAIN Ev
    /\ G' = G
    /\ LET sup == Ev.shape \in Supported
           P(D) == \/ \A i \in DOMAIN Ev.outs : Ev.outs[i].out.res = "err" /\ (sup => MayFail(G, Ev.q, D))
                   \/ \A i \in DOMAIN Ev.outs : ScaleOK(Ev.outs[i].out) /\ Answers(G, Ev.q, Scaled(Ev.outs[i].out), D)
       IN Judge(P)

TNext == \/ T_Fail \/ T_Reset \/ T_CreateNode \/ T_CreateRel \/ T_DeleteNode \/ T_DeleteRel \/ T_SetNodeProp
         \/ T_RemoveNodeProp \/ T_SetRelProp \/ T_AddLabel \/ T_RemoveLabel \/ T_Compact \/ T_CreateIndex
         \/ T_Query \/ T_QueryP \/ T_QueryC
TSpec == TInit /\ [][TNext]_tvars
=============================================================================
