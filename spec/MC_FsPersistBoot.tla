-------------------------- MODULE MC_FsPersistBoot --------------------------
(* every history of <= 1 import and <= 1 RESP write in either order, kill, restart; the committed file  *)
(* holds the imported snapshot (single import: KF_C14_OnlyLastImportKept plays no role here).           *)
EXTENDS FsPersistBoot, Sequences, TLC, Json
CONSTANTS Legacy, MaxHist
VARIABLE hist
vars == <<mem, rocks, file, up, allowed, fresh, hist>>
Init == BInit /\ hist = <<>>
H(r) == hist' = Append(hist, r)
Did(o) == \E i \in DOMAIN hist : hist[i].op = o
Next ==
    /\ Len(hist) < MaxHist
    /\ \/ ~Did("BootImport") /\ ~Did("BootKill") /\ SrvImport(1, {1}) /\ H([op |-> "BootImport", k |-> 1])
       \/ ~Did("BootWrite") /\ ~Did("BootKill") /\ SrvWrite /\ H([op |-> "BootWrite"])
       \/ SrvKill /\ H([op |-> "BootKill"])
       \/ SrvRestart(IF Legacy THEN LegacyBoot ELSE DesignBoot) /\ H([op |-> "BootRestart"])
Spec == Init /\ [][Next]_vars
View == <<mem, rocks, file, up, allowed, fresh>>
Emit == (hist'[Len(hist')].op = "BootRestart") => PrintT(<<"SCRIPT", ToJson(hist')>>)
=============================================================================
