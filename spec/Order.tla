-------------------------------- MODULE Order --------------------------------
(***************************************************************************)
(* C10: the orders over property values are lawful.                        *)
(*                                                                         *)
(* TLA+ does not model IEEE-754; the value universe V lives in the harness *)
(* (boundary values of every PropertyValue variant).  The harness records  *)
(* the RELATIONS the implementation computes over V x V:                   *)
(*    cmp   Ord::cmp             (-1, 0, 1)    the property-index order    *)
(*    eq    PartialEq::eq                                                  *)
(*    heq   equal std Hash output                                          *)
(*    cy    cypher_order         (-1, 0, 1)    the ORDER BY order          *)
(* and TLC evaluates the order laws over every pair and triple.  A law     *)
(* violation is reported as a tuple of value indices; Explained says which *)
(* open known finding (identified by the CLASSES of the values involved)   *)
(* accounts for it.  Anything unexplained is a violation of C10.           *)
(***************************************************************************)
EXTENDS Naturals, Integers, Sequences, FiniteSets, TLC, Json, IOUtils

CONSTANT OpenKF

T == JsonDeserialize(IOEnv.TABLE)
N == Len(T.cls)
I == 1..N
Cmp(i, j) == T.cmp[i][j]
Cy(i, j) == T.cy[i][j]
Eq(i, j) == T.eq[i][j]
HEq(i, j) == T.heq[i][j]
Cls(i) == T.cls[i]

\* ---- the laws, as sets of counterexamples ----
BadRefl == {<<"cmp-reflexive", i>> : i \in {i \in I : Cmp(i, i) # 0}}
BadAnti == {<<"cmp-antisymmetric", p[1], p[2]>> : p \in {p \in I \X I : Cmp(p[1], p[2]) # -Cmp(p[2], p[1])}}
BadTrans == {<<"cmp-transitive", p[1], p[2], p[3]>> :
                p \in {p \in I \X I \X I : Cmp(p[1], p[2]) <= 0 /\ Cmp(p[2], p[3]) <= 0 /\ Cmp(p[1], p[3]) > 0}}
BadEq == {<<"cmp-agrees-with-eq", p[1], p[2]>> : p \in {p \in I \X I : (Cmp(p[1], p[2]) = 0) # Eq(p[1], p[2])}}
BadHash == {<<"eq-implies-hash-eq", p[1], p[2]>> : p \in {p \in I \X I : Eq(p[1], p[2]) /\ ~HEq(p[1], p[2])}}
BadCyRefl == {<<"cypher-reflexive", i>> : i \in {i \in I : Cy(i, i) # 0}}
BadCyAnti == {<<"cypher-antisymmetric", p[1], p[2]>> : p \in {p \in I \X I : Cy(p[1], p[2]) # -Cy(p[2], p[1])}}
BadCyTrans == {<<"cypher-transitive", p[1], p[2], p[3]>> :
                p \in {p \in I \X I \X I : Cy(p[1], p[2]) <= 0 /\ Cy(p[2], p[3]) <= 0 /\ Cy(p[1], p[3]) > 0}}

Bad == BadRefl \cup BadAnti \cup BadTrans \cup BadEq \cup BadHash \cup BadCyRefl \cup BadCyAnti \cup BadCyTrans

\* ---- open findings, by the classes of the values involved ----
Idx(b) == {b[k] : k \in 2..Len(b)}
Zero(i) == Cls(i) \in {"float:+0", "float:-0"}
NaN(i) == Cls(i) \in {"float:+nan", "float:-nan"}
\* 0.0 == -0.0 (derived PartialEq on f64) but total_cmp orders them and their bit patterns hash differently
KF_SignedZero(b) == b[1] \in {"cmp-agrees-with-eq", "eq-implies-hash-eq"} /\ \A i \in Idx(b) : Zero(i) \/ Cls(i) = "contains-zero"
\* NaN != NaN (derived PartialEq) but total_cmp says Equal
KF_NaNNotEqItself(b) == b[1] = "cmp-agrees-with-eq" /\ \A i \in Idx(b) : NaN(i) \/ Cls(i) = "contains-nan"
Explained(b) ==
    IF "KF_C10_SignedZeroEqButOrdered" \in OpenKF /\ KF_SignedZero(b) THEN "KF_C10_SignedZeroEqButOrdered"
    ELSE IF "KF_C10_NaNNotEqItself" \in OpenKF /\ KF_NaNNotEqItself(b) THEN "KF_C10_NaNNotEqItself"
    ELSE ""

Report ==
    /\ PrintT(<<"STATS", N, Cardinality(Bad)>>)
    /\ \A b \in Bad : IF Explained(b) = "" THEN PrintT(<<"UNEXPLAINED", ToJson(b)>>) ELSE PrintT(<<"KFUSED", Explained(b), ToJson(b)>>)

VARIABLE done
Init == done = FALSE /\ Report
Next == done' = TRUE /\ ~done
Spec == Init /\ [][Next]_done
=============================================================================
