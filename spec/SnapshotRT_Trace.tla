-------------------------- MODULE SnapshotRT_Trace --------------------------
(* C12 trace specification.  The harness builds the script's graph through the real         *)
(* GraphStore API (create_node_with_labels / create_node_stub, set_node_property /           *)
(* set_column_property, create_edge[_with_properties] / create_edge_stub, a committed         *)
(* transaction to move the store version, delete_edge, compact_adjacency, hierarchy           *)
(* declarations); RoundTrip = real export_tenant, real import_tenant into an empty store,     *)
(* full dump of the imported store (every node with label set and typed property tokens,      *)
(* every relationship with end points, type, properties) and its hierarchy declarations.      *)
(* TLC decides: the dump must be isomorphic to the graph the operations describe (handles,    *)
(* not ids).  Named deviations (open findings only) describe exactly what the pinned tree     *)
(* turns the graph into; a deviation is charged only when it changes the exported records.    *)
EXTENDS SnapshotRT, TraceBase

tvars == <<G, l, sid, used, failed>>

KFName(d) == CASE d = "trim" -> "KF_C12_StringsTrimmed"
               [] d = "nolabel" -> "KF_C12_UnlabelledGetsEmptyLabel"
               [] d = "versions" -> "KF_C12_EveryVersionExported"
               [] d = "nonfinite" -> "KF_C12_NonFiniteFloatsDropped"
               [] d = "ghost" -> "KF_C12_GhostStubEdges"
               [] d = "tagged" -> "KF_C12_TaggedMapReadAsScalar"
               [] d = "hiercycle" -> "KF_C12_HierarchyOverCycleDropped"
OpenDevs == {d \in DevNames : KFName(d) \in OpenKF}

TInit == GInit /\ TBInit
EmptyG == [nodes |-> <<>>, rels |-> <<>>, ghosts |-> <<>>, hier |-> {}, ver |-> 1]
T_Reset == ResetBook /\ G' = EmptyG
T_Fail == FailBook /\ G' = EmptyG

OK == Ev.res = "ok"
T_Node == IsEv("Node") /\ OK /\ AddNode(Ev.h, Ev.labels, Ev.props, Ev.via = "stub") /\ Same
T_Rel == IsEv("Rel") /\ OK /\ AddRel(Ev.h, Ev.src, Ev.dst, Ev.type, Ev.props) /\ Same
T_Bump == IsEv("Bump") /\ OK /\ Bump /\ Same
T_SetProp == IsEv("SetProp") /\ OK /\ SetProp(Ev.h, Ev.key, Ev.tok) /\ Same
T_DelRel == IsEv("DelRel") /\ OK /\ DelRel(Ev.h) /\ Same
T_Compact == IsEv("Compact") /\ OK /\ Compact /\ Same
T_Hier == IsEv("Hier") /\ OK /\ DeclareHier(Ev.name, SeqSet(Ev.types), Ev.measure, SeqSet(Ev.ops)) /\ Same
\* the store may refuse a declaration (e.g. the covering relation has a cycle right now): nothing is declared
T_HierRefused == IsEv("Hier") /\ Ev.res = "err" /\ UNCHANGED G /\ Same

\* the source store lists exactly the declarations made (monoids as the store reports them, defaults included) ...
SrcHier == HierSeqToSet(Ev.obs.src_hier)
SrcHierOK == /\ {[name |-> x.name, types |-> x.types, measure |-> x.measure] : x \in SrcHier}
                  = {[name |-> x.name, types |-> x.types, measure |-> x.measure] : x \in G.hier}
             /\ \A x \in SrcHier : \A y \in G.hier : x.name = y.name => y.ops \subseteq x.ops
\* ... and the imported store must list the same ones
ExpectedHier(D) == IF "hiercycle" \in D THEN {x \in SrcHier : ~HasCycle(G, x.types)} ELSE SrcHier
EffectiveD(D) == /\ Effective(G, D \ {"hiercycle"})
                 /\ "hiercycle" \in D => ExpectedHier(D) # SrcHier
T_RoundTrip ==
    /\ IsEv("RoundTrip") /\ OK /\ SrcHierOK /\ UNCHANGED G
    /\ \/ RoundTripOK(G, {}, Ev.obs.dump) /\ HierSeqToSet(Ev.obs.hier) = SrcHier /\ Same
       \/ \E D \in (SUBSET OpenDevs) \ {{}} :
             /\ EffectiveD(D)
             /\ RoundTripOK(G, D, Ev.obs.dump)
             /\ HierSeqToSet(Ev.obs.hier) = ExpectedHier(D)
             /\ KFs({KFName(d) : d \in D})

\* a scaled family (built by the harness from (kind, n)), exported, imported, abstracted to counts
T_FamilyRT == IsEv("FamilyRT") /\ OK /\ FamilyOK(Ev.kind, Ev.n, Ev.obs) /\ UNCHANGED G /\ Same

TNext == T_Fail \/ T_Reset \/ T_Node \/ T_Rel \/ T_Bump \/ T_SetProp \/ T_DelRel \/ T_Compact \/ T_Hier \/ T_HierRefused \/ T_RoundTrip \/ T_FamilyRT
TSpec == TInit /\ [][TNext]_tvars
=============================================================================
