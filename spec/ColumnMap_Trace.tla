--------------------------- MODULE ColumnMap_Trace ---------------------------
(* C30 trace specification: every recorded call on the real ColumnStore must  *)
(* be explained by the ColumnMap action of the same name and every value the  *)
(* real get_property / get_property_keys returned afterwards must equal the   *)
(* model's read views.                                                        *)
(* Event fields: Set{row,key,val,res} Remove{row,key,res} ClearRow{row,res}   *)
(*   Fill{key,lo,n,step,kind,res} Scan{} and obs =                            *)
(*   reads : << <<row, key, token>>, ... >>   get_property results            *)
(*   keys  : << <<row, <<k1, ...>>>>, ... >>  get_property_keys results       *)
(*   scans : << [key, from, to, runs : << <<lo, n, step, kind>> >>,           *)
(*               singles : << <<row, token>> >>] >>                           *)
(*           a run-length compressed read of EVERY row in from..to plus the   *)
(*           listed single rows of one column (rows not mentioned read null). *)
(* res = "panic" is explained by no action: a map does not panic.             *)
EXTENDS ColumnMap, TraceBase

tvars == <<m, fills, l, sid, used, failed>>

RunRows(rn) == {rn[1] + j * rn[3] : j \in 0..(rn[2] - 1)}

\* all observation predicates are evaluated on the SUCCESSOR state (mm, fs) = (m', fills')
ScanOK(mm, fs, s) ==
    LET mentioned == UNION {RunRows(s.runs[i]) : i \in DOMAIN s.runs}
                       \cup {s.singles[i][1] : i \in DOMAIN s.singles}
    IN  /\ \A i \in DOMAIN s.runs : \A r \in RunRows(s.runs[i]) : GetOf(mm, fs, r, s.key) = Val(s.runs[i][4], r)
        /\ \A i \in DOMAIN s.singles : GetOf(mm, fs, s.singles[i][1], s.key) = s.singles[i][2]
        /\ \A r \in (s.from..s.to) \ mentioned : GetOf(mm, fs, r, s.key) = NULL
        \* the scan really looked at every row where the model holds something
        /\ \A p \in DOMAIN mm : p[2] = s.key /\ mm[p] \notin {ABSENT, NULL}
                                  => p[1] \in mentioned \/ p[1] \in s.from..s.to
        /\ \A i \in DOMAIN fs : fs[i].key = s.key
                                  => fs[i].lo >= s.from /\ fs[i].lo + (fs[i].n - 1) * fs[i].step <= s.to

ObsOK(o) ==
    /\ \A i \in DOMAIN o.reads : GetOf(m', fills', o.reads[i][1], o.reads[i][2]) = o.reads[i][3]
    /\ \A i \in DOMAIN o.keys : KeysOKOf(m', fills', o.keys[i][1], o.keys[i][2])
    /\ \A i \in DOMAIN o.scans : ScanOK(m', fills', o.scans[i])

\* the cell / row an event wrote must be among the reads (the binding cannot be skipped)
ReadsCell(o, r, k) == \E i \in DOMAIN o.reads : o.reads[i][1] = r /\ o.reads[i][2] = k
ListsRow(o, r) == \E i \in DOMAIN o.keys : o.keys[i][1] = r

TInit == CInit /\ TBInit

T_Reset == ResetBook /\ m' = <<>> /\ fills' = <<>>
T_Fail == FailBook /\ m' = <<>> /\ fills' = <<>>
T_Fill == /\ IsEv("Fill") /\ Ev.res = "ok"
          /\ Fill(Ev.key, Ev.lo, Ev.n, Ev.step, Ev.kind)
          /\ ObsOK(Ev.obs) /\ Same
T_Set == /\ IsEv("Set") /\ Ev.res = "ok"
         /\ Set(Ev.row, Ev.key, Ev.val)
         /\ ReadsCell(Ev.obs, Ev.row, Ev.key) /\ ListsRow(Ev.obs, Ev.row)
         /\ ObsOK(Ev.obs) /\ Same
T_Remove == /\ IsEv("Remove") /\ Ev.res = "ok"
            /\ Remove(Ev.row, Ev.key)
            /\ ReadsCell(Ev.obs, Ev.row, Ev.key) /\ ListsRow(Ev.obs, Ev.row)
            /\ ObsOK(Ev.obs) /\ Same
T_ClearRow == /\ IsEv("ClearRow") /\ Ev.res = "ok"
              /\ ClearRow(Ev.row)
              /\ \A k \in KnownKeys : ReadsCell(Ev.obs, Ev.row, k)
              /\ ListsRow(Ev.obs, Ev.row)
              /\ ObsOK(Ev.obs) /\ Same
T_Scan == IsEv("Scan") /\ UNCHANGED cvars /\ ObsOK(Ev.obs) /\ Same

TNext == T_Fail \/ T_Reset \/ T_Fill \/ T_Set \/ T_Remove \/ T_ClearRow \/ T_Scan
TSpec == TInit /\ [][TNext]_tvars
=============================================================================
