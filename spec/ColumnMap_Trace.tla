--------------------------- MODULE ColumnMap_Trace ---------------------------
(* C30 trace specification: every recorded call on the real ColumnStore must  *)
(* be explained by the ColumnMap action of the same name and every value the  *)
(* real get_property / get_property_keys returned afterwards must equal the   *)
(* model's read views.                                                        *)
(* Event fields: Set{row,key,val,res} Remove{row,key,res} ClearRow{row,res}   *)
(*   Fill{key,lo,n,step,kind,res} Scan{} and obs =                            *)
(*   reads : << <<row, key, token>>, ... >>   get_property results            *)
(*   keys  : << <<row, <<k1, ...>>>>, ... >>  get_property_keys results       *)
(*   scans : << [key, from, to, segs : << [lo, hi, step, kind, tok] >>,       *)
(*               outs : << <<row, token>> >>] >>                              *)
(*           a run-length compressed read of EVERY row in from..to plus       *)
(*           single rows outside that window, of one column.                  *)
(* res = "panic" is explained by no action: a map does not panic.             *)
EXTENDS ColumnMap, TraceBase

tvars == <<m, wr, fills, cols, l, sid, used, failed>>

\* all observation predicates are evaluated on the SUCCESSOR state.
\* A scan of column s.key: segs tile the window s.from..s.to in order; a segment
\* [lo, hi, step, kind, tok] says rows lo, lo+step, .. read Val(kind, row) (kind "tok": all read
\* tok; kind "null": all read null) and the rows in between read null.  outs are single reads
\* outside the window.
SegOK(mm, ww, fs, key, g) ==
    \A r \in g.lo..g.hi :
        GetOf(mm, ww, fs, r, key) =
            IF (r - g.lo) % g.step # 0 \/ g.kind = "null" THEN NULL
            ELSE IF g.kind = "tok" THEN g.tok ELSE Val(g.kind, r)
ScanOK(mm, ww, fs, s) ==
    /\ \A i \in DOMAIN s.segs : SegOK(mm, ww, fs, s.key, s.segs[i])
    /\ \A i \in DOMAIN s.outs : GetOf(mm, ww, fs, s.outs[i][1], s.key) = s.outs[i][2]
    \* the segments tile the window
    /\ s.from <= s.to => /\ Len(s.segs) >= 1 /\ s.segs[1].lo = s.from /\ s.segs[Len(s.segs)].hi = s.to
                         /\ \A i \in 1..(Len(s.segs) - 1) : s.segs[i + 1].lo = s.segs[i].hi + 1
    /\ s.from > s.to => Len(s.segs) = 0
    \* the scan really looked at every row where the model holds something
    /\ \E outrows \in {{s.outs[i][1] : i \in DOMAIN s.outs}} :
          \A p \in ww : p[2] = s.key /\ mm[p] \notin {ABSENT, NULL}
                           => (p[1] >= s.from /\ p[1] <= s.to) \/ p[1] \in outrows
    /\ \A i \in DOMAIN fs : fs[i].key = s.key
                              => fs[i].lo >= s.from /\ fs[i].lo + (fs[i].n - 1) * fs[i].step <= s.to

ObsOK(o) ==
    /\ \A i \in DOMAIN o.reads : GetOf(m', wr', fills', o.reads[i][1], o.reads[i][2]) = o.reads[i][3]
    /\ \A i \in DOMAIN o.keys : KeysOKOf(m', wr', fills', cols', o.keys[i][1], o.keys[i][2])
    /\ \A i \in DOMAIN o.scans : ScanOK(m', wr', fills', o.scans[i])

\* the cell / row an event wrote must be among the reads (the binding cannot be skipped)
ReadsCell(o, r, k) == \E i \in DOMAIN o.reads : o.reads[i][1] = r /\ o.reads[i][2] = k
ListsRow(o, r) == \E i \in DOMAIN o.keys : o.keys[i][1] = r

TInit == CInit /\ TBInit

Blank == m' = <<>> /\ wr' = {} /\ fills' = <<>> /\ cols' = {}
T_Reset == ResetBook /\ Blank
T_Fail == FailBook /\ Blank
T_Fill == /\ IsEv("Fill") /\ Ev.res = "ok"
          /\ Fill(Ev.key, Ev.lo, Ev.n, Ev.step, Ev.kind)
          /\ ObsOK(Ev.obs) /\ Same
T_Set == /\ IsEv("Set") /\ Ev.res = "ok"
         /\ Set(Ev.row, Ev.key, Ev.val)
         /\ ReadsCell(Ev.obs, Ev.row, Ev.key) /\ ListsRow(Ev.obs, Ev.row)
         /\ ObsOK(Ev.obs) /\ Same
T_Remove == /\ IsEv("Remove") /\ Ev.res = "ok"
            /\ Remove(Ev.row, Ev.key)
            /\ ReadsCell(Ev.obs, Ev.row, Ev.key) /\ ListsRow(Ev.obs, Ev.row)
            /\ ObsOK(Ev.obs) /\ Same
T_ClearRow == /\ IsEv("ClearRow") /\ Ev.res = "ok"
              /\ ClearRow(Ev.row)
              /\ \A k \in KnownKeys : ReadsCell(Ev.obs, Ev.row, k)
              /\ ListsRow(Ev.obs, Ev.row)
              /\ ObsOK(Ev.obs) /\ Same
T_Scan == IsEv("Scan") /\ UNCHANGED cvars /\ ObsOK(Ev.obs) /\ Same

TNext == T_Fail \/ T_Reset \/ T_Fill \/ T_Set \/ T_Remove \/ T_ClearRow \/ T_Scan
TSpec == TInit /\ [][TNext]_tvars
=============================================================================
