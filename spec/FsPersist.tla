----------------------------- MODULE FsPersist -----------------------------
(***************************************************************************)
(* Durable snapshot persistence of samyama-graph (HA-08):                  *)
(*   src/snapshot/persist.rs   persist_snapshot / restore_persisted_...    *)
(*   src/http/handler.rs       restore_snapshot_handler: import into the   *)
(*                             live store, THEN persist, THEN answer 200   *)
(*   src/main.rs               boot: restore the committed snapshot        *)
(*                                                                         *)
(* A small file-system model (one directory <data>/snapshots):             *)
(*   dir   volatile directory: name -> inode (0 = no such entry); what a   *)
(*         process sees, and what survives a PROCESS crash                 *)
(*   ddir  durable directory image: what is on the disk                    *)
(*   pend  directory operations performed since the directory was last     *)
(*         fsynced (ddir + pend = dir)                                     *)
(*   vol / dur   per inode: content as written / content known durable     *)
(* Strict POSIX durability (fsync(2)): fsync of a FILE makes its data      *)
(* durable and says nothing about the directory entry; only fsync of the   *)
(* DIRECTORY makes link / unlink / rename durable.  PowerLoss keeps any    *)
(* dependency-closed subset of the pending directory operations and, for   *)
(* every file whose data was not fsynced, the old, a torn or the new data. *)
(*                                                                         *)
(* File contents are abstracted to the graph they hold: import k carries   *)
(* one node with property k, a graph is the set of such k.  `g` is what    *)
(* the bytes hold, `ig` (ghost) is what they should hold (the live graph   *)
(* at the time of writing); they differ only through                       *)
(* KF_C14_OnlyLastImportKept.                                              *)
(*                                                                         *)
(* One action per file-system step persist_snapshot performs (PStep, named *)
(* by the hook point reached after the step), Import / Ack (the handler),  *)
(* RejectDirect / BadUpload / Refuse (uploads the handler refuses),        *)
(* Crash, PowerLoss, Restart.  The order of the steps is NOT fixed here:   *)
(* MC_FsPersist runs a program (sequence of step names), the trace         *)
(* specification follows the steps the real code performed.                *)
(*                                                                         *)
(* Property C14 (RestartOK): the graph restored by a restart is the graph  *)
(* as of the last acknowledged import or as of the import that was being   *)
(* persisted when the crash happened; a restart without a crash in flight  *)
(* restores every acknowledged import -- in particular a REFUSED upload    *)
(* must leave the persisted state untouched.                               *)
(***************************************************************************)
EXTENDS Naturals, Sequences, FiniteSets

CONSTANT MaxImp          \* imports are numbered 1..MaxImp, in the order they are issued

Names == {"snap", "tmp", "mark"}   \* default.sgsnap, default.sgsnap.tmp, default.sgsnap.committed

Empty == [st |-> "empty", g |-> {}, ig |-> {}]
Full(g, ig) == [st |-> "full", g |-> g, ig |-> ig]
Torn(c) == IF c.st = "full" THEN [c EXCEPT !.st = "torn"] ELSE c

VARIABLES dir, ddir, pend, vol, dur,       \* the file system
          up,        \* the server process is running
          busy,      \* a persist_snapshot call is in flight (import applied in memory, not acknowledged)
          cur,       \* the import being persisted (0 = none)
          nimp,      \* imports issued so far
          mem,       \* the live graph of the running process
          okG,       \* graphs a restart may legitimately restore while no import is in flight: {the live graph
                     \* at the last acknowledgement}; after a restart that has not been followed by an
                     \* acknowledgement yet, every graph that restart was allowed to restore (a later power loss
                     \* may still fall back from a restored, never acknowledged import to the acknowledged one)
          bad,       \* the request in flight carries an upload the import refuses (valid header, broken body)
          allowed,   \* graphs the next restart may restore (fixed when the process goes down)
          fresh      \* the process has just been restarted (mem is what the restart restored)

fsvars == <<dir, ddir, pend, vol, dur>>
pvars == <<up, busy, cur, nimp, mem, okG, bad, allowed, fresh>>
fpvars == <<dir, ddir, pend, vol, dur, up, busy, cur, nimp, mem, okG, bad, allowed, fresh>>

NoDir == [n \in Names |-> 0]
Inodes == DOMAIN vol

FPInit == /\ dir = NoDir /\ ddir = NoDir /\ pend = <<>> /\ vol = <<>> /\ dur = <<>>
          /\ up = TRUE /\ busy = FALSE /\ cur = 0 /\ nimp = 0 /\ mem = {} /\ okG = {{}}
          /\ allowed = {{}} /\ fresh = FALSE /\ bad = FALSE

\* ------------------------------------------------------------------ file-system primitives
\* unlink(name); the code ignores ENOENT
FsUnlink(n) ==
    /\ dir' = [dir EXCEPT ![n] = 0]
    /\ pend' = IF dir[n] = 0 THEN pend ELSE Append(pend, [t |-> "unlink", a |-> n, b |-> n, i |-> dir[n]])
    /\ UNCHANGED <<ddir, vol, dur>>

\* open(name, O_CREAT|O_TRUNC): a new inode + directory entry, or truncation of the existing inode
FsCreate(n) ==
    IF dir[n] # 0
    THEN /\ vol' = [vol EXCEPT ![dir[n]] = Empty]
         /\ UNCHANGED <<dir, ddir, pend, dur>>
    ELSE LET i == Len(vol) + 1 IN
         /\ dir' = [dir EXCEPT ![n] = i]
         /\ pend' = Append(pend, [t |-> "link", a |-> n, b |-> n, i |-> i])
         /\ vol' = Append(vol, Empty)
         /\ dur' = Append(dur, Empty)
         /\ UNCHANGED ddir

\* write_all(bytes) on the open file
FsWrite(n, c) ==
    /\ dir[n] # 0
    /\ vol' = [vol EXCEPT ![dir[n]] = c]
    /\ UNCHANGED <<dir, ddir, pend, dur>>

\* fsync(file): data durable, directory entry NOT
FsFsync(n) ==
    /\ dir[n] # 0
    /\ dur' = [dur EXCEPT ![dir[n]] = vol[dir[n]]]
    /\ UNCHANGED <<dir, ddir, pend, vol>>

\* rename(a, b): atomic replacement of b
FsRename(a, b) ==
    /\ dir[a] # 0
    /\ dir' = [dir EXCEPT ![b] = dir[a], ![a] = 0]
    /\ pend' = Append(pend, [t |-> "rename", a |-> a, b |-> b, i |-> dir[a]])
    /\ UNCHANGED <<ddir, vol, dur>>

\* fsync(directory): every directory operation so far is durable
FsFsyncDir ==
    /\ ddir' = dir
    /\ pend' = <<>>
    /\ UNCHANGED <<dir, vol, dur>>

\* ---- what a power loss may leave: a dependency-closed subset K of the pending directory operations
ApplyOp(d, o) ==
    CASE o.t = "link" -> [d EXCEPT ![o.a] = o.i]
      [] o.t = "unlink" -> [d EXCEPT ![o.a] = 0]
      [] o.t = "rename" -> [d EXCEPT ![o.b] = o.i, ![o.a] = 0]
Applicable(d, o) ==
    CASE o.t = "link" -> d[o.a] = 0          \* the name it creates must not exist in the image
      [] o.t = "unlink" -> d[o.a] = o.i      \* it removes the entry of that very inode
      [] o.t = "rename" -> d[o.a] = o.i      \* its source entry must be there
RECURSIVE Replay(_, _, _)
Replay(r, j, K) ==
    IF j > Len(pend) \/ ~r.ok THEN r
    ELSE IF j \in K
         THEN IF Applicable(r.d, pend[j]) THEN Replay([ok |-> TRUE, d |-> ApplyOp(r.d, pend[j])], j + 1, K)
              ELSE [ok |-> FALSE, d |-> r.d]
         ELSE Replay(r, j + 1, K)
Durable(K) == Replay([ok |-> TRUE, d |-> ddir], 1, K)

DataChoices == {"dur", "torn", "vol"}
\* data of inode i after a power loss under choice ch
LossData(i, ch) ==
    IF vol[i] = dur[i] THEN dur[i]
    ELSE CASE ch = "dur" -> dur[i] [] ch = "torn" -> Torn(vol[i]) [] ch = "vol" -> vol[i]

\* ------------------------------------------------------------------ views
Linked(d, i) == \E n \in Names : d[n] = i
SetToSeq(S) ==
    LET RECURSIVE F(_)
        F(T) == IF T = {} THEN <<>>
                ELSE LET m == CHOOSE x \in T : \A y \in T : x <= y IN <<m>> \o F(T \ {m})
    IN F(S)
SeqToSet(s) == {s[i] : i \in DOMAIN s}
\* directory listing as the harness observes it (name -> state + graph held)
Listing(d, v) ==
    [n \in Names |-> IF d[n] = 0 THEN [st |-> "absent", g |-> <<>>]
                     ELSE [st |-> v[d[n]].st, g |-> SetToSeq(v[d[n]].g)]]

\* what restore_persisted_snapshots does on the volatile state: snapshot AND marker present ->
\* import the snapshot file (a torn / empty file fails to import and leaves nothing)
Committed == dir["snap"] # 0 /\ dir["mark"] # 0
PhysG == IF Committed /\ vol[dir["snap"]].st = "full" THEN vol[dir["snap"]].g ELSE {}
PhysIG == IF Committed /\ vol[dir["snap"]].st = "full" THEN vol[dir["snap"]].ig ELSE {}

\* ------------------------------------------------------------------ the server
\* POST /api/snapshot/import, first half: the snapshot is merged into the live store and
\* persist_snapshot is entered (hook point "begin")
Import(k) ==
    /\ up /\ ~busy /\ k = nimp + 1 /\ k <= MaxImp
    /\ nimp' = k /\ cur' = k /\ busy' = TRUE
    /\ mem' = mem \cup {k}
    /\ fresh' = FALSE /\ bad' = FALSE
    /\ UNCHANGED <<dir, ddir, pend, vol, dur, up, okG, allowed>>

\* An upload the handler REFUSES (4xx, never acknowledged): garbage, or a snapshot with a valid header and a
\* truncated / corrupt body.  The design answers without touching anything ...
RejectDirect ==
    /\ up /\ ~busy
    /\ UNCHANGED fpvars
\* ... an implementation may nevertheless have entered persist_snapshot with the broken bytes before the
\* import found out (the live graph never contains the upload); what it does to the directory is then
\* followed step by step, and the next restart is judged by the property like any other
BadUpload(k) ==
    /\ up /\ ~busy
    /\ cur' = k /\ busy' = TRUE /\ bad' = TRUE /\ fresh' = FALSE
    /\ UNCHANGED <<dir, ddir, pend, vol, dur, up, nimp, mem, okG, allowed>>
\* the bytes of a refused upload: not a graph any restore can read
BadContent == [st |-> "torn", g |-> {}, ig |-> {}]
\* the request in flight is answered 4xx
Refuse ==
    /\ up /\ busy /\ bad
    /\ busy' = FALSE /\ cur' = 0 /\ bad' = FALSE
    /\ UNCHANGED <<dir, ddir, pend, vol, dur, up, nimp, mem, okG, allowed, fresh>>

\* one file-system step of persist_snapshot, named by the hook point reached after it;
\* c is the content written by the "tmp_written" step
StepNames == {"marker_removed", "tmp_created", "tmp_written", "tmp_synced", "renamed",
              "marker_created", "marker_synced", "dir_synced"}
PStep(op, c) ==
    /\ up /\ busy
    /\ CASE op = "marker_removed" -> FsUnlink("mark")
         [] op = "tmp_created" -> FsCreate("tmp")
         [] op = "tmp_written" -> FsWrite("tmp", c)
         [] op = "tmp_synced" -> FsFsync("tmp")
         [] op = "renamed" -> FsRename("tmp", "snap")
         [] op = "marker_created" -> FsCreate("mark")
         [] op = "marker_synced" -> FsFsync("mark")
         [] op = "dir_synced" -> FsFsyncDir
    /\ UNCHANGED pvars
\* names fsynced by a step (observed by the harness through an fsync interposer)
SyncedBy(op) == CASE op = "tmp_synced" -> {"tmp"} [] op = "marker_synced" -> {"mark"}
                  [] op = "dir_synced" -> {"dir"} [] OTHER -> {}

\* the bytes of the whole live graph (what must be persisted for every acknowledged import to survive)
IdealContent == Full(mem, mem)
\* DEVIATION (open finding): the handler persists the bytes of the request it just imported, i.e.
\* only import `cur`; everything imported before is no longer in any committed file
LastOnlyContent == Full({cur}, mem)
KF_C14_OnlyLastImportKept == {cur} # mem /\ PStep("tmp_written", LastOnlyContent)

\* second half of the request: persist_snapshot returned, 200 is sent
Ack ==
    /\ up /\ busy /\ ~bad
    /\ busy' = FALSE /\ cur' = 0 /\ okG' = {mem}
    /\ UNCHANGED <<dir, ddir, pend, vol, dur, up, nimp, mem, bad, allowed, fresh>>

GoDown == /\ up' = FALSE /\ busy' = FALSE /\ cur' = 0 /\ mem' = {} /\ okG' = {} /\ fresh' = FALSE /\ bad' = FALSE
          /\ allowed' = IF up THEN okG \cup (IF busy THEN {mem} ELSE {}) ELSE allowed
          /\ UNCHANGED nimp

\* the process dies (or is stopped, when not busy): the OS keeps everything written so far
Crash == up /\ GoDown /\ UNCHANGED fsvars

\* the machine loses power: K = pending directory operations that reached the disk,
\* pick = per name, which data an un-fsynced file is left with
PowerLoss(K, pick) ==
    /\ K \subseteq 1..Len(pend)
    /\ LET r == Durable(K) IN
       /\ r.ok
       /\ dir' = r.d /\ ddir' = r.d /\ pend' = <<>>
       /\ vol' = [i \in DOMAIN vol |->
                    IF Linked(r.d, i) THEN LossData(i, pick[CHOOSE n \in Names : r.d[n] = i]) ELSE Empty]
       /\ dur' = vol'
    /\ GoDown

\* boot: the restored graph is r
Restart(r) ==
    /\ ~up
    /\ up' = TRUE /\ mem' = r /\ okG' = allowed \cup {r} /\ fresh' = TRUE
    /\ UNCHANGED <<dir, ddir, pend, vol, dur, busy, cur, nimp, bad, allowed>>

\* DEVIATION consequence: the restart restored exactly what the committed file holds, and that file
\* would have satisfied the property had it been written with the whole live graph
KF_C14_OnlyLastImportKept_Seen(r) ==
    /\ r \notin allowed /\ r = PhysG /\ PhysIG \in allowed /\ PhysG # PhysIG
    /\ Restart(r)

\* ------------------------------------------------------------------ the property
RestartOK == fresh => mem \in allowed

DirConsistent ==
    LET r == Durable(1..Len(pend)) IN r.ok /\ r.d = dir

TypeOK ==
    /\ \A n \in Names : dir[n] \in 0..Len(vol) /\ ddir[n] \in 0..Len(vol)
    /\ Len(vol) = Len(dur)
    /\ \A i \in DOMAIN vol : vol[i].st \in {"empty", "torn", "full"} /\ vol[i].g \subseteq 0..MaxImp
    /\ mem \subseteq 0..MaxImp /\ cur \in Nat /\ nimp \in 0..MaxImp
    /\ (busy => up) /\ (bad => busy)
    /\ \A n, m \in Names : n # m /\ dir[n] # 0 => dir[n] # dir[m]
=============================================================================
