---------------------------- MODULE MC_RespProbe ----------------------------
(* Design checks of the RESP grammar on arbitrary byte strings and generators  *)
(* of the C21 / C22 scripts.                                                  *)
(*  Spec    all byte strings of length <= N over the alphabet Alpha: TLC       *)
(*          checks the class lemmas (prefix-freedom, prefix-closure of "need", *)
(*          canonical re-encoding) and emits Exhaust scripts - one per prefix  *)
(*          of length P and target length - which the harness expands and the  *)
(*          trace specification re-enumerates (nothing may be skipped).        *)
(*  MSpec   mutants of valid frames (byte replaced / inserted / deleted,       *)
(*          length fields replaced by negative, huge, malformed texts, deep    *)
(*          nesting): one Probe script each.                                   *)
(*  CSpec   commands with CR / LF / CRLF-bearing text in every argument        *)
(*          position: one Cmd script each (C22).                               *)
EXTENDS Resp, TLC, Json

CONSTANTS Alpha,     \* the alphabet, a sequence of bytes
          N,         \* strings up to this length are model-checked
          P,         \* prefix length of the Exhaust scripts
          NMax       \* Exhaust scripts cover lengths up to NMax

VARIABLE cur
A == Len(Alpha)
ABytes == {Alpha[i] : i \in 1..A}

Init == cur = <<>>
Next == Len(cur) < N /\ \E a \in ABytes : cur' = Append(cur, a)
Spec == Init /\ [][Next]_cur

Pre(b, n) == SubSeq(b, 1, n)
\* the lemmas that make stream decoding well defined
ClassLemma(b) ==
    LET r == Top(b) IN
    /\ r.k = "frame" =>
          /\ r.j \in 2..Len(b) + 1
          /\ \A n \in 0..r.j - 2 : Top(Pre(b, n)) = Need          \* no proper prefix is a frame or garbage
          /\ Top(Pre(b, r.j - 1)) = r                              \* the rest of the buffer is irrelevant
          /\ b[1] \in TypeBytes => Encode(r.v) = Pre(b, r.j - 1)   \* typed frames are canonical
    /\ r.k = "need" => \A n \in 0..Len(b) - 1 : Top(Pre(b, n)) = Need
    /\ r.k = "open" => \A x \in ABytes : Top(Append(b, x)).k = "open"   \* garbage stays garbage
Lemma == ClassLemma(cur)

EmitExhaust ==
    /\ Len(cur) < P => PrintT(<<"SCRIPT", ToJson(<<[op |-> "Exhaust", prefix |-> cur, n |-> Len(cur), alpha |-> Alpha]>>)>>)
    /\ Len(cur) = P => \A n \in P..NMax :
           PrintT(<<"SCRIPT", ToJson(<<[op |-> "Exhaust", prefix |-> cur, n |-> n, alpha |-> Alpha]>>)>>)

\* ---------------------------------------------------------------- mutants
B(x) == Bulk(x)
Seeds == {
    B(<<>>), NullBulk, B(<<97, 13, 10, 98>>), Null, Int(<<45, 55>>), Simple(<<79, 75>>), Error(<<69>>),
    Arr(<<B(ECHOb), B(<<120>>)>>), Arr(<<>>), Arr(<<Arr(<<Int(<<49>>)>>), Arr(<<>>)>>),
    Arr(<<B(PINGb)>>)
}
SeedBytes == {Encode(v) : v \in Seeds} \cup {PINGb \o CRLF, <<101, 99, 104, 111, 32, 34, 97, 32, 98, 34>> \o CRLF}

Replace(b, i, x) == [b EXCEPT ![i] = x]
Insert(b, i, x) == SubSeq(b, 1, i - 1) \o x \o SubSeq(b, i, Len(b))
Delete(b, i) == SubSeq(b, 1, i - 1) \o SubSeq(b, i + 1, Len(b))
MutBytes == ABytes \cup {0, 255, SP, QUOTE, BSLASH, 50}
ByteMutants(b) ==
    {Replace(b, i, x) : i \in 1..Len(b), x \in MutBytes}
    \cup {Insert(b, i, <<x>>) : i \in 1..Len(b) + 1, x \in MutBytes}
    \cup {Delete(b, i) : i \in 1..Len(b)}

\* texts put where a length / count / integer stands
D(n) == Dec(n)
Nines(k) == [i \in 1..k |-> 57]
LenTexts == {
    <<>>, <<MINUS>>, <<MINUS, 49>>, <<MINUS, 50>>, <<MINUS, 57>>, <<MINUS, ZERO>>, <<ZERO, ZERO>>, <<ZERO, 49>>, <<PLUS, 49>>,
    <<49, 46, 48>>, <<49, 101, 51>>, <<SP, 49>>, <<49, SP>>, <<48, 120, 49>>, <<97>>, <<255>>,
    D(1), D(2), D(3), D(10), D(127), D(128), D(129), D(255), D(256), D(4095), D(4096), D(65535), D(65536), D(65537),
    D(1048575), D(1048576), D(1048577), D(16777216), D(536870912), D(536870913), D(999999999),
    Nines(10), Nines(11), Nines(18), Nines(19), Nines(20), Nines(40),
    <<52, 50, 57, 52, 57, 54, 55, 50, 57, 53>>,                       \* 4294967295
    <<52, 50, 57, 52, 57, 54, 55, 50, 57, 54>>,                       \* 4294967296
    <<57, 50, 50, 51, 51, 55, 50, 48, 51, 54, 56, 53, 52, 55, 55, 53, 56, 48, 55>>,      \* 9223372036854775807
    <<57, 50, 50, 51, 51, 55, 50, 48, 51, 54, 56, 53, 52, 55, 55, 53, 56, 48, 56>>,      \* 9223372036854775808
    <<MINUS, 57, 50, 50, 51, 51, 55, 50, 48, 51, 54, 56, 53, 52, 55, 55, 53, 56, 48, 56>>, \* -9223372036854775808
    <<MINUS, 57, 50, 50, 51, 51, 55, 50, 48, 51, 54, 56, 53, 52, 55, 55, 53, 56, 48, 57>>, \* -9223372036854775809
    <<49, 56, 52, 52, 54, 55, 52, 52, 48, 55, 51, 55, 48, 57, 53, 53, 49, 54, 49, 53>>,  \* 18446744073709551615
    <<49, 56, 52, 52, 54, 55, 52, 52, 48, 55, 51, 55, 48, 57, 53, 53, 49, 54, 49, 54>>   \* 18446744073709551616
}
\* every header / integer line of a seed replaced by each text
HeaderStarts(b) == {i \in 1..Len(b) : b[i] \in {DOLLAR, STAR, COLON} /\ (i = 1 \/ b[i - 1] = LF)}
LenMutants(b) ==
    {LET e == Scan(b, i) IN SubSeq(b, 1, i) \o t \o SubSeq(b, e, Len(b)) : i \in HeaderStarts(b), t \in LenTexts}
    \cup {<<c>> \o t \o tail : c \in {DOLLAR, STAR, COLON}, t \in LenTexts,
                               tail \in {<<>>, <<CR>>, CRLF, CRLF \o <<97>>, CRLF \o <<97>> \o CRLF, CRLF \o CRLF}}

\* nesting: d array headers around a leaf (complete) or around nothing (incomplete)
RECURSIVE Nest(_, _)
Nest(d, leaf) == IF d = 0 THEN leaf ELSE <<STAR, 49>> \o CRLF \o Nest(d - 1, leaf)
NestMutants == {Nest(d, leaf) : d \in {1, 2, 7, 8, 9, 10, 16, 31, 32, 33, 40}, leaf \in {<<>>, <<COLON, 49>> \o CRLF, <<STAR>>, <<97>> \o CRLF}}

Mutants == UNION {ByteMutants(b) \cup LenMutants(b) : b \in SeedBytes} \cup NestMutants

MInit == cur \in Mutants
MSpec == MInit /\ [][FALSE]_cur
EmitProbe == PrintT(<<"SCRIPT", ToJson(<<[op |-> "Probe", bytes |-> cur]>>)>>)

\* decoders that refuse big or deep frames do so without being fed: Big scripts (no bytes in the trace)
BigInit == cur \in {<<d>> : d \in {41, 64, 127, 128, 129, 200, 1000, 20000, 200000, 600000}}
BigSpec == BigInit /\ [][FALSE]_cur
EmitBig == \A leaf \in {0, 1} : PrintT(<<"SCRIPT", ToJson(<<[op |-> "Big", kind |-> "nest", d |-> cur[1], leaf |-> leaf]>>)>>)
=============================================================================
