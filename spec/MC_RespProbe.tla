---------------------------- MODULE MC_RespProbe ----------------------------
(* Design checks of the RESP grammar on arbitrary byte strings and generators  *)
(* of the C21 / C22 scripts.                                                  *)
(*  Spec    all byte strings of length <= N over the alphabet Alpha: TLC       *)
(*          checks the class lemmas (prefix-freedom, prefix-closure of "need", *)
(*          canonical re-encoding) and emits Exhaust scripts - one per prefix  *)
(*          of length P and target length - which the harness expands and the  *)
(*          trace specification re-enumerates (nothing may be skipped).        *)
(*  MSpec   mutants of valid frames (byte replaced / inserted / deleted,       *)
(*          length fields replaced by negative, huge, malformed texts, deep    *)
(*          nesting): one Probe script each.                                   *)
(*          plus nesting far beyond any limit (Big scripts, bytes not logged).  *)
(*  CSpec   C22: commands / queries with CR, LF, CRLF-bearing text in every     *)
(*          syntactic position (Cmd scripts, several commands on one store) and *)
(*          Sweep scripts - the text inserted at EVERY byte offset of an        *)
(*          argument (expanded by the harness, re-enumerated by the trace spec) *)
EXTENDS Resp, TLC, Json

CONSTANTS Alpha,     \* the alphabet, a sequence of bytes
          N,         \* strings up to this length are model-checked
          P,         \* prefix length of the Exhaust scripts
          NMin, NMax \* Exhaust scripts cover the lengths NMin..NMax

\* * $ + - : _ 0 1 2 9 a CR LF   (cfg: Alpha <- Alpha13)
Alpha13 == <<42, 36, 43, 45, 58, 95, 48, 49, 50, 57, 97, 13, 10>>
Alpha9 == <<42, 36, 45, 48, 49, 50, 57, 13, 10>>          \* * $ - 0 1 2 9 CR LF

VARIABLE cur
A == Len(Alpha)
ABytes == {Alpha[i] : i \in 1..A}

pvars == <<wire, buf, sent, decoded, out, st, big, cur>>      \* the connection variables of Resp stay idle here
Init == RInit /\ cur = <<>>
Next == Len(cur) < N /\ (\E a \in ABytes : cur' = Append(cur, a)) /\ UNCHANGED rvars
Spec == Init /\ [][Next]_pvars

Pre(b, n) == SubSeq(b, 1, n)
\* the lemmas that make stream decoding well defined
ClassLemma(b) ==
    LET r == Top(b) IN
    /\ r.k = "frame" =>
          /\ r.j \in 2..Len(b) + 1
          /\ \A n \in 0..r.j - 2 : Top(Pre(b, n)) = Need          \* no proper prefix is a frame or garbage
          /\ Top(Pre(b, r.j - 1)) = r                              \* the rest of the buffer is irrelevant
          /\ b[1] \in TypeBytes => Encode(r.v) = Pre(b, r.j - 1)   \* typed frames are canonical
    /\ r.k = "need" => \A n \in 0..Len(b) - 1 : Top(Pre(b, n)) = Need
    /\ r.k = "open" => \A x \in ABytes : Top(Append(b, x)).k = "open"   \* garbage stays garbage
BIG == 999     \* cur = <<BIG, d>> stands for a Big script (not a byte string)
IsBig == cur # <<>> /\ cur[1] = BIG
Lemma == IsBig \/ ClassLemma(cur)

EmitExhaust ==
    /\ (Len(cur) < P /\ Len(cur) >= NMin) =>
           PrintT(<<"SCRIPT", ToJson(<<[op |-> "Exhaust", prefix |-> cur, n |-> Len(cur), alpha |-> Alpha]>>)>>)
    /\ Len(cur) = P => \A n \in P..NMax : n >= NMin =>
           PrintT(<<"SCRIPT", ToJson(<<[op |-> "Exhaust", prefix |-> cur, n |-> n, alpha |-> Alpha]>>)>>)

\* ---------------------------------------------------------------- mutants
B(x) == Bulk(x)
Seeds == {
    B(<<>>), NullBulk, B(<<97, 13, 10, 98>>), Null, Int(<<45, 55>>), Simple(<<79, 75>>), Error(<<69>>),
    Arr(<<B(ECHOb), B(<<120>>)>>), Arr(<<>>), Arr(<<Arr(<<Int(<<49>>)>>), Arr(<<>>)>>),
    Arr(<<B(PINGb)>>),
    \* frames made of minimal-size (3-byte) elements
    Arr(<<Null>>), Arr(<<Null, Null, Null>>), Arr(<<Arr(<<Null>>)>>), Arr(<<Int(<<55>>), Arr(<<Null, Null>>)>>)
}
SeedBytes == {Encode(v) : v \in Seeds} \cup {PINGb \o CRLF, <<101, 99, 104, 111, 32, 34, 97, 32, 98, 34>> \o CRLF}

Replace(b, i, x) == [b EXCEPT ![i] = x]
Insert(b, i, x) == SubSeq(b, 1, i - 1) \o x \o SubSeq(b, i, Len(b))
Delete(b, i) == SubSeq(b, 1, i - 1) \o SubSeq(b, i + 1, Len(b))
MutBytes == ABytes \cup {0, 255, SP, QUOTE, BSLASH, 50}
ByteMutants(b) ==
    {Replace(b, i, x) : i \in 1..Len(b), x \in MutBytes}
    \cup {Insert(b, i, <<x>>) : i \in 1..Len(b) + 1, x \in MutBytes}
    \cup {Delete(b, i) : i \in 1..Len(b)}

\* texts put where a length / count / integer stands
D(n) == Dec(n)
Nines(k) == [i \in 1..k |-> 57]
LenTexts == {
    <<>>, <<MINUS>>, <<MINUS, 49>>, <<MINUS, 50>>, <<MINUS, 57>>, <<MINUS, ZERO>>, <<ZERO, ZERO>>, <<ZERO, 49>>, <<PLUS, 49>>,
    <<49, 46, 48>>, <<49, 101, 51>>, <<SP, 49>>, <<49, SP>>, <<48, 120, 49>>, <<97>>, <<255>>,
    D(1), D(2), D(3), D(10), D(127), D(128), D(129), D(255), D(256), D(4095), D(4096), D(65535), D(65536), D(65537),
    D(1048575), D(1048576), D(1048577), D(16777216), D(536870912), D(536870913), D(999999999),
    Nines(10), Nines(11), Nines(18), Nines(19), Nines(20), Nines(40),
    <<52, 50, 57, 52, 57, 54, 55, 50, 57, 53>>,                       \* 4294967295
    <<52, 50, 57, 52, 57, 54, 55, 50, 57, 54>>,                       \* 4294967296
    <<57, 50, 50, 51, 51, 55, 50, 48, 51, 54, 56, 53, 52, 55, 55, 53, 56, 48, 55>>,      \* 9223372036854775807
    <<57, 50, 50, 51, 51, 55, 50, 48, 51, 54, 56, 53, 52, 55, 55, 53, 56, 48, 56>>,      \* 9223372036854775808
    <<MINUS, 57, 50, 50, 51, 51, 55, 50, 48, 51, 54, 56, 53, 52, 55, 55, 53, 56, 48, 56>>, \* -9223372036854775808
    <<MINUS, 57, 50, 50, 51, 51, 55, 50, 48, 51, 54, 56, 53, 52, 55, 55, 53, 56, 48, 57>>, \* -9223372036854775809
    <<49, 56, 52, 52, 54, 55, 52, 52, 48, 55, 51, 55, 48, 57, 53, 53, 49, 54, 49, 53>>,  \* 18446744073709551615
    <<49, 56, 52, 52, 54, 55, 52, 52, 48, 55, 51, 55, 48, 57, 53, 53, 49, 54, 49, 54>>   \* 18446744073709551616
}
\* every header / integer line of a seed replaced by each text
HeaderStarts(b) == {i \in 1..Len(b) : b[i] \in {DOLLAR, STAR, COLON} /\ (i = 1 \/ b[i - 1] = LF)}
LenMutants(b) ==
    {LET e == Scan(b, i) IN SubSeq(b, 1, i) \o t \o SubSeq(b, e, Len(b)) : i \in HeaderStarts(b), t \in LenTexts}
    \cup {<<c>> \o t \o tail : c \in {DOLLAR, STAR, COLON}, t \in LenTexts,
                               tail \in {<<>>, <<CR>>, CRLF, CRLF \o <<97>>, CRLF \o <<97>> \o CRLF, CRLF \o CRLF}}

\* nesting: d array headers around a leaf (complete) or around nothing (incomplete)
RECURSIVE Nest(_, _)
Nest(d, leaf) == IF d = 0 THEN leaf ELSE <<STAR, 49>> \o CRLF \o Nest(d - 1, leaf)
NestMutants(u) == {Nest(d, leaf) : d \in {1, 2, 7, 8, 9, 10, 16, 31, 32, 33, 40}, leaf \in {<<>>, <<COLON, 49>> \o CRLF, <<STAR>>, <<97>> \o CRLF, <<USCORE>> \o CRLF}}

\* (the dummy parameter keeps TLC from evaluating the set at start-up of the runs that do not use it)
Mutants(u) == UNION {ByteMutants(b) \cup LenMutants(b) : b \in SeedBytes} \cup NestMutants(u)
\* decoders that refuse big or deep frames do so without being fed: Big scripts (no bytes in the trace)
Bigs == {<<BIG, d>> : d \in {41, 64, 127, 128, 129, 200, 1000, 20000, 200000, 600000}}

MInit == RInit /\ cur \in Mutants(0) \cup Bigs
MSpec == MInit /\ [][FALSE]_pvars
EmitProbe ==
    IF IsBig THEN \A leaf \in {0, 1} : PrintT(<<"SCRIPT", ToJson(<<[op |-> "Big", kind |-> "nest", d |-> cur[2], leaf |-> leaf]>>)>>)
    ELSE PrintT(<<"SCRIPT", ToJson(<<[op |-> "Probe", bytes |-> cur]>>)>>)

\* ---------------------------------------------------------------- C22: commands
\* Command arguments are TLA+ strings here (TLC cannot look inside them and does not have to: the
\* property is about the reply bytes); the harness logs the bytes it actually sent.
\* Texts put into commands: CR / LF bearing ones (they split line-framed replies) and multi-byte UTF-8 ones
\* (2-, 3- and 4-byte characters: a length counted in characters instead of bytes mis-frames a bulk reply).
\* NOTE the non-ASCII literals need a JVM reading / printing UTF-8 (the recipe passes -Dfile.encoding=UTF-8 and
\* refuses to run if the scripts arrive without non-ASCII text).
Evil == {"\r\n", "\r", "\n", "x\r\ny", "\r\n+OK", "\r\n\r\n", "\n\r", "a\nb", "a\rb", "\r\n$-1\r\n",
         "é", "€", "😀", "grüß €😀 dich", "é\r\n€"}
Q(pre, e, post) == pre \o e \o post
\* query texts with the text e in one syntactic position each
Queries(e) == {
    e, Q("RETURN 1", e, ""), Q("", e, "RETURN 1"), Q("RETURN", e, "1"),
    Q("RETURN '", e, "'"), Q("RETURN \"", e, "\""), Q("RETURN '", e, ""), Q("RETURN 'a' + '", e, "' + 1"),
    Q("RETURN '", e, "' AS v, 1 AS w"), ("RETURN 'a" \o e \o "b' + '" \o e \o "'"), ("RETURN toUpper('" \o e \o "'), ['" \o e \o "', 1]"),
    Q("RETURN 1 AS `", e, "`"), Q("RETURN `", e, "`"), Q("RETURN x", e, ""), Q("RETURN $", e, ""), Q("RETURN $`", e, "`"),
    Q("RETURN nosuch", e, "(1)"), Q("RETURN nosuch('", e, "')"), Q("RETURN toInteger('", e, "')"),
    Q("RETURN date('", e, "')"), Q("RETURN datetime('", e, "')"), Q("RETURN duration('", e, "')"),
    Q("RETURN time('", e, "')"), Q("RETURN localtime('", e, "')"), Q("RETURN localdatetime('", e, "')"),
    Q("RETURN toBoolean('", e, "')"), Q("RETURN toFloat('", e, "')"), Q("MATCH (n) WHERE n.p =~ '[", e, "' RETURN n"),
    Q("RETURN 1 +", e, ""), Q("RETURN [1,", e, "]"), Q("RETURN {`", e, "`: 1}"), Q("RETURN {a: '", e, "'}"),
    Q("RETURN 1/0 AS `", e, "`"), Q("RETURN substring('", e, "', 99, -1)"), Q("RETURN 'a' =~ '(", e, "'"),
    Q("MATCH (n:`", e, "`) RETURN n"), Q("MATCH (n) WHERE n.p = '", e, "' RETURN n"), Q("MATCH (n) RETURN n.`", e, "`"),
    Q("MATCH (n)-[:`", e, "`]->(m) RETURN m"), Q("MATCH (n) RETURN m", e, ""), Q("MATCH (n", e, ""),
    Q("CALL ", e, "()"), Q("CALL nosuch.proc('", e, "')"), Q("CALL algo.pageRank('", e, "', 'x') YIELD node RETURN node"),
    Q("CALL db.`", e, "`()"), Q("UNWIND ['", e, "'] AS x RETURN x"), Q("UNWIND '", e, "' AS x RETURN x"),
    Q("CREATE INDEX ON :`", e, "`(p)"), Q("CREATE INDEX ON :L(`", e, "`)"), Q("DROP INDEX ON :L(`", e, "`)"),
    Q("CREATE CONSTRAINT ON (n:`", e, "`) ASSERT n.p IS UNIQUE"), Q("EXPLAIN ", e, ""), Q("PROFILE MATCH (n:`", e, "`) RETURN n"),
    Q("EXPLAIN MATCH (n) WHERE n.p = '", e, "' RETURN n"), Q("FOO ", e, ""), Q("MATCH (n) SET n.p = ", e, ""),
    Q("MATCH (n) DELETE ", e, ""), Q("MERGE (n:`", e, "` {p: 1}) RETURN n"), Q("RETURN 1 ORDER BY `", e, "`"),
    Q("RETURN 1 LIMIT '", e, "'"), Q("LOAD CSV FROM '", e, "' AS r RETURN r"), Q("MATCH p = shortestPath((a)-[*]-(b:`", e, "`)) RETURN p")
}
C(args) == [op |-> "Cmd", args |-> args]
GQ(q) == C(<<"GRAPH.QUERY", "default", q>>)
CmdScripts(u) ==
    UNION {
        {<<C(<<e>>)>>, <<C(<<e, "x">>)>>, <<C(<<"PING", e>>)>>, <<C(<<"ECHO", e>>)>>, <<C(<<"ECHO">>), C(<<"INFO", e>>)>>,
         <<C(<<"GRAPH.QUERY", e, "RETURN 1">>)>>, <<C(<<"GRAPH.RO_QUERY", e, "RETURN 1">>)>>, <<C(<<"GRAPH.QUERY", "default" \o e, "RETURN 1">>)>>,
         <<C(<<"GRAPH.QUERY", e>>), C(<<"GRAPH.QUERY">>)>>, <<C(<<"GRAPH.LIST", e>>), C(<<"GRAPH.DELETE", e>>)>>,
         <<C(<<"graph.config", "GET", e>>)>>, <<C(<<"GRAPH.QUERY" \o e, "default", "RETURN 1">>)>>}
        \cup {<<GQ(q)>> : q \in Queries(e)}
        \cup {<<C(<<"GRAPH.RO_QUERY", "default", q>>)>> : q \in {Q("RETURN '", e, "'"), Q("RETURN x", e, "")}}
        \* stored data: the text as property value, property key, label, relationship type, then read back / fail on it
        \cup {<<GQ(Q("CREATE (n:L {p: '", e, "', q: 1})")), GQ("MATCH (n:L) RETURN n.p, n"), GQ("MATCH (n:L) RETURN n.p + 1"),
                 GQ("MATCH (n:L) RETURN toInteger(n.p), date(n.p)"), GQ("MATCH (n:L) RETURN properties(n), keys(n), labels(n)"),
                 GQ("CREATE INDEX ON :L(p)"), GQ(Q("MATCH (n:L) WHERE n.p = '", e, "' RETURN n.p")),
                 GQ("CREATE CONSTRAINT ON (n:L) ASSERT n.p IS UNIQUE"), GQ(Q("CREATE (n:L {p: '", e, "'})")),
                 GQ("MATCH (n:L) RETURN n.p AS v ORDER BY v"), GQ("MATCH (n:L) RETURN collect(n.p), count(n)")>>,
               <<GQ("CREATE (n:`" \o e \o "` {`k" \o e \o "`: 2})-[:`" \o e \o "`]->(m) RETURN n, m"), GQ("MATCH (n)-[r]->(m) RETURN labels(n), type(r), keys(n), r"),
                 GQ("MATCH (n) RETURN properties(n)"), GQ("MATCH (n:`" \o e \o "`) RETURN n.`k" \o e \o "`"), C(<<"GRAPH.DELETE", "default">>),
                 GQ("MATCH (n) RETURN count(n)")>>}
        : e \in Evil}
    \cup {<<C(<<"PING">>), C(<<"ECHO", "a">>), C(<<"INFO">>), C(<<"GRAPH.LIST">>), GQ("RETURN 1"), GQ("MATCH (n) RETURN n"), C(<<>>)>>}

SweepTexts == {"MATCH (n:L) WHERE n.p = 'v' RETURN n.p AS `c`", "CREATE (n:L {p: 'v'})-[:R]->(m:`M`) RETURN n",
               "RETURN nosuch('a') + $p", "CALL db.labels() YIELD label RETURN label"}
SweepScripts(u) ==
    {<<[op |-> "Sweep", args |-> <<"GRAPH.QUERY", "default", q>>, arg |-> 3, evil |-> e]>> : q \in SweepTexts, e \in {"\r\n", "\n", "\r"}}
    \cup {<<[op |-> "Sweep", args |-> <<"GRAPH.QUERY", "default", "RETURN 1">>, arg |-> k, evil |-> e]>> : k \in 1..2, e \in {"\r\n", "\n"}}
    \cup {<<[op |-> "Sweep", args |-> <<"ECHO", "hello">>, arg |-> k, evil |-> e]>> : k \in 1..2, e \in {"\r\n", "é€😀"}}
    \cup {<<[op |-> "Sweep", args |-> <<"PING", "hello">>, arg |-> 2, evil |-> "€"]>>,
          <<[op |-> "Sweep", args |-> <<"GRAPH.QUERY", "default", "RETURN 'v' AS c, ['w'] AS d">>, arg |-> 3, evil |-> "é€😀"]>>}

CSpec == RInit /\ cur \in CmdScripts(0) \cup SweepScripts(0) /\ [][FALSE]_pvars
EmitCur == PrintT(<<"SCRIPT", ToJson(cur)>>)
=============================================================================
