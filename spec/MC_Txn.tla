------------------------------- MODULE MC_Txn -------------------------------
EXTENDS Txn, TLC, Json
CONSTANTS MaxHist, Legacy
VARIABLE hist
vars == <<curVer, txns, lastCommit, commits, hist>>
H(r) == hist' = Append(hist, r)
Init == XInit /\ hist = <<>>
Next ==
    \/ \E iso \in Iso : Begin(iso) /\ H([op |-> "Begin", iso |-> iso])
    \/ \E t \in Handles, x \in Entities : Write(t, x) /\ H([op |-> "Write", t |-> t, x |-> x])
    \/ \E t \in Handles, ok \in BOOLEAN :
          /\ IF Legacy THEN LegacyCommitNoCheck(t, ok) ELSE Commit(t, ok)
          /\ H([op |-> "Commit", t |-> t])
    \/ \E t \in Handles, ok \in BOOLEAN : Abort(t, ok) /\ H([op |-> "Abort", t |-> t])
    \/ Gc /\ H([op |-> "Gc"])
Spec == Init /\ [][Next]_vars
View == <<curVer, txns, lastCommit>>
Bound == Len(hist) <= MaxHist
Emit == PrintT(<<"SCRIPT", ToJson(hist')>>)
EmitLeaf == Len(hist') = MaxHist => PrintT(<<"SCRIPT", ToJson(hist')>>)
SimEmit == Len(hist) = MaxHist => PrintT(<<"SCRIPT", ToJson(hist)>>)
=============================================================================
