---------------------------- MODULE MC_OrderIndex ----------------------------
EXTENDS OrderIndex, TLC, Json
CONSTANT MaxHist
VARIABLE hist
vars == <<ins, hist>>
Init == OInit /\ hist = <<>>
\* node n always carries the n-th inserted pair, so every script inserts distinct nodes
Next == \/ \E v \in Vals : Insert(v, Len(hist) + 1) /\ hist' = Append(hist, [op |-> "Insert", v |-> v, n |-> Len(hist) + 1])
        \/ \E p \in ins : Remove(p[1], p[2]) /\ hist' = Append(hist, [op |-> "Remove", v |-> p[1], n |-> p[2]])
Spec == Init /\ [][Next]_vars
Bound == Len(hist) <= MaxHist
EmitLeaf == Len(hist') = MaxHist => PrintT(<<"SCRIPT", ToJson(hist')>>)
GetSound == \A v \in Vals : Get(v) \subseteq All
=============================================================================
