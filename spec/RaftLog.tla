------------------------------- MODULE RaftLog -------------------------------
(***************************************************************************)
(* Raft log storage of samyama-graph (src/raft/storage.rs, RaftStorage).   *)
(*                                                                         *)
(* State mirrors the implementation: `log` is the Vec<LogEntry> in its     *)
(* physical order, `snap` the snapshot metadata.  One action per public    *)
(* mutator: append_entries, delete_entries_from, create_snapshot.          *)
(*                                                                         *)
(* Property C31: one entry per index (an append at an existing index       *)
(* replaces that entry and every later one), a snapshot at i removes only  *)
(* entries <= i, last index/term are those of the newest retained entry,   *)
(* or of the snapshot when the log is empty.                               *)
(*                                                                         *)
(* The Legacy* actions model what the pinned tree did before the fix       *)
(* (append never truncates; create_snapshot drops the whole tail).  They   *)
(* are used by MC_RaftLog_Legacy.cfg only, as a self-test that the         *)
(* invariants can fail, and never by the trace specification.              *)
(***************************************************************************)
EXTENDS Naturals, Sequences, FiniteSets

CONSTANTS MaxIndex, MaxTerm

VARIABLES log,    \* sequence of [i |-> index, t |-> term], physical order
          snap    \* [i |-> index, t |-> term]; i = 0 means "no snapshot"

rvars == <<log, snap>>

Entry == [i : 1..MaxIndex, t : 1..MaxTerm]
NoSnap == [i |-> 0, t |-> 0]

Indices(lg) == {lg[k].i : k \in DOMAIN lg}
SelectLog(lg, P(_)) == SelectSeq(lg, P)

LastOf(lg, sn) == IF lg # <<>> THEN lg[Len(lg)] ELSE sn
LastIndex == LastOf(log, snap).i

\* Entries a caller may append: a contiguous run starting no later than one
\* past the last index and above the snapshot (Raft never appends with gaps
\* nor below its snapshot; the property says nothing about such calls).
Run(first, terms) == [k \in 1..Len(terms) |-> [i |-> first + k - 1, t |-> terms[k]]]
AppendAllowed(first, n) ==
    /\ first >= 1 /\ first > snap.i
    /\ first <= LastIndex + 1
    /\ first + n - 1 <= MaxIndex

RInit == log = <<>> /\ snap = NoSnap

\* ---- ideal actions (the property's post-conditions) ----
AppendEntries(first, terms) ==
    /\ AppendAllowed(first, Len(terms))
    /\ log' = SelectSeq(log, LAMBDA e : e.i < first) \o Run(first, terms)
    /\ UNCHANGED snap

DeleteFrom(i) ==
    /\ log' = SelectSeq(log, LAMBDA e : e.i < i)
    /\ UNCHANGED snap

Snapshot(i, t) ==
    /\ snap' = [i |-> i, t |-> t]
    /\ log' = SelectSeq(log, LAMBDA e : e.i > i)

\* ---- what the pinned tree did (self-test only) ----
LegacyAppend(first, terms) ==
    /\ AppendAllowed(first, Len(terms))
    /\ log' = log \o Run(first, terms)
    /\ UNCHANGED snap

LegacySnapshot(i, t) ==
    /\ snap' = [i |-> i, t |-> t]
    /\ log' = SelectSeq(log, LAMBDA e : e.i < i + 1)

\* ---- read views (what the public getters return) ----
GetEntry(i) == LET hits == SelectSeq(log, LAMBDA e : e.i = i)
               IN  IF hits = <<>> THEN 0 ELSE hits[1].t
ViewLast == LastOf(log, snap)

\* ---- C31 as state invariants ----
OneEntryPerIndex == Cardinality(Indices(log)) = Len(log)
SortedContiguous == \A k \in 1..Len(log) - 1 : log[k + 1].i = log[k].i + 1
AboveSnapshotOrKept == TRUE  \* a snapshot below the first index keeps everything (see SnapshotKeepsTail)
LastIsNewest ==
    IF log = <<>> THEN ViewLast = snap
    ELSE \A e \in {log[k] : k \in DOMAIN log} : e.i <= ViewLast.i

\* ---- C31 as action properties ----
SnapshotKeepsTail ==
    [][ snap' # snap =>
          {log[k] : k \in DOMAIN log} \ {log'[k] : k \in DOMAIN log'}
             \subseteq {e \in {log[k] : k \in DOMAIN log} : e.i <= snap'.i} ]_rvars

TypeOK == /\ log \in Seq(Entry)
          /\ snap \in [i : 0..MaxIndex, t : 0..MaxTerm]
=============================================================================
