------------------------------ MODULE MC_Resp ------------------------------
(* Model-checking wrapper of the RESP connection machine (C20, reply side of  *)
(* C22).  A behaviour = a client opens a connection with a stream made of     *)
(* <= MaxFrames frames of the universe, the stream reaches the server in      *)
(* <= MaxChunks reads chosen nondeterministically (EVERY split), the server   *)
(* runs its decode loop after every read.  Decode steps are the server's own  *)
(* reaction, so scripts (hist) hold the client's steps only.                  *)
(* Live = TRUE: the same behaviours as seen from a client socket, plus (BigN  *)
(* > 0) connections that start with a BigN-byte ECHO followed by one small    *)
(* frame, written in <= BigChunks pieces cut inside the payload and at every  *)
(* byte of the follower - the big frame stays run-length encoded throughout.  *)
(* Legacy (self-tests) may contain "decode" / "encode" / "chars": the pinned   *)
(* tree's header-eating decoder / raw error text / a bulk length counted in   *)
(* characters.                                                                *)
EXTENDS Resp, TLC, Json

CONSTANTS MaxFrames, MaxChunks, MaxChunks1, Live, Legacy, Univ, Lemmas,
          BigN,        \* payload length of the big first frame of the Big* behaviours (0: none)
          BigUniv,     \* frames (indices as Univ) that may follow the big frame
          BigCuts,     \* offsets inside the big payload at which the client may cut a write
          BigChunks    \* a big stream is written in at most this many pieces

VARIABLE hist
vars == <<wire, buf, sent, decoded, out, st, big, hist>>

B(x) == Bulk(x)
Vals == <<
    B(<<>>),                                        \* 1  $0
    NullBulk,                                       \* 2  $-1
    B(<<97, 13, 10, 98>>),                          \* 3  binary payload containing CRLF
    Arr(<<B(ECHOb), B(<<120>>)>>),                  \* 4  ECHO x
    Arr(<<B(PINGb)>>),                              \* 5  PING
    Arr(<<>>),                                      \* 6  *0
    Arr(<<Arr(<<Int(<<49>>)>>), Arr(<<>>)>>),       \* 7  nested arrays
    Int(<<45, 55>>),                                \* 8  :-7
    Simple(<<79, 75>>),                             \* 9  +OK
    Null,                                           \* 10 _
    Arr(<<B(<<120, 13, 10, 121>>)>>),               \* 11 unknown command whose name contains CRLF
    Arr(<<B(<<101, 99, 104, 111>>), B(<<13, 10>>)>>), \* 12 echo CRLF
    Arr(<<B(PINGb), B(<<104, 105>>), NullBulk>>),   \* 13 PING hi (extra null bulk)
    Arr(<<B(<<71, 82, 65, 80, 72, 46, 76, 73, 83, 84>>)>>) \* 14 GRAPH.LIST
>>
InlineWires == <<
    PINGb \o CRLF,                                  \* 15 inline PING
    <<101, 99, 104, 111, 32, 32, 97>> \o CRLF       \* 16 inline "echo  a"
>>
\* 17: ECHO of multi-byte UTF-8 text (2-, 3-, 4-byte characters): lengths are byte counts
Utf8Wires == <<Encode(Arr(<<B(ECHOb), B(<<195, 169, 226, 130, 172, 240, 159, 152, 128>>)>>))>>
\* 18..23: frames built from minimal-size elements (RESP3 null = 3 bytes, the shortest frame there is): a decoder
\* that reasons about "at least so many bytes per element" is exact only on these
MinVals == <<
    Arr(<<Null>>),                                  \* 18 *1 _
    Arr(<<Null, Null>>),                            \* 19 *2 _ _
    Arr(<<Null, Null, Null>>),                      \* 20 *3 _ _ _
    Arr(<<Arr(<<Null>>)>>),                         \* 21 nested, innermost array all nulls
    Arr(<<Int(<<55>>), Arr(<<Null, Null>>)>>),      \* 22 an integer and an all-null array
    Arr(<<Arr(<<Null, Null>>), Arr(<<>>), Arr(<<Null>>)>>)  \* 23 all-null arrays around an empty one
>>
AllWires == [i \in 1..Len(Vals) |-> Encode(Vals[i])] \o InlineWires \o Utf8Wires \o [i \in 1..Len(MinVals) |-> Encode(MinVals[i])]
Wires == {AllWires[i] : i \in Univ}

Init == RInit /\ hist = <<>>
H(r) == hist' = Append(hist, r)

\* the client composes its stream frame by frame (kept in `wire` while idle), then connects
DoPlan ==
    /\ st = "idle" /\ hist = <<>>
    /\ Len(ParseAll(wire).vs) < MaxFrames
    /\ \E w \in Wires : wire' = wire \o w
    /\ UNCHANGED <<buf, sent, decoded, out, st, big, hist>>
DoOpen ==
    /\ hist = <<>> /\ wire # <<>>
    /\ Open(wire, Live)
    /\ H([op |-> IF Live THEN "LiveOpen" ELSE "Open", wire |-> wire])

\* the k first bytes of the wire arrive; the last permitted chunk takes everything
\* (streams of one frame may be cut into MaxChunks1 pieces, longer ones into MaxChunks)
ChunkOK(k) == k \in 1..Len(wire) /\ (Len(hist) < (IF Len(sent) = 1 THEN MaxChunks1 ELSE MaxChunks) \/ k = Len(wire))
DoDeliver ==
    \E k \in 1..Len(wire) :
       /\ ChunkOK(k)
       /\ Deliver(SubSeq(wire, 1, k))
       /\ H([op |-> "Deliver", chunk |-> SubSeq(wire, 1, k)])

DoDecode ==
    /\ LET r == Top(buf)
           rb == IF r.k = "frame" THEN EncodeWith(ModelReply(r.v), IF "encode" \in Legacy THEN "raw" ELSE IF "chars" \in Legacy THEN "chars" ELSE "clean") ELSE <<>> IN
       IF Legacy # {} THEN LegacyDecode(rb, "decode" \in Legacy)
       ELSE IF r.k = "frame" THEN Decode("value", r.v, rb)
       ELSE Decode("need", Null, <<>>)
    /\ UNCHANGED hist

DoEnd == End /\ H([op |-> "End"])

DoLiveSend ==
    \E k \in 1..Len(wire) :
       /\ ChunkOK(k)
       /\ LiveSend(SubSeq(wire, 1, k))
       /\ H([op |-> "LiveSend", chunk |-> SubSeq(wire, 1, k)])
DoLiveClose ==
    /\ LiveClose(Flat([i \in 1..Len(sent) |-> Encode(ModelReply(sent[i]))]))
    /\ H([op |-> "LiveClose"])

\* ---- a big ECHO (BigN copies of "a") followed by one small frame.  The client may cut its writes
\* inside the header, at the BigCuts offsets of the payload, and at EVERY byte of the CR LF that ends
\* the big frame and of the follower (in particular inside the follower's first line).
BigC == 97
DoBigOpen ==
    /\ BigN > 0 /\ hist = <<>> /\ wire = <<>>
    /\ \E i \in BigUniv :
          /\ BigOpen(BigC, BigN, AllWires[i])
          /\ H([op |-> "BigOpen", c |-> BigC, n |-> BigN, wire |-> AllWires[i]])
BigLeft == Len(big.a) + big.run + Len(wire)
\* offsets (from the start of the stream) after which a write may end
BigCutSet ==
    LET ha == Len(BigHeader(big.n))
        tl == Len(hist[1].wire) + 2 IN
    {2} \cup {ha + p : p \in BigCuts} \cup {ha + big.n + j : j \in 0..tl - 1} \cup {ha + big.n + tl}
DoBigSend ==
    /\ st = "live" /\ big.on /\ BigLeft > 0
    /\ LET total == Len(BigHeader(big.n)) + big.n + Len(hist[1].wire) + 2
           pos == total - BigLeft IN
       \E e \in BigCutSet :
          /\ e > pos
          /\ Len(hist) < BigChunks \/ e = total
          /\ LET k == e - pos
                 np == IF k < Len(big.a) THEN k ELSE Len(big.a)
                 nr == IF k - np < big.run THEN k - np ELSE big.run
                 ch == [pre |-> SubSeq(big.a, 1, np), run |-> nr, post |-> SubSeq(wire, 1, k - np - nr)] IN
             /\ BigSend(ch)
             /\ H([op |-> "BigSend", pre |-> ch.pre, run |-> ch.run, post |-> ch.post])
DoBigClose ==
    /\ st = "live" /\ big.on
    /\ BigClose([head |-> <<DOLLAR>> \o Dec(big.n) \o CRLF, c |-> big.c, run |-> big.n,
                 rest |-> CRLF \o Flat([i \in 1..Len(sent) - 1 |-> Encode(ModelReply(sent[i + 1]))])])
    /\ H([op |-> "BigClose"])

Next == DoPlan \/ DoOpen \/ DoDeliver \/ DoDecode \/ DoEnd               \* the read loop driven in process (Live = FALSE)
NextLive == DoPlan \/ DoOpen \/ DoLiveSend \/ DoLiveClose                 \* a client socket of a live server (Live = TRUE)
              \/ DoBigOpen \/ DoBigSend \/ DoBigClose
Spec == Init /\ [][Next]_vars
SpecLive == Init /\ [][NextLive]_vars

\* every behaviour that starts must be able to finish: a connection is never stuck
NoStuck == (st \in {"reading", "decoding", "live"}) => ENABLED (DoDeliver \/ DoDecode \/ DoEnd \/ DoLiveSend \/ DoLiveClose \/ DoBigSend \/ DoBigClose)

Done == st = "idle" /\ hist # <<>>
EmitEnd == (st # "idle" /\ st' = "idle") => PrintT(<<"SCRIPT", ToJson(hist')>>)
SimEmit == Done => PrintT(<<"SCRIPT", ToJson(hist)>>)

\* round trip / prefix lemmas over the universe and its nestings
RoundTripAll ==
    \A i \in 1..Len(Vals) :
        /\ RoundTrip(Vals[i])
        /\ RoundTrip(Arr(<<Vals[i], Vals[i]>>))
        /\ \A j \in 1..Len(Vals) : RoundTrip(Arr(<<Vals[j], Arr(<<Vals[i]>>)>>))
MinRoundTrip == \A m \in 1..Len(MinVals) : RoundTrip(MinVals[m]) /\ RoundTrip(Arr(<<MinVals[m], MinVals[m]>>))
InlineAll ==
    /\ Top(InlineWires[1]) = Fr(Arr(<<B(PINGb)>>), 7)
    /\ Top(InlineWires[2]) = Fr(Arr(<<B(<<101, 99, 104, 111>>), B(<<97>>)>>), 10)
    /\ \A w \in {InlineWires[1], InlineWires[2]} : \A n \in 0..Len(w) - 1 : Top(SubSeq(w, 1, n)) = Need
ASSUME Lemmas => RoundTripAll /\ MinRoundTrip /\ InlineAll      \* evaluated once, by the runs that set Lemmas = TRUE
=============================================================================
