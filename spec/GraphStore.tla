----------------------------- MODULE GraphStore -----------------------------
(***************************************************************************)
(* The in-memory graph store of samyama-graph (src/graph/store.rs),        *)
(* single-version part: nodes, relationships, the two adjacency tiers      *)
(* (write buffer + frozen CSR segments), label / relationship-type         *)
(* indexes, the node property column.  One action per public mutator.      *)
(*                                                                         *)
(* The state is implementation-shaped on purpose: the store keeps the same *)
(* fact in several places (edge_endpoints / edge_type_ids, outgoing /      *)
(* incoming buffers, frozen_outgoing / frozen_incoming, label_index,       *)
(* edge_type_index, node row map / node_columns) and property C06 says     *)
(* that every read view computed from any of them agrees with the logical  *)
(* graph.  The read views below are computed from the physical variables   *)
(* the way the Rust read paths compute them; ViewsAgree states that they   *)
(* equal the views of the logical graph (live nodes / live relationships). *)
(*                                                                         *)
(* Ids are parameters of the creating actions: the property leaves id      *)
(* allocation open ("a reused id never inherits anything"), so the trace   *)
(* specification binds them from the trace and MC_GraphStore allocates     *)
(* them the way the implementation does (LIFO free lists).                 *)
(*                                                                         *)
(* KF_* actions are named deviations: what the pinned implementation does  *)
(* where it departs from the ideal action (see known_findings.json).       *)
(***************************************************************************)
EXTENDS Naturals, Sequences, FiniteSets, FiniteSetsExt

CONSTANTS MaxN, MaxE,     \* id universes 1..MaxN, 1..MaxE
          Labels, Types,  \* sets of strings
          Vals            \* property values (one key "p" on nodes and relationships)

NodeIds == 1..MaxN
EdgeIds == 1..MaxE
None == "none"
Unset == "UNSET"
Entry == NodeIds \X NodeIds \X EdgeIds      \* <<src, dst, e>>: outgoing[src] holds (dst,e), incoming[dst] holds (src,e)

VARIABLES node,      \* [NodeIds -> [live, labels, p]]       row storage (newest version)
          col,       \* [NodeIds -> Vals \cup {None}]         node_columns, key "p"
          ends,      \* [EdgeIds -> <<s,d>>]  <<0,0>> = free  edge_endpoints
          etype,     \* [EdgeIds -> Types \cup {Unset}]       edge_type_ids
          ep,        \* [EdgeIds -> Vals \cup {None}]         edge_properties, key "p"
          buf,       \* SUBSET Entry                          write buffer (both directions)
          frozen,    \* [Entry -> Nat]                        frozen CSR tier, a bag
          labelIdx,  \* [Labels -> SUBSET NodeIds]
          typeIdx,   \* [Types -> SUBSET EdgeIds]
          bulk       \* TRUE between a stub insertion and finish_bulk_load

gvars == <<node, col, ends, etype, ep, buf, frozen, labelIdx, typeIdx, bulk>>

DeadNode == [live |-> FALSE, labels |-> {}, p |-> None]
NoEnds == <<0, 0>>

GInit ==
    /\ node = [n \in NodeIds |-> DeadNode]
    /\ col = [n \in NodeIds |-> None]
    /\ ends = [e \in EdgeIds |-> NoEnds]
    /\ etype = [e \in EdgeIds |-> Unset]
    /\ ep = [e \in EdgeIds |-> None]
    /\ buf = {}
    /\ frozen = [x \in Entry |-> 0]
    /\ labelIdx = [l \in Labels |-> {}]
    /\ typeIdx = [t \in Types |-> {}]
    /\ bulk = FALSE

LiveN(n) == n \in NodeIds /\ node[n].live
LiveE(e) == e \in EdgeIds /\ ends[e] # NoEnds
Incident(n) == {e \in EdgeIds : LiveE(e) /\ (ends[e][1] = n \/ ends[e][2] = n)}

\* ------------------------------------------------------------------ ideal actions
\* ok = what the caller was told (TRUE: success)

CreateNode(id, ls) ==
    /\ id \in NodeIds /\ ~LiveN(id)
    /\ node' = [node EXCEPT ![id] = [live |-> TRUE, labels |-> ls, p |-> None]]
    /\ col' = [col EXCEPT ![id] = None]
    /\ labelIdx' = [l \in Labels |-> IF l \in ls THEN labelIdx[l] \cup {id} ELSE labelIdx[l]]
    /\ UNCHANGED <<ends, etype, ep, buf, frozen, typeIdx, bulk>>

RemoveEdges(E) ==
    /\ ends' = [e \in EdgeIds |-> IF e \in E THEN NoEnds ELSE ends[e]]
    /\ etype' = [e \in EdgeIds |-> IF e \in E THEN Unset ELSE etype[e]]
    /\ ep' = [e \in EdgeIds |-> IF e \in E THEN None ELSE ep[e]]
    /\ typeIdx' = [t \in Types |-> typeIdx[t] \ E]

DeleteEdge(e, ok) ==
    /\ e \in EdgeIds
    /\ ok = LiveE(e)
    /\ IF ok
       THEN /\ RemoveEdges({e})
            /\ buf' = {x \in buf : x[3] # e}
            /\ frozen' = [x \in Entry |-> IF x[3] = e THEN 0 ELSE frozen[x]]
            /\ UNCHANGED <<node, col, labelIdx, bulk>>
       ELSE UNCHANGED gvars

DeleteNode(n, ok) ==
    /\ n \in NodeIds
    /\ ok = LiveN(n)
    /\ IF ok
       THEN /\ node' = [node EXCEPT ![n] = DeadNode]
            /\ col' = [col EXCEPT ![n] = None]
            /\ labelIdx' = [l \in Labels |-> labelIdx[l] \ {n}]
            /\ RemoveEdges(Incident(n))
            /\ buf' = {x \in buf : x[3] \notin Incident(n)}
            /\ frozen' = [x \in Entry |-> IF x[3] \in Incident(n) THEN 0 ELSE frozen[x]]
            /\ UNCHANGED bulk
       ELSE UNCHANGED gvars

CreateEdge(e, s, d, t, ok) ==
    /\ s \in NodeIds /\ d \in NodeIds
    /\ ok = (LiveN(s) /\ LiveN(d))
    /\ IF ok
       THEN /\ e \in EdgeIds /\ ~LiveE(e)
            /\ ends' = [ends EXCEPT ![e] = <<s, d>>]
            /\ etype' = [etype EXCEPT ![e] = t]
            /\ ep' = [ep EXCEPT ![e] = None]
            /\ buf' = buf \cup {<<s, d, e>>}
            /\ typeIdx' = [typeIdx EXCEPT ![t] = @ \cup {e}]
            /\ UNCHANGED <<node, col, frozen, labelIdx, bulk>>
       ELSE UNCHANGED gvars

\* create_edge_with_properties: like CreateEdge, the relationship starts with property p = v
CreateEdgeP(e, s, d, t, v, ok) ==
    /\ s \in NodeIds /\ d \in NodeIds
    /\ ok = (LiveN(s) /\ LiveN(d))
    /\ IF ok
       THEN /\ e \in EdgeIds /\ ~LiveE(e)
            /\ ends' = [ends EXCEPT ![e] = <<s, d>>]
            /\ etype' = [etype EXCEPT ![e] = t]
            /\ ep' = [ep EXCEPT ![e] = v]
            /\ buf' = buf \cup {<<s, d, e>>}
            /\ typeIdx' = [typeIdx EXCEPT ![t] = @ \cup {e}]
            /\ UNCHANGED <<node, col, frozen, labelIdx, bulk>>
       ELSE UNCHANGED gvars

\* create_node_stub: label + identity only (bulk loading); properties arrive through the column
CreateNodeStub(id, lb) ==
    /\ id \in NodeIds /\ ~LiveN(id)
    /\ node' = [node EXCEPT ![id] = [live |-> TRUE, labels |-> {lb}, p |-> None]]
    /\ col' = [col EXCEPT ![id] = None]
    /\ labelIdx' = [labelIdx EXCEPT ![lb] = @ \cup {id}]
    /\ UNCHANGED <<ends, etype, ep, buf, frozen, typeIdx, bulk>>

\* set_column_property: the bulk-load way to give a stub node a property (column only, not the row map)
SetColumnProp(n, v) ==
    /\ LiveN(n)
    /\ col' = [col EXCEPT ![n] = v]
    /\ UNCHANGED <<node, ends, etype, ep, buf, frozen, labelIdx, typeIdx, bulk>>

\* remove_edge_property
RemoveEdgeProp(e) ==
    /\ e \in EdgeIds
    /\ ep' = IF LiveE(e) THEN [ep EXCEPT ![e] = None] ELSE ep
    /\ UNCHANGED <<node, col, ends, etype, buf, frozen, labelIdx, typeIdx, bulk>>

\* clear(): back to the empty store (ids restart as well: the allocator state lives outside this module)
Clear ==
    /\ node' = [n \in NodeIds |-> DeadNode] /\ col' = [n \in NodeIds |-> None]
    /\ ends' = [e \in EdgeIds |-> NoEnds] /\ etype' = [e \in EdgeIds |-> Unset] /\ ep' = [e \in EdgeIds |-> None]
    /\ buf' = {} /\ frozen' = [x \in Entry |-> 0]
    /\ labelIdx' = [l \in Labels |-> {}] /\ typeIdx' = [t \in Types |-> {}] /\ bulk' = FALSE

\* bulk-load stubs: the caller guarantees live endpoints; no index maintenance until FinishBulkLoad
CreateEdgeStub(e, s, d, t) ==
    /\ LiveN(s) /\ LiveN(d)
    /\ e \in EdgeIds /\ ~LiveE(e)
    /\ ends' = [ends EXCEPT ![e] = <<s, d>>]
    /\ etype' = [etype EXCEPT ![e] = t]
    /\ ep' = [ep EXCEPT ![e] = None]
    /\ buf' = buf \cup {<<s, d, e>>}
    /\ bulk' = TRUE
    /\ UNCHANGED <<node, col, frozen, labelIdx, typeIdx>>

Compact ==
    /\ frozen' = [x \in Entry |-> frozen[x] + (IF x \in buf THEN 1 ELSE 0)]
    /\ buf' = {}
    /\ UNCHANGED <<node, col, ends, etype, ep, labelIdx, typeIdx, bulk>>

FinishBulkLoad ==
    /\ frozen' = [x \in Entry |-> frozen[x] + (IF x \in buf THEN 1 ELSE 0)]
    /\ buf' = {}
    /\ typeIdx' = [t \in Types |-> {e \in EdgeIds : LiveE(e) /\ etype[e] = t}]
    /\ bulk' = FALSE
    /\ UNCHANGED <<node, col, ends, etype, ep, labelIdx>>

SetNodeProp(n, v, ok) ==
    /\ n \in NodeIds
    /\ ok = LiveN(n)
    /\ IF ok
       THEN /\ node' = [node EXCEPT ![n].p = v]
            /\ col' = [col EXCEPT ![n] = v]
            /\ UNCHANGED <<ends, etype, ep, buf, frozen, labelIdx, typeIdx, bulk>>
       ELSE UNCHANGED gvars

RemoveNodeProp(n) ==
    /\ n \in NodeIds
    /\ node' = IF LiveN(n) THEN [node EXCEPT ![n].p = None] ELSE node
    /\ col' = [col EXCEPT ![n] = None]
    /\ UNCHANGED <<ends, etype, ep, buf, frozen, labelIdx, typeIdx, bulk>>

AddLabel(n, lb, ok) ==
    /\ n \in NodeIds
    /\ ok = LiveN(n)
    /\ IF ok
       THEN /\ node' = [node EXCEPT ![n].labels = @ \cup {lb}]
            /\ labelIdx' = [labelIdx EXCEPT ![lb] = @ \cup {n}]
            /\ UNCHANGED <<col, ends, etype, ep, buf, frozen, typeIdx, bulk>>
       ELSE UNCHANGED gvars

RemoveLabel(n, lb, ok) ==
    /\ n \in NodeIds
    /\ ok = LiveN(n)
    /\ IF ok
       THEN /\ node' = [node EXCEPT ![n].labels = @ \ {lb}]
            /\ labelIdx' = [labelIdx EXCEPT ![lb] = @ \ {n}]
            /\ UNCHANGED <<col, ends, etype, ep, buf, frozen, typeIdx, bulk>>
       ELSE UNCHANGED gvars

SetEdgeProp(e, v, ok) ==
    /\ e \in EdgeIds
    /\ ok = LiveE(e)
    /\ IF ok
       THEN /\ ep' = [ep EXCEPT ![e] = v]
            /\ UNCHANGED <<node, col, ends, etype, buf, frozen, labelIdx, typeIdx, bulk>>
       ELSE UNCHANGED gvars

\* ------------------------------------------------------------------ named deviations
\* KF_C06_FrozenKeepsDeleted: delete_edge / delete_node clean the write buffer and the per-edge
\* arrays but cannot remove entries from the immutable frozen CSR segments; the stale (nbr, eid)
\* pairs stay, are counted by edge_count, and come back to life when the relationship id is reused.
KF_DeleteEdge_FrozenKept(e, ok) ==
    /\ e \in EdgeIds
    /\ ok = LiveE(e)
    /\ ok
    /\ \E x \in Entry : x[3] = e /\ frozen[x] > 0          \* only differs from the ideal action then
    /\ RemoveEdges({e})
    /\ buf' = {x \in buf : x[3] # e}
    /\ UNCHANGED <<node, col, frozen, labelIdx, bulk>>

\* delete_node walks the frozen + buffered entries of the node and deletes every relationship ID it
\* finds there - including ids of stale frozen entries that now belong to unrelated relationships.
AdjIds(n) == {x[3] : x \in {y \in Entry : (y[1] = n \/ y[2] = n) /\ (frozen[y] > 0 \/ y \in buf)}}
KF_DeleteNode_FrozenKept(n, ok) ==
    /\ n \in NodeIds
    /\ ok = LiveN(n)
    /\ ok
    /\ LET victims == {e \in AdjIds(n) : LiveE(e)} IN
       /\ (\E x \in Entry : frozen[x] > 0 /\ (x[3] \in victims \/ x[1] = n \/ x[2] = n))
       /\ node' = [node EXCEPT ![n] = DeadNode]
       /\ col' = [col EXCEPT ![n] = None]
       /\ labelIdx' = [l \in Labels |-> labelIdx[l] \ {n}]
       /\ RemoveEdges(victims)
       \* outgoing[n] / incoming[n] buffers are emptied wholesale, other lists lose the victims
       /\ buf' = {x \in buf : x[3] \notin victims /\ x[1] # n /\ x[2] # n}
       /\ UNCHANGED <<frozen, bulk>>

\* ------------------------------------------------------------------ read views (as the Rust read paths compute them)
Mult(x) == frozen[x] + (IF x \in buf THEN 1 ELSE 0)
MultSum(S) == FoldSet(LAMBDA x, acc : acc + Mult(x), 0, S)
Typed(e) == etype[e] # Unset
\* bags are functions into Nat over a finite domain
\* get_outgoing_edges(n): every entry of n whose relationship id is live (whatever its endpoints now are)
OutE(n) == [e \in EdgeIds |-> IF LiveE(e) THEN MultSum({x \in Entry : x[1] = n /\ x[3] = e}) ELSE 0]
InE(n) == [e \in EdgeIds |-> IF LiveE(e) THEN MultSum({x \in Entry : x[2] = n /\ x[3] = e}) ELSE 0]
\* for_each_outgoing_neighbor(n, None): (dst, e) of every entry of n whose relationship is typed
OutN(n) == [p \in NodeIds \X EdgeIds |-> IF Typed(p[2]) THEN Mult(<<n, p[1], p[2]>>) ELSE 0]
InN(n) == [p \in NodeIds \X EdgeIds |-> IF Typed(p[2]) THEN Mult(<<p[1], n, p[2]>>) ELSE 0]
\* for_each_*_neighbor_of_type / *_degree_for_type
OutNT(n, t) == [m \in NodeIds |-> MultSum({x \in Entry : x[1] = n /\ x[2] = m /\ etype[x[3]] = t})]
InNT(n, t) == [m \in NodeIds |-> MultSum({x \in Entry : x[2] = n /\ x[1] = m /\ etype[x[3]] = t})]
\* edges_between(s, d, type?): entries (s,d,e) whose relationship is live with exactly these endpoints
\* (an entry whose relationship id is free falls into the "stub" branch of search_adjacency_slice: it is
\* returned when no type filter is given - only stale frozen entries can be in that situation)
Between(s, d, t) == [e \in EdgeIds |->
    IF LiveE(e)
    THEN (IF ends[e] = <<s, d>> /\ (t = "any" \/ etype[e] = t) THEN Mult(<<s, d, e>>) ELSE 0)
    ELSE (IF t = "any" THEN Mult(<<s, d, e>>) ELSE 0)]
ByLabel(lb) == {n \in labelIdx[lb] : LiveN(n)}
ByType(t) == {e \in typeIdx[t] : LiveE(e)}
NodeCount == Cardinality({n \in NodeIds : LiveN(n)})
EdgeCount == MultSum(Entry)
\* node_properties_full: row map first, then the column
FullP(n) == IF LiveN(n) /\ node[n].p # None THEN node[n].p ELSE col[n]

\* ------------------------------------------------------------------ the logical graph and C06
L_OutE(n) == [e \in EdgeIds |-> IF LiveE(e) /\ ends[e][1] = n THEN 1 ELSE 0]
L_InE(n) == [e \in EdgeIds |-> IF LiveE(e) /\ ends[e][2] = n THEN 1 ELSE 0]
L_OutN(n) == [p \in NodeIds \X EdgeIds |-> IF LiveE(p[2]) /\ ends[p[2]] = <<n, p[1]>> THEN 1 ELSE 0]
L_InN(n) == [p \in NodeIds \X EdgeIds |-> IF LiveE(p[2]) /\ ends[p[2]] = <<p[1], n>> THEN 1 ELSE 0]
L_OutNT(n, t) == [m \in NodeIds |-> Cardinality({e \in EdgeIds : LiveE(e) /\ ends[e] = <<n, m>> /\ etype[e] = t})]
L_InNT(n, t) == [m \in NodeIds |-> Cardinality({e \in EdgeIds : LiveE(e) /\ ends[e] = <<m, n>> /\ etype[e] = t})]
L_Between(s, d, t) == [e \in EdgeIds |-> IF LiveE(e) /\ ends[e] = <<s, d>> /\ (t = "any" \/ etype[e] = t) THEN 1 ELSE 0]

ViewsAgree ==
    ~bulk =>
    /\ \A n \in NodeIds :
          /\ OutE(n) = L_OutE(n) /\ InE(n) = L_InE(n)
          /\ OutN(n) = L_OutN(n) /\ InN(n) = L_InN(n)
          /\ \A t \in Types : OutNT(n, t) = L_OutNT(n, t) /\ InNT(n, t) = L_InNT(n, t)
          /\ \A d \in NodeIds, t \in Types \cup {"any"} : Between(n, d, t) = L_Between(n, d, t)
    /\ \A lb \in Labels : ByLabel(lb) = {n \in NodeIds : LiveN(n) /\ lb \in node[n].labels}
    /\ \A t \in Types : ByType(t) = {e \in EdgeIds : LiveE(e) /\ etype[e] = t}
    /\ EdgeCount = Cardinality({e \in EdgeIds : LiveE(e)})

NoDangling == \A e \in EdgeIds : LiveE(e) => LiveN(ends[e][1]) /\ LiveN(ends[e][2])

\* a free id carries nothing: whoever gets it next starts from scratch
NothingInherited ==
    /\ \A n \in NodeIds : ~LiveN(n) => node[n] = DeadNode /\ col[n] = None
    /\ \A e \in EdgeIds : ~LiveE(e) => etype[e] = Unset /\ ep[e] = None
    /\ ~bulk => \A x \in Entry : Mult(x) > 0 => LiveE(x[3]) /\ ends[x[3]] = <<x[1], x[2]>>

TypeOK ==
    /\ \A n \in NodeIds : node[n].labels \subseteq Labels /\ node[n].p \in Vals \cup {None}
    /\ \A e \in EdgeIds : etype[e] \in Types \cup {Unset}
    /\ buf \subseteq Entry
=============================================================================
