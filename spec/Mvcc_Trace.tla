----------------------------- MODULE Mvcc_Trace -----------------------------
(* C07 / C08 trace specification.  Each recorded call on the real GraphStore  *)
(* advances both the IDEAL history and the IMPL structures of Mvcc.  Every    *)
(* observation (the outcome of the call; get_node_at_version /                *)
(* get_edge_at_version for every entity and every version <= current;         *)
(* node_count; all_nodes) must equal the IDEAL view.  Where it does not, it   *)
(* must equal the IMPL view - the behaviour of the pinned algorithm - and the *)
(* corresponding known finding is recorded; an observation that is neither is *)
(* a violation.  Independently of any finding, C08 is checked on the          *)
(* observations themselves: a GC step leaves every observed read at a version *)
(* >= its watermark exactly as the previous event observed it, and the        *)
(* watermark of automatic GC never exceeds the start of an active transaction.*)
EXTENDS Mvcc, TraceBase

tvars == <<curVer, hist, ehist, chain, eends, eprop, elog, starts, l, sid, used, failed>>

ToSet(s) == {s[k] : k \in DOMAIN s}
BagOf(s, D) == [x \in D |-> Cardinality({k \in DOMAIN s : s[k] = x})]
ObsNode(r) == [live |-> r.live, labels |-> ToSet(r.labels), p |-> r.p]
ObsEdge(r) == [live |-> r.live, p |-> r.p]

NodeBad(o) == {<<n, v>> \in NodeIds \X (1..curVer') : ~Agrees(I_NodeAt(n, v)', ObsNode(o.nodeAt[n][v]))}
EdgeBad(o) == {<<e, v>> \in EdgeIds \X (1..curVer') : ~Agrees(I_EdgeAt(e, v)', ObsEdge(o.edgeAt[e][v]))}
CountBad(o) == o.nodeCount # I_NodeCount' \/ BagOf(o.allNodes, NodeIds) # I_AllNodes'

\* what the step needed: the observation categories that differ from the IDEAL view must equal the IMPL view
Judge(o, resBadNode, resBadEdge) ==
    /\ \A x \in NodeBad(o) : ObsNode(o.nodeAt[x[1]][x[2]]) = M_NodeAt(x[1], x[2])'
    /\ \A x \in EdgeBad(o) : ObsEdge(o.edgeAt[x[1]][x[2]]) = M_EdgeAt(x[1], x[2])'
    /\ CountBad(o) => o.nodeCount = M_NodeCount' /\ BagOf(o.allNodes, NodeIds) = M_AllNodes'
    /\ o.cur = curVer'
    /\ KFs((IF NodeBad(o) # {} \/ resBadNode THEN {"KF_C07_NodeHistory"} ELSE {})
           \cup (IF EdgeBad(o) # {} \/ resBadEdge THEN {"KF_C07_EdgeHistory"} ELSE {})
           \cup (IF CountBad(o) THEN {"KF_C07_CountsAllVersions"} ELSE {}))

Ok == Ev.res = "ok"
\* outcome of a call: the IDEAL outcome, or else the IMPL outcome (recorded as a finding by Judge)
ResOK(ri, rm) == Ok = ri \/ Ok = rm
ResBad(ri) == Ok # ri

\* what the previous event observed (the initial store when the script has just started)
AtStart == Rec[l - 1].ev = "reset"
PrevNodeAt(n, v) == IF AtStart THEN [live |-> FALSE, labels |-> <<>>, p |-> None] ELSE Rec[l - 1].obs.nodeAt[n][v]
PrevEdgeAt(e, v) == IF AtStart THEN [live |-> FALSE, p |-> None] ELSE Rec[l - 1].obs.edgeAt[e][v]
\* C08 on the observations: reads at versions >= w are exactly what the previous event observed
GcKeepsObserved(o, w) ==
    /\ \A n \in NodeIds, v \in 1..curVer : v >= w => o.nodeAt[n][v] = PrevNodeAt(n, v)
    /\ \A e \in EdgeIds, v \in 1..curVer : v >= w => o.edgeAt[e][v] = PrevEdgeAt(e, v)

TInit == MInit /\ TBInit
ResetVars ==
    /\ curVer' = 1
    /\ hist' = [n \in NodeIds |-> [v \in 1..MaxV |-> Absent]]
    /\ ehist' = [e \in EdgeIds |-> [v \in 1..MaxV |-> EAbsent]]
    /\ chain' = [n \in NodeIds |-> <<>>] /\ eends' = [e \in EdgeIds |-> FALSE]
    /\ eprop' = [e \in EdgeIds |-> None] /\ elog' = [e \in EdgeIds |-> <<>>] /\ starts' = <<>>
T_Reset == ResetBook /\ ResetVars
T_Fail == FailBook /\ ResetVars

T_CreateNode == /\ IsEv("CreateNode")
                /\ \/ CreateNode(Ev.id, ToSet(Ev.labels)) /\ Judge(Ev.obs, FALSE, FALSE)
                   \/ KF_CreateNode_OnOccupiedId(Ev.id, ToSet(Ev.labels)) /\ Judge(Ev.obs, TRUE, FALSE)
T_SetNodeProp == IsEv("SetNodeProp") /\ ResOK(SetNodeProp_ResI(Ev.n), SetNodeProp_ResM(Ev.n))
                 /\ SetNodeProp(Ev.n, Ev.v) /\ Judge(Ev.obs, ResBad(SetNodeProp_ResI(Ev.n)), FALSE)
T_RemoveNodeProp == IsEv("RemoveNodeProp") /\ RemoveNodeProp(Ev.n) /\ Judge(Ev.obs, FALSE, FALSE)
T_AddLabel == IsEv("AddLabel") /\ ResOK(Label_ResI(Ev.n), Label_ResM(Ev.n))
              /\ AddLabel(Ev.n, Ev.label) /\ Judge(Ev.obs, ResBad(Label_ResI(Ev.n)), FALSE)
T_RemoveLabel == IsEv("RemoveLabel") /\ ResOK(Label_ResI(Ev.n), Label_ResM(Ev.n))
              /\ RemoveLabel(Ev.n, Ev.label) /\ Judge(Ev.obs, ResBad(Label_ResI(Ev.n)), FALSE)
T_DeleteNode == IsEv("DeleteNode") /\ ResOK(DeleteNode_ResI(Ev.n), DeleteNode_ResM(Ev.n))
              /\ DeleteNode(Ev.n) /\ Judge(Ev.obs, ResBad(DeleteNode_ResI(Ev.n)), FALSE)
T_CreateEdge == IsEv("CreateEdge") /\ CreateEdge(Ev.id, Ev.p) /\ Judge(Ev.obs, FALSE, FALSE)
T_SetEdgeProp == IsEv("SetEdgeProp") /\ ResOK(SetEdgeProp_ResI(Ev.e), SetEdgeProp_ResM(Ev.e))
              /\ SetEdgeProp(Ev.e, Ev.v) /\ Judge(Ev.obs, FALSE, ResBad(SetEdgeProp_ResI(Ev.e)))
T_DeleteEdge == IsEv("DeleteEdge") /\ ResOK(DeleteEdge_ResI(Ev.e), DeleteEdge_ResM(Ev.e))
              /\ DeleteEdge(Ev.e) /\ Judge(Ev.obs, FALSE, ResBad(DeleteEdge_ResI(Ev.e)))
T_Bump == IsEv("Bump") /\ Bump /\ Judge(Ev.obs, FALSE, FALSE)
T_BeginTxn == IsEv("BeginTxn") /\ BeginTxn /\ Judge(Ev.obs, FALSE, FALSE)
T_EndTxn == IsEv("EndTxn") /\ EndTxn(Ev.k) /\ Judge(Ev.obs, FALSE, FALSE)
T_Gc == IsEv("Gc") /\ Gc(Ev.w) /\ GcKeepsObserved(Ev.obs, Ev.w) /\ Judge(Ev.obs, FALSE, FALSE)
T_GcAuto == IsEv("GcAuto") /\ Ev.w <= Watermark /\ Gc(Ev.w) /\ GcKeepsObserved(Ev.obs, Ev.w) /\ Judge(Ev.obs, FALSE, FALSE)

TNext == \/ T_Fail \/ T_Reset \/ T_CreateNode \/ T_SetNodeProp \/ T_RemoveNodeProp \/ T_AddLabel \/ T_RemoveLabel
         \/ T_DeleteNode \/ T_CreateEdge \/ T_SetEdgeProp \/ T_DeleteEdge \/ T_Bump \/ T_BeginTxn \/ T_EndTxn
         \/ T_Gc \/ T_GcAuto
TSpec == TInit /\ [][TNext]_tvars
=============================================================================
