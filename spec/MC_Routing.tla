----------------------------- MODULE MC_Routing -----------------------------
(* Model-checking wrapper of Routing for C24: the exhaustive product of        *)
(* statements x response wrappers, one Respond per behaviour, emitted as one   *)
(* single-step script each (the recipe batches them; the pipeline is           *)
(* stateless).                                                                 *)
EXTENDS Routing, Json

CONSTANTS MaxPre,      \* longest read prefix
          Exs, Writes, Cases, Seps, Wraps, Rets, MaxHist

VARIABLE hist
vars == <<out, hist>>

Prefixes == UNION {[1..n -> ReadKinds] : n \in 0..MaxPre}
Stmts == {st \in [ex : Exs, pre : Prefixes, w : Writes, ret : Rets, kc : Cases, sep : Seps] : WellFormedStmt(st)}

Init == RInit /\ hist = <<>>

\* which entry point the harness uses: the HTTP endpoint for a third of the cases
Via(st, wrap) == IF (Len(st.pre) + Len(wrap) + (IF st.ret THEN 1 ELSE 0)) % 3 = 0 THEN "http" ELSE "pipeline"

Next ==
    /\ Len(hist) < MaxHist
    /\ \E st \in Stmts, wrap \in Wraps :
         /\ Respond(st, wrap)
         /\ hist' = Append(hist, [op |-> "Nlq", stmt |-> st, wrap |-> wrap, q |-> StmtText(st),
                                  text |-> RespText(st, wrap), w |-> IsWrite(st), via |-> Via(st, wrap)])

Spec == Init /\ [][Next]_vars
Bound == Len(hist) <= MaxHist
Emit == PrintT(<<"SCRIPT", ToJson(hist')>>)
=============================================================================
