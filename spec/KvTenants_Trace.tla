-------------------------- MODULE KvTenants_Trace --------------------------
(* C17 trace specification.  The harness registers tenant ids with the real   *)
(* TenantManager (the result decides whether the id is one "the system        *)
(* accepts"), writes through the real PersistentStorage only for registered   *)
(* ids (as PersistenceManager does) and after every step reads, for EVERY     *)
(* registered tenant: scan_nodes, scan_edges, get_node/get_edge of every id,  *)
(* and list_persisted_tenants.  Each stored item carries its owner and value  *)
(* token as properties, so what comes back says whose data it is.             *)
(* Binding: scans and lookups for t must be exactly what was stored for t     *)
(* (in particular nothing stored for another tenant); the listing may only    *)
(* name tenants that have stored data.                                        *)
EXTENDS KvTenants, TraceBase

tvars == <<created, data, kv, l, sid, used, failed>>

ToSet(s) == {s[i] : i \in DOMAIN s}
AsItems(s) == {Item(x[2], x[1], x[3]) : x \in ToSet(s)}     \* logged as [id, owner, val]

ScanOK(e) ==
    /\ e.err = ""
    /\ \A cf \in CFs :
         LET want == ScanIdeal(data', cf, e.t)
             gets == IF cf = "n" THEN e.getn ELSE e.gete IN
         \* scan_nodes / scan_edges and PersistenceManager::recover
         /\ \A got \in (IF cf = "n" THEN {e.nodes, e.recn} ELSE {e.edges, e.rece}) :
               AsItems(got) = want /\ Len(got) = Cardinality(want)
         \* get_node / get_edge for every id (found ones are logged)
         /\ \A id \in Ids : AsItems(SelectSeq(gets, LAMBDA x : x[1] = id)) = GetIdeal(data', cf, e.t, id)
         /\ Len(gets) = Cardinality(UNION {GetIdeal(data', cf, e.t, id) : id \in Ids})

ObsOK ==
    LET o == Ev.obs IN
    /\ {e.t : e \in ToSet(o.scans)} = created'
    /\ Len(o.scans) = Cardinality(created')
    /\ \A e \in ToSet(o.scans) : ScanOK(e)
    /\ o.listerr = ""
    /\ ToSet(o.list) \subseteq WithData(data')

TInit == KInit /\ TBInit
T_Reset == ResetBook /\ created' = {} /\ data' = <<>> /\ kv' = [cf \in CFs |-> <<>>]
T_Fail == FailBook /\ created' = {} /\ data' = <<>> /\ kv' = [cf \in CFs |-> <<>>]
T_Create == IsEv("CreateTenant") /\ CreateTenant(Ev.t, Ev.res = "ok") /\ ObsOK /\ Same
T_Put == /\ IsEv("Put")
         /\ \/ Ev.res = "ok" /\ Put(Ev.t, Ev.cf, Ev.id, Ev.val)
            \/ Ev.res = "notenant" /\ Refused(Ev.t)
         /\ ObsOK /\ Same
T_Delete == /\ IsEv("Delete")
            /\ \/ Ev.res = "ok" /\ Delete(Ev.t, Ev.cf, Ev.id)
               \/ Ev.res = "notenant" /\ Refused(Ev.t)
            /\ ObsOK /\ Same

TNext == T_Fail \/ T_Reset \/ T_Create \/ T_Put \/ T_Delete
TSpec == TInit /\ [][TNext]_tvars
=============================================================================
