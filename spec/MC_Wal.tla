------------------------------ MODULE MC_Wal ------------------------------
(* Model-checking wrapper of Wal: histories of append / flush / checkpoint /  *)
(* reopen / crash-truncation at EVERY byte offset of the newest file, ended   *)
(* optionally by one byte flip anywhere in the last two records of the log.   *)
(* The writer modelled here is the repaired one (numbering continues at the   *)
(* highest durable sequence, an incomplete tail is removed when the log is    *)
(* opened); Legacy = TRUE swaps in the pinned tree's Reopen (self-test).      *)
EXTENDS Wal, TLC, Json

CONSTANTS MaxHist,      \* length of a history
          MaxAppends,   \* payload tokens 1..MaxAppends, in order
          Masks,        \* XOR masks tried on every byte
          Legacy

VARIABLE hist
vars == <<files, buf, cur, seq, sync, hist>>

Init == WInit /\ hist = <<>>
H(r) == hist' = Append(hist, r)

NAppends == Len(SelectSeq(hist, LAMBDA h : h.op = "Append"))

DoAppend == /\ Clean /\ NAppends < MaxAppends
            /\ AppendNode(NAppends + 1, seq + 1)
            /\ H([op |-> "Append", tok |-> NAppends + 1])
DoFlush == Clean /\ Flush /\ H([op |-> "Flush"])
DoSetSync == Clean /\ SetSync(~sync) /\ H([op |-> "SetSync", on |-> ~sync])
DoCheckpoint == Clean /\ Checkpoint(seq + 1) /\ H([op |-> "Checkpoint"])
DoReopen ==
    /\ IF Legacy THEN LegacyReopen
       ELSE Reopen(MaxDurable(Flushed(files, buf, cur)), TRUE)
    /\ H([op |-> "Reopen"])
DoTruncate ==
    /\ files # <<>>
    /\ \E b \in 0..FileSize(files[Len(files)]) :
         /\ Truncate(b, MaxDurable([files EXCEPT ![Len(files)] = CutAt(@, b)]), TRUE)
         /\ H([op |-> "Truncate", b |-> b])

\* the last two records on disk
LastTwo == LET S == Sites(files)
               after(p) == {q \in S : q[1] > p[1] \/ (q[1] = p[1] /\ q[2] > p[2])}
           IN  {p \in S : Cardinality(after(p)) < 2}
\* masks per byte: bytes 2.. of the length prefix only get bit 0 flipped (the code allocates what the prefix says)
MasksFor(f, j, b) == IF b - Start(f, j) \in {2, 3} THEN {1} ELSE Masks
DoFlip ==
    \E p \in LastTwo :
      LET f == files[p[1]] IN
      \E b \in Start(f, p[2])..(Start(f, p[2]) + RecBytes(f.recs[p[2]]) - 1) :
        \E m \in MasksFor(f, p[2], b) :
          /\ Flip(p[1], b, m)
          /\ H([op |-> "Flip", f |-> p[1], b |-> b, m |-> m])

Next == DoAppend \/ DoFlush \/ DoSetSync \/ DoCheckpoint \/ DoReopen \/ DoTruncate \/ DoFlip
Spec == Init /\ [][Next]_vars

\* NAppends (hidden in hist) decides which steps are still enabled: part of state identity so that the cover is deterministic
View == <<files, buf, cur, seq, sync, NAppends>>
Bound == Len(hist) <= MaxHist
Emit == PrintT(<<"SCRIPT", ToJson(hist')>>)
\* one script per fault transition (every truncation offset / every byte flip of every reachable state) ...
EmitFaults == hist'[Len(hist')].op \in {"Truncate", "Flip"} => PrintT(<<"SCRIPT", ToJson(hist')>>)
EmitLeaf == Len(hist') = MaxHist => PrintT(<<"SCRIPT", ToJson(hist')>>)
SimEmit == Len(hist) = MaxHist => PrintT(<<"SCRIPT", ToJson(hist)>>)
=============================================================================
