-------------------------------- MODULE Rdf --------------------------------
(***************************************************************************)
(* C36: serializing a set of RDF triples to N-Triples, Turtle or RDF/XML   *)
(* (src/rdf/serialization/{ntriples,turtle,rdfxml}.rs: the wrappers around *)
(* the rio_turtle / rio_xml formatters) and parsing the output with the    *)
(* parser of the SAME format yields the same set of triples.               *)
(*                                                                         *)
(* Terms live over CHARACTER CLASSES, not code points: a string is a short *)
(* sequence of classes                                                     *)
(*     pl plain   qu "   bs \   lf U+000A   cr U+000D   ct control (U+0001)*)
(*     as astral (U+1F600)   sp space   lt <   am &                        *)
(* (the harness owns the class -> character table; a character it cannot   *)
(* map back is class "other", which equals nothing the model generates).   *)
(*                                                                         *)
(* A term is a record [k, v, q]:                                           *)
(*   k = "iri"  v = classes of the variable part of the IRI, q = ""        *)
(*   k = "bn"   v = <<>>, q = the blank node label                         *)
(*   k = "lit"  v = classes of the lexical form,                           *)
(*              q = ""      simple literal                                 *)
(*                  "@en"   language-tagged ("@en-US": a tag with a subtag *)
(*                          and upper case; tags compare ignoring case)    *)
(*                  "^str"  typed xsd:string  (the same RDF term as q="")  *)
(*                  "^int"  typed xsd:integer                              *)
(*                  "^cus"  typed with a custom datatype IRI               *)
(* A triple is [s, p, o]; a graph is a SET of triples.                     *)
(*                                                                         *)
(* Two layers:                                                             *)
(*  1. the CONTRACT (the property): Contract(T, f, res, out) - what one    *)
(*     observed serialize+parse round trip must satisfy; Iso = equality up *)
(*     to a bijection of blank node labels, by brute force;                *)
(*  2. a REFERENCE design of the three formats as token-level transducers  *)
(*     (Serialize: escape every class the format's grammar cannot carry    *)
(*     raw; Parse: a raw delimiter ends/breaks the token, XML normalises a *)
(*     raw CR), one action per protocol step (Build, Serialize, Parse).    *)
(*     TLC checks over the whole bounded universe that the reference meets *)
(*     the contract, and that the Legacy variants (a serializer that       *)
(*     escapes nothing, a reader that merges blank node labels, a reader   *)
(*     that drops all-white-space content) do NOT (self-tests).            *)
(* Known deviations of the real code are KF_C36_* operators below; each is *)
(* identified by (format, character class, term position) and fixes the    *)
(* outcome it explains.                                                    *)
(***************************************************************************)
EXTENDS Naturals, Sequences, FiniteSets

Formats == {"nt", "ttl", "xml"}
LegalIriClasses == {"pl", "as", "am"}       \* what RFC 3987 allows among our classes: letters, ucschar, sub-delims
ToSet(s) == {s[i] : i \in DOMAIN s}
Classes(v) == ToSet(v)

Iri(v) == [k |-> "iri", v |-> v, q |-> ""]
Bn(label) == [k |-> "bn", v |-> <<>>, q |-> label]
Lit(v, q) == [k |-> "lit", v |-> v, q |-> q]
Tr(s, p, o) == [s |-> s, p |-> p, o |-> o]

\* ---- RDF term identity: xsd:string typed literals ARE simple literals (RDF 1.1)
CanonTerm(t) == IF t.k = "lit" /\ t.q = "^str" THEN [t EXCEPT !.q = ""] ELSE t
CanonTriple(t) == Tr(CanonTerm(t.s), CanonTerm(t.p), CanonTerm(t.o))
Canon(T) == {CanonTriple(t) : t \in T}

\* ---- blank node structure
Terms(T) == {t.s : t \in T} \cup {t.p : t \in T} \cup {t.o : t \in T}
Blanks(T) == {t.q : t \in {u \in Terms(T) : u.k = "bn"}}
RenTerm(t, f) == IF t.k = "bn" THEN [t EXCEPT !.q = f[t.q]] ELSE t
Rename(T, f) == {Tr(RenTerm(t.s, f), t.p, RenTerm(t.o, f)) : t \in T}
Injective(f) == \A a, b \in DOMAIN f : f[a] = f[b] => a = b

\* equality of graphs up to a bijection of blank node labels (RDF graph isomorphism)
Iso(T1, T2) ==
    /\ Cardinality(Blanks(T1)) = Cardinality(Blanks(T2))
    /\ \E f \in [Blanks(T1) -> Blanks(T2)] : Injective(f) /\ Rename(T1, f) = T2

\* ---- which abstract graphs denote RDF graphs at all (the constructors must accept exactly these)
IriTermsOf(T) == {u \in Terms(T) : u.k = "iri"}
Buildable(T) == \A u \in IriTermsOf(T) : Classes(u.v) \subseteq LegalIriClasses

(***************************************************************************)
(* 1. The contract.  res: "ok" (serialized and parsed; out = parsed graph),*)
(*    "unbuildable" (a constructor refused a term), "ser_err", "parse_err",*)
(*    "ser_panic", "parse_panic".                                          *)
(***************************************************************************)
Contract(T, f, res, out) ==
    IF Buildable(T) THEN res = "ok" /\ Iso(Canon(T), out)
    ELSE res = "unbuildable"           \* not an RDF graph: nothing to round-trip; the constructors say so

(***************************************************************************)
(* Known deviation (enabled only when listed open in known_findings.json), *)
(* identified by (format, character classes, term position):               *)
(*                                                                         *)
(* KF_C36_XmlWhitespaceOnlyLiteralEmptied - RDF/XML, literal in object     *)
(* position whose lexical form is non-empty and consists only of XML white *)
(* space (classes sp, lf, cr).  The formatter writes it as element content *)
(* (correct RDF/XML); rio_xml's reader ignores a text event that is all    *)
(* white space (parser.rs parse_text_event: `if !event.iter().all(         *)
(* is_whitespace)`), so the property element has no text and the literal   *)
(* comes back EMPTY, language tag / datatype kept.  Every other term comes *)
(* back unchanged.                                                         *)
(***************************************************************************)
LitsOf(T) == {t.o : t \in {u \in T : u.o.k = "lit"}}
XmlSpace == {"sp", "lf", "cr"}
WhitespaceOnly(v) == v # <<>> /\ Classes(v) \subseteq XmlSpace
Emptied(T) == {IF t.o.k = "lit" /\ WhitespaceOnly(t.o.v) THEN [t EXCEPT !.o.v = <<>>] ELSE t : t \in T}
KF_C36_XmlWhitespaceOnlyLiteralEmptied(T, f, res, out) ==
    /\ Buildable(T) /\ f = "xml"
    /\ \E x \in LitsOf(T) : WhitespaceOnly(x.v)
    /\ res = "ok" /\ Iso(Emptied(Canon(T)), out)

\* an observed round trip is explained by the set D of open deviations: D = {} is the contract itself
Explained(T, f, res, out, D) ==
    \/ D = {} /\ Contract(T, f, res, out)
    \/ D = {"KF_C36_XmlWhitespaceOnlyLiteralEmptied"} /\ KF_C36_XmlWhitespaceOnlyLiteralEmptied(T, f, res, out)

(***************************************************************************)
(* 2. Reference design: token-level transducers, one action per step.      *)
(*    A serialized term carries TOKENS: a class written raw, or its        *)
(*    escaped form (ECHAR in N-Triples/Turtle, entity / character          *)
(*    reference in XML).  It says which classes each grammar cannot carry  *)
(*    raw; it is one design that meets the contract, not the only one (the *)
(*    real reader, for instance, also accepts a raw CR in XML content).    *)
(***************************************************************************)
VARIABLES stage,    \* "new" -> "built" -> "serialized" -> "done"
          graph,    \* the graph handed to the serializer (a set of triples)
          fmt,
          doc,      \* the serialized document: a set of statements whose terms carry token sequences
          res, out  \* outcome as the contract sees it
rvars == <<stage, graph, fmt, doc, res, out>>

RInit == stage = "new" /\ graph = {} /\ fmt = "nt" /\ doc = {} /\ res = "" /\ out = {}

\* what the grammar of each format cannot carry raw inside a literal / an IRI reference
LitMustEscape(f) == IF f = "xml" THEN {"lt", "am", "cr"} ELSE {"qu", "bs", "lf", "cr"}
IriMustEscape(f) == IF f = "xml" THEN {"am"} ELSE {}          \* an IRI sits in an XML attribute: & must be &amp;
Escapable == {"qu", "bs", "lf", "cr", "lt", "am"}
EscTok(c) == "\\" \o c                                          \* the escaped form of class c
Esc(v, must) == [i \in DOMAIN v |-> IF v[i] \in must THEN EscTok(v[i]) ELSE v[i]]
\* the reader: an escaped token gives its class back
Unesc(v) == [i \in DOMAIN v |-> IF \E c \in Escapable : v[i] = EscTok(c) THEN CHOOSE c \in Escapable : v[i] = EscTok(c) ELSE v[i]]
\* raw tokens that break a term when read back: string delimiters / escape introducers of the format
LitBreaks(f) == IF f = "xml" THEN {"lt", "am"} ELSE {"qu", "bs", "lf", "cr"}
Broken(v, bad) == \E i \in DOMAIN v : v[i] \in bad

SerTerm(t, f, esc) ==
    IF t.k = "bn" THEN t
    ELSE IF t.k = "iri" THEN [t EXCEPT !.v = IF esc THEN Esc(t.v, IriMustEscape(f)) ELSE t.v]
    ELSE [CanonTerm(t) EXCEPT !.v = IF esc THEN Esc(t.v, LitMustEscape(f)) ELSE t.v]

Build(T, f) ==
    /\ stage = "new"
    /\ stage' = IF Buildable(T) THEN "built" ELSE "done"
    /\ res' = IF Buildable(T) THEN "" ELSE "unbuildable"
    /\ graph' = T /\ fmt' = f
    /\ UNCHANGED <<doc, out>>

\* esc = TRUE: the reference; esc = FALSE: LegacySerialize (writes every class raw) - self-test only
SerializeWith(esc) ==
    /\ stage = "built"
    /\ doc' = {Tr(SerTerm(t.s, fmt, esc), SerTerm(t.p, fmt, esc), SerTerm(t.o, fmt, esc)) : t \in graph}
    /\ stage' = "serialized"
    /\ UNCHANGED <<graph, fmt, res, out>>
Serialize == SerializeWith(TRUE)
LegacySerialize == SerializeWith(FALSE)

TermBroken(t, f) ==
    \/ t.k = "iri" /\ Broken(t.v, IriMustEscape(f))
    \/ t.k = "lit" /\ Broken(t.v, LitBreaks(f))
\* a conforming XML reader normalises a raw CR of element content to LF
Normalise(t, f) == IF f = "xml" /\ t.k = "lit" THEN [t EXCEPT !.v = [i \in DOMAIN t.v |-> IF t.v[i] = "cr" THEN "lf" ELSE t.v[i]]] ELSE t
\* mode "ws": LegacyParse that ignores all-white-space element content (the open finding's design-level witness)
DropWs(t, f, mode) == IF mode = "ws" /\ f = "xml" /\ t.k = "lit" /\ WhitespaceOnly(Unesc(t.v)) THEN [t EXCEPT !.v = <<>>] ELSE t
ParseTerm(t, f, mode) == IF t.k = "bn" THEN t ELSE DropWs([Normalise(t, f) EXCEPT !.v = Unesc(@)], f, mode)
\* the reader may relabel blank nodes with any injective map (mode "merge": LegacyParse gives every blank node one label)
ParseWith(mode) ==
    /\ stage = "serialized"
    /\ IF \E t \in doc : TermBroken(t.s, fmt) \/ TermBroken(t.p, fmt) \/ TermBroken(t.o, fmt)
       THEN res' = "parse_err" /\ out' = {}
       ELSE /\ res' = "ok"
            /\ \E labels \in [Blanks(doc) -> {"g1", "g2", "g3"}] :
                 /\ mode # "merge" => Injective(labels)
                 /\ mode = "merge" => \A b \in DOMAIN labels : labels[b] = "g1"
                 /\ out' = Rename({Tr(ParseTerm(t.s, fmt, mode), ParseTerm(t.p, fmt, mode), ParseTerm(t.o, fmt, mode)) : t \in doc}, labels)
    /\ stage' = "done"
    /\ UNCHANGED <<graph, fmt, doc>>
Parse == ParseWith("")
LegacyParse(mode) == ParseWith(mode)

\* the reference design meets the contract on every graph of the universe
RefMeetsContract == stage = "done" => Contract(graph, fmt, res, out)
IsoReflexive == stage # "new" => Iso(Canon(graph), Canon(graph))
=============================================================================
