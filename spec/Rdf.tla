-------------------------------- MODULE Rdf --------------------------------
(***************************************************************************)
(* C36: serializing a set of RDF triples to N-Triples, Turtle or RDF/XML   *)
(* (src/rdf/serialization/{ntriples,turtle,rdfxml}.rs: the wrappers around *)
(* the rio_turtle / rio_xml formatters) and parsing the output with the    *)
(* parser of the SAME format yields the same set of triples.               *)
(*                                                                         *)
(* Terms live over CHARACTER CLASSES, not code points: a string is a short *)
(* sequence of classes                                                     *)
(*     pl plain   qu "   bs \   lf U+000A   cr U+000D   ct control (U+0001)*)
(*     as astral (U+1F600)   sp space   lt <   am &                        *)
(* (the harness owns the class -> character table; a character it cannot   *)
(* map back is class "other", which equals nothing the model generates).   *)
(*                                                                         *)
(* A term is a record [k, v, q]:                                           *)
(*   k = "iri"  v = classes of the variable part of the IRI, q = ""        *)
(*   k = "bn"   v = <<>>, q = the blank node label                         *)
(*   k = "lit"  v = classes of the lexical form,                           *)
(*              q = ""      simple literal                                 *)
(*                  "@en"   language-tagged                                *)
(*                  "^str"  typed xsd:string  (the same RDF term as q="")  *)
(*                  "^int"  typed xsd:integer                              *)
(*                  "^cus"  typed with a custom datatype IRI               *)
(* A triple is [s, p, o]; a graph is a SET of triples.                     *)
(*                                                                         *)
(* Two layers:                                                             *)
(*  1. the CONTRACT (the property): Contract(T, f, res, out) - what one    *)
(*     observed serialize+parse round trip must satisfy; Iso = equality up *)
(*     to a bijection of blank node labels, by brute force;                *)
(*  2. a REFERENCE design of the three formats as token-level transducers  *)
(*     (Serialize: escape every class the format's grammar cannot carry    *)
(*     raw; Parse: a raw delimiter ends/breaks the token, XML normalises a *)
(*     raw CR), one action per protocol step (Build, Serialize, Parse).    *)
(*     TLC checks over the whole bounded universe that the reference meets *)
(*     the contract, and that the Legacy variants (no escaping / blank     *)
(*     labels regenerated per statement) do NOT (self-test).               *)
(* Known deviations of the real code are KF_C36_* operators below; each is *)
(* identified by (format, character class, term position) and fixes the    *)
(* outcome it explains.                                                    *)
(***************************************************************************)
EXTENDS Naturals, Sequences, FiniteSets

Formats == {"nt", "ttl", "xml"}
LegalIriClasses == {"pl", "as", "am"}       \* what RFC 3987 allows among our classes: letters, ucschar, sub-delims
ToSet(s) == {s[i] : i \in DOMAIN s}
Classes(v) == ToSet(v)

Iri(v) == [k |-> "iri", v |-> v, q |-> ""]
Bn(label) == [k |-> "bn", v |-> <<>>, q |-> label]
Lit(v, q) == [k |-> "lit", v |-> v, q |-> q]
Tr(s, p, o) == [s |-> s, p |-> p, o |-> o]

\* ---- RDF term identity: xsd:string typed literals ARE simple literals (RDF 1.1)
CanonTerm(t) == IF t.k = "lit" /\ t.q = "^str" THEN [t EXCEPT !.q = ""] ELSE t
CanonTriple(t) == Tr(CanonTerm(t.s), CanonTerm(t.p), CanonTerm(t.o))
Canon(T) == {CanonTriple(t) : t \in T}

\* ---- blank node structure
Terms(T) == {t.s : t \in T} \cup {t.p : t \in T} \cup {t.o : t \in T}
Blanks(T) == {t.q : t \in {u \in Terms(T) : u.k = "bn"}}
RenTerm(t, f) == IF t.k = "bn" THEN [t EXCEPT !.q = f[t.q]] ELSE t
Rename(T, f) == {Tr(RenTerm(t.s, f), t.p, RenTerm(t.o, f)) : t \in T}
Injective(f) == \A a, b \in DOMAIN f : f[a] = f[b] => a = b

\* equality of graphs up to a bijection of blank node labels (RDF graph isomorphism)
Iso(T1, T2) ==
    /\ Cardinality(Blanks(T1)) = Cardinality(Blanks(T2))
    /\ \E f \in [Blanks(T1) -> Blanks(T2)] : Injective(f) /\ Rename(T1, f) = T2

\* ---- which abstract graphs denote RDF graphs at all (the constructors must accept exactly these)
IriTermsOf(T) == {u \in Terms(T) : u.k = "iri"}
Buildable(T) == \A u \in IriTermsOf(T) : Classes(u.v) \subseteq LegalIriClasses

(***************************************************************************)
(* 1. The contract.  res: "ok" (serialized and parsed; out = parsed graph),*)
(*    "unbuildable" (a constructor refused a term), "ser_err", "parse_err",*)
(*    "ser_panic", "parse_panic".                                          *)
(***************************************************************************)
Contract(T, f, res, out) ==
    IF Buildable(T) THEN res = "ok" /\ Iso(Canon(T), out)
    ELSE res = "unbuildable"           \* not an RDF graph: nothing to round-trip; the constructors say so

(***************************************************************************)
(* Known deviations (enabled only when listed open).  Lits(T) etc. select  *)
(* the term position a deviation is about.                                 *)
(***************************************************************************)
LitsOf(T) == {t.o : t \in {u \in T : u.o.k = "lit"}}
PredsOf(T) == {t.p : t \in T}
SubstClass(v, from, to) == [i \in DOMAIN v |-> IF v[i] = from THEN to ELSE v[i]]
AllSpace(v) == v # <<>> /\ Classes(v) = {"sp"}

\* RDF/XML, literal position: the formatter writes a raw CR into element content (quick-xml escapes only < > & ' "),
\* and the XML reader's line-end handling gives it back as LF: every cr of a literal comes back as lf, nothing else changes.
XmlCrAsLf(T) == {IF t.o.k = "lit" THEN [t EXCEPT !.o.v = SubstClass(t.o.v, "cr", "lf")] ELSE t : t \in T}
KF_C36_XmlLiteralCrBecomesLf(T, f, res, out) ==
    /\ Buildable(T) /\ f = "xml"
    /\ \E x \in LitsOf(T) : "cr" \in Classes(x.v)
    /\ res = "ok" /\ Iso(XmlCrAsLf(Canon(T)), out)

\* RDF/XML, literal position: a literal made of white space only is written as element content and the reader
\* (trim_text) returns the empty literal.
XmlTrimmed(T) == {IF t.o.k = "lit" /\ AllSpace(t.o.v) THEN [t EXCEPT !.o.v = <<>>] ELSE t : t \in T}
KF_C36_XmlWhitespaceLiteralEmptied(T, f, res, out) ==
    /\ Buildable(T) /\ f = "xml"
    /\ \E x \in LitsOf(T) : AllSpace(x.v)
    /\ res = "ok" /\ Iso(XmlTrimmed(Canon(T)), out)

\* RDF/XML, literal position, control class: XML 1.0 cannot carry U+0001 (neither raw nor as a character reference);
\* the formatter writes it raw and the reader refuses the document.
KF_C36_XmlControlCharRefused(T, f, res, out) ==
    /\ Buildable(T) /\ f = "xml"
    /\ \E x \in LitsOf(T) : "ct" \in Classes(x.v)
    /\ res = "parse_err"

\* RDF/XML, predicate position: a predicate IRI that does not end in an XML NCName (empty tail, or a tail ending in
\* a character that is not a name character) has no element name; the formatter emits a document the reader refuses
\* or reads back as a different IRI.
NoNameTail(v) == v = <<>> \/ v[Len(v)] \notin {"pl", "as"}
KF_C36_XmlPredicateWithoutLocalName(T, f, res, out) ==
    /\ Buildable(T) /\ f = "xml"
    /\ \E p \in PredsOf(T) : NoNameTail(p.v)
    /\ res \in {"parse_err", "ser_err"}

(***************************************************************************)
(* 2. Reference design: token-level transducers, one action per step.      *)
(***************************************************************************)
VARIABLES stage,    \* "new" -> "built" -> "serialized" -> "done"
          graph,    \* the graph handed to the serializer (a set of triples)
          fmt,
          doc,      \* the serialized document: a set of statements whose terms carry TOKEN sequences, or "error"
          res, out  \* outcome as the contract sees it
rvars == <<stage, graph, fmt, doc, res, out>>

RInit == stage = "new" /\ graph = {} /\ fmt = "nt" /\ doc = {} /\ res = "" /\ out = {}

\* what the grammar of each format cannot carry raw inside a literal / an IRI reference
LitMustEscape(f) == IF f = "xml" THEN {"lt", "am", "cr"} ELSE {"qu", "bs", "lf", "cr"}
IriMustEscape(f) == IF f = "xml" THEN {"am"} ELSE {}          \* an IRI sits in an XML attribute: & must be &amp;
Unwritable(f) == IF f = "xml" THEN {"ct"} ELSE {}             \* no XML 1.0 notation at all
EscTok(c) == "\\" \o c                                          \* the escaped form of class c (ECHAR / entity / char ref)
Esc(v, must) == [i \in DOMAIN v |-> IF v[i] \in must THEN EscTok(v[i]) ELSE v[i]]
\* the reader: an escaped token gives its class back; a raw token that the grammar cannot carry breaks the term
Unesc(v) == [i \in DOMAIN v |-> IF \E c \in {"qu", "bs", "lf", "cr", "lt", "am"} : v[i] = EscTok(c)
                                 THEN CHOOSE c \in {"qu", "bs", "lf", "cr", "lt", "am"} : v[i] = EscTok(c) ELSE v[i]]
Broken(v, must) == \E i \in DOMAIN v : v[i] \in must

SerTerm(t, f, esc) ==
    IF t.k = "bn" THEN t
    ELSE IF t.k = "iri" THEN [t EXCEPT !.v = IF esc THEN Esc(t.v, IriMustEscape(f)) ELSE t.v]
    ELSE [CanonTerm(t) EXCEPT !.v = IF esc THEN Esc(t.v, LitMustEscape(f)) ELSE t.v]

\* a predicate needs an element name in RDF/XML
Expressible(T, f) ==
    /\ \A x \in LitsOf(T) : Classes(x.v) \cap Unwritable(f) = {}
    /\ f = "xml" => \A p \in PredsOf(T) : ~NoNameTail(p.v)

Build(T, f) ==
    /\ stage = "new"
    /\ stage' = IF Buildable(T) THEN "built" ELSE "done"
    /\ res' = IF Buildable(T) THEN "" ELSE "unbuildable"
    /\ graph' = T /\ fmt' = f
    /\ UNCHANGED <<doc, out>>

\* esc = TRUE: the reference; esc = FALSE: LegacySerialize (writes every class raw) - self-test only
SerializeWith(esc) ==
    /\ stage = "built"
    /\ IF Expressible(graph, fmt)
       THEN /\ doc' = {Tr(SerTerm(t.s, fmt, esc), SerTerm(t.p, fmt, esc), SerTerm(t.o, fmt, esc)) : t \in graph}
            /\ stage' = "serialized" /\ res' = res
       ELSE doc' = {} /\ stage' = "done" /\ res' = "ser_err"
    /\ UNCHANGED <<graph, fmt, out>>
Serialize == SerializeWith(TRUE)
LegacySerialize == SerializeWith(FALSE)

ParseTerm(t, f) ==
    IF t.k = "bn" THEN t ELSE [t EXCEPT !.v = Unesc(t.v)]
\* raw tokens that break a term when read back: string delimiters/escape introducers of the format
LitBreaks(f) == IF f = "xml" THEN {"lt", "am"} ELSE {"qu", "bs", "lf", "cr"}
TermBroken(t, f) ==
    \/ t.k = "iri" /\ Broken(t.v, IriMustEscape(f))
    \/ t.k = "lit" /\ Broken(t.v, LitBreaks(f))
\* XML readers normalise a raw CR of element content to LF
Normalise(t, f) == IF f = "xml" /\ t.k = "lit" THEN [t EXCEPT !.v = SubstClass(t.v, "cr", "lf")] ELSE t
\* the reader may relabel blank nodes with any injective map (keep = FALSE: LegacyParse merges all labels into one)
ParseWith(keep) ==
    /\ stage = "serialized"
    /\ IF \E t \in doc : TermBroken(t.s, fmt) \/ TermBroken(t.p, fmt) \/ TermBroken(t.o, fmt)
       THEN res' = "parse_err" /\ out' = {}
       ELSE /\ res' = "ok"
            /\ \E labels \in [Blanks(doc) -> {"g1", "g2", "g3", "g4"}] :
                 /\ keep => Injective(labels)
                 /\ ~keep => \A b \in DOMAIN labels : labels[b] = "g1"
                 /\ out' = Rename({Tr(ParseTerm(Normalise(t.s, fmt), fmt), ParseTerm(Normalise(t.p, fmt), fmt),
                                      ParseTerm(Normalise(t.o, fmt), fmt)) : t \in doc}, labels)
    /\ stage' = "done"
    /\ UNCHANGED <<graph, fmt, doc>>
Parse == ParseWith(TRUE)
LegacyParse == ParseWith(FALSE)

\* the reference design meets the contract wherever the format can express the graph at all
RefMeetsContract ==
    stage = "done" => IF Buildable(graph) /\ ~Expressible(graph, fmt) THEN res = "ser_err"
                      ELSE Contract(graph, fmt, res, out)
IsoReflexive == stage # "new" => Iso(Canon(graph), Canon(graph))
=============================================================================
