---------------------------- MODULE Numerals_Trace ----------------------------
(* C25 trace specification.  One event per text given to the real parse_query  *)
(* (in a worker process, under catch_unwind: a panic or a dead worker is data). *)
(*  Num: the text is the rendering of (position, numeral); the parser did not   *)
(*       panic; if it accepted the query, the AST carries EXACTLY the written   *)
(*       value (as a decimal string) in the field of that position -- never     *)
(*       another number, never none -- and the other numerals of the template   *)
(*       in their fields.  An error is always acceptable.                       *)
(*  Mut: the text is the named damage of the named base; the parser answered    *)
(*       with a query or an error.                                              *)
EXTENDS Numerals, TraceBase

tvars == <<out, l, sid, used, failed>>

PosOf(id) == CHOOSE p \in Positions : p.id = id
NumOf(t) == CHOOSE n \in Numerals : n.t = t

Carries(o, fld, v) ==
    CASE fld = "minmax" -> o.min = v /\ o.max = v
      [] fld = "min" -> o.min = v     [] fld = "max" -> o.max = v
      [] fld = "skip" -> o.skip = v   [] fld = "limit" -> o.limit = v
      [] fld = "wskip" -> o.wskip = v [] fld = "wlimit" -> o.wlimit = v
      [] fld = "lit" -> o.lit = v     [] fld = "lit2" -> o.lit2 = v
      [] fld = "wlit" -> o.wlit = v   [] fld = "plit" -> o.plit = v
      [] fld = "clit" -> o.clit = v

TInit == NInit /\ TBInit
T_Reset == ResetBook /\ out' = [res |-> "none", val |-> "", exact |-> "", fits |-> FALSE]
T_Fail == FailBook /\ out' = [res |-> "none", val |-> "", exact |-> "", fits |-> FALSE]

T_Num ==
    /\ IsEv("Num")
    /\ \E pos \in Positions, num \in Numerals :
         /\ pos.id = Ev.pos /\ num.t = Ev.num
         /\ Ev.text = NumText(pos, num)
         /\ Ev.res \in {"ok", "err"}
         /\ Ev.res = "ok" =>
              /\ Carries(Ev.obs, pos.fld, num.v)
              /\ \A k \in DOMAIN pos.also : Carries(Ev.obs, pos.also[k][1], pos.also[k][2])
         /\ out' = [res |-> Ev.res, val |-> IF Ev.res = "ok" THEN num.v ELSE "", exact |-> num.v, fits |-> TRUE]
    /\ Same

T_Mut ==
    /\ IsEv("Mut")
    /\ Ev.text = Join(Damaged(BaseOf(Ev.lvl, Ev.base), Ev.kind, Ev.i, Ev.x), GlueOf(Ev.lvl))
    /\ Ev.res \in {"ok", "err"}
    /\ out' = [res |-> Ev.res, val |-> "", exact |-> "", fits |-> TRUE]
    /\ Same

TNext == T_Fail \/ T_Reset \/ T_Num \/ T_Mut
TSpec == TInit /\ [][TNext]_tvars
=============================================================================
