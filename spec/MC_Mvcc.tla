------------------------------ MODULE MC_Mvcc ------------------------------
EXTENDS Mvcc, TLC, Json
CONSTANTS MaxHist
VARIABLE hist_,
         pruned    \* how many entries of each chain / log the most recent GC pass drained (the code's branches: skip a
                   \* chain of <= 1 entries, keep everything, drain a prefix) -- part of ViewP only
vars == <<curVer, hist, ehist, chain, eends, eprop, elog, starts, hist_, pruned>>
H(r) == hist_' = Append(hist_, r)
NoPruned == [n |-> [n \in NodeIds |-> 0], e |-> [e \in EdgeIds |-> 0]]
Init == MInit /\ hist_ = <<>> /\ pruned = NoPruned
Core ==
    \/ \E n \in NodeIds, ls \in SUBSET Labels : CreateNode(n, ls) /\ H([op |-> "CreateNode", labels |-> ls])
    \/ \E n \in NodeIds, v \in Vals : SetNodeProp(n, v) /\ H([op |-> "SetNodeProp", n |-> n, v |-> v])
    \/ \E n \in NodeIds : RemoveNodeProp(n) /\ H([op |-> "RemoveNodeProp", n |-> n])
    \/ \E n \in NodeIds, lb \in Labels : AddLabel(n, lb) /\ H([op |-> "AddLabel", n |-> n, label |-> lb])
    \/ \E n \in NodeIds, lb \in Labels : RemoveLabel(n, lb) /\ H([op |-> "RemoveLabel", n |-> n, label |-> lb])
    \/ \E n \in NodeIds : DeleteNode(n) /\ H([op |-> "DeleteNode", n |-> n])
    \/ \E e \in EdgeIds, p \in Vals \cup {None} : CreateEdge(e, p) /\ H([op |-> "CreateEdge", p |-> p])
    \/ \E e \in EdgeIds, v \in Vals : SetEdgeProp(e, v) /\ H([op |-> "SetEdgeProp", e |-> e, v |-> v])
    \/ \E e \in EdgeIds : DeleteEdge(e) /\ H([op |-> "DeleteEdge", e |-> e])
    \/ Bump /\ H([op |-> "Bump"])
    \/ Len(starts) < 2 /\ BeginTxn /\ H([op |-> "BeginTxn"])
    \/ \E k \in DOMAIN starts : EndTxn(k) /\ H([op |-> "EndTxn", k |-> k])
    \/ \E w \in 0..MaxV + 1 : Gc(w) /\ H([op |-> "Gc", w |-> w])
    \/ GcAuto /\ H([op |-> "GcAuto"])
Next == /\ Core
        /\ pruned' = IF hist_'[Len(hist_')].op \in {"Gc", "GcAuto"}
                      THEN [n |-> [n \in NodeIds |-> Len(chain[n]) - Len(chain'[n])], e |-> [e \in EdgeIds |-> Len(elog[e]) - Len(elog'[e])]]
                      ELSE pruned
Spec == Init /\ [][Next]_vars
\* the transition cover of ViewP also distinguishes HOW a state was reached by the last GC pass: a write after a pass that
\* drained a log down to its base entry is another transition than the same write after a pass that had nothing to drain
ViewP == <<curVer, hist, ehist, chain, eends, eprop, elog, starts, pruned>>
View == <<curVer, hist, ehist, chain, eends, eprop, elog, starts>>
Bound == Len(hist_) <= MaxHist
Emit == PrintT(<<"SCRIPT", ToJson(hist_')>>)
EmitLeaf == Len(hist_') = MaxHist => PrintT(<<"SCRIPT", ToJson(hist_')>>)
SimEmit == Len(hist_) = MaxHist => PrintT(<<"SCRIPT", ToJson(hist_)>>)
\* C08 as an action property of the ideal history
GcKeeps == [][\A w \in 0..MaxV + 1 : (hist_' # hist_ /\ hist_'[Len(hist_')].op = "Gc" /\ hist_'[Len(hist_')].w = w) => GcPreserves(w)]_vars
=============================================================================
