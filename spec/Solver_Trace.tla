----------------------------- MODULE Solver_Trace -----------------------------
(* C34 trace specification (impl -> spec only).  One script = one PAIR of runs *)
(* of one solver (pool of 1 thread, pool of 8 threads, same seed, same         *)
(* problem).  Every recorded event must be an action of Solver.tla; all floats *)
(* arrive as dense ranks (NaN = -1).                                           *)
EXTENDS Solver, TraceBase

tvars == <<phase, run, kind, lo, hi, zero, best, cur, ref, l, sid, used, failed>>

Reset == /\ phase' = "idle" /\ run' = 0 /\ kind' = "so" /\ lo' = <<>> /\ hi' = <<>> /\ zero' = 0
         /\ best' = NoBest /\ cur' = <<>> /\ ref' = <<>>
TInit == SInit /\ TBInit
T_Reset == ResetBook /\ Reset
T_Fail == FailBook /\ Reset

T_Start == IsEv("Start") /\ Start(Ev.run, Ev.kind, Ev.lo, Ev.hi, Ev.zero) /\ Same
T_Iter == IsEv("Iter") /\ Iter(Ev.best) /\ Same
T_Done == /\ IsEv("Done") /\ Ev.res = "ok"
          /\ IF kind = "so" THEN DoneSO(Ev.reported, Ev.recomputed, Ev.vars) ELSE DoneMO(Ev.front)
          /\ Same

TNext == T_Fail \/ T_Reset \/ T_Start \/ T_Iter \/ T_Done
TSpec == TInit /\ [][TNext]_tvars
=============================================================================
