-------------------------- MODULE FsPersist_Trace --------------------------
(* C14 trace specification.  The harness drives the REAL /api/snapshot/import route   *)
(* (restore_snapshot_handler -> import_tenant_with_dedup -> persist_snapshot), parks   *)
(* the request at every hook point of persist_snapshot, and logs after every event    *)
(* the directory listing it really sees (which names exist, and -- by importing the    *)
(* bytes with the real import -- which graph each file holds) and the names that were  *)
(* really fsynced during the step (fsync/fdatasync interposer in the harness binary).  *)
(* Reject sends an upload the handler must refuse (a snapshot cut short: valid header,  *)
(* broken body; or garbage) and logs whether it was refused at once or only after it had *)
(* entered persist_snapshot.  Crash unwinds the parked request; PowerLoss additionally rewrites the directory to  *)
(* the durable state chosen by TLC in the script; Restart calls the real               *)
(* restore_persisted_snapshots on the directory and logs the restored graph.           *)
(* Every event must be a step of FsPersist whose resulting listing equals the observed *)
(* one; a PowerLoss listing must be one the model allows in the current state; a       *)
(* Restart is judged by the property itself (restored graph \in allowed).              *)
EXTENDS FsPersist, TraceBase

tvars == <<dir, ddir, pend, vol, dur, up, busy, cur, nimp, mem, okG, bad, allowed, fresh, l, sid, used, failed>>

\* observed listing agrees with the model's (the graph of a torn file cannot be observed)
EntryOK(o, c) == /\ o.st = c.st
                 /\ (o.st = "full" => SeqToSet(o.g) = SeqToSet(c.g))
ObsDirOK == LET L == Listing(dir', vol') IN \A n \in Names : EntryOK(Ev.obs.dir[n], L[n])
SyncedOK(S) == SeqToSet(Ev.obs.synced) = S

TInit == FPInit /\ TBInit
ModelReset ==
           /\ dir' = NoDir /\ ddir' = NoDir /\ pend' = <<>> /\ vol' = <<>> /\ dur' = <<>>
           /\ up' = TRUE /\ busy' = FALSE /\ cur' = 0 /\ nimp' = 0 /\ mem' = {} /\ okG' = {{}}
           /\ allowed' = {{}} /\ fresh' = FALSE /\ bad' = FALSE
T_Reset == ResetBook /\ ModelReset
T_Fail == FailBook /\ ModelReset

T_Import == IsEv("Import") /\ Ev.res = "begin" /\ Import(Ev.k) /\ ObsDirOK /\ SyncedOK({}) /\ Same

\* an upload the handler refuses: answered 4xx at once, nothing touched ...
T_Reject == /\ IsEv("Reject") /\ Ev.res = "refused" /\ Ev.status >= 400
            /\ RejectDirect /\ ObsDirOK /\ SyncedOK({}) /\ SeqToSet(Ev.obs.mem) = mem' /\ Same
\* ... or it got as far as persist_snapshot (hook point "begin") before being refused
T_BadUpload == IsEv("Reject") /\ Ev.res = "begin" /\ BadUpload(Ev.k) /\ ObsDirOK /\ SyncedOK({}) /\ Same
T_Refused == /\ IsEv("Refused") /\ Ev.status >= 400
             /\ Refuse /\ ObsDirOK /\ SeqToSet(Ev.obs.mem) = mem' /\ Same

T_Step ==
    /\ IsEv("Step") /\ Ev.point \in StepNames
    /\ \/ bad /\ PStep(Ev.point, BadContent) /\ Same
       \/ ~bad /\ PStep(Ev.point, IdealContent) /\ Same
       \/ ~bad /\ Ev.point = "tmp_written" /\ KF_C14_OnlyLastImportKept /\ KF("KF_C14_OnlyLastImportKept")
    /\ ObsDirOK /\ SyncedOK(SyncedBy(Ev.point))

T_Ack == IsEv("Ack") /\ Ev.status = 200 /\ Ack /\ ObsDirOK /\ SeqToSet(Ev.obs.mem) = mem' /\ Same

T_Crash == IsEv("Crash") /\ Crash /\ ObsDirOK /\ Same

\* the directory the harness materialised (Ev.dir, from the script) must be a possible power-loss outcome
T_PowerLoss ==
    /\ IsEv("PowerLoss")
    /\ \E K \in SUBSET (1..Len(pend)), pick \in [Names -> DataChoices] :
          /\ PowerLoss(K, pick)
          /\ LET L == Listing(dir', vol') IN
             \A n \in Names : Ev.dir[n].st = L[n].st /\ SeqToSet(Ev.dir[n].g) = SeqToSet(L[n].g)
    /\ ObsDirOK /\ Same

\* the restored graph is judged by the property; a restore that fails or panics restores nothing
RestoredG == SeqToSet(Ev.obs.g)
T_Restart ==
    /\ IsEv("Restart")
    /\ Ev.res \in {"some", "none", "err"}
    /\ \/ RestoredG \in allowed /\ Restart(RestoredG) /\ Same
       \/ KF_C14_OnlyLastImportKept_Seen(RestoredG) /\ KF("KF_C14_OnlyLastImportKept")
    /\ ObsDirOK

TNext == T_Fail \/ T_Reset \/ T_Import \/ T_Reject \/ T_BadUpload \/ T_Refused \/ T_Step \/ T_Ack \/ T_Crash \/ T_PowerLoss \/ T_Restart
TSpec == TInit /\ [][TNext]_tvars
=============================================================================
