------------------------------ MODULE Numerals ------------------------------
(***************************************************************************)
(* Numbers in the Cypher parser of samyama-graph (src/query/parser.rs,     *)
(* src/query/cypher.pest: parse_query, parse_length_pattern,               *)
(* parse_integer_literal, parse_count_literal, the SKIP/LIMIT handling of  *)
(* each statement kind) and its robustness against damaged input.          *)
(*                                                                         *)
(* PART 1.  A case is a grammar POSITION (where a numeral may be written)  *)
(* and a NUMERAL (how it is written and what it denotes).  TLC cannot      *)
(* compute with 64-bit numbers, so a numeral carries its exact value as a  *)
(* decimal STRING (v) and the facts the model needs: does it fit i64, does *)
(* it fit usize, is it what Rust's str::parse::<usize> accepts (plain).    *)
(* Parse(pos, num) is the parser's treatment of that numeral:              *)
(*   "ideal"   Ok(exact value) if it fits the position's type, otherwise   *)
(*             (or whenever the parser prefers) an error;                  *)
(*   "legacy"  what each call site of the pinned tree did (unwrap,         *)
(*             unwrap_or(1), .ok()) -- self-test only.                     *)
(* Property C25: never a panic; an accepted query carries exactly the      *)
(* value that was written (Exact), never another one and never none.       *)
(*                                                                         *)
(* PART 2.  Damaged input: every single deletion, insertion and            *)
(* substitution of one piece of a base query (pieces are tokens, or single *)
(* characters for the byte-level bases).  The only claim is NoPanic.       *)
(***************************************************************************)
EXTENDS Naturals, Sequences, FiniteSets, TLC

CONSTANT ParserMode      \* "ideal" | "legacy"

VARIABLE out             \* result of the last Parse / Damage
nvars == <<out>>

\* ------------------------------------------------------------ numerals
\* t text; v exact value in decimal ("overflow" for a float beyond f64);
\* k "int" | "float"; i64 / us: fits i64 / usize (64 bit); plain: accepted by
\* str::parse::<usize> (decimal digits only, value <= usize::MAX)
N(t, v, k, i64, us, plain) == [t |-> t, v |-> v, k |-> k, i64 |-> i64, us |-> us, plain |-> plain]
Numerals ==
  { N("0", "0", "int", TRUE, TRUE, TRUE),
    N("1", "1", "int", TRUE, TRUE, TRUE),
    N("7", "7", "int", TRUE, TRUE, TRUE),
    N("007", "7", "int", TRUE, TRUE, TRUE),
    N("9223372036854775807", "9223372036854775807", "int", TRUE, TRUE, TRUE),
    N("9223372036854775808", "9223372036854775808", "int", FALSE, TRUE, TRUE),
    N("18446744073709551615", "18446744073709551615", "int", FALSE, TRUE, TRUE),
    N("18446744073709551616", "18446744073709551616", "int", FALSE, FALSE, FALSE),
    N("99999999999999999999", "99999999999999999999", "int", FALSE, FALSE, FALSE),
    N("-1", "-1", "int", TRUE, FALSE, FALSE),
    N("-9223372036854775808", "-9223372036854775808", "int", TRUE, FALSE, FALSE),
    N("-9223372036854775809", "-9223372036854775809", "int", FALSE, FALSE, FALSE),
    N("0x10", "16", "int", TRUE, TRUE, FALSE),
    N("0X1f", "31", "int", TRUE, TRUE, FALSE),
    N("0x7FFFFFFFFFFFFFFF", "9223372036854775807", "int", TRUE, TRUE, FALSE),
    N("0x8000000000000000", "9223372036854775808", "int", FALSE, TRUE, FALSE),
    N("0xFFFFFFFFFFFFFFFFFF", "4722366482869645213695", "int", FALSE, FALSE, FALSE),
    N("0o17", "15", "int", TRUE, TRUE, FALSE),
    N("0o2000000000000000000000", "18446744073709551616", "int", FALSE, FALSE, FALSE),
    N("1.5", "1.5", "float", FALSE, FALSE, FALSE),
    N(".5", "0.5", "float", FALSE, FALSE, FALSE),
    N("1e308", "1e308", "float", FALSE, FALSE, FALSE),
    N("1.7976931348623157e308", "1.7976931348623157e308", "float", FALSE, FALSE, FALSE),
    N("99999999999999999999.0", "1e20", "float", FALSE, FALSE, FALSE),
    N("1e309", "overflow", "float", FALSE, FALSE, FALSE),
    N("1.8e308", "overflow", "float", FALSE, FALSE, FALSE),
    N("-1e309", "overflow", "float", FALSE, FALSE, FALSE) }

\* ------------------------------------------------------------ positions
\* pre/post: the query text around the numeral; fld: the AST field that must
\* carry it ("minmax": both bounds); ty: the type of that field; site: how the
\* pinned tree converted the text there; also: other numerals written in the
\* template and the fields that must carry them.
P(id, pre, post, fld, ty, site, also) == [id |-> id, pre |-> pre, post |-> post, fld |-> fld, ty |-> ty, site |-> site, also |-> also]
Positions ==
  { P("vl_lower",  "MATCH (a)-[*", "..]->(b) RETURN a", "min", "usize", "unwrap_or_1", <<>>),
    P("vl_lower2", "MATCH (a)-[:KNOWS*", "..4]->(b) RETURN a", "min", "usize", "unwrap_or_1", << <<"max", "4">> >>),
    P("vl_upper",  "MATCH (a)-[*2..", "]->(b) RETURN a", "max", "usize", "unwrap", << <<"min", "2">> >>),
    P("vl_upper0", "MATCH (a)<-[r*..", "]-(b) RETURN a", "max", "usize", "unwrap", <<>>),
    P("vl_exact",  "MATCH (a)-[*", "]->(b) RETURN a", "minmax", "usize", "unwrap", <<>>),
    P("vl_exact2", "MATCH p = (a)-[r:KNOWS*", " {w: 1}]-(b) RETURN p", "minmax", "usize", "unwrap", <<>>),
    P("skip_return",   "RETURN 1 AS x SKIP ", "", "skip", "usize", "drop", << <<"lit", "1">> >>),
    P("limit_return",  "RETURN 1 AS x LIMIT ", "", "limit", "usize", "drop", << <<"lit", "1">> >>),
    P("both_return",   "RETURN 1 AS x SKIP 3 LIMIT ", "", "limit", "usize", "drop", << <<"skip", "3">>, <<"lit", "1">> >>),
    P("skip_withret",  "WITH 1 AS x RETURN x SKIP ", "", "skip", "usize", "drop", <<>>),
    P("limit_withret", "WITH 1 AS x RETURN x LIMIT ", "", "limit", "usize", "drop", <<>>),
    P("skip_call",     "CALL db.labels() YIELD label RETURN label SKIP ", "", "skip", "usize", "drop", <<>>),
    P("limit_call",    "CALL db.labels() YIELD label RETURN label LIMIT ", "", "limit", "usize", "drop", <<>>),
    P("skip_create",   "CREATE (a) RETURN a SKIP ", "", "skip", "usize", "drop", <<>>),
    P("limit_create",  "CREATE (a) RETURN a LIMIT ", "", "limit", "usize", "drop", <<>>),
    P("skip_pipe",     "CREATE (a) WITH a CREATE (b) RETURN b SKIP ", "", "skip", "usize", "drop", <<>>),
    P("limit_pipe",    "CREATE (a) WITH a CREATE (b) RETURN b LIMIT ", "", "limit", "usize", "drop", <<>>),
    P("skip_match",    "MATCH (n) RETURN n SKIP ", "", "skip", "usize", "count", <<>>),
    P("limit_match",   "MATCH (n) RETURN n ORDER BY n.v LIMIT ", "", "limit", "usize", "count", <<>>),
    P("limit_unwind",  "UNWIND [1, 2] AS u RETURN u LIMIT ", "", "limit", "usize", "count", <<>>),
    P("skip_with",     "MATCH (n) WITH n SKIP ", " RETURN n", "wskip", "usize", "count", <<>>),
    P("limit_with",    "MATCH (n) WITH n LIMIT ", " RETURN n LIMIT 2", "wlimit", "usize", "count", << <<"limit", "2">> >>),
    P("lit_return",    "RETURN ", " AS x", "lit", "num", "lit", <<>>),
    P("lit_arith",     "RETURN 2 * ", " AS x", "lit2", "num", "lit", << <<"lit", "2">> >>),
    P("lit_where",     "MATCH (n) WHERE n.v = ", " RETURN n LIMIT 5", "wlit", "num", "lit", << <<"limit", "5">> >>),
    P("lit_prop",      "MATCH (n:Person {v: ", "}) RETURN n", "plit", "num", "lit", <<>>),
    P("lit_list",      "RETURN [1, ", "] AS x", "lit2", "num", "lit", << <<"lit", "1">> >>),
    P("lit_create",    "CREATE (n:T {v: ", "})", "clit", "num", "lit", <<>>) }

NumText(pos, num) == pos.pre \o num.t \o pos.post

\* does the numeral fit the type of the position ?
Fits(pos, num) ==
    CASE pos.ty = "usize" -> num.k = "int" /\ num.us
      [] OTHER -> IF num.k = "int" THEN num.i64 ELSE num.v # "overflow"

Ok(v) == [res |-> "ok", val |-> v]          \* val: the value the AST carries at the position ("none": dropped)
Err == [res |-> "err", val |-> ""]
Panic == [res |-> "panic", val |-> ""]

\* the outcomes the property allows for a numeral written at a position
Allowed(pos, num) == {Err} \cup (IF Fits(pos, num) THEN {Ok(num.v)} ELSE {})

\* what the call sites of the pinned tree did
LegacyOutcome(pos, num) ==
    LET grammatical == pos.ty = "num" \/ num.k = "int" IN      \* SKIP 1.5, *1.5 are syntax errors
    IF ~grammatical THEN Err
    ELSE CASE pos.site = "unwrap_or_1" -> IF num.plain THEN Ok(num.v) ELSE Ok("1")
           [] pos.site = "unwrap"      -> IF num.plain THEN Ok(num.v) ELSE Panic
           [] pos.site = "drop"        -> IF num.plain THEN Ok(num.v) ELSE Ok("none")
           [] pos.site = "count"       -> IF num.i64 /\ num.us THEN Ok(num.v) ELSE Err
           [] OTHER -> IF num.k = "int" THEN (IF num.i64 THEN Ok(num.v) ELSE Err)
                       ELSE IF num.v = "overflow" THEN Ok("inf") ELSE Ok(num.v)

\* out = the outcome and, for the invariants, what was asked (exact value, whether it fits)
NInit == out = [res |-> "none", val |-> "", exact |-> "", fits |-> FALSE]
Asked(o, pos, num) == [res |-> o.res, val |-> o.val, exact |-> num.v, fits |-> Fits(pos, num)]

\* parse_query(NumText(pos, num))
Parse(pos, num) ==
    IF ParserMode = "legacy" THEN out' = Asked(LegacyOutcome(pos, num), pos, num)
    ELSE \E o \in Allowed(pos, num) : out' = Asked(o, pos, num)

\* ------------------------------------------------------------ damaged input
\* base queries as sequences of pieces; Join puts `glue` between the pieces
Join(ps, glue) ==
    LET t[i \in 0..Len(ps)] == IF i = 0 THEN "" ELSE t[i - 1] \o (IF i = 1 THEN "" ELSE glue) \o ps[i]
    IN  t[Len(ps)]
Del(ps, i) == SubSeq(ps, 1, i - 1) \o SubSeq(ps, i + 1, Len(ps))
Ins(ps, i, x) == SubSeq(ps, 1, i - 1) \o <<x>> \o SubSeq(ps, i, Len(ps))      \* before piece i (i = Len+1: at the end)
Sub(ps, i, x) == [ps EXCEPT ![i] = x]

Damaged(ps, kind, i, x) ==
    CASE kind = "del" -> Del(ps, i) [] kind = "ins" -> Ins(ps, i, x) [] OTHER -> Sub(ps, i, x)

\* token-level bases (glue " ") and byte-level bases (pieces are single characters, glue "")
TokenBases ==
  << <<"MATCH", "(", "n", ":", "Person", ")", "WHERE", "n.age", ">", "30", "RETURN", "n.name", "AS", "x", "ORDER", "BY", "x", "SKIP", "1", "LIMIT", "5">>,
     <<"MATCH", "(", "a", ")", "-", "[", "r", ":", "KNOWS", "*", "1", "..", "3", "]", "->", "(", "b", ")", "RETURN", "a", ",", "b">>,
     <<"MATCH", "(", "a", ")", "<-", "[", "*", "2", "]", "-", "(", "b", ")", "RETURN", "count", "(", "*", ")">>,
     <<"RETURN", "0x1F", "+", "0o17", "-", "1.5e3", "AS", "x">>,
     <<"UNWIND", "[", "1", ",", "2", ",", "3", "]", "AS", "u", "WITH", "u", "WHERE", "u", ">", "1", "RETURN", "u", "LIMIT", "2">>,
     <<"CREATE", "(", "a", ":", "T", "{", "v", ":", "1", ",", "s", ":", "'x'", "}", ")", "-", "[", ":", "R", "]", "->", "(", "b", ")", "RETURN", "a">>,
     <<"MATCH", "(", "n", ")", "SET", "n.v", "=", "2", ",", "n", ":", "L", "REMOVE", "n.w", "RETURN", "n">>,
     <<"MERGE", "(", "n", ":", "T", "{", "k", ":", "1", "}", ")", "ON", "CREATE", "SET", "n.c", "=", "1", "ON", "MATCH", "SET", "n.m", "=", "2">>,
     <<"MATCH", "(", "n", ")", "DETACH", "DELETE", "n">>,
     <<"FOREACH", "(", "i", "IN", "[", "1", ",", "2", "]", "|", "CREATE", "(", ":", "T", "{", "v", ":", "i", "}", ")", ")">>,
     <<"CALL", "db.labels", "(", ")", "YIELD", "label", "RETURN", "label", "ORDER", "BY", "label", "DESC", "LIMIT", "3">>,
     <<"RETURN", "CASE", "WHEN", "1", ">", "2", "THEN", "'a'", "ELSE", "'b'", "END", "AS", "x">>,
     <<"RETURN", "[", "x", "IN", "[", "1", ",", "2", "]", "WHERE", "x", ">", "1", "|", "x", "*", "2", "]", "AS", "l">>,
     <<"MATCH", "p", "=", "shortestPath", "(", "(", "a", ")", "-", "[", "*", "..", "5", "]", "-", "(", "b", ")", ")", "RETURN", "p">>,
     <<"CREATE", "INDEX", "ON", ":", "Person", "(", "name", ")">>,
     <<"CREATE", "CONSTRAINT", "ON", "(", "p", ":", "Person", ")", "ASSERT", "p.name", "IS", "UNIQUE">>,
     <<"MATCH", "(", "n", ")", "RETURN", "n.name", "UNION", "ALL", "MATCH", "(", "m", ")", "RETURN", "m.name">>,
     <<"EXPLAIN", "MATCH", "(", "n", ")", "WHERE", "n.name", "STARTS", "WITH", "'A'", "AND", "NOT", "n.age", "IS", "NULL", "RETURN", "n">>,
     <<"MATCH", "(", "n", ")", "WHERE", "n.v", "IN", "[", "1", ",", "2", "]", "OR", "EXISTS", "{", "MATCH", "(", "n", ")", "-", "[", ":", "R", "]", "->", "(", "m", ")", "}", "RETURN", "n">>,
     <<"RETURN", "reduce", "(", "s", "=", "0", ",", "x", "IN", "[", "1", ",", "2", "]", "|", "s", "+", "x", ")", "AS", "r", ",", "$p", "AS", "q">>,
     <<"CALL", "{", "MATCH", "(", "n", ")", "RETURN", "n", "LIMIT", "1", "}", "RETURN", "n">>,
     <<"CREATE", "VECTOR", "INDEX", "vi", "FOR", "(", "n", ":", "P", ")", "ON", "(", "n.e", ")", "OPTIONS", "{", "dimensions", ":", "2", "}">> >>
CharBases ==
  << <<"M", "A", "T", "C", "H", " ", "(", "a", ")", "-", "[", "*", "1", ".", ".", "3", "]", "-", ">", "(", "b", ")", " ", "R", "E", "T", "U", "R", "N", " ", "a">>,
     <<"R", "E", "T", "U", "R", "N", " ", "'", "a", "\\", "'", "b", "'", " ", "A", "S", " ", "x", " ", "L", "I", "M", "I", "T", " ", "1", "0">>,
     <<"R", "E", "T", "U", "R", "N", " ", "0", "x", "1", "F", ",", " ", "-", "1", ".", "5", "e", "3", ",", " ", "[", "1", ",", "2", "]", "[", "0", "]">>,
     <<"M", "A", "T", "C", "H", " ", "(", "n", " ", "{", "v", ":", "1", "}", ")", " ", "S", "E", "T", " ", "n", ".", "s", "=", "\"", "q", "\"">>,
     <<"C", "A", "L", "L", " ", "{", " ", "R", "E", "T", "U", "R", "N", " ", "1", " ", "A", "S", " ", "n", " ", "}", " ", "R", "E", "T", "U", "R", "N", " ", "n">>,
     <<"R", "E", "T", "U", "R", "N", " ", "1", " ", "/", "*", "c", "*", "/", " ", "+", " ", "2", " ", "/", "/", "d">> >>
TokenAlphabet ==
  {"MATCH", "RETURN", "WITH", "LIMIT", "SKIP", "AS", "IN", "NULL", "n", "(", ")", "[", "]", "{", "}", "*", "..", ",", ":",
   "-", "->", "<-", "|", "=", ".", "'", "\"", "$", ";", "`", "\\", "//", "/*", "0x", "-1", "99999999999999999999", "1e999",
   "0xFFFFFFFFFFFFFFFFFF"}
SmallTokenAlphabet == {"RETURN", "LIMIT", "(", "]", "{", "*", "..", ":", "-", "'", "$", "0x", "-1", "99999999999999999999", "1e999"}
CharAlphabet == {"'", "\"", "(", ")", "[", "]", "{", "}", "*", ".", "-", "9", "x", "\\", "/", "`", " ", "\n", "$", "|"}
BaseOf(lvl, b) == IF lvl = "tok" THEN TokenBases[b] ELSE CharBases[b]
GlueOf(lvl) == IF lvl = "tok" THEN " " ELSE ""

\* parse_query of a damaged text: a query or an error
Damage == \E r \in {"ok", "err"} : out' = [res |-> r, val |-> "", exact |-> "", fits |-> TRUE]

\* ------------------------------------------------------------ C25
NoPanic == out.res # "panic"
\* an accepted numeral fits its type and the AST carries exactly its value
Exact == out.res = "ok" /\ out.exact # "" => out.fits /\ out.val = out.exact
TypeOK == out.res \in {"none", "ok", "err", "panic"}
=============================================================================
