---------------------------- MODULE MC_VectorIdx ----------------------------
(* Model-checking wrapper of VectorIdx: the mutator alphabet over a tiny       *)
(* universe, a history variable, script emission (one script per transition   *)
(* of the state graph under VIEW, or per random walk).  Searches are not in   *)
(* the scripts: the harness runs EVERY search (index x query x k) after every *)
(* step and the trace specification judges each answer.                       *)
(* Design-level checks on every reachable state:                              *)
(*   Satisfiable     C29 never demands the impossible: some answer is correct *)
(*   DirectWording   for an ideal index TopK is literally the property's      *)
(*                   wording (subset of live holders, distinct, non-          *)
(*                   decreasing class, omitted >= last, |res| = min(k, n))    *)
(*   DevSound        (self-test, must FAIL) every answer the pinned tree's    *)
(*                   physical model can give is a correct answer              *)
EXTENDS VectorIdx, Json

CONSTANTS Ids, LabelSets, Labels, Props, Vecs, Qs, Ks, Keys, MaxHist, MetricsUsed

VARIABLE hist
vars == <<node, idx, ent, clk, hist>>

\* constant values that a .cfg cannot spell
V3 == {<<1, 0>>, <<2, 0>>, <<0, 1>>}
V4 == {<<1, 0>>, <<2, 0>>, <<0, 1>>, <<1, 1>>}
V6 == V4 \cup {<<-1, 0>>, <<1, 2>>}
V8 == V6 \cup {<<2, 1>>, <<0, -2>>}
Q1 == {<<1, 1>>}
Q2 == {<<1, 0>>, <<1, 1>>}
Q3 == Q2 \cup {<<-1, 2>>}
KeysAe == {<<"A", "e">>}
KeysABe == {<<"A", "e">>, <<"B", "e">>}
KeysABef == {<<"A", "e">>, <<"B", "e">>, <<"A", "f">>}
LS1 == {{"A"}}
LS3 == {{}, {"A"}, {"A", "B"}}
LS4 == {{}, {"A"}, {"B"}, {"A", "B"}}

Init == VInit /\ hist = <<>>
H(r) == hist' = Append(hist, r)

SetOf(f) == {<<x, f[x]>> : x \in DOMAIN f}
VecMaps == {<<>>} \cup UNION {[{p} -> Vecs] : p \in Props}      \* at most one vector-valued property at creation

Next ==
  /\ Len(hist) < MaxHist
  /\ \/ \E n \in Ids, Ls \in LabelSets, vs \in VecMaps :
          CreateNode(n, Ls, vs) /\ H([op |-> "CreateNode", h |-> n, labels |-> Ls, vecs |-> vs])
     \/ \E n \in Ids, p \in Props, v \in Vecs :
          SetVector(n, p, v) /\ H([op |-> "SetVector", h |-> n, prop |-> p, v |-> v])
     \/ \E n \in Ids, p \in Props, how \in {"scalar", "remove"} :
          DropVector(n, p) /\ H([op |-> "DropVector", h |-> n, prop |-> p, how |-> how])
     \/ \E n \in Ids, lab \in Labels :
          AddLabel(n, lab) /\ H([op |-> "AddLabel", h |-> n, label |-> lab])
     \/ \E n \in Ids, lab \in Labels :
          RemoveLabel(n, lab) /\ H([op |-> "RemoveLabel", h |-> n, label |-> lab])
     \/ \E n \in Ids : DeleteNode(n) /\ H([op |-> "DeleteNode", h |-> n])
     \/ \E key \in Keys, mt \in MetricsUsed, bf \in BOOLEAN :
          CreateIndex(key, mt, bf) /\ H([op |-> "CreateIndex", label |-> key[1], prop |-> key[2], metric |-> mt, backfill |-> bf])
     \/ idx # <<>> /\ Rebuild /\ H([op |-> "Rebuild"])

Spec == Init /\ [][Next]_vars

\* candidate answers: every sequence of at most max(Ks) node ids
MaxK == CHOOSE k \in Ks : \A j \in Ks : j <= k
Cands == UNION {[1..n -> Ids] : n \in 0..MaxK}

Direct(key, q, k, res) ==
    LET E == Eligible(key)
        vec(n) == node[n].vec[key[2]]
        lt(a, b) == Less(idx[key], q, vec(a), vec(b))
    IN  /\ \A i \in DOMAIN res : res[i] \in E
        /\ \A i, j \in DOMAIN res : i # j => res[i] # res[j]
        /\ Len(res) = Min2(k, Cardinality(E))
        /\ \A i, j \in DOMAIN res : i < j => ~lt(res[j], res[i])
        /\ \A n \in E : (\A i \in DOMAIN res : res[i] # n) /\ Len(res) > 0 => ~lt(n, res[Len(res)])

Satisfiable == \A key \in DOMAIN idx, q \in Qs, k \in Ks : \E res \in Cands : SearchOK(key, q, k, res)
DirectWording == \A key \in DOMAIN idx, q \in Qs, k \in Ks, res \in Cands :
                    SearchOK(key, q, k, res) <=> Direct(key, q, k, res)
\* self-test: the pinned tree's physical model answers correctly (TLC must refute it)
DevSound == \A key \in DOMAIN idx, q \in Qs, k \in Ks, res \in Cands :
                SearchOKUnder(KFNames, key, q, k, res) => SearchOK(key, q, k, res)
\* ... and so does each deviation on its own (three separate witnesses)
DevSoundStale == \A key \in DOMAIN idx, q \in Qs, k \in Ks, res \in Cands :
                SearchOKUnder({"KF_C29_AppendOnlyEntries"}, key, q, k, res) => SearchOK(key, q, k, res)
DevSoundDead == \A key \in DOMAIN idx, q \in Qs, k \in Ks, res \in Cands :
                SearchOKUnder({"KF_C29_DeletedStillIndexed"}, key, q, k, res) => SearchOK(key, q, k, res)
DevSoundMetric == \A key \in DOMAIN idx, q \in Qs, k \in Ks, res \in Cands :
                SearchOKUnder({"KF_C29_MetricIgnored"}, key, q, k, res) => SearchOK(key, q, k, res)

\* logical time and `at` stamps do not matter for the future: hide them from state identity
Shape(key) == {<<e.id, e.v, e.st>> : e \in ent[key]}
View == <<[n \in Live |-> <<node[n].labels, node[n].vec>>], idx, [key \in DOMAIN ent |-> Shape(key)],
          [key \in DOMAIN ent |-> Cardinality(ent[key])]>>
Emit == PrintT(<<"SCRIPT", ToJson(hist')>>)
SimEmit == Len(hist) = MaxHist => PrintT(<<"SCRIPT", ToJson(hist)>>)
=============================================================================
