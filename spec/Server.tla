------------------------------- MODULE Server -------------------------------
(***************************************************************************)
(* C19 -- writes acknowledged by the server survive a restart.             *)
(*                                                                         *)
(* src/main.rs              start_server: PersistenceManager::new, recovery *)
(*                          (list_persisted_tenants / recover /            *)
(*                          insert_recovered_node / insert_recovered_edge; *)
(*                          restore_persisted_snapshots only when nothing  *)
(*                          was recovered), then the RESP server and the   *)
(*                          HTTP server share ONE store                    *)
(* src/protocol/command.rs  CommandHandler::handle_graph_query             *)
(* src/http/handler.rs      query_handler                                  *)
(* src/persistence/mod.rs   PersistenceManager (RocksDB column "data")     *)
(*                                                                         *)
(* State, shaped like the implementation: the served graph (GraphStore)    *)
(* and the data directory (RocksDB) are both keyed by the numeric ids of   *)
(* nodes and relationships.                                                *)
(*     nodes   id  -> [k, lbl, p]     live nodes: key property k, labels,  *)
(*                                    property p (0 = not set)             *)
(*     rels    eid -> [s, t, w]       live :T relationships (endpoint ids) *)
(*     dnodes, drels                  what the data directory holds        *)
(* One action per write statement kind, parameterised by the front end r   *)
(* that received it, and Restart = the start-up recovery of main.rs.       *)
(*                                                                         *)
(* IDEAL: what an acknowledged write created or changed is written to the  *)
(* data directory and what it deleted is removed from it (Persist), hence  *)
(* Durable (disk = served) and  Restart => served' = served.  The two      *)
(* known deviations describe what the pinned tree persists instead.        *)
(* Whether a write is acknowledged is not C19's business: every write may  *)
(* be refused (Refused) and then changes nothing.  Which ids new nodes and *)
(* relationships get is open (any free id).                                *)
(***************************************************************************)
EXTENDS Naturals, Sequences, FiniteSets, TLC

CONSTANTS Keys,        \* values of the key property k (statements address nodes by key)
          Vals         \* values written to n.p / r.w (positive; 0 = absent)

VARIABLES nodes, rels, dnodes, drels
svars == <<nodes, rels, dnodes, drels>>

Route == {"resp", "http"}
Empty == <<>>                      \* the function with empty domain

\* ------------------------------------------------------------------ statement texts
K(k) == ToString(k)
NodePat(v, k) == "(" \o v \o ":A {k: " \o K(k) \o "})"
RetN(ret) == IF ret THEN " RETURN n" ELSE ""
RetR(ret) == IF ret THEN " RETURN r" ELSE ""
RelPat(a, b) == NodePat("a", a) \o "-[r:T]->" \o NodePat("b", b)

QCreateNode(k, ret)    == "CREATE (n:A {k: " \o K(k) \o "})" \o RetN(ret)
QSetProp(k, v, ret)    == "MATCH " \o NodePat("n", k) \o " SET n.p = " \o ToString(v) \o RetN(ret)
QRemoveProp(k, ret)    == "MATCH " \o NodePat("n", k) \o " REMOVE n.p" \o RetN(ret)
QAddLabel(k, ret)      == "MATCH " \o NodePat("n", k) \o " SET n:B" \o RetN(ret)
QRemoveLabel(k, ret)   == "MATCH " \o NodePat("n", k) \o " REMOVE n:B" \o RetN(ret)
QDeleteNode(k)         == "MATCH " \o NodePat("n", k) \o " DELETE n"
QDetachDelete(k)       == "MATCH " \o NodePat("n", k) \o " DETACH DELETE n"
QCreateRel(a, b, ret)  == "MATCH " \o NodePat("a", a) \o ", " \o NodePat("b", b) \o " CREATE (a)-[r:T]->(b)" \o RetR(ret)
\* the same creation, returning both end nodes and the relationship (a node and a relationship can carry the same number)
QCreateRelAll(a, b)    == "MATCH " \o NodePat("a", a) \o ", " \o NodePat("b", b) \o " CREATE (a)-[r:T]->(b) RETURN a, r, b"
QSetRelProp(a, b, v, ret) == "MATCH " \o RelPat(a, b) \o " SET r.w = " \o ToString(v) \o RetR(ret)
QDeleteRel(a, b)       == "MATCH " \o RelPat(a, b) \o " DELETE r"

\* ------------------------------------------------------------------ helpers
Match(k) == {i \in DOMAIN nodes : nodes[i].k = k}
RelsOf(N) == {e \in DOMAIN rels : rels[e].s \in N \/ rels[e].t \in N}
RelsBetween(a, b) == {e \in DOMAIN rels : nodes[rels[e].s].k = a /\ nodes[rels[e].t].k = b}
Restrict(f, D) == [x \in D |-> f[x]]
Override(f, g) == [x \in DOMAIN f \cup DOMAIN g |-> IF x \in DOMAIN g THEN g[x] ELSE f[x]]

\* ------------------------------------------------------------------ persistence of one acknowledged write
\* retN / retE: the node / relationship ids that appear as values in the result rows.
\* What one statement touched, read off the served graph before and after it:
ChangedN == {i \in DOMAIN nodes' : i \notin DOMAIN nodes \/ nodes'[i] # nodes[i]}
DeletedN == DOMAIN nodes \ DOMAIN nodes'
ChangedE == {e \in DOMAIN rels' : e \notin DOMAIN rels \/ rels'[e] # rels[e]}
DeletedE == DOMAIN rels \ DOMAIN rels'

\* IDEAL: everything the statement created or changed is written, everything it deleted is removed
Persist(r, retN, retE) ==
    /\ dnodes' = Override(Restrict(dnodes, DOMAIN dnodes \ DeletedN), Restrict(nodes', ChangedN))
    /\ drels' = Override(Restrict(drels, DOMAIN drels \ DeletedE), Restrict(rels', ChangedE))

\* What the pinned tree does.
\* RESP: handle_graph_query persists exactly the Value::Node / Value::Edge cells of the result rows
\* (persist_create_node / persist_create_edge, with the state they have after the statement).  A write
\* without RETURN, and everything a statement changed or deleted but did not return, never reaches disk.
RespPersistsReturned(r, retN, retE) ==
    /\ r = "resp"
    /\ dnodes' = Override(dnodes, Restrict(nodes', retN \cap DOMAIN nodes'))
    /\ drels' = Override(drels, Restrict(rels', retE \cap DOMAIN rels'))
\* HTTP: query_handler has no persistence manager at all
HttpPersistsNothing(r, retN, retE) ==
    /\ r = "http"
    /\ UNCHANGED <<dnodes, drels>>

\* KNOWN DEVIATIONS: the above, where it differs from the ideal
KF_C19_OnlyReturnedEntitiesPersisted(r, retN, retE) ==
    RespPersistsReturned(r, retN, retE) /\ ~Persist(r, retN, retE)
KF_C19_HttpNotPersisted(r, retN, retE) ==
    HttpPersistsNothing(r, retN, retE) /\ ~Persist(r, retN, retE)

\* ------------------------------------------------------------------ the write statements (effect on the served graph)
\* each returns through retN/retE what its RETURN clause shows
Refused == UNCHANGED svars

CreateNodeG(k, id) ==
    /\ Match(k) = {} /\ id \notin DOMAIN nodes
    /\ nodes' = Override(nodes, id :> [k |-> k, lbl |-> {"A"}, p |-> 0])
    /\ rels' = rels

UpdateNodesG(k, f(_)) ==
    /\ nodes' = [i \in DOMAIN nodes |-> IF nodes[i].k = k THEN f(nodes[i]) ELSE nodes[i]]
    /\ rels' = rels
SetPropG(k, v)    == UpdateNodesG(k, LAMBDA n : [n EXCEPT !.p = v])
AddLabelG(k)      == UpdateNodesG(k, LAMBDA n : [n EXCEPT !.lbl = @ \cup {"B"}])
RemoveLabelG(k)   == UpdateNodesG(k, LAMBDA n : [n EXCEPT !.lbl = @ \ {"B"}])

\* DELETE without DETACH: the engine at hand removes the node together with its relationships when it
\* acknowledges the statement (openCypher wants a refusal for a connected node: the Refused outcome; which
\* of the two is right is C04's business, C19 follows what was acknowledged)
DeleteNodeG(k) ==
    /\ nodes' = Restrict(nodes, DOMAIN nodes \ Match(k))
    /\ rels' = Restrict(rels, DOMAIN rels \ RelsOf(Match(k)))
DetachDeleteG(k) ==
    /\ nodes' = Restrict(nodes, DOMAIN nodes \ Match(k))
    /\ rels' = Restrict(rels, DOMAIN rels \ RelsOf(Match(k)))

\* MATCH (a), (b) CREATE (a)-[r:T]->(b): no row, no relationship when a or b is not there
CreatesRel(a, b) == Match(a) # {} /\ Match(b) # {}
CreateRelG(a, b, eid) ==
    /\ nodes' = nodes
    /\ IF CreatesRel(a, b)
       THEN /\ Cardinality(Match(a)) = 1 /\ Cardinality(Match(b)) = 1
            /\ eid \notin DOMAIN rels
            /\ rels' = Override(rels, eid :> [s |-> CHOOSE i \in Match(a) : TRUE, t |-> CHOOSE i \in Match(b) : TRUE, w |-> 0])
       ELSE rels' = rels
SetRelPropG(a, b, v) ==
    /\ rels' = [e \in DOMAIN rels |-> IF e \in RelsBetween(a, b) THEN [rels[e] EXCEPT !.w = v] ELSE rels[e]]
    /\ nodes' = nodes
DeleteRelG(a, b) ==
    /\ rels' = Restrict(rels, DOMAIN rels \ RelsBetween(a, b))
    /\ nodes' = nodes

\* ------------------------------------------------------------------ actions: one per statement kind x front end
\* pm names the persistence behaviour of the step: "ideal", or one of the deviations
PersistAs(pm, r, retN, retE) ==
    CASE pm = "ideal" -> Persist(r, retN, retE)
      [] pm = "KF_C19_OnlyReturnedEntitiesPersisted" -> KF_C19_OnlyReturnedEntitiesPersisted(r, retN, retE)
      [] pm = "KF_C19_HttpNotPersisted" -> KF_C19_HttpNotPersisted(r, retN, retE)
      [] pm = "legacy" -> RespPersistsReturned(r, retN, retE) \/ HttpPersistsNothing(r, retN, retE)
CreateNode(r, k, id, ret, pm) == CreateNodeG(k, id) /\ PersistAs(pm, r, IF ret THEN {id} ELSE {}, {})
SetProp(r, k, v, ret, pm)     == v \in Vals /\ SetPropG(k, v) /\ PersistAs(pm, r, IF ret THEN Match(k) ELSE {}, {})
RemoveProp(r, k, ret, pm)     == SetPropG(k, 0) /\ PersistAs(pm, r, IF ret THEN Match(k) ELSE {}, {})
AddLabel(r, k, ret, pm)       == AddLabelG(k) /\ PersistAs(pm, r, IF ret THEN Match(k) ELSE {}, {})
RemoveLabel(r, k, ret, pm)    == RemoveLabelG(k) /\ PersistAs(pm, r, IF ret THEN Match(k) ELSE {}, {})
DeleteNode(r, k, pm)          == DeleteNodeG(k) /\ PersistAs(pm, r, {}, {})
DetachDelete(r, k, pm)        == DetachDeleteG(k) /\ PersistAs(pm, r, {}, {})
CreateRel(r, a, b, eid, ret, pm) == CreateRelG(a, b, eid) /\ PersistAs(pm, r, {}, IF ret /\ CreatesRel(a, b) THEN {eid} ELSE {})
CreateRelAll(r, a, b, eid, pm) == CreateRelG(a, b, eid) /\ PersistAs(pm, r, IF CreatesRel(a, b) THEN Match(a) \cup Match(b) ELSE {},
                                                                       IF CreatesRel(a, b) THEN {eid} ELSE {})
SetRelProp(r, a, b, v, ret, pm)  == v \in Vals /\ SetRelPropG(a, b, v) /\ PersistAs(pm, r, {}, IF ret THEN RelsBetween(a, b) ELSE {})
DeleteRel(r, a, b, pm)        == DeleteRelG(a, b) /\ PersistAs(pm, r, {}, {})

\* main.rs start_server on the same data directory: every persisted node is inserted, then every
\* persisted relationship whose two endpoints exist (insert_recovered_edge refuses the others)
RecoveredRels == Restrict(drels, {e \in DOMAIN drels : drels[e].s \in DOMAIN dnodes /\ drels[e].t \in DOMAIN dnodes})
Restart ==
    /\ nodes' = dnodes
    /\ rels' = RecoveredRels
    /\ UNCHANGED <<dnodes, drels>>

SInit == nodes = Empty /\ rels = Empty /\ dnodes = Empty /\ drels = Empty

\* ------------------------------------------------------------------ read views (what the server serves)
\* of a graph (ns, rs): label scan MATCH (n:L) RETURN id(n), n.k ; traversal MATCH (a)-[r:T]->(b) RETURN a.k, b.k
LabelScan(ns, L) == {<<i, ns[i].k>> : i \in {j \in DOMAIN ns : L \in ns[j].lbl}}
Traversal(ns, rs) == {<<e, ns[rs[e].s].k, ns[rs[e].t].k>> : e \in DOMAIN rs}

\* ------------------------------------------------------------------ C19
Durable == dnodes = nodes /\ drels = rels
RestartKeepsServed == [][(nodes' = dnodes /\ rels' = RecoveredRels /\ UNCHANGED <<dnodes, drels>>) => (nodes' = nodes /\ rels' = rels)]_svars
WellFormedGraph == \A e \in DOMAIN rels : rels[e].s \in DOMAIN nodes /\ rels[e].t \in DOMAIN nodes
STypeOK ==
    /\ \A i \in DOMAIN nodes : nodes[i].k \in Keys /\ nodes[i].lbl \subseteq {"A", "B"} /\ nodes[i].p \in Vals \cup {0}
    /\ \A e \in DOMAIN rels : rels[e].w \in Vals \cup {0}
=============================================================================
