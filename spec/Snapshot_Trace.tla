--------------------------- MODULE Snapshot_Trace ---------------------------
(* C13 trace specification.  Per script the harness loads a pre-existing store (through  *)
(* the GraphStore API or by importing a snapshot), exports the script's snapshot graph to *)
(* a real .sgsnap, and imports it -- intact, truncated at a byte offset, or with a byte    *)
(* flipped -- with the script's dedup keys through the real import_tenant_with_dedup.      *)
(* After every call it logs the full dump of the store (every node id with its label set  *)
(* and typed properties, every relationship id with endpoints, type and properties, and    *)
(* node_count / edge_count).  S is the dump before the call.                               *)
(*   ok   => the dump is S plus the snapshot (ImportOK, ids of new entries are free)       *)
(*   err  => the dump is exactly S (ImportFail); the open finding                          *)
(*           KF_C13_MergedNodesKeepAdditions explains precisely the additions the pinned   *)
(*           tree's rollback leaves on dedup-matched nodes                                 *)
(* A panic is neither.                                                                     *)
EXTENDS Snapshot, TraceBase

VARIABLE S
tvars == <<S, l, sid, used, failed>>

Dump == Ev.obs.dump
CountsOK(d) == d.nc = Len(d.nodes) /\ d.ec = Len(d.rels)
\* script-level graph (relationships refer to node positions) as a graph whose ids are the positions
Positional(g) == [nodes |-> [i \in DOMAIN g.nodes |-> [id |-> i, labels |-> g.nodes[i].labels, props |-> g.nodes[i].props]],
                  rels |-> [i \in DOMAIN g.rels |-> [id |-> i, src |-> g.rels[i].src, dst |-> g.rels[i].dst,
                                                     type |-> g.rels[i].type, props |-> g.rels[i].props]]]

TInit == S = [nodes |-> <<>>, rels |-> <<>>, nc |-> 0, ec |-> 0] /\ TBInit
T_Reset == ResetBook /\ S' = [nodes |-> <<>>, rels |-> <<>>, nc |-> 0, ec |-> 0]
T_Fail == FailBook /\ S' = [nodes |-> <<>>, rels |-> <<>>, nc |-> 0, ec |-> 0]

\* the pre-existing store: must be the graph the script asked for
T_Load == /\ IsEv("Load")
          /\ Iso(Positional([nodes |-> Ev.nodes, rels |-> Ev.rels]), Dump) /\ CountsOK(Dump)
          /\ S' = Dump /\ Same

T_Import ==
    /\ IsEv("Import")
    /\ S' = Dump
    /\ \/ /\ Ev.res = "ok"
          /\ ImportOK(S, Ev.snap, Ev.keys, Dump)
          /\ Dump.nc + Len(S.nodes) = S.nc + Len(Dump.nodes) /\ Dump.ec = S.ec + Len(Ev.snap.rels)
          /\ Same
       \/ /\ Ev.res = "err"
          /\ ImportFail(S, Dump) /\ Dump.nc = S.nc /\ Dump.ec = S.ec
          /\ Same
       \/ /\ Ev.res = "err"
          /\ \/ KF_C13_MergedNodesKeepAdditions(S, Ev.snap, Ev.keys, Dump)
             \* a flipped byte may have changed the records that were applied before the checksum failed
             \/ Ev.mode = "flip" /\ KF_C13_MergedNodesKeepAdditions_Unknown(S, Ev.keys, Dump)
          /\ KF("KF_C13_MergedNodesKeepAdditions")

TNext == T_Fail \/ T_Reset \/ T_Load \/ T_Import
TSpec == TInit /\ [][TNext]_tvars
=============================================================================
