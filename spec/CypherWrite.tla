----------------------------- MODULE CypherWrite -----------------------------
(***************************************************************************)
(* Reference MUTATION semantics of the openCypher write fragment of        *)
(* samyama-graph (src/query/executor/operator.rs: Create* / Merge / Set /  *)
(* Remove / LabelMutation / Delete operators, CreateConstraintOperator;    *)
(* src/graph/store.rs + src/index/manager.rs for the unique-constraint     *)
(* registry) over a LOGICAL property graph.                                *)
(*                                                                         *)
(*   G.nodes : id -> [live, labels \subseteq {A,B}, props : {k,p} -> Val]  *)
(*   G.rels  : id -> [live, src, dst, type, props]                         *)
(*   G.cons  : set of "Label.key" unique constraints                       *)
(*                                                                         *)
(* A statement is an AST (records and sequences only, so that it survives  *)
(* the JSON round trip unchanged), not text:                               *)
(*   [kind |-> "constraint", label, key]                                   *)
(*   [kind |-> "write", src |-> Source, w |-> Write, ret |-> <<RetItem>>]  *)
(* Source  none | match (n) | matchwith (n) WITH n | match2 (n),(m)        *)
(*         | matchrel (n)-[r:t]->(m) | unwind <<v1..vk>> AS x              *)
(* Write   create | createrel | merge (ON CREATE / ON MATCH SET) | mergerel *)
(*         (MERGE (n)-[:t]->(m) between bound endpoints) | set             *)
(*         (property, += map, label) | remove (property, label) | delete   *)
(*         (node / relationship, DETACH) | deletemany (DELETE n, r, ..)    *)
(*                                                                         *)
(* Semantics, per openCypher: clause at a time over the row table.  The    *)
(* source clause yields the rows (a MATCH in an unspecified order - the    *)
(* order is a parameter of every action; UNWIND in list order); the write  *)
(* clause is applied row after row to the evolving graph, so MERGE sees    *)
(* what earlier rows of the same statement created; SET evaluates all its  *)
(* right-hand sides before it assigns; DELETE of a node that still has     *)
(* relationships is an error unless DETACH; a null value in a MERGE        *)
(* pattern is an error; any error (evaluation error,                       *)
(* unique-constraint violation, connected DELETE) fails the WHOLE          *)
(* statement: Stmt leaves G unchanged (C05).  RETURN is evaluated on the   *)
(* graph after the write clause.                                           *)
(*                                                                         *)
(* Unique constraints (C11): a write is refused iff afterwards two LIVE    *)
(* nodes carrying the label would hold equal non-null values for the key.  *)
(*                                                                         *)
(* Entity ids are left open: the evaluator allocates the smallest free id, *)
(* every action takes the resulting graph Gn as a parameter and demands    *)
(* that it is ISOMORPHIC to the computed one by a bijection that fixes the *)
(* entities that existed before the statement.  MC_CypherWrite passes the  *)
(* computed graph itself, CypherWrite_Trace the graph dumped from the real *)
(* store.                                                                  *)
(*                                                                         *)
(* KF_* actions are named deviations of the pinned implementation.         *)
(***************************************************************************)
EXTENDS Naturals, Sequences, FiniteSets, SequencesExt, TLC

CONSTANTS MaxN, MaxE,   \* id universes 1..MaxN, 1..MaxE
          MaxInt,       \* integer values 0..MaxInt exist as tokens "i0".."i<MaxInt>"
          Legacy        \* self-test only: names of legacy behaviours switched on ({} everywhere else)

NodeIds == 1..MaxN
EdgeIds == 1..MaxE
Labels == {"A", "B"}
Keys == {"k", "p"}

VARIABLE G

\* ------------------------------------------------------------------ values
\* Values are string tokens: "null" (null = absent), "i<n>" integers, "s<text>" strings.
Null == "null"
Err == "ERR"                       \* result of a failing evaluation, never stored
IntTokF == [i \in 0..MaxInt |-> "i" \o ToString(i)]
IsInt(t) == \E i \in 0..MaxInt : IntTokF[i] = t
IntOf(t) == CHOOSE i \in 0..MaxInt : IntTokF[i] = t
Tok(i) == IF i \in 0..MaxInt THEN IntTokF[i] ELSE Err     \* outside the modelled range: generators stay inside
\* openCypher arithmetic on the fragment: null propagates, integer division, a zero divisor and a
\* non-numeric operand are errors
Div(a, b) == IF a = Err \/ b = Err THEN Err
             ELSE IF IsInt(a) /\ IsInt(b) THEN (IF IntOf(b) = 0 THEN Err ELSE Tok(IntOf(a) \div IntOf(b)))
             ELSE IF a = Null \/ b = Null THEN Null
             ELSE Err
Add(a, b) == IF a = Err \/ b = Err THEN Err
             ELSE IF IsInt(a) /\ IsInt(b) THEN Tok(IntOf(a) + IntOf(b))
             ELSE IF a = Null \/ b = Null THEN Null
             ELSE Err

\* ------------------------------------------------------------------ the logical graph
NoProps == [key \in Keys |-> Null]
DeadNode == [live |-> FALSE, labels |-> {}, props |-> NoProps]
DeadRel == [live |-> FALSE, src |-> 0, dst |-> 0, type |-> "", props |-> NoProps]
EmptyGraph == [nodes |-> [i \in NodeIds |-> DeadNode], rels |-> [e \in EdgeIds |-> DeadRel], cons |-> {}]

GInit == G = EmptyGraph

LiveN(g) == {i \in NodeIds : g.nodes[i].live}
LiveE(g) == {e \in EdgeIds : g.rels[e].live}
Incident(g, i) == {e \in LiveE(g) : g.rels[e].src = i \/ g.rels[e].dst = i}
ConsName(l, key) == l \o "." \o key
HasFreeN(g) == LiveN(g) # NodeIds
HasFreeE(g) == LiveE(g) # EdgeIds
FreshN(g) == Min(NodeIds \ LiveN(g))
FreshE(g) == Min(EdgeIds \ LiveE(g))

\* C11: would node `id` carrying labels ls and value v for key collide with ANOTHER live node?
ConsViol(g, id, ls, key, v) ==
    /\ v # Null
    /\ \E l \in ls : /\ ConsName(l, key) \in g.cons
                     /\ \E o \in LiveN(g) \ {id} : l \in g.nodes[o].labels /\ g.nodes[o].props[key] = v

NoDuplicate(g) ==
    \A l \in Labels, key \in Keys : ConsName(l, key) \in g.cons =>
        \A a, b \in LiveN(g) :
            (a # b /\ l \in g.nodes[a].labels /\ l \in g.nodes[b].labels /\ g.nodes[a].props[key] # Null)
                => g.nodes[a].props[key] # g.nodes[b].props[key]

NoDangling(g) == \A e \in LiveE(g) : g.rels[e].src \in LiveN(g) /\ g.rels[e].dst \in LiveN(g)

\* ------------------------------------------------------------------ expressions
\* row = [n, m, r : entity id or 0 (unbound), x : value]
EmptyRow == [n |-> 0, m |-> 0, r |-> 0, c |-> 0, d |-> 0, x |-> Null]
PropOf(g, i, key) == IF i \in NodeIds /\ g.nodes[i].live THEN g.nodes[i].props[key] ELSE Null

Eval(e, row, g) ==
    CASE e.e = "none" -> Null
      [] e.e = "lit" -> e.v
      [] e.e = "x" -> row.x
      [] e.e = "div" -> Div(e.v, row.x)                               \* v / x
      [] e.e = "divlit" -> Div(e.v, e.w)                              \* v / w
      [] e.e = "prop" -> PropOf(g, row.n, e.key)                      \* n.key
      [] e.e = "propadd" -> Add(PropOf(g, row.n, e.key), e.v)         \* n.key + v
      [] e.e = "divprop" -> Div(e.v, PropOf(g, row.n, e.key))         \* v / n.key
      [] OTHER -> Err

EvalProps(pm, row, g) == [key \in Keys |-> Eval(pm[key], row, g)]
AnyErr(props) == \E key \in Keys : props[key] = Err

\* ------------------------------------------------------------------ source clause: the row table
\* a MATCH pattern carries literal property values only
Matches(g, i, pat) ==
    /\ i \in LiveN(g)
    /\ ToSet(pat.labels) \subseteq g.nodes[i].labels
    /\ \A key \in Keys : pat.props[key].e = "none"
                         \/ (pat.props[key].v # Null /\ g.nodes[i].props[key] = pat.props[key].v)

RowLess(a, b) == \/ a.n < b.n
                 \/ a.n = b.n /\ a.m < b.m
                 \/ a.n = b.n /\ a.m = b.m /\ a.r < b.r

RowSet(g, src) ==
    CASE src.kind = "none" -> {EmptyRow}
      [] src.kind \in {"match", "matchwith"} -> {[EmptyRow EXCEPT !.n = i] : i \in {j \in NodeIds : Matches(g, j, src.n)}}
      [] src.kind = "match2" ->
            {[EmptyRow EXCEPT !.n = ij[1], !.m = ij[2]] :
                ij \in {y \in NodeIds \X NodeIds : Matches(g, y[1], src.n) /\ Matches(g, y[2], src.m)}}
      [] src.kind = "matchrel" ->
            {[EmptyRow EXCEPT !.n = g.rels[e].src, !.m = g.rels[e].dst, !.r = e] :
                e \in {f \in LiveE(g) : /\ g.rels[f].type = src.t
                                        /\ Matches(g, g.rels[f].src, src.n)
                                        /\ Matches(g, g.rels[f].dst, src.m)}}
      [] OTHER -> {}

\* the row tables a statement may see: UNWIND is ordered, the order of MATCH results is unspecified
\* (all orders of a single-node MATCH; the canonical one for the product shapes, whose writes here
\* do not depend on it)
RowTables(g, src) ==
    IF src.kind = "unwind" THEN {[j \in DOMAIN src.list |-> [EmptyRow EXCEPT !.x = src.list[j]]]}
    ELSE IF src.kind \in {"match", "matchwith"} THEN SetToSeqs(RowSet(g, src))
    ELSE {SetToSortSeq(RowSet(g, src), RowLess)}

\* ------------------------------------------------------------------ write clause, one row
\* every operator below maps a graph to [err, g, out]: out = the rows the clause passes on
Fail(g) == [err |-> TRUE, g |-> g, out |-> <<>>]
Done(g, rows) == [err |-> FALSE, g |-> g, out |-> rows]

\* create one node; refused on an evaluation error or a unique-constraint collision
NewNode(g, ls, props) ==
    IF AnyErr(props) \/ ~HasFreeN(g) THEN [err |-> TRUE, g |-> g, id |-> 0]
    ELSE LET id == FreshN(g) IN
         IF \E key \in Keys : ConsViol(g, id, ls, key, props[key]) THEN [err |-> TRUE, g |-> g, id |-> 0]
         ELSE [err |-> FALSE, id |-> id,
               g |-> [g EXCEPT !.nodes[id] = [live |-> TRUE, labels |-> ls, props |-> props]]]

NewRel(g, s, d, t, props) ==
    IF AnyErr(props) \/ ~HasFreeE(g) \/ s \notin LiveN(g) \/ d \notin LiveN(g) THEN [err |-> TRUE, g |-> g]
    ELSE [err |-> FALSE,
          g |-> [g EXCEPT !.rels[FreshE(g)] = [live |-> TRUE, src |-> s, dst |-> d, type |-> t, props |-> props]]]

\* one SET item on node i with the already evaluated value(s)
SetProp(g, i, key, v) ==
    IF v = Err \/ i \notin LiveN(g) THEN Fail(g)
    ELSE IF ConsViol(g, i, g.nodes[i].labels, key, v) THEN Fail(g)
    ELSE Done([g EXCEPT !.nodes[i].props[key] = v], <<>>)       \* v = null removes the property
AddLabel(g, i, l) ==
    IF i \notin LiveN(g) THEN Fail(g)
    \* Legacy "label_add_unchecked": SET n:L never consulted the constraint registry
    ELSE IF "label_add_unchecked" \notin Legacy /\ \E key \in Keys : ConsViol(g, i, {l}, key, g.nodes[i].props[key]) THEN Fail(g)
    ELSE Done([g EXCEPT !.nodes[i].labels = @ \cup {l}], <<>>)

\* the values of the items are computed against g0 (the graph before this SET of this row)
ItemVals(it, row, g0) ==
    CASE it.kind = "prop" -> [k |-> Eval(it.val, row, g0), p |-> Null]
      [] it.kind = "map" -> EvalProps(it.props, row, g0)
      [] OTHER -> NoProps
RECURSIVE ApplyItems(_, _, _, _, _)
ApplyItems(g, i, items, vals, j) ==
    IF j > Len(items) THEN Done(g, <<>>)
    ELSE LET it == items[j]
             r == CASE it.kind = "prop" -> SetProp(g, i, it.key, vals[j].k)
                    [] it.kind = "map" ->
                          \* += writes only the keys the map names
                          LET r1 == IF it.props.k.e = "none" THEN Done(g, <<>>) ELSE SetProp(g, i, "k", vals[j].k) IN
                          IF r1.err THEN r1
                          ELSE IF it.props.p.e = "none" THEN r1 ELSE SetProp(r1.g, i, "p", vals[j].p)
                    [] it.kind = "label" -> AddLabel(g, i, it.label)
                    [] OTHER -> Fail(g)
         IN IF r.err THEN r ELSE ApplyItems(r.g, i, items, vals, j + 1)
SetItems(g, i, items, row) ==
    ApplyItems(g, i, items, [j \in DOMAIN items |-> ItemVals(items[j], row, g)], 1)

RECURSIVE ApplyRemoves(_, _, _, _)
ApplyRemoves(g, i, items, j) ==
    IF j > Len(items) THEN g
    ELSE LET it == items[j] IN
         ApplyRemoves(IF it.kind = "prop" THEN [g EXCEPT !.nodes[i].props[it.key] = Null]
                      ELSE [g EXCEPT !.nodes[i].labels = @ \ {it.label}], i, items, j + 1)

RemoveRels(g, E) == [g EXCEPT !.rels = [e \in EdgeIds |-> IF e \in E THEN DeadRel ELSE g.rels[e]]]

\* MERGE of a node pattern for one row: every match gets ON MATCH SET and a row; no match = create
RECURSIVE MergeMatched(_, _, _, _, _)
MergeMatched(g, todo, items, row, out) ==
    IF todo = {} THEN Done(g, out)
    ELSE LET i == Min(todo)
             r == SetItems(g, i, items, [row EXCEPT !.n = i])
         IN IF r.err THEN Fail(g) ELSE MergeMatched(r.g, todo \ {i}, items, row, Append(out, [row EXCEPT !.n = i]))

ApplyRow(g, row, w) ==
    CASE w.kind = "create" ->
            LET r == NewNode(g, ToSet(w.n.labels), EvalProps(w.n.props, row, g)) IN
            IF r.err THEN Fail(g) ELSE Done(r.g, <<[row EXCEPT !.c = r.id]>>)
      [] w.kind = "createrel" ->
            \* CREATE (src)-[:t props]->(dst): an end is a bound variable or a new node
            LET rs == IF w.src.kind = "var" THEN [err |-> FALSE, g |-> g, id |-> row[w.src.var]]
                      ELSE NewNode(g, ToSet(w.src.n.labels), EvalProps(w.src.n.props, row, g))
            IN IF rs.err THEN Fail(g)
               ELSE LET rd == IF w.dst.kind = "var" THEN [err |-> FALSE, g |-> rs.g, id |-> row[w.dst.var]]
                              ELSE NewNode(rs.g, ToSet(w.dst.n.labels), EvalProps(w.dst.n.props, row, g))
                    IN IF rd.err THEN Fail(g)
                       ELSE LET rr == NewRel(rd.g, rs.id, rd.id, w.t, EvalProps(w.props, row, g)) IN
                            IF rr.err THEN Fail(g)
                            ELSE Done(rr.g, <<[row EXCEPT !.c = IF w.src.kind = "var" THEN 0 ELSE rs.id,
                                                          !.d = IF w.dst.kind = "var" THEN 0 ELSE rd.id]>>)
      [] w.kind = "merge" ->
            LET props == EvalProps(w.n.props, row, g) IN
            \* a null value in a MERGE pattern is an error (it could never match what it creates)
            IF AnyErr(props) \/ \E key \in Keys : w.n.props[key].e # "none" /\ props[key] = Null THEN Fail(g)
            ELSE LET found == {i \in LiveN(g) : /\ ToSet(w.n.labels) \subseteq g.nodes[i].labels
                                                /\ \A key \in Keys : w.n.props[key].e = "none"
                                                                     \/ (props[key] # Null /\ g.nodes[i].props[key] = props[key])}
                 IN IF found # {} THEN MergeMatched(g, found, w.onmatch, row, <<>>)
                    ELSE LET r == NewNode(g, ToSet(w.n.labels), props) IN
                         IF r.err THEN Fail(g)
                         ELSE LET r2 == SetItems(r.g, r.id, w.oncreate, [row EXCEPT !.n = r.id]) IN
                              IF r2.err THEN Fail(g) ELSE Done(r2.g, <<[row EXCEPT !.n = r.id]>>)
      [] w.kind = "mergerel" ->
            \* MERGE (n)-[r:t]->(m) between bound endpoints: every existing t-relationship n->m is a match (one row
            \* each, nothing changes); none = exactly one is created.  Legacy "merge_rel_blind": it never looked.
            LET found == {e \in LiveE(g) : g.rels[e].type = w.t /\ g.rels[e].src = row.n /\ g.rels[e].dst = row.m} IN
            IF found # {} /\ "merge_rel_blind" \notin Legacy
            THEN Done(g, [j \in 1..Cardinality(found) |-> row])
            ELSE LET rr == NewRel(g, row.n, row.m, w.t, NoProps) IN
                 IF rr.err THEN Fail(g) ELSE Done(rr.g, <<row>>)
      [] w.kind = "set" ->
            LET r == SetItems(g, row.n, w.items, row) IN
            IF r.err THEN Fail(g) ELSE Done(r.g, <<row>>)
      [] w.kind = "remove" ->
            IF row.n \notin LiveN(g) THEN Done(g, <<row>>) ELSE Done(ApplyRemoves(g, row.n, w.items, 1), <<row>>)
      [] w.kind = "delete" ->
            IF w.var = "r" THEN Done(RemoveRels(g, {row.r}), <<row>>)
            ELSE LET i == row[w.var] IN
                 IF i \notin LiveN(g) THEN Done(g, <<row>>)                      \* already deleted by an earlier row
                 \* connected DELETE is refused (Legacy "delete_connected": it removed the relationships instead)
                 ELSE IF ~w.detach /\ Incident(g, i) # {} /\ "delete_connected" \notin Legacy THEN Fail(g)
                 ELSE Done([RemoveRels(g, Incident(g, i)) EXCEPT !.nodes[i] = DeadNode], <<row>>)
      [] OTHER -> Fail(g)

\* the write clause over the whole row table: [err, g, out, at]
\*   err: g = the graph when the failing row (index at) started, i.e. with rows 1..at-1 applied
RECURSIVE Run(_, _, _, _, _)
\*   pg: the same, plus what a failing SET row leaves when its items are applied one after the other
\*       (all right-hand sides evaluate first; only an item refused at APPLY time - a unique constraint - can
\*       fail after earlier items of the row were written).  pg = g everywhere else.
PartialSet(g, row, w) ==
    IF w.kind # "set" THEN g
    ELSE LET vals == [j \in DOMAIN w.items |-> ItemVals(w.items[j], row, g)] IN
         IF \E j \in DOMAIN vals : AnyErr(vals[j]) THEN g
         ELSE ApplyItems(g, row.n, w.items, vals, 1).g
Run(g, out, rows, j, w) ==
    IF j > Len(rows) THEN [err |-> FALSE, g |-> g, pg |-> g, out |-> out, at |-> 0]
    ELSE LET r == ApplyRow(g, rows[j], w) IN
         IF r.err THEN [err |-> TRUE, g |-> g, pg |-> PartialSet(g, rows[j], w), out |-> <<>>, at |-> j]
         ELSE Run(r.g, out \o r.out, rows, j + 1, w)

RetVal(item, row, g) ==
    IF item.e = "x" THEN row.x ELSE PropOf(g, row[item.var], item.key)
RetRows(g, out, ret) ==
    IF ret = <<>> THEN <<>> ELSE [j \in DOMAIN out |-> [c \in DOMAIN ret |-> RetVal(ret[c], out[j], g)]]

\* DELETE naming several variables (DELETE n, r / DELETE r, n, m ...) is decided over the WHOLE row table, whatever
\* the order of the names: a node may go without DETACH exactly when every relationship it has is deleted by the same
\* clause; otherwise the statement is refused and - like every refused statement - nothing is deleted, not even the
\* relationships it names.
DeleteTable(g, rows, w) ==
    LET vs == ToSet(w.vars)
        R0 == IF "r" \in vs THEN {rows[j].r : j \in DOMAIN rows} \cap LiveE(g) ELSE {}
        N == UNION {{rows[j][v] : j \in DOMAIN rows} : v \in vs \ {"r"}} \cap LiveN(g)
        R == IF w.detach THEN R0 \cup UNION {Incident(g, i) : i \in N} ELSE R0
    IN IF \E i \in N : ~(Incident(g, i) \subseteq R)
       THEN [err |-> TRUE, g |-> g, pg |-> g, out |-> <<>>, at |-> 0]
       ELSE [err |-> FALSE, pg |-> g, out |-> rows, at |-> 0,
             g |-> [RemoveRels(g, R) EXCEPT !.nodes = [i \in NodeIds |-> IF i \in N THEN DeadNode ELSE g.nodes[i]]]]

Exec(g, st, rows) ==
    LET r == IF st.w.kind = "deletemany" THEN DeleteTable(g, rows, st.w) ELSE Run(g, <<>>, rows, 1, st.w) IN
    [err |-> r.err, g |-> r.g, pg |-> r.pg, at |-> r.at, rows |-> IF r.err THEN <<>> ELSE RetRows(r.g, r.out, st.ret)]

\* ------------------------------------------------------------------ isomorphism that fixes the old entities
Injections(S, T) == {f \in [S -> T] : \A a, b \in S : a # b => f[a] # f[b]}
RelContent(g, e, s(_)) == <<s(g.rels[e].src), s(g.rels[e].dst), g.rels[e].type, g.rels[e].props>>
Id(i) == i
\* g1 (computed) and g2 (given) agree up to a renaming of the entities that did not exist in g0
IsoSearch(g1, g2, g0) ==
    LET oldN == LiveN(g0)
        oldE == LiveE(g0)
        N1 == LiveN(g1) \ oldN
        N2 == LiveN(g2) \ oldN
        E1 == LiveE(g1) \ oldE
        E2 == LiveE(g2) \ oldE
    IN /\ g1.cons = g2.cons
       /\ LiveN(g1) \cap oldN = LiveN(g2) \cap oldN
       /\ LiveE(g1) \cap oldE = LiveE(g2) \cap oldE
       /\ Cardinality(N1) = Cardinality(N2)
       /\ Cardinality(E1) = Cardinality(E2)
       /\ \A i \in NodeIds \ LiveN(g2) : g2.nodes[i] = DeadNode
       /\ \A e \in EdgeIds \ LiveE(g2) : g2.rels[e] = DeadRel
       /\ \E sigma \in Injections(N1, N2) :
             LET s(i) == IF i \in N1 THEN sigma[i] ELSE i IN
             /\ \A i \in LiveN(g1) : g2.nodes[s(i)] = g1.nodes[i]
             /\ \A e \in LiveE(g1) \cap oldE : RelContent(g2, e, Id) = RelContent(g1, e, s)
             /\ \A e \in E1 : Cardinality({f \in E1 : RelContent(g1, f, s) = RelContent(g1, e, s)})
                               = Cardinality({f \in E2 : RelContent(g2, f, Id) = RelContent(g1, e, s)})

Iso(g1, g2, g0) ==
    \/ g1 = g2                                  \* same ids (the common case): no search
    \/ IsoSearch(g1, g2, g0)

\* ------------------------------------------------------------------ ideal actions
\* err = what the caller was told; Gn = the graph afterwards (ids of new entities as the implementation chose them);
\* rows = the row table the source clause produced (one of RowTables)

\* CREATE CONSTRAINT ON (n:label) ASSERT n.key IS UNIQUE: refused when the existing nodes already collide
HasDuplicate(g, l, key) ==
    \E a, b \in LiveN(g) : /\ a # b /\ l \in g.nodes[a].labels /\ l \in g.nodes[b].labels
                           /\ g.nodes[a].props[key] # Null /\ g.nodes[a].props[key] = g.nodes[b].props[key]
CreateConstraint(st, err, Gn) ==
    /\ st.kind = "constraint"
    /\ err = HasDuplicate(G, st.label, st.key)
    /\ Gn = IF err THEN G ELSE [G EXCEPT !.cons = @ \cup {ConsName(st.label, st.key)}]
    /\ G' = Gn

\* r = Exec(G, st, rows), computed once by the caller
StmtR(r, err, Gn) ==
    /\ err = r.err
    /\ IF r.err THEN Gn = G ELSE Iso(r.g, Gn, G)
    /\ G' = Gn
Stmt(st, rows, err, Gn) ==
    /\ st.kind = "write"
    /\ rows \in RowTables(G, st.src)
    /\ StmtR(Exec(G, st, rows), err, Gn)

\* ------------------------------------------------------------------ named deviations
\* KF_C05_RowByRowApply: the executor streams rows through the mutating operators and applies each
\* row as it arrives (MutQueryExecutor::execute_plan_mut); there is no statement-level undo, so when
\* row `at` fails the statement returns the error and the effects of rows 1..at-1 stay - exactly
\* those: the failing row itself and the rows after it leave nothing.
KF_C05_RowByRowApplyR(r, err, Gn) ==
    /\ r.err /\ err
    /\ r.at > 1 /\ r.g # G                  \* only differs from the ideal action then
    /\ Iso(r.g, Gn, G)
    /\ G' = Gn
\* KF_C05_SetItemsApplied: inside ONE row, SET applies its items one after the other; when a later item is
\* refused at apply time (unique constraint), the earlier items of that row - and the rows before it - stay.
KF_C05_SetItemsAppliedR(r, err, Gn) ==
    /\ r.err /\ err
    /\ r.pg # r.g                            \* only differs from the row-level deviation then
    /\ Iso(r.pg, Gn, G)
    /\ G' = Gn
KF_C05_RowByRowApply(st, rows, err, Gn) ==
    /\ st.kind = "write"
    /\ rows \in RowTables(G, st.src)
    /\ KF_C05_RowByRowApplyR(Exec(G, st, rows), err, Gn)

\* ------------------------------------------------------------------ design-level properties
TypeOK ==
    /\ \A i \in NodeIds : G.nodes[i].labels \subseteq Labels /\ DOMAIN G.nodes[i].props = Keys
    /\ \A i \in NodeIds \ LiveN(G) : G.nodes[i] = DeadNode
    /\ \A e \in EdgeIds \ LiveE(G) : G.rels[e] = DeadRel
C11_NoDuplicate == NoDuplicate(G)
C04_NoDangling == NoDangling(G)
=============================================================================
