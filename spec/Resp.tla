-------------------------------- MODULE Resp --------------------------------
(***************************************************************************)
(* The RESP front end of samyama-graph: src/protocol/resp.rs (RespValue::   *)
(* encode / decode), the read loop of src/protocol/server.rs                *)
(* (handle_connection) and the reply side of src/protocol/command.rs.       *)
(*                                                                         *)
(* Bytes are naturals 0..255, byte strings are sequences of bytes.          *)
(*                                                                         *)
(* GRAMMAR.  Top(b) classifies a receive buffer b:                          *)
(*   [k |-> "frame", v, j]  b starts with one well-formed frame that        *)
(*                          denotes value v; the next frame starts at b[j]  *)
(*   [k |-> "need"]         b is a proper prefix of a well-formed frame     *)
(*   [k |-> "open"]         anything else (malformed, or outside the limits *)
(*                          every server may impose).  The properties leave *)
(*                          the decoder's answer open here - except that it *)
(*                          must be an answer (C21).                        *)
(* "Well-formed" is the RESP standard as spoken by this server: simple      *)
(* string / error lines without CR or LF, canonical decimal integers and    *)
(* lengths, $-1, bulk strings of any bytes, arrays of typed frames, _ and,   *)
(* at top level only, an inline command line (space / tab separated words,  *)
(* no quoting) which denotes the array of its words.                        *)
(*                                                                         *)
(* MACHINE.  One connection: Open(w) fixes the byte stream a client will    *)
(* send (a sequence of well-formed frames), Deliver(c) is one successful    *)
(* socket read appending chunk c to the receive buffer, Decode is one       *)
(* iteration of the server's inner loop (RespValue::decode, and on a value  *)
(* handle_command + encode + write), End closes.  LiveSend/LiveClose is the *)
(* same connection seen from a real client socket; BigOpen/BigSend/BigClose *)
(* a live connection whose first frame is tens of kilobytes (kept          *)
(* run-length encoded), so that behaviour of the connection loop that      *)
(* depends on how much is buffered is exercised.  Probe is one decode      *)
(* call on an arbitrary buffer, Command one handle_command + encode.        *)
(*                                                                         *)
(* PROPERTIES.  C20: decoded = sent for every chunking, one reply per       *)
(* frame, Top(Encode(v)) = v.  C21: Probe never yields panic / abort and    *)
(* reserves at most MemFactor * bytes + MemSlack.  C22: every reply is      *)
(* exactly one typed well-formed frame (StrictOne).                         *)
(*                                                                         *)
(* Legacy* operators describe what the pinned tree did (header consumed     *)
(* before "incomplete"; error text written raw) and are used by self-test   *)
(* configurations only: TLC must find the counterexamples.                  *)
(***************************************************************************)
EXTENDS Naturals, Sequences, FiniteSets

CONSTANTS MaxDepth,    \* arrays nested at most this deep must be decoded (deeper: open)
          MaxBulk,     \* bulk strings up to this length must be decoded (longer: open)
          MaxArray,    \* arrays up to this many elements must be decoded (more: open)
          MemFactor, MemSlack   \* C21: reserved <= MemFactor * received + MemSlack

CR == 13   LF == 10   SP == 32   TAB == 9   QUOTE == 34   BSLASH == 92
PLUS == 43   MINUS == 45   COLON == 58   DOLLAR == 36   STAR == 42   USCORE == 95
ZERO == 48
CRLF == <<CR, LF>>
TypeBytes == {PLUS, MINUS, COLON, DOLLAR, STAR, USCORE}

\* ---------------------------------------------------------------- values
Simple(s) == [t |-> "simple", s |-> s]
Error(s)  == [t |-> "error", s |-> s]
Int(s)    == [t |-> "int", s |-> s]        \* s = canonical decimal text (i64 does not fit TLC integers)
Bulk(s)   == [t |-> "bulk", s |-> s]
NullBulk  == [t |-> "nullbulk"]
Arr(a)    == [t |-> "array", a |-> a]
Null      == [t |-> "null"]

RECURSIVE Dec(_)
Dec(n) == IF n < 10 THEN <<ZERO + n>> ELSE Dec(n \div 10) \o <<ZERO + (n % 10)>>

RECURSIVE Flat(_)
Flat(ss) == IF ss = <<>> THEN <<>> ELSE Head(ss) \o Flat(Tail(ss))

\* RespValue::encode.  A simple string / error is one line: CR and LF inside its text are written
\* as spaces; a bulk string announces its length in BYTES.  mode = "clean" is that encoder; the other
\* modes exist for self-tests only: "raw" wrote line text as it is (the pinned tree), "chars" announces
\* the number of UTF-8 characters (bytes that are not continuation bytes 10xxxxxx) of a bulk string.
Clean(s) == [i \in 1..Len(s) |-> IF s[i] \in {CR, LF} THEN SP ELSE s[i]]
Chars(s) == Cardinality({i \in 1..Len(s) : s[i] \notin 128..191})
RECURSIVE EncodeWith(_, _)
EncodeWith(v, mode) ==
    CASE v.t = "simple"   -> <<PLUS>> \o (IF mode = "raw" THEN v.s ELSE Clean(v.s)) \o CRLF
      [] v.t = "error"    -> <<MINUS>> \o (IF mode = "raw" THEN v.s ELSE Clean(v.s)) \o CRLF
      [] v.t = "int"      -> <<COLON>> \o v.s \o CRLF
      [] v.t = "nullbulk" -> <<DOLLAR, MINUS, 49>> \o CRLF
      [] v.t = "bulk"     -> <<DOLLAR>> \o Dec(IF mode = "chars" THEN Chars(v.s) ELSE Len(v.s)) \o CRLF \o v.s \o CRLF
      [] v.t = "array"    -> <<STAR>> \o Dec(Len(v.a)) \o CRLF \o Flat([i \in 1..Len(v.a) |-> EncodeWith(v.a[i], mode)])
      [] v.t = "null"     -> <<USCORE>> \o CRLF
Encode(v) == EncodeWith(v, "clean")

\* ---------------------------------------------------------------- grammar
Need == [k |-> "need"]
Opn  == [k |-> "open"]
Fr(v, j) == [k |-> "frame", v |-> v, j |-> j]

IsDigit(c) == c \in 48..57
AllDigits(s) == \A i \in 1..Len(s) : IsDigit(s[i])
IsAscii(s) == \A i \in 1..Len(s) : s[i] < 128
IsNatPrefix(s) == AllDigits(s) /\ (Len(s) > 1 => s[1] # ZERO)
IsNat(s) == Len(s) >= 1 /\ IsNatPrefix(s)
IsNeg(s, P(_)) == Len(s) >= 1 /\ s[1] = MINUS /\ P(Tail(s)) /\ (Len(s) >= 2 => s[2] # ZERO)
\* canonical integers of at most 18 digits (all of them fit i64)
IsInt(s) == (IsNat(s) /\ Len(s) <= 18) \/ (Len(s) >= 2 /\ Len(s) <= 19 /\ IsNeg(s, IsNat))
IsIntPrefix(s) == (IsNatPrefix(s) /\ Len(s) <= 18) \/ (Len(s) <= 19 /\ IsNeg(s, IsNatPrefix))

RECURSIVE ToNat(_)
ToNat(s) == IF s = <<>> THEN 0 ELSE ToNat(SubSeq(s, 1, Len(s) - 1)) * 10 + (s[Len(s)] - ZERO)
IsLenPrefix(s, max) == IsNatPrefix(s) /\ Len(s) <= 9 /\ ToNat(s) <= max
IsLen(s, max) == Len(s) >= 1 /\ IsLenPrefix(s, max)
M1 == <<MINUS, 49>>

\* first index >= i holding CR or LF (Len(b)+1 if none)
RECURSIVE Scan(_, _)
Scan(b, i) == IF i > Len(b) THEN i ELSE IF b[i] \in {CR, LF} THEN i ELSE Scan(b, i + 1)

\* the line starting at b[i]: body = maximal run without CR / LF, then CR LF
Line(b, i) ==
    LET p == Scan(b, i) IN
    IF p > Len(b) THEN [k |-> "need", body |-> SubSeq(b, i, Len(b)), cr |-> FALSE]
    ELSE IF b[p] = LF THEN Opn
    ELSE IF p = Len(b) THEN [k |-> "need", body |-> SubSeq(b, i, p - 1), cr |-> TRUE]
    ELSE IF b[p + 1] = LF THEN [k |-> "line", body |-> SubSeq(b, i, p - 1), j |-> p + 2]
    ELSE Opn

\* header of $ / *: a complete header must be a length (or -1 when nullOk); an incomplete one
\* must still be extensible to one
HeaderNeed(ln, max, nullOk) ==
    IF ln.cr THEN IsLen(ln.body, max) \/ (nullOk /\ ln.body = M1)
    ELSE IsLenPrefix(ln.body, max) \/ (nullOk /\ ln.body \in {<<MINUS>>, M1})

RECURSIVE Frame(_, _, _, _), Elems(_, _, _, _, _, _)
\* the typed frame starting at b[i], inside d enclosing arrays.  lax = FALSE (what a server must
\* decode): the text of a simple string / error is ASCII (the implementation keeps it in a UTF-8
\* String; other bytes are left open).  lax = TRUE (what a client may be sent): any bytes but CR / LF.
Frame(b, i, d, lax) ==
    IF i > Len(b) THEN Need ELSE
    LET c == b[i] IN
    CASE c \in {PLUS, MINUS} ->
           LET ln == Line(b, i + 1) IN
           IF ln.k = "open" THEN Opn
           ELSE IF ~lax /\ ~IsAscii(ln.body) THEN Opn
           ELSE IF ln.k = "need" THEN Need
           ELSE Fr(IF c = PLUS THEN Simple(ln.body) ELSE Error(ln.body), ln.j)
      [] c = COLON ->
           LET ln == Line(b, i + 1) IN
           IF ln.k = "open" THEN Opn
           ELSE IF ln.k = "need"
                THEN (IF (IF ln.cr THEN IsInt(ln.body) ELSE IsIntPrefix(ln.body)) THEN Need ELSE Opn)
           ELSE IF IsInt(ln.body) THEN Fr(Int(ln.body), ln.j) ELSE Opn
      [] c = DOLLAR ->
           LET ln == Line(b, i + 1) IN
           IF ln.k = "open" THEN Opn
           ELSE IF ln.k = "need" THEN (IF HeaderNeed(ln, MaxBulk, TRUE) THEN Need ELSE Opn)
           ELSE IF ln.body = M1 THEN Fr(NullBulk, ln.j)
           ELSE IF ~IsLen(ln.body, MaxBulk) THEN Opn
           ELSE LET e == ln.j + ToNat(ln.body) IN      \* where the closing CR must be
                IF Len(b) < e THEN Need
                ELSE IF b[e] # CR THEN Opn
                ELSE IF Len(b) < e + 1 THEN Need
                ELSE IF b[e + 1] # LF THEN Opn
                ELSE Fr(Bulk(SubSeq(b, ln.j, e - 1)), e + 2)
      [] c = STAR ->
           IF d >= MaxDepth THEN Opn ELSE
           LET ln == Line(b, i + 1) IN
           IF ln.k = "open" THEN Opn
           ELSE IF ln.k = "need" THEN (IF HeaderNeed(ln, MaxArray, FALSE) THEN Need ELSE Opn)
           ELSE IF ~IsLen(ln.body, MaxArray) THEN Opn
           ELSE Elems(b, ln.j, ToNat(ln.body), d + 1, <<>>, lax)
      [] c = USCORE ->
           IF i + 1 > Len(b) THEN Need
           ELSE IF b[i + 1] # CR THEN Opn
           ELSE IF i + 2 > Len(b) THEN Need
           ELSE IF b[i + 2] # LF THEN Opn
           ELSE Fr(Null, i + 3)
      [] OTHER -> Opn

Elems(b, i, n, d, acc, lax) ==
    IF n = 0 THEN Fr(Arr(acc), i)
    ELSE IF i > Len(b) THEN Need
    ELSE IF b[i] \notin TypeBytes THEN Opn
    ELSE LET r == Frame(b, i, d, lax) IN
         IF r.k # "frame" THEN r ELSE Elems(b, r.j, n - 1, d, Append(acc, r.v), lax)

RECURSIVE Tok(_, _, _, _)
Tok(s, i, cur, acc) ==
    IF i > Len(s) THEN (IF cur = <<>> THEN acc ELSE Append(acc, cur))
    ELSE IF s[i] \in {SP, TAB} THEN Tok(s, i + 1, <<>>, IF cur = <<>> THEN acc ELSE Append(acc, cur))
    ELSE Tok(s, i + 1, Append(cur, s[i]), acc)
Words(s) == Tok(s, 1, <<>>, <<>>)
InlineSafe(s) == \A i \in 1..Len(s) : s[i] < 128 /\ s[i] \notin {QUOTE, BSLASH}

\* inline command (first byte is not a type byte): the quoting dialect is left open
Inline(b) ==
    LET ln == Line(b, 1) IN
    IF ln.k = "open" THEN Opn
    ELSE IF ~InlineSafe(ln.body) THEN Opn
    ELSE IF ln.k = "need" THEN (IF ln.cr /\ Words(ln.body) = <<>> THEN Opn ELSE Need)
    ELSE LET w == Words(ln.body) IN
         IF w = <<>> THEN Opn ELSE Fr(Arr([x \in 1..Len(w) |-> Bulk(w[x])]), ln.j)

Top(b) ==
    IF b = <<>> THEN Need
    ELSE IF b[1] \in TypeBytes THEN Frame(b, 1, 0, FALSE)
    ELSE Inline(b)

\* what a client may receive: typed frames only
TopTyped(b) == IF b = <<>> THEN Need ELSE IF b[1] \in TypeBytes THEN Frame(b, 1, 0, TRUE) ELSE Opn

RECURSIVE ParseAllFrom(_, _, _)
ParseAllFrom(b, acc, typed) ==
    IF b = <<>> THEN [ok |-> TRUE, vs |-> acc]
    ELSE LET r == IF typed THEN TopTyped(b) ELSE Top(b) IN
         IF r.k # "frame" THEN [ok |-> FALSE, vs |-> acc]
         ELSE ParseAllFrom(SubSeq(b, r.j, Len(b)), Append(acc, r.v), typed)
ParseAll(b) == ParseAllFrom(b, <<>>, FALSE)
ParseReplies(b) == ParseAllFrom(b, <<>>, TRUE)

\* C22: the bytes are exactly one typed well-formed frame
StrictOne(b) == LET r == TopTyped(b) IN r.k = "frame" /\ r.j = Len(b) + 1

\* ---------------------------------------------------------------- replies
Upper(s) == [i \in 1..Len(s) |-> IF s[i] \in 97..122 THEN s[i] - 32 ELSE s[i]]
PINGb == <<80, 73, 78, 71>>
ECHOb == <<69, 67, 72, 79>>
PONGb == <<80, 79, 78, 71>>
IsCmd(v, name) == v.t = "array" /\ Len(v.a) >= 1 /\ v.a[1].t = "bulk" /\ IsAscii(v.a[1].s) /\ Upper(v.a[1].s) = name

\* The answer to a frame is whatever the command layer says (left open), except for the two
\* pure commands, whose answers are functions of the frame: they pin reply i to frame i.
ReplyValOK(f, r) ==
    IF IsCmd(f, PINGb) THEN
         IF Len(f.a) = 1 THEN r = Simple(PONGb)
         ELSE IF f.a[2].t = "bulk" /\ IsAscii(f.a[2].s) THEN r = Bulk(f.a[2].s)
         ELSE TRUE
    ELSE IF IsCmd(f, ECHOb) /\ Len(f.a) >= 2 /\ f.a[2].t = "bulk" THEN r = Bulk(f.a[2].s)
    ELSE TRUE
ReplyOK(f, rb) == StrictOne(rb) /\ ReplyValOK(f, TopTyped(rb).v)

\* ---------------------------------------------------------------- a model of the command layer
\* (design checks only; trace validation never predicts reply texts).  Error replies quote client text.
ERRb == <<69, 82, 82, 32>>
ModelReply(f) ==
    IF f.t # "array" THEN Error(ERRb \o <<110, 111, 116, 32, 97, 114, 114, 97, 121>>)      \* "ERR not array"
    ELSE IF f.a = <<>> THEN Error(ERRb \o <<101, 109, 112, 116, 121>>)                      \* "ERR empty"
    ELSE IF f.a[1].t # "bulk" THEN Error(ERRb \o <<110, 117, 108, 108>>)                    \* "ERR null"
    ELSE IF IsCmd(f, PINGb) THEN (IF Len(f.a) = 1 THEN Simple(PONGb) ELSE f.a[2])
    ELSE IF IsCmd(f, ECHOb) /\ Len(f.a) >= 2 THEN f.a[2]
    ELSE Error(ERRb \o Upper(f.a[1].s))                                                    \* "ERR <NAME>"

\* ---------------------------------------------------------------- the connection
VARIABLES wire,      \* bytes the client has not yet got through to the server
          buf,       \* the server's receive buffer
          sent,      \* the frames the client sends on this connection (values)
          decoded,   \* frames the server has decoded so far
          out,       \* replies written so far (byte strings)
          st,        \* "idle" | "reading" | "decoding" | "live" | "closed"
          big        \* live connection opened with a big frame: what is left of that frame to send (else NoBig)
rvars == <<wire, buf, sent, decoded, out, st, big>>
NoBig == [on |-> FALSE]

RInit == wire = <<>> /\ buf = <<>> /\ sent = <<>> /\ decoded = <<>> /\ out = <<>> /\ st = "idle" /\ big = NoBig

IsPrefix(p, s) == Len(p) <= Len(s) /\ SubSeq(s, 1, Len(p)) = p
Drop(s, n) == SubSeq(s, n + 1, Len(s))

\* a client connects; w = the concatenation of the well-formed frames it is going to send
Open(w, live) ==
    /\ st = "idle"
    /\ LET pa == ParseAll(w) IN pa.ok /\ sent' = pa.vs
    /\ wire' = w /\ buf' = <<>> /\ decoded' = <<>> /\ out' = <<>>
    /\ st' = IF live THEN "live" ELSE "reading"
    /\ big' = NoBig

\* socket.read_buf returned the next chunk c
Deliver(c) ==
    /\ st = "reading" /\ c # <<>> /\ IsPrefix(c, wire)
    /\ wire' = Drop(wire, Len(c)) /\ buf' = buf \o c /\ st' = "decoding"
    /\ UNCHANGED <<sent, decoded, out, big>>

\* one iteration of the inner loop: res / val / rb are what RespValue::decode returned and the
\* bytes written for it.  Decoding commits only when a whole frame is there.
Decode(res, val, rb) ==
    /\ st = "decoding"
    /\ LET r == Top(buf) IN
       \/ /\ r.k = "frame" /\ res = "value" /\ val = r.v /\ ReplyOK(r.v, rb)
          /\ decoded' = Append(decoded, r.v) /\ out' = Append(out, rb)
          /\ buf' = Drop(buf, r.j - 1) /\ st' = "decoding"
       \/ /\ r.k = "need" /\ res = "need"
          /\ st' = "reading" /\ UNCHANGED <<buf, decoded, out>>
    /\ UNCHANGED <<wire, sent, big>>

\* the client has sent everything and everything was answered
End ==
    /\ st = "reading" /\ wire = <<>>
    /\ decoded = sent /\ Len(out) = Len(sent) /\ buf = <<>>
    /\ st' = "idle" /\ UNCHANGED <<wire, buf, sent, decoded, out, big>>

\* the same connection observed from a client socket of a running server
LiveSend(c) ==
    /\ st = "live" /\ ~big.on /\ c # <<>> /\ IsPrefix(c, wire)
    /\ wire' = Drop(wire, Len(c)) /\ UNCHANGED <<buf, sent, decoded, out, st, big>>
\* the client half-closes and reads rb until the server closes
LiveClose(rb) ==
    /\ st = "live" /\ ~big.on /\ wire = <<>>
    /\ LET pr == ParseReplies(rb) IN
          /\ pr.ok /\ Len(pr.vs) = Len(sent)
          /\ \A i \in 1..Len(sent) : ReplyValOK(sent[i], pr.vs[i])
    /\ st' = "idle" /\ UNCHANGED <<wire, buf, sent, decoded, out, big>>

\* ---- a live connection whose first frame is BIG: ECHO of n copies of byte c (tens of kilobytes, so
\* that the connection loop's handling of a grown receive buffer is exercised), followed by the
\* ordinary stream w.  The frame is never expanded: its bytes are BigHeader(n), the run c^n, CR LF;
\* a chunk is [pre, run, post] = bytes of the header, number of payload bytes, bytes of CRLF \o w.
BigHeader(n) == <<STAR, 50>> \o CRLF \o <<DOLLAR, 52>> \o CRLF \o ECHOb \o CRLF \o <<DOLLAR>> \o Dec(n) \o CRLF
BigEcho(c, n) == [t |-> "bigecho", c |-> c, n |-> n]
BigOpen(c, n, w) ==
    /\ st = "idle"
    /\ c \in 0..255 \ {CR, LF} /\ n \in 32..MaxBulk
    /\ LET pa == ParseAll(w) IN pa.ok /\ sent' = <<BigEcho(c, n)>> \o pa.vs
    /\ wire' = CRLF \o w /\ buf' = <<>> /\ decoded' = <<>> /\ out' = <<>>
    /\ big' = [on |-> TRUE, a |-> BigHeader(n), run |-> n, c |-> c, n |-> n]
    /\ st' = "live"
\* the client writes the next bytes of the stream: nothing is skipped, nothing reordered
BigSend(ch) ==
    /\ st = "live" /\ big.on
    /\ Len(ch.pre) + ch.run + Len(ch.post) > 0
    /\ IsPrefix(ch.pre, big.a)
    /\ ch.run \in 0..big.run /\ (ch.run > 0 => ch.pre = big.a)
    /\ IsPrefix(ch.post, wire) /\ (ch.post # <<>> => ch.pre = big.a /\ ch.run = big.run)
    /\ big' = [big EXCEPT !.a = Drop(@, Len(ch.pre)), !.run = @ - ch.run]
    /\ wire' = Drop(wire, Len(ch.post))
    /\ UNCHANGED <<buf, sent, decoded, out, st>>
\* the client half-closes and reads until the server closes: rep = [head, c, run, rest] are the bytes
\* received, with their first long run of one byte (c^run) left unexpanded.  Exactly: the bulk reply
\* of the big ECHO, then one reply per following frame.
BigClose(rep) ==
    /\ st = "live" /\ big.on /\ big.a = <<>> /\ big.run = 0 /\ wire = <<>>
    /\ rep.head = <<DOLLAR>> \o Dec(big.n) \o CRLF /\ rep.c = big.c /\ rep.run = big.n
    /\ IsPrefix(CRLF, rep.rest)
    /\ LET pr == ParseReplies(Drop(rep.rest, 2)) IN
          /\ pr.ok /\ Len(pr.vs) = Len(sent) - 1
          /\ \A i \in 1..Len(pr.vs) : ReplyValOK(sent[i + 1], pr.vs[i])
    /\ st' = "idle" /\ big' = NoBig /\ UNCHANGED <<wire, buf, sent, decoded, out>>

\* ---- C21: one decode call on an arbitrary receive buffer b.  res in value / need / error
\* / panic / abort, rest = bytes left in the buffer, peak = bytes reserved during the call
Safe(n, res, peak) == res \in {"value", "need", "error"} /\ peak <= MemFactor * n + MemSlack
Probe(b, res, val, rest, peak) ==
    /\ st = "idle"
    /\ Safe(Len(b), res, peak)
    /\ rest <= Len(b)
    /\ LET r == Top(b) IN
       /\ r.k = "frame" => res = "value" /\ val = r.v /\ rest = Len(b) - (r.j - 1)
       /\ r.k = "need" => res = "need" /\ rest = Len(b)
    /\ UNCHANGED rvars

\* ---- C22: one command executed and its reply encoded: rb are the bytes written
Command(f, rb) ==
    /\ st = "idle"
    /\ ReplyOK(f, rb)
    /\ UNCHANGED rvars

\* ---------------------------------------------------------------- design-level properties
IsSeqPrefix(p, s) == Len(p) <= Len(s) /\ \A i \in 1..Len(p) : p[i] = s[i]
DecodedIsPrefix == IsSeqPrefix(decoded, sent)
OneReplyEach == st # "closed" => Len(out) = Len(decoded)
NeverClosed == st # "closed"
BufferParses == st \in {"reading", "decoding"} => Top(buf).k # "open"
Quiescent == (st = "reading" /\ wire = <<>>) => (decoded = sent /\ buf = <<>>)
RepliesWellFormed == \A i \in 1..Len(out) : StrictOne(out[i])

\* round trip and prefix lemmas for one value: every proper prefix of the encoding asks for more,
\* the whole encoding yields the value, and trailing bytes do not change that
RoundTrip(v) ==
    LET e == Encode(v) IN
    /\ Top(e) = Fr(v, Len(e) + 1)
    /\ \A n \in 0..Len(e) - 1 : Top(SubSeq(e, 1, n)) = Need
    /\ \A x \in {STAR, CR, 97} : Top(e \o <<x>>) = Fr(v, Len(e) + 1)

\* ---------------------------------------------------------------- legacy behaviour (self-tests only)
\* what RespValue::decode of the pinned tree left in the buffer when it reported "incomplete":
\* the header line of a bulk string / array and all complete elements were already consumed
RECURSIVE LegacyRest(_), LegacyElems(_, _)
LegacyRest(b) ==
    IF b = <<>> \/ b[1] \notin {DOLLAR, STAR} THEN b
    ELSE LET ln == Line(b, 2) IN
         IF ln.k # "line" THEN b
         ELSE IF b[1] = DOLLAR THEN Drop(b, ln.j - 1)
         ELSE LegacyElems(Drop(b, ln.j - 1), ToNat(ln.body))
LegacyElems(b, n) ==
    IF n = 0 THEN b
    ELSE LET r == Top(b) IN
         IF r.k = "frame" THEN LegacyElems(Drop(b, r.j - 1), n - 1) ELSE LegacyRest(b)

\* eat: the decoder consumes as described above; rb is written without being looked at
LegacyDecode(rb, eat) ==
    /\ st = "decoding"
    /\ LET r == Top(buf) IN
       \/ /\ r.k = "frame"
          /\ decoded' = Append(decoded, r.v) /\ out' = Append(out, rb)
          /\ buf' = Drop(buf, r.j - 1) /\ st' = "decoding"
       \/ /\ r.k = "need"
          /\ buf' = IF eat THEN LegacyRest(buf) ELSE buf
          /\ st' = "reading" /\ UNCHANGED <<decoded, out>>
       \/ /\ r.k = "open"
          /\ st' = "closed" /\ UNCHANGED <<buf, decoded, out>>
    /\ UNCHANGED <<wire, sent, big>>

TypeOK == st \in {"idle", "reading", "decoding", "live", "closed"} /\ Len(out) <= Len(sent) + 1
=============================================================================
