---------------------------- MODULE Persist_Trace ----------------------------
(* Trace specification of Persist (C16, C18, C32): every recorded event of    *)
(* the real PersistenceManager / GraphStateMachine / TenantManager must be    *)
(* explained by an action of Persist, and what the real code returned or      *)
(* showed must be what the model state allows.                                *)
(*                                                                            *)
(* Three kinds of recorded behaviour share this module:                       *)
(*  sequential (C16): Open, Call(res = ok | err | crashed), Crash(at),        *)
(*     Restart, Recover(obs = the recovered graph).  Recovery is the only     *)
(*     observation: the property speaks about nothing else, and where an      *)
(*     implementation keeps an acknowledged effect until then (log, storage)  *)
(*     is its own business.  The crash point `at` is recorded, not judged:    *)
(*     wherever the process died, recovery must return the acknowledged       *)
(*     graph or that graph with the in-flight operation applied.              *)
(*  replicas (C32): Replica(r) starts a state machine on a fresh store, the   *)
(*     same Calls follow, then Restart and Recover(rep = r): every replica    *)
(*     must recover the effect of the requests, and the same graph as the     *)
(*     first replica (`agreed`).                                              *)
(*  concurrent (C18): Begin(p, call) per thread, then one Step(p, k) per      *)
(*     atomic step in the order the steps really happened (the scheduler      *)
(*     releases one parked thread at a time; free runs are ordered by         *)
(*     sequence numbers taken inside the counters' critical sections),        *)
(*     Quiesce(obs) when every call has returned, Recover twice, then Recover *)
(*     of every neighbour tenant (Open may be followed by Calls seeding data  *)
(*     for tenants whose ids sort next to the writers' tenant).  Stored ids   *)
(*     are bound after every scheduled step, the usage counters whenever      *)
(*     nothing is in flight (that is when the property defines them).         *)
EXTENDS Persist, TraceBase

CONSTANT BindUsage     \* TRUE: the usage counters reported with Recover / Quiesce / Step are judged (C18)

VARIABLE agreed        \* C32: the graph the first replica of this script recovered
NotYet == [set |-> FALSE]
tvars == <<wal, kv, usage, quota, pc, call, res, G, pend, stale, agreed, l, sid, used, failed>>

P1 == CHOOSE p \in Procs : TRUE
Has(f) == f \in DOMAIN Ev

OpOf(c) ==
    CASE c.op = "CreateNode" -> [op |-> "CreateNode", t |-> c.t, id |-> c.id, labels |-> c.labels, p |-> c.p]
      [] c.op = "CreateEdge" -> [op |-> "CreateEdge", t |-> c.t, id |-> c.id, src |-> c.src, dst |-> c.dst, ty |-> c.ty, p |-> c.p]
      [] c.op \in {"DeleteNode", "DeleteEdge"} -> [op |-> c.op, t |-> c.t, id |-> c.id]
      [] c.op \in {"UpdateNode", "UpdateEdge"} -> [op |-> c.op, t |-> c.t, id |-> c.id, p |-> c.p]

\* the graph a recovery returned: obs.nodes = [[id, labels (list), p]...], obs.edges = [[id, src, dst, ty, p]...]
Ids(s) == {x.id : x \in ToSet(s)}
Pick(s, i) == CHOOSE x \in ToSet(s) : x.id = i
GraphOf(o) ==
    [n |-> [i \in Ids(o.nodes) |-> [labels |-> ToSet(Pick(o.nodes, i).labels), p |-> Pick(o.nodes, i).p]],
     e |-> [i \in Ids(o.edges) |-> [src |-> Pick(o.edges, i).src, dst |-> Pick(o.edges, i).dst,
                                    ty |-> Pick(o.edges, i).ty, p |-> Pick(o.edges, i).p]]]
NoDuplicates(o) == Cardinality(Ids(o.nodes)) = Len(o.nodes) /\ Cardinality(Ids(o.edges)) = Len(o.edges)

UsageOK(t) == BindUsage => (Ev.obs.un = usage'[t].n /\ Ev.obs.ue = usage'[t].e)

Fresh(q) ==
    /\ wal' = <<>>
    /\ kv' = [t \in Tenants |-> EmptyGraph]
    /\ usage' = [t \in Tenants |-> [n |-> 0, e |-> 0]]
    /\ quota' = q
    /\ pc' = [p \in Procs |-> "idle"]
    /\ call' = [p \in Procs |-> NoCall]
    /\ res' = [p \in Procs |-> "ok"]
    /\ G' = [t \in Tenants |-> EmptyGraph]
    /\ pend' = {}
    /\ stale' = {}
NoLimit == [t \in Tenants |-> [n |-> Unlimited, e |-> Unlimited]]

TInit == PInit(NoLimit) /\ agreed = NotYet /\ TBInit

T_Reset == ResetBook /\ Fresh(NoLimit) /\ agreed' = NotYet
\* an event nothing explains: remember it, skip to the next script
T_Fail == FailBook /\ Fresh(NoLimit) /\ agreed' = NotYet

\* a PersistenceManager on an empty directory, the tenant created with these quotas
T_Open == IsEv("Open") /\ Fresh([t \in Tenants |-> [n |-> Ev.qn, e |-> Ev.qe]]) /\ UNCHANGED agreed /\ Same
\* the next replica starts on an empty directory
T_Replica == IsEv("Replica") /\ Fresh(NoLimit) /\ UNCHANGED agreed /\ Same

T_Call ==
    /\ IsEv("Call") /\ UNCHANGED agreed
    /\ \/ Ev.res = "ok" /\ CallDone(OpOf(Ev.call), TRUE) /\ Same
       \/ Ev.res = "ok" /\ KF_C16_UpdateOnlyInWal(OpOf(Ev.call)) /\ KF("KF_C16_UpdateOnlyInWal")
       \/ Ev.res = "err" /\ CallDone(OpOf(Ev.call), FALSE) /\ Same
       \/ Ev.res = "crashed" /\ Begin(P1, OpOf(Ev.call)) /\ Same     \* the call started and never returned

T_Crash == (IsEv("Crash") \/ IsEv("Restart")) /\ Crash /\ UNCHANGED agreed /\ Same

T_Recover ==
    /\ IsEv("Recover") /\ Ev.res = "ok" /\ NoDuplicates(Ev.obs)
    /\ LET r == GraphOf(Ev.obs) IN
       /\ \/ RecoverTo(Ev.t, r) /\ Same
          \/ KF_C16_RecoverMissesUpdates(Ev.t, r) /\ KF("KF_C16_UpdateOnlyInWal")
       /\ UsageOK(Ev.t)
       /\ IF Has("rep")
          THEN IF agreed.set THEN (r = agreed.g /\ UNCHANGED agreed) ELSE agreed' = [set |-> TRUE, g |-> r]
          ELSE UNCHANGED agreed

\* ---- concurrent runs
\* o = [t, n, e, un, ue]: ids a scan of tenant o.t returned and its counters
ScanOK(o) ==
    /\ o.t \in Tenants
    /\ ToSet(o.n) = DOMAIN kv'[o.t].n /\ Len(o.n) = Cardinality(DOMAIN kv'[o.t].n)
    /\ ToSet(o.e) = DOMAIN kv'[o.t].e /\ Len(o.e) = Cardinality(DOMAIN kv'[o.t].e)
CountersOK(o) == BindUsage => (o.un = usage'[o.t].n /\ o.ue = usage'[o.t].e)
\* after a scheduled step: the stepping thread's tenant
StoredOK == Has("obs") => (ScanOK(Ev.obs) /\ (AllIdle' => CountersOK(Ev.obs)))

T_Begin == IsEv("Begin") /\ Begin(Ev.p, OpOf(Ev.call)) /\ UNCHANGED agreed /\ Same

T_Step ==
    /\ IsEv("Step") /\ UNCHANGED agreed
    /\ \/ Ev.k = "chk" /\ Ev.adm /\ ChkAdmit(Ev.p) /\ Same
       \/ Ev.k = "chk" /\ Ev.adm /\ KF_C18_CheckThenActRace(Ev.p) /\ KF("KF_C18_CheckThenActRace")
       \/ Ev.k = "chk" /\ ~Ev.adm /\ ChkRefuse(Ev.p) /\ Same
       \/ Ev.k = "wal" /\ WalAppend(Ev.p) /\ Same
       \/ Ev.k = "put" /\ Store(Ev.p) /\ Same
       \/ Ev.k = "inc" /\ Count(Ev.p) /\ Same
       \/ Ev.k = "ret" /\ res[Ev.p] = Ev.res /\ Ret(Ev.p) /\ Same
    /\ StoredOK

\* every call has returned: stored ids, counters, and nothing of a refused creation in the log
T_Quiesce ==
    /\ IsEv("Quiesce") /\ Quiescent /\ UNCHANGED agreed /\ Same
    /\ {o.t : o \in ToSet(Ev.obs.per)} = {t \in Tenants : t \in ToSet(Ev.ts)}
    /\ \A o \in ToSet(Ev.obs.per) : ScanOK(o) /\ CountersOK(o)       \* every registered tenant, neighbours included
    /\ ToSet(Ev.obs.wal) \subseteq {<<wal[k].k, wal[k].t, wal[k].id>> : k \in DOMAIN wal}

TNext == T_Fail \/ T_Reset \/ T_Open \/ T_Replica \/ T_Call \/ T_Crash \/ T_Recover \/ T_Begin \/ T_Step \/ T_Quiesce
TSpec == TInit /\ [][TNext]_tvars

\* the design invariants, on every state of every explanation that needs no deviation
QuotaHoldsT == ("KF_C18_CheckThenActRace" \in used) \/ QuotaHolds
AtomicT == ("KF_C16_UpdateOnlyInWal" \in used) \/ Atomic
=============================================================================
