--------------------------- MODULE Hierarchy_Trace ---------------------------
(* C28 trace specification.                                                   *)
(* Mutator events: Graph{n,cover,meas} Build{enc,layer} Rebuild               *)
(*   UpdateMeasure{node,v} AddEdge{c,p} DelEdge{c,p}; each carries            *)
(*   obs.state = what the implementation says about the index ("none",        *)
(*   "fresh" = usable, "stale") and, when usable, obs.ans = EVERYTHING the    *)
(*   index answers: sub [[x,y,bool]] for all pairs, desc [[y,[..]]], lca      *)
(*   [[x,y,[..]]], roll [[y,op,halves]] -- compared with the brute-force      *)
(*   answers over what the model index holds (ixc', ixm'); the invariant      *)
(*   Fresh (Hierarchy.tla) then says a usable index holds the graph as it is. *)
(* Queries events (store layer): the same Cypher query run on the store with  *)
(*   the index and on a twin store without it: both row bags must be equal,   *)
(*   and when the planner rewrote the query onto the index the rows must be   *)
(*   the brute-force descendants / roll-up of the CURRENT graph.              *)
(* Large random posets (thorough tier) carry obs.certs instead of obs.ans:    *)
(*   for sampled roots the descendant list the index reports (checked to be   *)
(*   EXACTLY the descendant set by closure certificates: contains y, closed   *)
(*   under children, every other member has a parent inside) with its         *)
(*   roll-ups; for sampled pairs the ancestor lists (same certificate,        *)
(*   upward) with the subsumption answer and the LCA set.  Weaker than the    *)
(*   exhaustive tier only in that roots / pairs are sampled.                  *)
EXTENDS Hierarchy, TraceBase

tvars == <<cover, meas, mlab, ixs, ixc, ixm, ixn, l, sid, used, failed>>
N300 == 1..300      \* node universe of the large random posets (a .cfg cannot spell it)

ToSet(s) == {s[i] : i \in DOMAIN s}
NoDup(s) == Cardinality(ToSet(s)) = Len(s)
MeasFn(ms) == [n \in Nodes |-> IF n <= Len(ms) THEN ms[n] ELSE NoM]
EdgeSet(es) == {<<es[i][1], es[i][2]>> : i \in DOMAIN es}

\* ---- exhaustive observation of a usable index (successor state) ----
AnsOK(a) ==
    \E cl \in {Closure(ixc')} :       \* (evaluated once; TLC re-evaluates a LET definition at every use)
    /\ ToSet(a.nodes) = ixn'
    /\ Len(a.sub) = Cardinality(ixn') * Cardinality(ixn')
    /\ \A i \in DOMAIN a.sub : a.sub[i][3] = Sub(cl, a.sub[i][1], a.sub[i][2])
    /\ Len(a.desc) = Cardinality(ixn')
    /\ \A i \in DOMAIN a.desc : NoDup(a.desc[i][2]) /\ ToSet(a.desc[i][2]) = Desc(cl, a.desc[i][1])
    /\ \A i \in DOMAIN a.lca : NoDup(a.lca[i][3]) /\ ToSet(a.lca[i][3]) = LCA(cl, a.lca[i][1], a.lca[i][2])
    /\ Len(a.roll) = 4 * Cardinality(ixn')
    /\ \A i \in DOMAIN a.roll : a.roll[i][3] = Rollup(cl, ixm', a.roll[i][1], a.roll[i][2])

\* ---- certificate-style observation (large posets; parents have smaller numbers) ----
CertsOK(c) ==
    LET kids == [n \in Nodes |-> {e[1] : e \in {f \in ixc' : f[2] = n}}]
        pars == [n \in Nodes |-> {e[2] : e \in {f \in ixc' : f[1] = n}}]
        IsDesc(y, D) == /\ y \in D
                        /\ \A d \in D : kids[d] \subseteq D
                        /\ \A d \in D \ {y} : pars[d] \cap D # {}
        IsAnc(x, A) == /\ x \in A
                       /\ \A a \in A : pars[a] \subseteq A
                       /\ \A a \in A \ {x} : kids[a] \cap A # {}
        RollOf(D, op) == LET M == {x \in D : ixm'[x] # NoM} IN
                         CASE op = "count" -> 2 * Cardinality(D)
                           [] op = "sum" -> SumOver(M, ixm')
                           [] op = "min" -> IF M = {} THEN NoM ELSE MinOf({ixm'[x] : x \in M})
                           [] op = "max" -> IF M = {} THEN NoM ELSE MaxOf({ixm'[x] : x \in M})
    IN  /\ \A i \in DOMAIN c.roots :
             LET r == c.roots[i]  D == ToSet(r.desc) IN
             /\ NoDup(r.desc) /\ IsDesc(r.y, D)
             /\ \A j \in DOMAIN r.roll : r.roll[j][2] = RollOf(D, r.roll[j][1])
        /\ \A i \in DOMAIN c.pairs :
             LET p == c.pairs[i]  A == ToSet(p.ancx)  B == ToSet(p.ancy)  C == A \cap B IN
             /\ IsAnc(p.x, A) /\ IsAnc(p.y, B)
             /\ p.sub = (p.y \in A)
             \* C is upward closed, so its minimal elements are those without a child in C
             /\ NoDup(p.lca) /\ ToSet(p.lca) = {a \in C : kids[a] \cap C = {}}

ObsOK ==
    /\ Ev.obs.state = ixs'
    /\ ixs' = "fresh" =>
         IF "certs" \in DOMAIN Ev.obs THEN CertsOK(Ev.obs.certs)
         ELSE "ans" \in DOMAIN Ev.obs /\ AnsOK(Ev.obs.ans)

TInit == HInit({}, [n \in Nodes |-> NoM]) /\ TBInit
Blank == cover' = {} /\ meas' = [n \in Nodes |-> NoM] /\ mlab' = Nodes /\ ixs' = "none" /\ ixc' = {} /\ ixm' = [n \in Nodes |-> NoM] /\ ixn' = {}
T_Reset == ResetBook /\ Blank
T_Fail == FailBook /\ Blank

Ok == Ev.res = "ok"
\* Ev.mlab: the nodes carrying the measure's label (absent = unrestricted measure)
T_Graph == /\ IsEv("Graph") /\ Ok
           /\ SetGraph(EdgeSet(Ev.cover), MeasFn(Ev.meas), IF "mlab" \in DOMAIN Ev THEN ToSet(Ev.mlab) ELSE Nodes)
           /\ ObsOK /\ Same

\* small graphs: acyclicity by closure; large ones: by the numbering certificate
\* Ev.nodes = the nodes the real poset holds
BuildEv ==
    IF "certs" \in DOMAIN Ev.obs
    THEN /\ \A e \in cover : e[1] > e[2]
         /\ ixs' = "fresh" /\ ixc' = cover /\ ixm' = Eff(meas, mlab) /\ ixn' = ToSet(Ev.nodes)
         /\ InPoset(cover) \subseteq ixn'
         /\ UNCHANGED <<cover, meas, mlab>>
    ELSE Build(ToSet(Ev.nodes))
T_Build == IsEv("Build") /\ Ok /\ BuildEv /\ ObsOK /\ Same
T_Rebuild == IsEv("Rebuild") /\ Ok /\ ixs # "none" /\ BuildEv /\ ObsOK /\ Same

\* res "stale" at the api layer = update_measure returned false
T_UpdateMeasure ==
    /\ IsEv("UpdateMeasure") /\ Ev.res \in {"ok", "stale"}
    /\ \E absorbed \in BOOLEAN : UpdateMeasure(Ev.node, Ev.v, absorbed)
    /\ ObsOK /\ Same
T_AddEdge == IsEv("AddEdge") /\ Ok /\ WriteCoverEdge(TRUE, <<Ev.c, Ev.p>>) /\ ObsOK /\ Same
T_DelEdge == IsEv("DelEdge") /\ Ok /\ WriteCoverEdge(FALSE, <<Ev.c, Ev.p>>) /\ ObsOK /\ Same

\* ---- the planner-rewrite clause ----
IsErr(r) == "err" \in DOMAIN r          \* rows are logged as [rows |-> <<..>>] or [err |-> message]
QueryOK(cl, q) ==
    LET op == IF q.kind = "rollup:sum" THEN "sum" ELSE IF q.kind = "rollup:count" THEN "count"
              ELSE IF q.kind = "rollup:min" THEN "min" ELSE "max"
    IN  /\ ~IsErr(q.with) /\ ~IsErr(q.without)
        \* same rows with and without the index (bags, normalised by the harness)
        /\ q.with.rows = q.without.rows
        \* a rewritten query is answered by the index, which must then be usable ...
        /\ q.rewritten => Usable
        \* ... and its rows are the brute-force answer for the graph as it is now
        /\ q.rewritten =>
             IF q.kind \in {"desc", "desc_rev"}
             THEN NoDup(q.with.rows) /\ ToSet(q.with.rows) = Desc(cl, q.root)
             ELSE q.with.rows = <<Rollup(cl, meas, q.root, op)>>

T_Queries == /\ IsEv("Queries") /\ UNCHANGED hvars
             /\ \E cl \in {Closure(cover)} : \A i \in DOMAIN Ev.q : QueryOK(cl, Ev.q[i])
             /\ Same

TNext == T_Fail \/ T_Reset \/ T_Graph \/ T_Build \/ T_Rebuild \/ T_UpdateMeasure \/ T_AddEdge \/ T_DelEdge \/ T_Queries
TSpec == TInit /\ [][TNext]_tvars
=============================================================================
