--------------------------- MODULE MC_KvTenants ---------------------------
(* Model-checking wrapper of KvTenants: every set of <= MaxTenants names out  *)
(* of NameSeq (registered first, in NameSeq order - the order of registration *)
(* does not matter to the store) x every interleaving of <= MaxWrites         *)
(* puts/deletes of nodes and relationships of those tenants.                  *)
(*   RejectSep  the registry refuses ids containing ':' (the repaired tree)   *)
EXTENDS KvTenants, TLC, Json

CONSTANTS NameSeq,      \* sequence of candidate tenant ids (each a sequence of ASCII codes)
          MaxTenants, MaxWrites, RejectSep

\* candidate ids (ASCII: ':' = 58, 'a' = 97, 'b' = 98, 'n' = 110, '0' = 48), chosen in the cfg by NameSeq <- ...
\* every name of length <= 2 over {a, b, ':'} plus "a:n" (its scan prefix is the node-key prefix of "a") and
\* "a0" ('0' sorts below ':', so "a0:..." lies between nothing and "a:...")
NamesFull == << <<>>, <<58>>, <<58,58>>, <<58,97>>, <<58,98>>, <<97>>, <<97,48>>, <<97,58>>, <<97,58,110>>, <<97,97>>,
                <<97,98>>, <<98>>, <<98,58>>, <<98,97>>, <<98,98>> >>
\* a smaller selection for triples: prefixes of one another, adjacent in byte order, separator inside
NamesCore == << <<>>, <<58>>, <<97>>, <<97,48>>, <<97,58>>, <<97,58,110>>, <<97,97>>, <<97,98>>, <<98>> >>
\* ids without the separator (what the repaired registry accepts)
NamesPlain == << <<>>, <<97>>, <<97,48>>, <<97,97>>, <<97,98>>, <<98>>, <<98,97>>, <<110>>, <<97,110>> >>

VARIABLE hist
vars == <<created, data, kv, hist>>

Init == KInit /\ hist = <<>>
H(r) == hist' = Append(hist, r)

NWrites == Len(SelectSeq(hist, LAMBDA h : h.op # "CreateTenant"))
NCreates == Len(hist) - NWrites
LastCreated == IF NCreates = 0 THEN 0
               ELSE CHOOSE i \in DOMAIN NameSeq : NameSeq[i] = hist[NCreates].t

DoCreate ==
    /\ NWrites = 0 /\ NCreates < MaxTenants
    /\ \E i \in (LastCreated + 1)..Len(NameSeq) :
         /\ CreateTenant(NameSeq[i], ~(RejectSep /\ HasSep(NameSeq[i])))
         /\ H([op |-> "CreateTenant", t |-> NameSeq[i]])
\* writes are attempted for every registered-or-refused name of the history
Tried == {hist[i].t : i \in 1..NCreates}
DoPut ==
    /\ NWrites < MaxWrites
    /\ \E t \in Tried, cf \in CFs, id \in Ids :
         /\ IF t \in created THEN Put(t, cf, id, Len(hist) + 1) ELSE Refused(t)
         /\ H([op |-> "Put", t |-> t, cf |-> cf, id |-> id, val |-> Len(hist) + 1])
DoDelete ==
    /\ NWrites < MaxWrites
    /\ \E t \in Tried, cf \in CFs, id \in Ids :
         /\ IF t \in created THEN Delete(t, cf, id) ELSE Refused(t)
         /\ H([op |-> "Delete", t |-> t, cf |-> cf, id |-> id])

Next == DoCreate \/ DoPut \/ DoDelete
Spec == Init /\ [][Next]_vars

\* values are hidden from state identity: which keys exist is what matters
View == <<created, DOMAIN data, NCreates, IF NWrites = 0 THEN LastCreated ELSE 0, Tried>>
Emit == PrintT(<<"SCRIPT", ToJson(hist')>>)
EmitWrites == hist'[Len(hist')].op # "CreateTenant" => PrintT(<<"SCRIPT", ToJson(hist')>>)
SimEmit == NWrites = MaxWrites => PrintT(<<"SCRIPT", ToJson(hist)>>)
=============================================================================
