----------------------------- MODULE Algo_Trace -----------------------------
(* Trace specification for C26 / C27.  The graph-building events are the      *)
(* actions of Algo.tla; every result event is a read: the graph is unchanged   *)
(* and EVERY logged result must satisfy the brute-force definition evaluated   *)
(* on the projection the run was asked for (TLC recomputes the definition from *)
(* the logged relationship list; the harness compares nothing).                *)
(* A result event carries `runs`, one record per way the algorithm was invoked *)
(* (crate function on a GraphView in either index order, CALL algo.* with a    *)
(* label / type / weight projection, k disjoint copies under 1 / 8 threads).   *)
EXTENDS Algo, TraceBase

tvars == <<nn, lab, edges, l, sid, used, failed>>

SeqToSet(s) == {s[i] : i \in DOMAIN s}
\* print the run that is not explained (debugging aid; prints only on rejection)
Explain(ok, what, r) == IF ok THEN TRUE ELSE PrintT(<<"UNEXPLAINED", sid, what, r.via>>) /\ FALSE
\* "= TRUE": TLC then evaluates the check as a state predicate (quantifiers short-circuit) instead of enumerating every
\* witness of every \E as a separate successor state
AllRuns(what, Ok(_)) == (\A i \in DOMAIN Ev.runs : Explain(Ok(Ev.runs[i]), what, Ev.runs[i])) = TRUE

-----------------------------------------------------------------------------
CompRunOK(r) ==
    LET g == Proj(r.label, r.type, "") IN
    /\ PartitionOK(g, r.nodes, r.comp, r.kind)
    /\ r.hasGroups => GroupsOK(g, r.groups, r.kind)

PathRunOK(r) ==
    LET g == Proj("", "", r.wp)
        PF == Force([s \in g.V |-> PathsFrom(g, s)])          \* every simple path, by source
    IN /\ Len(r.res) = nn * nn
       /\ {<<r.res[i].s, r.res[i].t>> : i \in DOMAIN r.res} = (1..nn) \X (1..nn)
       /\ \A i \in DOMAIN r.res :
             LET x == r.res[i]
                 P == {p \in PF[x.s] : p[Len(p)] = x.t}
             IN x.exact /\ PathResultOKIn(g, P, r.metric, x.s, x.t, x.found, x.cost, x.path)
AllPathsRunOK(r) ==
    LET g == Proj("", "", "")
        PF == Force([s \in g.V |-> PathsFrom(g, s)])
    IN /\ Len(r.res) = nn * nn
       /\ \A i \in DOMAIN r.res :
             LET x == r.res[i]
                 P == {p \in PF[x.s] : p[Len(p)] = x.t}
             IN /\ x.costsMatch
                /\ SeqToSet(x.paths) = (IF P = {} THEN {} ELSE {p \in P : HopCost(p) = Min({HopCost(q) : q \in P})})

FlowRunOK(r) ==
    LET g == Proj("", "", r.wp) IN
    /\ Len(r.res) = nn * (nn - 1)
    /\ {<<r.res[i].s, r.res[i].t>> : i \in DOMAIN r.res} = {p \in (1..nn) \X (1..nn) : p[1] # p[2]}
    /\ \A i \in DOMAIN r.res :
          LET x == r.res[i] IN x.some /\ x.exact /\ x.val = MinCut(g, x.s, x.t)

\* the crate function starts at the first node of the view (logged); the procedure's start node is not specified
MstRunOK(r) ==
    LET g == Proj("", "", r.wp) IN
    /\ r.exact
    /\ IF r.start # 0 THEN MstResultOK(g, r.start, r.total, r.edges)
       ELSE \E st \in g.V : MstResultOK(g, st, r.total, r.edges)

TriRunOK(r) == r.count = Triangles(Proj("", "", ""))
\* after compact_adjacency (count_triangles_leapfrog intersects the frozen tier only): its documented count, and the
\* procedure again through the frozen-tier read path
LeapRunOK(r) == r.count = (IF r.kind = "leap" THEN LeapTriangles(Proj("", "", "")) ELSE Triangles(Proj("", "", "")))
LccRunOK(r) ==
    LET g == Proj(r.label, r.type, "") IN
    /\ Len(r.nodes) = Cardinality(g.V) /\ SeqToSet(r.nodes) = g.V /\ Len(r.val) = Len(r.nodes)
    /\ \A i \in DOMAIN r.nodes : RatOK(r.val[i], Lcc(g, r.directed, r.nodes[i]))
    /\ r.hasAvg => Abs(r.avg * Len(r.val) - SumF(r.val, DOMAIN r.val)) <= Len(r.val)

CdlpRunOK(r) ==
    LET g == Proj(r.label, r.type, "")
        T == CdlpTrace(g, r.k)
        L == T[r.k + 1]
    IN /\ Len(r.nodes) = Cardinality(g.V) /\ SeqToSet(r.nodes) = g.V /\ Len(r.lab) = Len(r.nodes)
       /\ \A i \in DOMAIN r.nodes : r.lab[i] = L[r.nodes[i]]
       \* the reported number of iterations: at most k, and stopping there gives the same labelling
       /\ r.iters \in 0..r.k /\ T[r.iters + 1] = L

PRCfgOf(r) == [dn |-> r.dn, dd |-> r.dd, iters |-> r.iters, tolD |-> r.tolD, dang |-> r.dang]
PageRankRunOK(r) == PageRankOK(Proj(r.label, r.type, ""), PRCfgOf(r), r.nodes, r.val)

\* k disjoint copies (UnionLemma of MC_Algo): every copy of base node v shows ONE value: PageRank score/k (logged
\* times k), the copy's own CDLP label (logged relative to the copy), v's clustering coefficient; k times the triangles
RepRunOK(r) ==
    LET g == Proj("", "", "")
        One(v) == Len(r.vals[v]) = 1
    IN /\ r.copies >= 1
       /\ CASE r.algo = "pr" ->
                 /\ r.total = r.copies * nn /\ Len(r.vals) = nn
                 /\ \E st \in PageRank(g, PRCfgOf(r)) : \A v \in 1..nn : One(v) /\ ScoreOK(r.vals[v][1], st.num[v], st.D)
            [] r.algo = "cdlp" ->
                 /\ r.total = r.copies * nn /\ Len(r.vals) = nn
                 /\ LET L == Cdlp(g, r.k) IN \A v \in 1..nn : One(v) /\ r.vals[v][1] = L[v]
            [] r.algo = "tri" -> r.total = r.copies * Triangles(g)
            [] r.algo = "lcc" ->
                 /\ r.total = r.copies * nn /\ Len(r.vals) = nn
                 /\ \A v \in 1..nn : One(v) /\ RatOK(r.vals[v][1], Lcc(g, r.directed, v))
            [] OTHER -> FALSE

-----------------------------------------------------------------------------
TInit == GInit /\ TBInit
Keep == UNCHANGED gvars

T_Reset == ResetBook /\ nn' = 0 /\ lab' = <<>> /\ edges' = <<>>
T_Fail == FailBook /\ nn' = 0 /\ lab' = <<>> /\ edges' = <<>>
T_AddNode == /\ IsEv("AddNode") /\ AddNode(SeqToSet(Ev.labels))
             /\ Ev.obs.handle = nn' /\ Ev.obs.nodes = nn' /\ Same
T_AddEdge == /\ IsEv("AddEdge") /\ AddEdge(Ev.s, Ev.d, Ev.w, Ev.t)
             /\ Ev.res = "ok" /\ Ev.obs.edges = Len(edges') /\ Same
T_Comp == IsEv("Comp") /\ Keep /\ AllRuns("Comp", CompRunOK) /\ Same
T_Path == IsEv("Path") /\ Keep /\ AllRuns("Path", PathRunOK) /\ Same
T_AllPaths == IsEv("AllPaths") /\ Keep /\ AllRuns("AllPaths", AllPathsRunOK) /\ Same
T_Flow == IsEv("Flow") /\ Keep /\ AllRuns("Flow", FlowRunOK) /\ Same
T_Mst == IsEv("Mst") /\ Keep /\ AllRuns("Mst", MstRunOK) /\ Same
T_Tri == IsEv("Tri") /\ Keep /\ AllRuns("Tri", TriRunOK) /\ Same
T_Leap == IsEv("Leap") /\ Keep /\ AllRuns("Leap", LeapRunOK) /\ Same
T_Lcc == IsEv("Lcc") /\ Keep /\ AllRuns("Lcc", LccRunOK) /\ Same
T_Cdlp == IsEv("Cdlp") /\ Keep /\ AllRuns("Cdlp", CdlpRunOK) /\ Same
T_PageRank == IsEv("PageRank") /\ Keep /\ AllRuns("PageRank", PageRankRunOK) /\ Same
T_Rep == IsEv("Rep") /\ Keep /\ AllRuns("Rep", RepRunOK) /\ Same

-----------------------------------------------------------------------------
(* Random graphs of a few hundred nodes (thorough tier): the definitions above *)
(* are exponential, so these events are judged by CERTIFICATES TLC checks in    *)
(* polynomial time.  This is WEAKER than the definitions where noted.           *)
\* out-neighbourhoods as <<target, weight>> pairs, built once per event
OutMap(wt) == [u \in 1..nn |-> {<<edges[i].d, IF wt THEN edges[i].w ELSE 1>> : i \in {j \in DOMAIN edges : edges[j].s = u}}]
T_RandGraph == /\ IsEv("RandGraph")
               /\ nn' = Ev.n /\ lab' = [v \in 1..Ev.n |-> {"N"}] /\ edges' = Ev.edges
               /\ (\A i \in DOMAIN Ev.edges : Ev.edges[i].s \in 1..Ev.n /\ Ev.edges[i].d \in 1..Ev.n) = TRUE
               /\ Same

\* Single-source results for ALL targets certify each other COMPLETELY: every found path is a walk whose hops realise
\* the claimed distances, the claimed distances are a feasible potential (dist[v] <= dist[u] + w on every relationship
\* out of a found node, whose target must be found too): so each claimed cost is optimal and each "none" is unreachable.
CertPathsOK ==
    LET om == OutMap(Ev.metric = "weight")
        res == Ev.res
        s == Ev.src
    IN /\ Len(res) = nn /\ \A t \in 1..nn : res[t].t = t /\ res[t].s = s /\ res[t].exact
       /\ res[s].found /\ res[s].cost = 0
       /\ \A t \in 1..nn : res[t].found =>
             LET p == res[t].path IN
             /\ Len(p) >= 1 /\ p[1] = s /\ p[Len(p)] = t
             /\ \A i \in 1..(Len(p) - 1) : /\ p[i] \in 1..nn /\ p[i + 1] \in 1..nn /\ res[p[i]].found /\ res[p[i + 1]].found
                                           /\ <<p[i + 1], res[p[i + 1]].cost - res[p[i]].cost>> \in om[p[i]]
       /\ \A u \in 1..nn : res[u].found => \A e \in om[u] : res[e[1]].found /\ res[e[1]].cost <= res[u].cost + e[2]
T_CertPaths == IsEv("CertPaths") /\ Keep /\ (CertPathsOK = TRUE) /\ Same

\* WCC labelling: classes are closed under relationships (so each is a union of true components) and every node is
\* joined to the smallest node of its class by a real undirected path (so each is inside one true component): COMPLETE.
UndirectedWalk(p) == \A i \in 1..(Len(p) - 1) : \E j \in DOMAIN edges : {edges[j].s, edges[j].d} = {p[i], p[i + 1]}
DirectedWalk(p) == \A i \in 1..(Len(p) - 1) : \E j \in DOMAIN edges : edges[j].s = p[i] /\ edges[j].d = p[i + 1]
RepOf(comp, v) == Min({u \in 1..nn : comp[u] = comp[v]})
CertWccOK ==
    LET c == Ev.comp IN
    /\ Len(c) = nn /\ Len(Ev.paths) = nn
    /\ \A j \in DOMAIN edges : c[edges[j].s] = c[edges[j].d]
    /\ \A v \in 1..nn : LET p == Ev.paths[v] IN Len(p) >= 1 /\ p[1] = RepOf(c, v) /\ p[Len(p)] = v /\ UndirectedWalk(p)
T_CertWcc == IsEv("CertWcc") /\ Keep /\ (CertWccOK = TRUE) /\ Same
\* SCC labelling: every node and the smallest node of its class reach each other by real directed paths (same class =>
\* mutually reachable) and a ranking of the classes never decreases along a relationship and strictly increases between
\* classes (so no two classes are mutually reachable): COMPLETE.
CertSccOK ==
    LET c == Ev.comp IN
    /\ Len(c) = nn /\ Len(Ev.to) = nn /\ Len(Ev.from) = nn /\ Len(Ev.rank) = nn
    /\ \A v \in 1..nn : LET p == Ev.to[v]
                            q == Ev.from[v]
                        IN /\ Len(p) >= 1 /\ p[1] = RepOf(c, v) /\ p[Len(p)] = v /\ DirectedWalk(p)
                           /\ Len(q) >= 1 /\ q[1] = v /\ q[Len(q)] = RepOf(c, v) /\ DirectedWalk(q)
    /\ \A u, v \in 1..nn : c[u] = c[v] => Ev.rank[u] = Ev.rank[v]
    /\ \A j \in DOMAIN edges : LET a == edges[j].s
                                   b == edges[j].d
                               IN IF c[a] = c[b] THEN TRUE ELSE Ev.rank[a] < Ev.rank[b]
T_CertScc == IsEv("CertScc") /\ Keep /\ (CertSccOK = TRUE) /\ Same

\* max flow: WEAKER than C26 -- only the upper bound by every sampled s-t cut, non-negativity and zero iff unreachable
\* (reachability as reported by the crate's bfs, itself certified by CertPaths on other sources only).
CertFlowOK ==
    /\ Ev.exact /\ Ev.val >= 0 /\ ((Ev.val = 0) <=> ~Ev.reach)
    /\ \A k \in DOMAIN Ev.cuts :
          LET S == SeqToSet(Ev.cuts[k])
              X == {j \in DOMAIN edges : edges[j].s \in S /\ edges[j].d \notin S}
          IN (Ev.s \in S /\ Ev.t \notin S) => Ev.val <= SumF([j \in X |-> edges[j].w], X)
T_CertFlow == IsEv("CertFlow") /\ Keep /\ (CertFlowOK = TRUE) /\ Same

\* PageRank / CDLP / triangles / LCC on a random graph and on k copies of it crossing the rayon threshold, 1 and 8
\* threads: all runs of one configuration must agree (the sequential run is the reference; it is NOT compared with the
\* definition here -- WEAKER: parallel path = sequential path; sequential path = definition is shown on the small graphs).
SameCfg(a, b) == /\ a.algo = b.algo
                 /\ a.algo = "pr" => (a.dn = b.dn /\ a.dd = b.dd /\ a.iters = b.iters /\ a.tolD = b.tolD /\ a.dang = b.dang)
                 /\ a.algo = "cdlp" => a.k = b.k
                 /\ a.algo = "lcc" => a.directed = b.directed
RepRandOK ==
    \A i, j \in DOMAIN Ev.runs : (i < j /\ SameCfg(Ev.runs[i], Ev.runs[j])) =>
        LET a == Ev.runs[i]
            b == Ev.runs[j]
            tol == IF a.algo = "cdlp" THEN 0 ELSE 2
        IN /\ a.total * b.copies = b.total * a.copies
           /\ Len(a.vals) = Len(b.vals)
           /\ \A v \in DOMAIN a.vals : \A x \in SeqToSet(a.vals[v]), y \in SeqToSet(b.vals[v]) : Abs(x - y) <= tol
T_RepRand == /\ IsEv("RepRand") /\ Keep /\ (RepRandOK = TRUE)
             /\ (\A i \in DOMAIN Ev.runs : Ev.runs[i].algo = "tri" \/ (Len(Ev.runs[i].vals) = nn /\ \A v \in 1..nn : Ev.runs[i].vals[v] # <<>>)) = TRUE
             /\ Same

TNext == T_Fail \/ T_Reset \/ T_AddNode \/ T_AddEdge \/ T_Comp \/ T_Path \/ T_AllPaths \/ T_Flow \/ T_Mst \/ T_Tri \/ T_Leap \/ T_Lcc
         \/ T_Cdlp \/ T_PageRank \/ T_Rep \/ T_RandGraph \/ T_CertPaths \/ T_CertWcc \/ T_CertScc \/ T_CertFlow \/ T_RepRand
TSpec == TInit /\ [][TNext]_tvars
=============================================================================
