----------------------------- MODULE MC_Quorum -----------------------------
EXTENDS Quorum, TLC, Json
CONSTANTS MaxHist, MaxCfg
VARIABLE hist
vars == <<member, active, leader, cfg, up, hist>>

Init == QInit /\ hist = <<>>

H(r) == hist' = Append(hist, r)

Next ==
    \/ \E i \in Ids, v \in BOOLEAN : Len(cfg) < MaxCfg /\ CfgAdd(i, v) /\ H([op |-> "CfgAdd", id |-> i, voter |-> v])
    \/ Start(Voters # {}) /\ H([op |-> "Start"])
    \/ \E i \in Ids, v \in BOOLEAN : AddNode(i, v) /\ H([op |-> "AddNode", id |-> i, voter |-> v])
    \/ \E i \in Ids : RemoveNode(i) /\ H([op |-> "RemoveNode", id |-> i])
    \/ \E i \in Ids : MarkActive(i) /\ H([op |-> "MarkActive", id |-> i])
    \/ \E i \in Ids : MarkInactive(i) /\ H([op |-> "MarkInactive", id |-> i])
    \/ \E i \in Ids, b \in BOOLEAN : SetRole(i, b) /\ H([op |-> "SetRole", id |-> i, leader |-> b])

Spec == Init /\ [][Next]_vars
View == <<member, active, leader, up, IF up THEN <<>> ELSE cfg>>
ViewLegacy == <<member, active, leader, up, cfg>>
Bound == Len(hist) <= MaxHist
BoundLegacy == Len(hist) <= MaxHist /\ Len(cfg) <= MaxCfg + 1
Emit == PrintT(<<"SCRIPT", ToJson(hist')>>)
EmitState == PrintT(<<"SCRIPT", ToJson(hist)>>)
SimEmit == Len(hist) = MaxHist => PrintT(<<"SCRIPT", ToJson(hist)>>)
=============================================================================
