-------------------------- MODULE QueryCache_Trace --------------------------
(* C03 trace specification.  Every recorded QueryEngine call must be explained *)
(* by a QueryCache action:                                                     *)
(*  - the text that was executed is exactly the rendering of the variant the   *)
(*    script named (binding of the generator to the harness),                  *)
(*  - the rows the engine answered through its cache equal the rows of a fresh *)
(*    parse_query + executor run of that exact text (the property),            *)
(*  - if the engine's counters say the parse came from the cache, some entry   *)
(*    that can still be cached must have been parsed from a string of the same *)
(*    meaning (ExecObserved) -- the key function, capacity handling and        *)
(*    eviction order are left open (Evict = "any"); an execution whose counters *)
(*    do not say "hit" is treated as a miss.                                   *)
EXTENDS QueryCache, TraceBase

tvars == <<cap, cache, out, l, sid, used, failed>>

\* (the cfg replaces the memo tables of QueryCache by the operators themselves:
\*  Text <- Render, Mng <- Meaning -- one rendering per event is cheap)

TInit == QCInit /\ TBInit
T_Reset == ResetBook /\ cap' = 0 /\ cache' = <<>> /\ out' = [asked |-> <<>>, got |-> <<>>, hit |-> FALSE]
T_Fail == FailBook /\ cap' = 0 /\ cache' = <<>> /\ out' = [asked |-> <<>>, got |-> <<>>, hit |-> FALSE]
T_Open == IsEv("Open") /\ Open(Ev.cap) /\ Same
T_Exec ==
    /\ IsEv("Exec")
    /\ WellFormed(Ev.v)
    /\ Ev.text = Text(Ev.v)
    /\ Ev.obs.cached = Ev.obs.fresh
    /\ ExecObserved(Ev.v, Ev.obs.hit, Ev.obs.parses)
    /\ Same

TNext == T_Fail \/ T_Reset \/ T_Open \/ T_Exec
TSpec == TInit /\ [][TNext]_tvars
=============================================================================
