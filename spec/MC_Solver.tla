------------------------------ MODULE MC_Solver ------------------------------
(* A tiny design-level model of the C34 contract (ranks 0..MaxRank, one       *)
(* variable, <= MaxIter history entries): an abstract solver that keeps its   *)
(* best-so-far and clamps to the box produces, under every schedule (the pair *)
(* of runs), histories that never get worse, results inside the box and an    *)
(* identical pair.  With Legacy = TRUE the history entry is the current       *)
(* population best without elitism (LegacyIter): TLC must find the history    *)
(* that gets worse (self-test).  TLC generates nothing for C34: the runs come *)
(* from the implementation; this model only pins the contract down.           *)
EXTENDS Solver, TLC
CONSTANTS MaxRank, MaxIter, Legacy
Ranks == 0..MaxRank

Members == {[vars |-> <<lo[1]>>, fit |-> <<a, b>>, refit |-> <<a, b>>, viol |-> w] : a \in 0..1, b \in 0..1, w \in 0..1}

Init == SInit
Next ==
    \/ \E l \in Ranks, h \in Ranks : Start(run + 1, "so", <<l>>, <<h>>, 0)
    \/ \E b \in Ranks : Len(cur) <= MaxIter /\ (IF Legacy THEN LegacyIter(b) ELSE Iter(b))
    \/ \E r \in Ranks, v \in Ranks : DoneSO(r, r, <<v>>)
    \/ \E l \in Ranks, h \in Ranks : Start(run + 1, "mo", <<l>>, <<h>>, 0)
    \/ phase = "running" /\ Len(cur) <= 2 /\ \E m1, m2 \in Members : DoneMO(<<m1, m2>>)
Spec == Init /\ [][Next]_svars
=============================================================================
