----------------------------- MODULE Resp_Trace -----------------------------
(* Trace specification for C20 / C21 / C22.  Every recorded event of the      *)
(* harness (real RespValue::decode / encode, the server's read loop, a live   *)
(* RespServer, CommandHandler::handle_command) must be explained by the Resp  *)
(* action of the same name, with the logged results and the logged receive    *)
(* buffer equal to the model's.                                               *)
(*                                                                            *)
(* Enumerations done by the harness (Exhaust: all strings of a length with a  *)
(* prefix; Sweep: a text inserted at every offset of an argument) are         *)
(* re-enumerated here: event number k must carry the k-th element and the     *)
(* closing event is only accepted after the last one, so a case cannot be     *)
(* skipped or invented.                                                       *)
EXTENDS Resp, TraceBase

VARIABLE en      \* enumeration in progress, or Off
tvars == <<wire, buf, sent, decoded, out, st, big, en, l, sid, used, failed>>

Off == [on |-> FALSE]

RECURSIVE Pow(_, _)
Pow(a, n) == IF n = 0 THEN 1 ELSE a * Pow(a, n - 1)
\* k-th (from 0) string of length m over alphabet al in lexicographic order
Kth(al, m, k) == [p \in 1..m |-> al[((k \div Pow(Len(al), m - p)) % Len(al)) + 1]]
Ins(b, i, x) == SubSeq(b, 1, i) \o x \o SubSeq(b, i + 1, Len(b))      \* x inserted after i bytes

TInit == RInit /\ TBInit /\ en = Off
Idle == UNCHANGED en /\ en = Off

Fresh == wire' = <<>> /\ buf' = <<>> /\ sent' = <<>> /\ decoded' = <<>> /\ out' = <<>> /\ st' = "idle" /\ big' = NoBig /\ en' = Off
T_Reset == ResetBook /\ Fresh
T_Fail == FailBook /\ Fresh

\* ---- C20: the server loop driven in process
T_Open == IsEv("Open") /\ Open(Ev.wire, FALSE) /\ Idle /\ Same
T_Deliver == IsEv("Deliver") /\ Deliver(Ev.chunk) /\ Ev.obs.buf = buf' /\ Idle /\ Same
T_Decode ==
    /\ IsEv("Decode") /\ Decode(Ev.res, Ev.val, Ev.reply)
    /\ Ev.obs.buf = buf' /\ Ev.obs.decoded = Len(decoded') /\ Ev.obs.replies = Len(out')
    /\ Idle /\ Same
T_End == IsEv("End") /\ End /\ Ev.obs.decoded = Len(decoded) /\ Ev.obs.replies = Len(out) /\ Idle /\ Same

\* ---- C20: a live RespServer on a socket
T_LiveOpen == IsEv("LiveOpen") /\ Open(Ev.wire, TRUE) /\ Idle /\ Same
T_LiveSend == IsEv("LiveSend") /\ LiveSend(Ev.chunk) /\ Idle /\ Same
T_LiveClose == IsEv("LiveClose") /\ LiveClose(Ev.obs.replies) /\ Idle /\ Same

\* ---- C20: a live connection that starts with a big frame (chunks and the reply are logged run-length encoded)
T_BigOpen == IsEv("BigOpen") /\ BigOpen(Ev.c, Ev.n, Ev.wire) /\ Idle /\ Same
T_BigSend == IsEv("BigSend") /\ BigSend([pre |-> Ev.pre, run |-> Ev.run, post |-> Ev.post]) /\ Idle /\ Same
T_BigClose == IsEv("BigClose") /\ BigClose(Ev.obs) /\ Idle /\ Same

\* ---- C21: single decode calls
ProbeOK(b) == Probe(b, Ev.res, Ev.val, Ev.obs.rest, Ev.obs.peak)
\* errreply = the "-ERR <error>" line the read loop writes for a protocol error (C22)
T_Probe == IsEv("Probe") /\ ProbeOK(Ev.bytes) /\ (Ev.res = "error" => StrictOne(Ev.errreply)) /\ Idle /\ Same
T_Exhaust ==
    /\ IsEv("Exhaust") /\ st = "idle" /\ en = Off
    /\ Len(Ev.prefix) <= Ev.n
    /\ en' = [on |-> TRUE, kind |-> "exhaust", prefix |-> Ev.prefix, alpha |-> Ev.alpha, m |-> Ev.n - Len(Ev.prefix),
              ctr |-> 0, total |-> Pow(Len(Ev.alpha), Ev.n - Len(Ev.prefix))]
    /\ UNCHANGED rvars /\ Same
T_Case ==
    /\ IsEv("Case") /\ en.on /\ en.kind = "exhaust" /\ en.ctr < en.total
    /\ Ev.bytes = en.prefix \o Kth(en.alpha, en.m, en.ctr)
    /\ ProbeOK(Ev.bytes)
    /\ en' = [en EXCEPT !.ctr = @ + 1] /\ Same
T_ExhaustEnd ==
    /\ IsEv("ExhaustEnd") /\ en.on /\ en.kind = "exhaust" /\ en.ctr = en.total
    /\ en' = Off /\ UNCHANGED rvars /\ Same
\* frames too big to log: d array headers "*1 CR LF" followed by leaf copies of ":1 CR LF"
T_Big ==
    /\ IsEv("Big") /\ st = "idle" /\ Ev.kind = "nest"
    /\ Ev.obs.n = 4 * Ev.d + 4 * Ev.leaf
    /\ Safe(Ev.obs.n, Ev.res, Ev.obs.peak)
    /\ (Ev.d <= MaxDepth /\ Ev.leaf = 1) => Ev.res = "value"
    /\ (Ev.d <= MaxDepth /\ Ev.leaf = 0) => Ev.res = "need"
    /\ UNCHANGED rvars /\ Idle /\ Same

\* ---- C22: commands and their encoded replies
T_Cmd == IsEv("Cmd") /\ Command(Ev.cmd, Ev.obs.reply) /\ Idle /\ Same
T_Sweep ==
    /\ IsEv("Sweep") /\ st = "idle" /\ en = Off
    /\ Ev.arg \in 1..Len(Ev.base.a)
    /\ en' = [on |-> TRUE, kind |-> "sweep", base |-> Ev.base, arg |-> Ev.arg, evil |-> Ev.evil,
              ctr |-> 0, total |-> Len(Ev.base.a[Ev.arg].s) + 1]
    /\ UNCHANGED rvars /\ Same
T_SweepCmd ==
    /\ IsEv("SweepCmd") /\ en.on /\ en.kind = "sweep" /\ en.ctr < en.total
    /\ Ev.cmd = [en.base EXCEPT !.a[en.arg].s = Ins(@, en.ctr, en.evil)]
    /\ Command(Ev.cmd, Ev.obs.reply)
    /\ en' = [en EXCEPT !.ctr = @ + 1] /\ Same
T_SweepEnd ==
    /\ IsEv("SweepEnd") /\ en.on /\ en.kind = "sweep" /\ en.ctr = en.total
    /\ en' = Off /\ UNCHANGED rvars /\ Same

TNext == \/ T_Fail \/ T_Reset
         \/ T_Open \/ T_Deliver \/ T_Decode \/ T_End
         \/ T_LiveOpen \/ T_LiveSend \/ T_LiveClose
         \/ T_BigOpen \/ T_BigSend \/ T_BigClose
         \/ T_Probe \/ T_Exhaust \/ T_Case \/ T_ExhaustEnd \/ T_Big
         \/ T_Cmd \/ T_Sweep \/ T_SweepCmd \/ T_SweepEnd
TSpec == TInit /\ [][TNext]_tvars

TraceInv == DecodedIsPrefix /\ OneReplyEach /\ RepliesWellFormed
=============================================================================
