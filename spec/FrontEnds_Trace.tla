--------------------------- MODULE FrontEnds_Trace ---------------------------
(* C23 trace specification.  Per statement four events:                        *)
(*   Stmt    the structure and its text: the text must be the rendering of the *)
(*           structure, and the harness' `text.trim().to_uppercase()` must be  *)
(*           classified by the legacy tests like the model's UpperText         *)
(*   Engine  the statement run directly on the engine (own verdict read/write, *)
(*           execute / execute_mut): the reference.  A read verdict must leave *)
(*           the graph untouched.                                              *)
(*   Serve   r = resp | http: the same text through CommandHandler /           *)
(*           the axum router on an identical fresh graph: outcome class,       *)
(*           columns, sorted rows and the full dump must be the ones the model *)
(*           predicts from the engine's run (eff = "stmt": the engine's dump,  *)
(*           "none": the dump of the untouched graph).                         *)
(* Error messages are not compared; EXPLAIN/PROFILE rows are plan text with     *)
(* unordered statistics listings and PROFILE rows carry wall-clock timings and  *)
(* are compared by columns only.                                               *)
EXTENDS FrontEnds, TraceBase

VARIABLE eobs          \* what the engine's run of the current statement showed
tvars == <<cur, ref, phase, path, res, eobs, l, sid, used, failed>>

NoObs == [cols |-> <<>>, rows |-> <<>>, dump |-> "", g0 |-> ""]

TInit == FInit /\ eobs = NoObs /\ TBInit
Fresh == /\ cur' = NoStmt /\ ref' = NoRef
         /\ phase' = [r \in FrontEnd |-> "idle"]
         /\ path' = [r \in FrontEnd |-> "none"]
         /\ res' = [r \in FrontEnd |-> NoRes]
         /\ eobs' = NoObs
T_Reset == ResetBook /\ Fresh
T_Fail == FailBook /\ Fresh

T_Stmt ==
    /\ IsEv("Stmt")
    /\ WellFormed(Ev.stmt)
    /\ Ev.text = Text(Ev.stmt)
    /\ Ev.w = EngineWrite(Ev.stmt)
    /\ Submit(Ev.stmt, Ev.text, Ev.obs.upper)
    /\ \A r \in FrontEnd : cur'.legacy[r] = LegacyPath(r, UpperText(Ev.stmt))
    /\ eobs' = NoObs
    /\ Same

T_Engine ==
    /\ IsEv("Engine")
    /\ LET o == Ev.obs IN
       /\ EngineRun(o.cls, o.out)
       /\ o.cls = "read" => o.dump.full = o.g0         \* the read executor cannot write
       /\ eobs' = [cols |-> o.cols, rows |-> o.rows, dump |-> o.dump.full, g0 |-> o.g0]
    /\ Same

ObsOK(r) ==
    LET o == Ev.obs
        m == res'[r]
    IN  /\ o.out = m.out
        /\ (m.out = "rows" /\ m.same) =>
               /\ o.cols = eobs.cols
               /\ cur.st.ex = "" => o.rows = eobs.rows     \* EXPLAIN / PROFILE rows are plan text with statistics listings and timings: columns only
        /\ o.dump.full = (IF m.eff = "stmt" THEN eobs.dump ELSE eobs.g0)

T_Serve ==
    /\ IsEv("Serve")
    /\ Ev.r \in FrontEnd
    /\ eobs' = eobs
    /\ \/ Serve(Ev.r) /\ ObsOK(Ev.r) /\ Same
       \/ KF_C23_SubstringRouting(Ev.r) /\ ObsOK(Ev.r) /\ KF("KF_C23_SubstringRouting")

TNext == T_Fail \/ T_Reset \/ T_Stmt \/ T_Engine \/ T_Serve
TSpec == TInit /\ [][TNext]_tvars
=============================================================================
