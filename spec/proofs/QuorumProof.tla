---------------------------- MODULE QuorumProof ----------------------------
(* C33, the quorum-intersection argument for ALL sizes (TLAPS):              *)
(* any two subsets of a finite voter set that each hold a strict majority    *)
(* share a member.  This is why health_status may only claim "healthy" with  *)
(* a strict majority of DISTINCT voters (Quorum!HealthyAllowed).             *)
EXTENDS Naturals, FiniteSets, FiniteSetTheorems, TLAPS

THEOREM QuorumIntersection ==
    ASSUME NEW V, IsFiniteSet(V),
           NEW Q1 \in SUBSET V, NEW Q2 \in SUBSET V,
           2 * Cardinality(Q1) > Cardinality(V),
           2 * Cardinality(Q2) > Cardinality(V)
    PROVE  Q1 \cap Q2 # {}
<1>1. IsFiniteSet(Q1) /\ IsFiniteSet(Q2) /\ IsFiniteSet(Q1 \cup Q2) /\ IsFiniteSet(Q1 \cap Q2)
  BY FS_Subset, FS_Union, FS_Intersection
<1>2. Cardinality(Q1) \in Nat /\ Cardinality(Q2) \in Nat /\ Cardinality(V) \in Nat
      /\ Cardinality(Q1 \cup Q2) \in Nat /\ Cardinality(Q1 \cap Q2) \in Nat
  BY <1>1, FS_CardinalityType
<1>3. Cardinality(Q1 \cup Q2) = Cardinality(Q1) + Cardinality(Q2) - Cardinality(Q1 \cap Q2)
  BY <1>1, FS_Union
<1>4. Cardinality(Q1 \cup Q2) <= Cardinality(V)
  BY <1>1, FS_Subset
<1>5. SUFFICES ASSUME Q1 \cap Q2 = {} PROVE FALSE
  OBVIOUS
<1>6. Cardinality(Q1 \cap Q2) = 0
  BY <1>5, FS_EmptySet
<1>7. Cardinality(Q1) + Cardinality(Q2) <= Cardinality(V)
  BY <1>2, <1>3, <1>4, <1>6
<1>8. 2 * Cardinality(Q1) + 2 * Cardinality(Q2) > 2 * Cardinality(V)
  BY <1>2
<1>9. QED
  BY <1>2, <1>7, <1>8
=============================================================================
