----------------------------- MODULE QueryCache -----------------------------
(***************************************************************************)
(* The parsed-query cache of samyama-graph (src/query/mod.rs, QueryEngine: *)
(* ast_cache = Mutex<LruCache<String, Query>>, cached_parse, execute,      *)
(* execute_mut).                                                           *)
(*                                                                         *)
(* A query string is a TOKEN SEQUENCE with separators.  Every token has a  *)
(* list of alternative spellings; every spelling carries                   *)
(*    t  the exact text,                                                   *)
(*    m  what it means (keywords: the upper-case keyword whatever the      *)
(*       letter case; string literals: their content, so 'a b' and "a b"   *)
(*       mean the same and 'a  b' does not; identifiers, labels, property  *)
(*       keys: their exact spelling, letter case included),                *)
(*    n  the text after the whitespace collapsing of the pinned tree       *)
(*       (split_whitespace().join(" ")), which also reaches INSIDE quotes. *)
(* Separators (the gaps between tokens) are blanks, tabs, newlines, block  *)
(* comments and line comments; a line comment that is not closed by a      *)
(* newline swallows the rest of the query (cut).  A variant of a base      *)
(* query is the base with one spelling edit and one separator edit (the    *)
(* near-duplicate generator of the property).                              *)
(*                                                                         *)
(*   Render(v)   the exact text (string concatenation)                     *)
(*   Meaning(v)  the sequence of token meanings up to a cutting comment    *)
(*   Key(v)      the cache key: "legacy" = what the pinned tree computed,  *)
(*               "outside" = collapse blanks only outside quoted text and  *)
(*               comments (the repaired tree), "raw" = the string itself   *)
(*                                                                         *)
(* State: cap (capacity chosen at construction), cache = the LRU list,     *)
(* most recently used first, of entries [key, src] where src is the        *)
(* variant that was PARSED when the entry was inserted; out = what the     *)
(* last execution used.  One action per public entry point: Open           *)
(* (QueryEngine::with_capacity), Exec (execute / execute_mut, both go      *)
(* through cached_parse).                                                  *)
(*                                                                         *)
(* Property C03: the query an execution runs means exactly what the given  *)
(* string means (out.got = out.asked), for every history.  It holds iff    *)
(* the key function never maps two strings of different meaning to one     *)
(* key (KeyRespectsMeaning), whatever the capacity and eviction order.     *)
(***************************************************************************)
EXTENDS Naturals, Sequences, FiniteSets, TLC

CONSTANTS KeyMode,     \* "legacy" | "outside" | "raw"
          Evict        \* "lru" (what the code does) | "any" (what the property needs: nothing)

VARIABLES cap, cache, out
qcvars == <<cap, cache, out>>

\* ---------------------------------------------------------------- tokens
A(t, m, n) == [t |-> t, m |-> m, n |-> n, ok |-> TRUE]
Bad(t, m, n) == [t |-> t, m |-> m, n |-> n, ok |-> FALSE]     \* a spelling this engine's grammar does not have
Same3(t) == A(t, t, t)
Kw(u, lo, mixed) == <<A(u, u, u), A(lo, u, lo), A(mixed, u, mixed)>>
Sym(t) == <<Same3(t)>>

\* string literal 'x y' : same meaning in double quotes; two blanks, a tab, a
\* newline inside the quotes and another letter case are different strings
Str(x, y, X) ==
    << A("'" \o x \o " " \o y \o "'",  "s:" \o x \o " " \o y,  "'" \o x \o " " \o y \o "'"),
       A("\"" \o x \o " " \o y \o "\"", "s:" \o x \o " " \o y,  "\"" \o x \o " " \o y \o "\""),
       A("'" \o x \o "  " \o y \o "'", "s:" \o x \o "  " \o y, "'" \o x \o " " \o y \o "'"),
       A("'" \o x \o "\t" \o y \o "'", "s:" \o x \o "\t" \o y, "'" \o x \o " " \o y \o "'"),
       A("'" \o x \o "\n" \o y \o "'", "s:" \o x \o "\n" \o y, "'" \o x \o " " \o y \o "'"),
       A("'" \o X \o " " \o y \o "'",  "s:" \o X \o " " \o y,  "'" \o X \o " " \o y \o "'"),
       A("' " \o x \o " " \o y \o "'", "s: " \o x \o " " \o y, "' " \o x \o " " \o y \o "'"),
       A("'  " \o x \o " " \o y \o "'", "s:  " \o x \o " " \o y, "' " \o x \o " " \o y \o "'") >>

\* identifier: exact spelling, other letter case, back-ticked (this engine has
\* no back-ticked identifiers: a parse error, fresh and cached alike)
Id(x, X) == <<Same3(x), Same3(X), Bad("`" \o x \o "`", x, "`" \o x \o "`")>>
\* a name whose letter case matters and that no ':' '.' '$' announces: variable, AS alias, map key
Nm(x, X) == <<Same3(x), Same3(X)>>

\* base queries over the fixed graph of the harness.  tight[i] = TRUE: no blank
\* is needed between token i and token i+1; gaps = the gaps whose separator the
\* generator edits (Len(toks) = after the last token)
Base ==
  << [toks |-> << Kw("RETURN", "return", "Return"), Str("a", "b", "A"), Kw("AS", "as", "As"), Sym("x") >>,
      tight |-> <<FALSE, FALSE, FALSE>>, gaps |-> {1, 2, 3, 4}],
     [toks |-> << Kw("MATCH", "match", "Match"), Sym("("), Sym("n"), Sym(":"), Id("Person", "person"), Sym(")"),
                  Kw("WHERE", "where", "Where"), Sym("n.name"), Sym("="), Str("Al", "Ice", "AL"),
                  Kw("RETURN", "return", "Return"), Sym("n."), Id("age", "Age"), Kw("AS", "as", "aS"), Sym("x") >>,
      tight |-> <<TRUE, TRUE, TRUE, TRUE, TRUE, FALSE, FALSE, TRUE, TRUE, FALSE, FALSE, TRUE, FALSE, FALSE>>,
      gaps |-> {1, 6, 9, 10, 12}],
     [toks |-> << Kw("RETURN", "return", "ReTurn"), Sym("1"), Sym("+"), Sym("1"), Kw("AS", "as", "As"), Nm("x", "X") >>,
      tight |-> <<FALSE, TRUE, TRUE, FALSE, FALSE>>, gaps |-> {2, 3, 4, 6}],
     [toks |-> << Kw("MATCH", "match", "Match"), Sym("(n:City)"), Kw("WHERE", "where", "wHERE"), Sym("n.name"),
                  Kw("CONTAINS", "contains", "Contains"), Str("a", "b", "A"), Kw("RETURN", "return", "Return"),
                  Sym("count(n)"), Kw("AS", "as", "As"), Sym("x") >>,
      tight |-> <<TRUE, TRUE, FALSE, FALSE, FALSE, FALSE, FALSE, FALSE, FALSE>>, gaps |-> {2, 5, 6, 10}],
     \* two literals: the first ends in an escaped backslash (or holds an escaped quote), so a key function that
     \* mis-tracks escapes is out of step when it reaches the blanks inside the second one
     [toks |-> << Kw("RETURN", "return", "Return"),
                  << Same3("'a\\\\'"), Same3("'a\\''"), Same3("'a'") >>,
                  Kw("AS", "as", "As"), Sym("y"), Sym(","), Str("b", "c", "B"), Kw("AS", "as", "As"), Sym("x") >>,
      tight |-> <<FALSE, FALSE, FALSE, TRUE, TRUE, FALSE, FALSE>>, gaps |-> {2, 5, 6, 8}],
     \* names that are case-sensitive although they look like keywords to a key function that folds letter case:
     \* a map key, a variable (A is unbound), a result column
     [toks |-> << Kw("MATCH", "match", "Match"), Sym("(a:Person {"), Nm("name", "Name"), Sym(": 'Bob'})"),
                  Kw("RETURN", "return", "Return"), Nm("a", "A"), Sym(".age"), Kw("AS", "as", "As"), Nm("x", "X") >>,
      tight |-> <<TRUE, TRUE, TRUE, FALSE, FALSE, TRUE, FALSE, FALSE>>, gaps |-> {1, 4, 5, 9}] >>

NTok(b) == Len(Base[b].toks)

\* ---------------------------------------------------------------- separators
\* t text, n legacy-collapsed text, o text under the "outside" key, cut: swallows the rest
SepKinds == {"sp", "sp2", "tab", "nl", "crlf", "bc", "bcw", "lc", "lcx", "none"}
Sep(k) ==
    CASE k = "sp"   -> [t |-> " ",           n |-> " ",         o |-> " ",          cut |-> FALSE]
      [] k = "sp2"  -> [t |-> "  ",          n |-> " ",         o |-> " ",          cut |-> FALSE]
      [] k = "tab"  -> [t |-> "\t",          n |-> " ",         o |-> " ",          cut |-> FALSE]
      [] k = "nl"   -> [t |-> "\n",          n |-> " ",         o |-> " ",          cut |-> FALSE]
      [] k = "crlf" -> [t |-> " \r\n ",      n |-> " ",         o |-> " ",          cut |-> FALSE]
      [] k = "bc"   -> [t |-> " /*c*/ ",     n |-> " /*c*/ ",   o |-> " /*c*/ ",    cut |-> FALSE]
      [] k = "bcw"  -> [t |-> " /*c  d*/ ",  n |-> " /*c d*/ ", o |-> " /*c  d*/ ", cut |-> FALSE]
      [] k = "lc"   -> [t |-> " //c\n",      n |-> " //c ",     o |-> " //c\n",     cut |-> FALSE]
      [] k = "lcx"  -> [t |-> " //c ",       n |-> " //c ",     o |-> " //c ",      cut |-> TRUE]
      [] k = "none" -> [t |-> "",            n |-> "",          o |-> "",           cut |-> FALSE]

\* ---------------------------------------------------------------- variants
\* [b base, p edited token (0 none), a its spelling, g edited gap (0 none;
\*  NTok(b) = after the last token), s its separator, lead: blanks before the
\*  first token]
DefaultSep(b, g) == IF g < NTok(b) /\ Base[b].tight[g] THEN "none" ELSE IF g = NTok(b) THEN "none" ELSE "sp"
SepAt(v, g) == IF v.g = g THEN v.s ELSE DefaultSep(v.b, g)
AltAt(v, i) == Base[v.b].toks[i][IF v.p = i THEN v.a ELSE 1]

WellFormed(v) ==
    /\ v.b \in 1..Len(Base)
    /\ v.p \in 0..NTok(v.b) /\ (v.p = 0 => v.a = 1) /\ (v.p > 0 => v.a \in 2..Len(Base[v.b].toks[v.p]))
    /\ v.g \in {0} \cup Base[v.b].gaps /\ (v.g = 0 => v.s = "sp") /\ v.s \in SepKinds
    /\ (v.g > 0 /\ v.s = "none" => v.g < NTok(v.b) /\ Base[v.b].tight[v.g])
    /\ v.lead \in BOOLEAN

\* built constructively (a filter over the full record space is slow in TLC)
TokEdits(b) == {<<0, 1>>} \cup UNION {{<<p, a>> : a \in 2..Len(Base[b].toks[p])} : p \in 1..NTok(b)}
GapEdits(b) ==
    {<<0, "sp">>} \cup
    {gs \in Base[b].gaps \X SepKinds :
        /\ gs[2] # DefaultSep(b, gs[1])
        /\ gs[2] = "none" => (gs[1] < NTok(b) /\ Base[b].tight[gs[1]])}
VariantsOf(b) ==
    {[b |-> b, p |-> pa[1], a |-> pa[2], g |-> gs[1], s |-> gs[2], lead |-> ld] :
        pa \in TokEdits(b), gs \in GapEdits(b), ld \in BOOLEAN}
\* single edits only (one spelling edit or one separator edit or leading blanks)
Single(v) == (IF v.p > 0 THEN 1 ELSE 0) + (IF v.g > 0 THEN 1 ELSE 0) + (IF v.lead THEN 1 ELSE 0) <= 1
PlainOf(b) == [b |-> b, p |-> 0, a |-> 1, g |-> 0, s |-> "sp", lead |-> FALSE]

\* concatenation of all tokens and the gaps after them; f picks the field:
\* "t" exact text, "n" legacy-collapsed text, "o" text under the "outside" key
TokF(x, f) == IF f = "n" THEN x.n ELSE x.t
SepF(s, f) == CASE f = "t" -> s.t [] f = "n" -> s.n [] OTHER -> s.o
Cat(v, f) ==
    LET c[i \in 0..NTok(v.b)] ==
            IF i = 0 THEN "" ELSE c[i - 1] \o TokF(AltAt(v, i), f) \o SepF(Sep(SepAt(v, i)), f)
    IN  c[NTok(v.b)]

Render(v) == (IF v.lead THEN " \n " ELSE "") \o Cat(v, "t")

\* tokens before the first cutting separator (a cut after the last token cuts nothing)
CutAt(v) == IF v.g > 0 /\ v.g < NTok(v.b) /\ Sep(v.s).cut THEN v.g ELSE NTok(v.b)
Meaning(v) == [i \in 1..CutAt(v) |-> AltAt(v, i).m]

\* split_whitespace().join(" "): leading/trailing blanks vanish, every run of
\* blanks becomes one blank -- also inside quotes and across a line comment's end
LegacyKey(v) ==
    LET body == Cat([v EXCEPT !.g = IF v.g = NTok(v.b) THEN 0 ELSE v.g], "n")
    IN  body \o (IF v.g = NTok(v.b) THEN (CASE v.s = "bc" -> " /*c*/" [] v.s = "bcw" -> " /*c d*/"
                                            [] v.s \in {"lc", "lcx"} -> " //c" [] OTHER -> "") ELSE "")
\* the repaired key: blanks collapse only outside quoted text and comments; a
\* line comment keeps its terminating newline
OutsideKey(v) ==
    LET body == Cat([v EXCEPT !.g = IF v.g = NTok(v.b) THEN 0 ELSE v.g], "o")
    IN  body \o (IF v.g = NTok(v.b) THEN (CASE v.s = "bc" -> " /*c*/" [] v.s = "bcw" -> " /*c  d*/"
                                            [] v.s = "lc" -> " //c\n" [] v.s = "lcx" -> " //c" [] OTHER -> "") ELSE "")

Key(v) == CASE KeyMode = "legacy" -> LegacyKey(v)
            [] KeyMode = "outside" -> OutsideKey(v)
            [] OTHER -> Render(v)

\* TLC evaluates these tables once (string concatenation is slow); the actions
\* below only look them up
\* (TabDom is overridden in the cfg files by the family actually used; TLC
\* evaluates constant definitions eagerly, so there is no "all variants" default)
TabDom == {}
RenderTab == [v \in TabDom |-> Render(v)]
MeaningTab == [v \in TabDom |-> Meaning(v)]
KeyTab == [v \in TabDom |-> Key(v)]
Text(v) == RenderTab[v]
Mng(v) == MeaningTab[v]
KeyOf(v) == KeyTab[v]

\* ---------------------------------------------------------------- actions
QCInit == cap = 0 /\ cache = <<>> /\ out = [asked |-> <<>>, got |-> <<>>, hit |-> FALSE]

\* QueryEngine::with_capacity(c)
Open(c) == cap = 0 /\ c > 0 /\ cap' = c /\ UNCHANGED <<cache, out>>

Find(k) == {i \in DOMAIN cache : cache[i].key = k}
Without(sq, i) == SubSeq(sq, 1, i - 1) \o SubSeq(sq, i + 1, Len(sq))
\* the caches that may remain after inserting e at the front of c
Inserted(c, e) ==
    LET full == <<e>> \o c IN
    IF Len(full) <= cap THEN {full}
    ELSE IF Evict = "lru" THEN {SubSeq(full, 1, cap)}
    ELSE {Without(full, i) : i \in 2..Len(full)}

\* QueryEngine::execute / execute_mut on the text of variant v.  parses: whether
\* parse_query accepts the text (decided by the real parser; an unparsable text
\* is answered with an error and nothing is cached)
Exec(v, parses) ==
    /\ cap > 0
    /\ LET k == KeyOf(v) IN
       IF Find(k) # {}
       THEN \E i \in Find(k) :      \* hit: LruCache::get promotes the entry
              /\ cache' = <<cache[i]>> \o Without(cache, i)
              /\ out' = [asked |-> Mng(v), got |-> Mng(cache[i].src), hit |-> TRUE]
       ELSE /\ out' = [asked |-> Mng(v), got |-> Mng(v), hit |-> FALSE]
            /\ IF parses THEN cache' \in Inserted(cache, [key |-> k, src |-> v]) ELSE cache' = cache
    /\ UNCHANGED cap

\* ---------------------------------------------------------------- what a trace may show
\* The property leaves the key function, the capacity handling and the
\* eviction order open.  An execution observed to be a HIT is legitimate iff
\* some entry that can still be cached was parsed from a string of the SAME
\* meaning; an execution observed to be a MISS parses the string itself.
ExecObserved(v, hit, parses) ==
    /\ cap > 0
    /\ IF hit
       THEN \E i \in DOMAIN cache :
              /\ Mng(cache[i].src) = Mng(v)
              /\ cache' = <<cache[i]>> \o Without(cache, i)
              /\ out' = [asked |-> Mng(v), got |-> Mng(cache[i].src), hit |-> TRUE]
       ELSE /\ out' = [asked |-> Mng(v), got |-> Mng(v), hit |-> FALSE]
            /\ IF parses THEN cache' \in Inserted(cache, [key |-> Text(v), src |-> v]) \cup {cache} ELSE cache' = cache
    /\ UNCHANGED cap

\* ---------------------------------------------------------------- the property
Correct == out.got = out.asked
EntriesSound == \A i \in DOMAIN cache : cache[i].key = KeyOf(cache[i].src)
Bounded == Len(cache) <= cap
NoDuplicateKeys == \A i, j \in DOMAIN cache : cache[i].key = cache[j].key => i = j
\* why it holds: the key never identifies strings of different meaning
KeyRespectsMeaning(S) == \A v, w \in S : KeyOf(v) = KeyOf(w) => Mng(v) = Mng(w)
=============================================================================
