--------------------------------- MODULE Txn ---------------------------------
(***************************************************************************)
(* MVCC transaction table of samyama-graph's GraphStore                    *)
(* (src/graph/store.rs: begin_transaction, txn_write_node/edge,            *)
(* commit_transaction, abort_transaction, get_node_for_txn, gc_versions'   *)
(* clean-up of finished transactions).                                     *)
(*                                                                         *)
(* Transactions are named by handles 1,2,3.. in creation order (the real   *)
(* ids are bound from the trace and only have to be fresh).                *)
(*                                                                         *)
(* Property C09 (first-committer-wins):                                    *)
(*   Commit(t) succeeds iff t is active and no entity in its write set was *)
(*   committed by another transaction after t began; successful commits    *)
(*   get strictly increasing versions; a failed or finished transaction    *)
(*   can neither commit nor abort again; a transaction reads at curVer     *)
(*   (ReadCommitted) or at its start version (SnapshotIsolation).          *)
(***************************************************************************)
EXTENDS Naturals, Sequences, FiniteSets

CONSTANTS Entities, MaxTxn

VARIABLES curVer,      \* global version, advanced only by successful commits
          txns,        \* sequence of [iso, status, start, cv, ws]
          lastCommit,  \* entity -> version of its last committed write (0 = never)
          commits      \* ghost: sequence of commit versions handed out, in order

xvars == <<curVer, txns, lastCommit, commits>>

Iso == {"RC", "SI"}
Handles == 1..Len(txns)

XInit == /\ curVer = 1
         /\ txns = <<>>
         /\ lastCommit = [x \in Entities |-> 0]
         /\ commits = <<>>

Active(t) == t \in Handles /\ txns[t].status = "active"
Conflicts(t) == {x \in txns[t].ws : lastCommit[x] > txns[t].start}
CanCommit(t) == Active(t) /\ Conflicts(t) = {}

Begin(iso) ==
    /\ Len(txns) < MaxTxn
    /\ txns' = Append(txns, [iso |-> iso, status |-> "active", start |-> curVer, cv |-> 0, ws |-> {}])
    /\ UNCHANGED <<curVer, lastCommit, commits>>

\* recording a write; on a finished transaction it has no observable effect
Write(t, x) ==
    /\ t \in Handles
    /\ txns' = IF Active(t) THEN [txns EXCEPT ![t].ws = @ \cup {x}] ELSE txns
    /\ UNCHANGED <<curVer, lastCommit, commits>>

\* ok = what the caller was told
Commit(t, ok) ==
    /\ t \in Handles
    /\ ok = CanCommit(t)
    /\ IF ok
       THEN /\ curVer' = curVer + 1
            /\ txns' = [txns EXCEPT ![t].status = "committed", ![t].cv = curVer + 1]
            /\ lastCommit' = [x \in Entities |-> IF x \in txns[t].ws THEN curVer + 1 ELSE lastCommit[x]]
            /\ commits' = Append(commits, curVer + 1)
       ELSE /\ txns' = IF Active(t) THEN [txns EXCEPT ![t].status = "aborted"] ELSE txns
            /\ UNCHANGED <<curVer, lastCommit, commits>>

Abort(t, ok) ==
    /\ t \in Handles
    /\ ok = Active(t)
    /\ txns' = IF ok THEN [txns EXCEPT ![t].status = "aborted"] ELSE txns
    /\ UNCHANGED <<curVer, lastCommit, commits>>

\* garbage collection forgets finished transactions; what a caller can observe of them
\* (commit/abort refused) does not change, so the abstract table keeps them
Gc == UNCHANGED xvars

\* ---- read views ----
ReadVersion(t) == IF txns[t].iso = "RC" THEN curVer ELSE txns[t].start

\* ---- what the pinned tree could do wrong (self-test only): last-committer-wins ----
LegacyCommitNoCheck(t, ok) ==
    /\ t \in Handles /\ ok = Active(t)
    /\ IF ok
       THEN /\ curVer' = curVer + 1
            /\ txns' = [txns EXCEPT ![t].status = "committed", ![t].cv = curVer + 1]
            /\ lastCommit' = [x \in Entities |-> IF x \in txns[t].ws THEN curVer + 1 ELSE lastCommit[x]]
            /\ commits' = Append(commits, curVer + 1)
       ELSE UNCHANGED xvars

\* ---- C09 as invariants over the table ----
CommitVersionsIncrease == \A i \in 1..Len(commits) - 1 : commits[i] < commits[i + 1]
\* no two committed transactions that overlapped in time wrote the same entity
FirstCommitterWins ==
    \A a, b \in Handles :
        (a # b /\ txns[a].status = "committed" /\ txns[b].status = "committed"
           /\ txns[a].start < txns[b].cv /\ txns[b].start < txns[a].cv)
        => txns[a].ws \cap txns[b].ws = {}
TypeOK == /\ curVer \in Nat
          /\ \A t \in Handles : /\ txns[t].status \in {"active", "committed", "aborted"}
                                 /\ txns[t].iso \in Iso
                                 /\ txns[t].ws \subseteq Entities
FinishedStayFinished ==
    [][\A t \in Handles : txns[t].status # "active" => txns'[t].status = txns[t].status]_xvars
=============================================================================
