----------------------------- MODULE MC_Numerals -----------------------------
(* Model-checking wrapper of Numerals: the exhaustive product positions x      *)
(* numerals, and every single-piece deletion / insertion / substitution of the *)
(* base queries; one single-step script per case (the recipe batches them).    *)
EXTENDS Numerals, Json

CONSTANTS Part,        \* "num" | "tok" | "chr"
          Alphabet,    \* "small" | "full" (token level)
          BaseIds,     \* which bases
          MaxHist

VARIABLE hist
vars == <<out, hist>>

Init == NInit /\ hist = <<>>

Alpha(lvl) == IF lvl = "chr" THEN CharAlphabet ELSE IF Alphabet = "small" THEN SmallTokenAlphabet ELSE TokenAlphabet

NextNum ==
    \E pos \in Positions, num \in Numerals :
        /\ Parse(pos, num)
        /\ hist' = Append(hist, [op |-> "Num", pos |-> pos.id, num |-> num.t, text |-> NumText(pos, num)])

NextDamage(lvl) ==
    \E b \in BaseIds :
      LET ps == BaseOf(lvl, b) IN
      \/ \E i \in 1..Len(ps) :
            /\ Damage
            /\ hist' = Append(hist, [op |-> "Mut", lvl |-> lvl, base |-> b, kind |-> "del", i |-> i, x |-> "",
                                     text |-> Join(Damaged(ps, "del", i, ""), GlueOf(lvl))])
      \/ \E i \in 1..Len(ps) + 1, x \in Alpha(lvl) :
            /\ Damage
            /\ hist' = Append(hist, [op |-> "Mut", lvl |-> lvl, base |-> b, kind |-> "ins", i |-> i, x |-> x,
                                     text |-> Join(Damaged(ps, "ins", i, x), GlueOf(lvl))])
      \/ \E i \in 1..Len(ps) : \E x \in Alpha(lvl) \ {ps[i]} :
            /\ Damage
            /\ hist' = Append(hist, [op |-> "Mut", lvl |-> lvl, base |-> b, kind |-> "sub", i |-> i, x |-> x,
                                     text |-> Join(Damaged(ps, "sub", i, x), GlueOf(lvl))])
      \/ /\ Damage      \* the undamaged base itself
         /\ hist' = Append(hist, [op |-> "Mut", lvl |-> lvl, base |-> b, kind |-> "sub", i |-> 1, x |-> ps[1],
                                  text |-> Join(ps, GlueOf(lvl))])

Next == Len(hist) < MaxHist /\ (IF Part = "num" THEN NextNum ELSE NextDamage(Part))
Spec == Init /\ [][Next]_vars
\* the outcome is not part of a case's identity: one script per case
View == hist
Emit == PrintT(<<"SCRIPT", ToJson(hist')>>)
=============================================================================
