----------------------------- MODULE SnapshotRT -----------------------------
(***************************************************************************)
(* C12: export_tenant followed by import_tenant into an empty store        *)
(* reproduces the graph.                                                   *)
(*                                                                         *)
(* G is the graph as it was built through the GraphStore API, kept in the  *)
(* shape the store keeps it where that shape reaches the snapshot file:    *)
(*   nodes  handle -> [labels, props, olds, v]   olds = property maps of   *)
(*          the node's superseded MVCC versions (a write after the store   *)
(*          version moved on copies the node), v = version of the current  *)
(*          one                                                            *)
(*   rels   handle -> [src, dst, type, props, frozen]   frozen = the       *)
(*          adjacency entry lives in a compacted (CSR) segment             *)
(*   ghosts adjacency entries of deleted relationships that are still in a *)
(*          CSR segment (delete_edge only edits the write buffer)          *)
(*   hier   hierarchy index declarations                                   *)
(* One action per building operation; Logical(G) is the property graph the *)
(* operations describe.  Exported(G, D) is the sequence of node and        *)
(* relationship records the file holds and Imported(G, D) the store the    *)
(* import builds from it (Snapshot!Apply, the same record-by-record import *)
(* as in C13), under a set D of named deviations; D = {} is the design.    *)
(* Property:  Iso(Imported(G, {}), Logical(G)) and the hierarchy           *)
(* declarations are the same.                                              *)
(***************************************************************************)
EXTENDS Snapshot, TLC

VARIABLE G

GInit == G = [nodes |-> <<>>, rels |-> <<>>, ghosts |-> <<>>, hier |-> {}, ver |-> 1]

Handles(f) == DOMAIN f
Put(f, k, v) == [x \in DOMAIN f \cup {k} |-> IF x = k THEN v ELSE f[x]]
Drop(f, k) == [x \in DOMAIN f \ {k} |-> f[x]]
\* a property set to null is an absent property
SetKey(p, k, t) == IF t = "null" THEN Drop(p, k) ELSE Put(p, k, t)

\* stub = created with create_node_stub + set_column_property (no row properties)
AddNode(h, labels, props, stub) ==
    /\ h \notin Handles(G.nodes)
    /\ G' = [G EXCEPT !.nodes = Put(G.nodes, h, [labels |-> labels, props |-> props, olds |-> <<>>, v |-> G.ver, stub |-> stub])]
AddRel(h, s, d, type, props) ==
    /\ h \notin Handles(G.rels) /\ s \in Handles(G.nodes) /\ d \in Handles(G.nodes)
    /\ G' = [G EXCEPT !.rels = Put(G.rels, h, [src |-> s, dst |-> d, type |-> type, props |-> props, frozen |-> FALSE])]
\* a committed transaction: the store version moves on
Bump == G' = [G EXCEPT !.ver = G.ver + 1]
\* set_node_property: copy-on-write when the current version of the node is older than the store version
\* (only modelled for nodes that keep their properties in the row as well, i.e. not for stubs)
SetProp(h, key, tok) ==
    /\ h \in Handles(G.nodes) /\ ~G.nodes[h].stub
    /\ LET n == G.nodes[h]
           n1 == IF n.v < G.ver
                 THEN [n EXCEPT !.olds = Append(n.olds, n.props), !.props = SetKey(n.props, key, tok), !.v = G.ver]
                 ELSE [n EXCEPT !.props = SetKey(n.props, key, tok)]
       IN G' = [G EXCEPT !.nodes = Put(G.nodes, h, n1)]
DelRel(h) ==
    /\ h \in Handles(G.rels)
    /\ G' = [G EXCEPT !.rels = Drop(G.rels, h),
                      !.ghosts = IF G.rels[h].frozen THEN Append(G.ghosts, [src |-> G.rels[h].src, dst |-> G.rels[h].dst]) ELSE G.ghosts]
Compact == G' = [G EXCEPT !.rels = [h \in DOMAIN G.rels |-> [G.rels[h] EXCEPT !.frozen = TRUE]]]
DeclareHier(name, types, measure, ops) ==
    /\ \A x \in G.hier : x.name # name
    /\ G' = [G EXCEPT !.hier = G.hier \cup {[name |-> name, types |-> types, measure |-> measure, ops |-> ops]}]

\* ------------------------------------------------------------------ the graph that was built
RECURSIVE OrderedSeq(_)
OrderedSeq(T) == IF T = {} THEN <<>> ELSE LET x == CHOOSE y \in T : \A z \in T : y <= z IN <<x>> \o OrderedSeq(T \ {x})
Logical(g) ==
    LET hs == OrderedSeq(Handles(g.nodes))
        rs == OrderedSeq(Handles(g.rels))
    IN [nodes |-> [i \in DOMAIN hs |-> [id |-> hs[i], labels |-> g.nodes[hs[i]].labels, props |-> g.nodes[hs[i]].props]],
        rels |-> [i \in DOMAIN rs |-> [id |-> rs[i], src |-> g.rels[rs[i]].src, dst |-> g.rels[rs[i]].dst,
                                       type |-> g.rels[rs[i]].type, props |-> g.rels[rs[i]].props]]]

\* ------------------------------------------------------------------ named deviations of the pinned tree
\* "trim"       json_to_property trims every string (also inside arrays)
\* "nolabel"    a node without labels is imported with the label ""
\* "versions"   export writes one record per stored VERSION of a node (all_nodes); relationships follow the last
\* "nonfinite"  NaN / +-inf are written as JSON null and come back as no property
\* "ghost"      export walks the CSR segments without a liveness check: deleted relationships come back (type "")
\* "tagged"     a map with a "__type" key is read back as the tagged scalar it looks like
\* "hiercycle"  a hierarchy declaration whose covering relation has a cycle in the exported graph is not re-created
DevNames == {"trim", "nolabel", "versions", "nonfinite", "ghost", "tagged", "hiercycle"}
TrimTok(t) == CASE t = "s: lead" -> "s:lead" [] t = "s:trail " -> "s:trail" [] t = "s: " -> "s:"
                [] t = "a:[s: pad ]" -> "a:[s:pad]" [] OTHER -> t
NonFinite == {"f:nan", "f:inf", "f:-inf"}
TaggedTok(t) == CASE t = "m:{__type=s:DateTime;value=i:5}" -> "dt:5"
                  [] t = "m:{__type=s:Vector;value=a:[f:1.0]}" -> "v:[1.0]" [] OTHER -> t
TokVia(t, D) == LET a == IF "trim" \in D THEN TrimTok(t) ELSE t IN IF "tagged" \in D THEN TaggedTok(a) ELSE a
PropsVia(p, D) ==
    LET keep == {k \in DOMAIN p : ~("nonfinite" \in D /\ p[k] \in NonFinite)}
    IN [k \in keep |-> TokVia(p[k], D)]
LabelsVia(ls, D) == IF ls = <<>> /\ "nolabel" \in D THEN <<"">> ELSE ls

\* the records of the file: per node (in id order) its versions, the live relationships, the ghosts;
\* a relationship names the position of the LAST record of its end points
Exported(g, D) ==
    LET hs == OrderedSeq(Handles(g.nodes))
        recsOf(h) == LET n == g.nodes[h]
                         \* an old version's record: its own row, plus the column values (= current ones) of keys it lacks
                         oldRec(o) == [k \in DOMAIN o \cup DOMAIN n.props |-> IF k \in DOMAIN o THEN o[k] ELSE n.props[k]]
                     IN (IF "versions" \in D THEN [i \in DOMAIN n.olds |-> [labels |-> LabelsVia(n.labels, D), props |-> PropsVia(oldRec(n.olds[i]), D)]] ELSE <<>>)
                        \o <<[labels |-> LabelsVia(n.labels, D), props |-> PropsVia(n.props, D)]>>
        RECURSIVE Cat(_)
        Cat(i) == IF i > Len(hs) THEN <<>> ELSE recsOf(hs[i]) \o Cat(i + 1)
        RECURSIVE LastPos(_, _)
        LastPos(i, h) == IF hs[i] = h THEN Len(recsOf(hs[i])) ELSE Len(recsOf(hs[i])) + LastPos(i + 1, h)
        pos(h) == LastPos(1, h)
        rs == OrderedSeq(Handles(g.rels))
        live == [i \in DOMAIN rs |-> [src |-> pos(g.rels[rs[i]].src), dst |-> pos(g.rels[rs[i]].dst), type |-> g.rels[rs[i]].type,
                                      props |-> PropsVia(g.rels[rs[i]].props, D)]]
        dead == IF "ghost" \in D THEN [i \in DOMAIN g.ghosts |-> [src |-> pos(g.ghosts[i].src), dst |-> pos(g.ghosts[i].dst), type |-> "", props |-> <<>>]]
                ELSE <<>>
    IN [nodes |-> Cat(1), rels |-> live \o dead]

Imported(g, D) ==
    LET x == Exported(g, D) IN Denorm(Apply(EmptyGraph, x, <<>>, Len(x.nodes), Len(x.rels)))

\* deviations that change anything for this graph (only those may be charged to a finding)
Effective(g, D) == \A d \in D : Exported(g, D \ {d}) # Exported(g, D)

HierOf(g) == g.hier
\* the covering relation of the declared relationship types has a directed cycle (<= 3 hops suffice for <= 3 nodes;
\* in general: some node reaches itself)
HasCycle(g, types) ==
    LET E == {<<g.rels[h].src, g.rels[h].dst>> : h \in {x \in DOMAIN g.rels : g.rels[x].type \in types}}
        N == DOMAIN g.nodes
        RECURSIVE Reach(_, _)
        Reach(S, k) == IF k = 0 THEN S ELSE Reach(S \cup {e[2] : e \in {x \in E : x[1] \in S}}, k - 1)
    IN \E n \in N : n \in Reach({e[2] : e \in {x \in E : x[1] = n}}, Cardinality(N))
\* what the harness observed: dump of the imported store, its hierarchy declarations
HierSeqToSet(s) == {[name |-> s[i].name, types |-> SeqSet(s[i].types), measure |-> s[i].measure, ops |-> SeqSet(s[i].ops)] : i \in DOMAIN s}

RoundTripOK(g, D, dump) == Iso(Imported(g, D), dump)

\* ------------------------------------------------------------------ scaled families
\* Graphs whose size crosses the word boundaries of export's relationship-id bitset (63, 64, 65, 127, ...):
\* too large for the isomorphism search, so both sides are compared through the same count abstraction.
\* Node h carries label A and property i = h; every relationship has type R and property w = 7.
\*   ring(n)    n nodes, h -> h mod n + 1                       (n relationships, ids 1..n)
\*   chain(n)   n + 1 nodes, h -> h + 1                         (n relationships, ids 1..n)
\*   sparse(n)  chain(n) of which only the relationships leaving 1, n div 2 and n survive a deletion
\*              (the largest surviving relationship id is n)
FamNodes(kind, n) == IF kind = "ring" THEN n ELSE n + 1
FamEdges(kind, n) == CASE kind = "ring" -> {<<i, (i % n) + 1>> : i \in 1..n}
                       [] kind = "chain" -> {<<i, i + 1>> : i \in 1..n}
                       [] kind = "sparse" -> {<<i, i + 1>> : i \in {1, n \div 2, n}}
RECURSIVE SumSet(_)
SumSet(T) == IF T = {} THEN 0 ELSE LET x == CHOOSE y \in T : TRUE IN x + SumSet(T \ {x})
\* relationships grouped by (offset between the end points, type, properties): how many, and the sum of their
\* source handles; a duplicated, lost, re-typed, re-directed or property-less relationship changes a group
FamGroups(kind, n) ==
    LET E == FamEdges(kind, n)
        NN == FamNodes(kind, n)
        off(e) == (e[2] + NN - e[1]) % NN
    IN {[off |-> o, type |-> "R", props |-> [w |-> "i:7"],
         count |-> Cardinality({e \in E : off(e) = o}),
         srcsum |-> SumSet({e[1] : e \in {x \in E : off(x) = o}})] : o \in {off(e) : e \in E}}
FamExpected(kind, n) ==
    LET NN == FamNodes(kind, n)
    IN [nodes |-> [total |-> NN, distinct |-> NN, min |-> 1, max |-> NN, labelled |-> NN], groups |-> FamGroups(kind, n)]
FamilyOK(kind, n, obs) ==
    LET x == FamExpected(kind, n)
    IN obs.nodes = x.nodes /\ SeqSet(obs.groups) = x.groups /\ Len(obs.groups) = Cardinality(x.groups)
=============================================================================
