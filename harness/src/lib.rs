//! verif-harness: shared helpers of the per-module harness binaries (src/bin/<module>.rs).
//! Each binary executes TLC-generated scripts (and seeded random ones) against the real
//! samyama-graph code and records an ndjson trace that a TLA+ trace specification validates.
//!
//! usage: <module> <scripts.ndjson> <trace.ndjson> [key=value ...]
//! Script line:  {"sid": "...", "steps": [ {"op": ..., ...}, ... ]}
//! Trace lines:  {"ev":"reset","sid":...} then one event per step; a final {"ev":"reset","sid":"end"}.
use serde_json::{json, Value};
use std::collections::HashMap;
use std::fs::File;
use std::io::{BufRead, BufReader, BufWriter, Write};

pub type Res<T> = Result<T, Box<dyn std::error::Error>>;

pub struct Opts(pub HashMap<String, String>);
impl Opts {
    pub fn parse(a: &[String]) -> Self {
        let mut m = HashMap::new();
        for s in a {
            if let Some((k, v)) = s.split_once('=') {
                m.insert(k.to_string(), v.to_string());
            }
        }
        Opts(m)
    }
    pub fn get_u64(&self, k: &str, d: u64) -> u64 {
        self.0.get(k).and_then(|v| v.parse().ok()).unwrap_or(d)
    }
    pub fn get_str(&self, k: &str, d: &str) -> String {
        self.0.get(k).cloned().unwrap_or_else(|| d.to_string())
    }
}

pub struct Script {
    pub sid: String,
    pub steps: Vec<Value>,
    pub raw: Value,
}

pub fn read_scripts(path: &str) -> Res<Vec<Script>> {
    let f = BufReader::new(File::open(path)?);
    let mut out = Vec::new();
    for line in f.lines() {
        let line = line?;
        if line.trim().is_empty() {
            continue;
        }
        let v: Value = serde_json::from_str(&line)?;
        let sid = v["sid"].as_str().unwrap_or("?").to_string();
        let steps = v["steps"].as_array().cloned().unwrap_or_default();
        out.push(Script { sid, steps, raw: v });
    }
    Ok(out)
}

pub struct Trace {
    w: BufWriter<File>,
    pub events: u64,
}
impl Trace {
    pub fn create(path: &str) -> Res<Self> {
        Ok(Trace { w: BufWriter::new(File::create(path)?), events: 0 })
    }
    pub fn reset(&mut self, sid: &str) -> Res<()> {
        self.emit(json!({"ev": "reset", "sid": sid}))
    }
    pub fn emit(&mut self, v: Value) -> Res<()> {
        serde_json::to_writer(&mut self.w, &v)?;
        self.w.write_all(b"\n")?;
        self.events += 1;
        Ok(())
    }
    pub fn finish(mut self) -> Res<()> {
        self.reset("end")?;
        self.w.flush()?;
        Ok(())
    }
}

/// copy of a step with "op" renamed to "ev" and extra fields merged in
pub fn event_from(step: &Value, extra: Value) -> Value {
    let mut m = serde_json::Map::new();
    if let Some(o) = step.as_object() {
        for (k, v) in o {
            if k == "op" {
                m.insert("ev".into(), v.clone());
            } else {
                m.insert(k.clone(), v.clone());
            }
        }
    }
    if let Some(o) = extra.as_object() {
        for (k, v) in o {
            m.insert(k.clone(), v.clone());
        }
    }
    Value::Object(m)
}

pub fn gi(v: &Value, k: &str) -> i64 {
    v[k].as_i64().unwrap_or_else(|| panic!("script field {k} missing in {v}"))
}
pub fn gs<'a>(v: &'a Value, k: &str) -> &'a str {
    v[k].as_str().unwrap_or_else(|| panic!("script field {k} missing in {v}"))
}

/// run a closure, turning a panic into Err(message); the code under test panicking is data
pub fn catch<T>(f: impl FnOnce() -> T) -> Result<T, String> {
    let r = std::panic::catch_unwind(std::panic::AssertUnwindSafe(f));
    r.map_err(|e| {
        if let Some(s) = e.downcast_ref::<&str>() {
            s.to_string()
        } else if let Some(s) = e.downcast_ref::<String>() {
            s.clone()
        } else {
            "panic".to_string()
        }
    })
}

pub fn rt() -> tokio::runtime::Runtime {
    tokio::runtime::Builder::new_current_thread().enable_all().build().unwrap()
}

/// common entry point of every harness binary
pub fn harness_main(run: fn(&str, &str, &Opts) -> Res<()>) {
    let args: Vec<String> = std::env::args().collect();
    if args.len() < 3 {
        eprintln!("usage: {} <scripts.ndjson> <trace.ndjson> [k=v ...]", args[0]);
        std::process::exit(2);
    }
    let opts = Opts::parse(&args[3..]);
    if let Err(e) = run(&args[1], &args[2], &opts) {
        eprintln!("harness error: {e}");
        std::process::exit(2);
    }
}
